"""Translator: pynenc/workflow/{workflow_context,workflow_deterministic}.py + pynenc/task.py:Task.wf
->  coq/gen/Workflow_gen.v  (gen_cfg : Model.Workflow.cfg)

Facts extracted (fail-closed: any unrecognised shape raises TranslateError, the caller then falls
back to coq/gen_default and relies on the differential correspondence):
  c_scope          where the DeterministicExecutor (workflow identity + operation counters) is kept:
                   on the WorkflowContext (`self._x = DeterministicExecutor(...)`) which Task.wf caches per
                   Task object (functools.cached_property)  -> PerTaskObject;
                   on the running invocation object (`inv = self.task.invocation; inv._x = ...`) -> PerExecution;
                   in a container (attribute of the context, module-level or class-level variable; dict or
                   weak dict) looked up / stored by the invocation object or its invocation_id (`C.get(inv)`,
                   `C[inv.invocation_id] = ...`, `C.setdefault(inv, ...)`) -> PerInvocationKey (invocation
                   objects hash and compare by id: every attempt of the invocation in the process finds it).
  c_exec_private   execute_task (and the helper methods it calls) touches no class-level attribute, module-level
                   variable or global: the only memory of launched sub-tasks is the workflow data.
  c_seed_wf        the seed f-strings of random() and uuid() contain self.workflow_identity.workflow_id
  c_task_key_call  the execute_task record key f-string contains call.call_id
  c_seq_offset     `sequence = self._operation_counters.get(<op>, 0) + K` inside the generators (K)
  c_replay_uncond  the replay branch of execute_task (`if <recorded id> is not None:`) hands the recorded
                   invocation back on every path: straight-line statements ending in `return`; a branch
                   that contains a condition / try / loop (the replay depends on something else than the
                   record, e.g. the state of the recorded invocation) -> false
  c_gen_private    the value generators (the nested functions of random / utc_now / uuid, and the bodies of
                   those methods) keep no state outside their own call: every attribute they touch is an
                   instance attribute set in __init__ (the executor is per execution) or a whitelisted
                   member, every free name is a local, a builtin or an imported module; a CLASS-level data
                   attribute, a module-level variable, a `global`/`nonlocal` statement or the module-global
                   generator (`random.seed` / `random.random` ...) -> false (process-wide state that a
                   thread switch inside the helper call exposes to other workflows)
Also checked: every get/set_workflow_data call of the executor is keyed by self.workflow_identity; the
record key of _deterministic_operation contains operation and sequence; and (normalised AST hash) the
functions mirrored by hand in Model/Workflow.v still have the shape they were transcribed from
(`shape_changed` is informational: the correspondence then decides).
"""
from __future__ import annotations

import ast
import hashlib

EXPECTED_SHAPES = {
    "_get_next_sequence": "20d1f7a31d07",
    "_deterministic_operation": "b7397befc0ed",
    "get_base_time": "94c6f69cc300",
    "execute_task": "1a7611311d97",
}


class TranslateError(Exception):
    pass


def _strip_doc(body):
    if body and isinstance(body[0], ast.Expr) and isinstance(body[0].value, ast.Constant) \
            and isinstance(body[0].value.value, str):
        return body[1:]
    return body


def _shape(fn: ast.FunctionDef) -> str:
    class Blank(ast.NodeTransformer):
        def visit_Constant(self, n):
            # message texts are irrelevant; key prefixes are extracted explicitly elsewhere
            return n
    dump = "\n".join(ast.dump(Blank().visit(s), include_attributes=False) for s in _strip_doc(fn.body))
    return hashlib.sha256(dump.encode()).hexdigest()[:12]


def _cls(tree: ast.Module, name: str) -> ast.ClassDef:
    for n in tree.body:
        if isinstance(n, ast.ClassDef) and n.name == name:
            return n
    raise TranslateError(f"class {name} not found")


def _method(cls: ast.ClassDef, name: str) -> ast.FunctionDef:
    for n in cls.body:
        if isinstance(n, ast.FunctionDef) and n.name == name:
            return n
    raise TranslateError(f"{cls.name}.{name} not found")


def _dotted(node: ast.AST) -> str | None:
    parts = []
    while isinstance(node, ast.Attribute):
        parts.append(node.attr)
        node = node.value
    if isinstance(node, ast.Name):
        parts.append(node.id)
        return ".".join(reversed(parts))
    return None


def _decorators(fn: ast.FunctionDef) -> list[str]:
    return [(_dotted(d) or "?").split(".")[-1] for d in fn.decorator_list]


# ------------------------------------------------------------------ scope of the executor
def executor_scope(task_src: str, ctx_src: str) -> tuple[str, dict]:
    wf = _method(_cls(ast.parse(task_src), "Task"), "wf")
    deco = _decorators(wf)
    body = _strip_doc(wf.body)
    if not (len(body) == 1 and isinstance(body[0], ast.Return) and isinstance(body[0].value, ast.Call)
            and _dotted(body[0].value.func) == "WorkflowContext"
            and len(body[0].value.args) == 1 and _dotted(body[0].value.args[0]) == "self"):
        raise TranslateError("Task.wf is not `return WorkflowContext(self)`")
    if deco == ["cached_property"]:
        ctx_per = "task_object"
    elif deco == ["property"]:
        ctx_per = "access"
    else:
        raise TranslateError(f"Task.wf decorators not recognised: {deco}")

    det = _method(_cls(ast.parse(ctx_src), "WorkflowContext"), "deterministic")
    if _decorators(det) != ["property"]:
        raise TranslateError("WorkflowContext.deterministic is not a plain property")
    body = _strip_doc(det.body)
    aliases: dict[str, str] = {}        # local name -> what it denotes ("invocation" | "executor")
    holder = None                        # "context" | "invocation" | "keyed"
    held_attr = None
    constructed = False
    ctx_tree = ast.parse(ctx_src)
    module_vars = {t.id for n in ctx_tree.body if isinstance(n, ast.Assign | ast.AnnAssign) and getattr(n, "value", None) is not None
                   for t in (n.targets if isinstance(n, ast.Assign) else [n.target]) if isinstance(t, ast.Name)}
    container = None

    def is_container(n: ast.AST) -> str | None:
        d = _dotted(n)
        if isinstance(n, ast.Name) and n.id in module_vars and n.id not in aliases:
            return f"module-level {n.id}"
        if d and d.startswith("self.") and d.count(".") == 1 and d != "self.task":
            return f"context attribute {d}"
        if d and (d.startswith("WorkflowContext.") or d.startswith("self.__class__.")) and d.count(".") <= 2:
            return f"class-level {d}"
        return None

    def is_key(n: ast.AST) -> bool:
        return is_invocation(n) or (isinstance(n, ast.Attribute) and n.attr in ("invocation_id", "invocation_id_str")
                                    and is_invocation(n.value))

    def keyed_lookup(n: ast.AST) -> str | None:
        """C.get(K[, None]) | C[K] | C.setdefault(K, <ctor>)  ->  description of C"""
        if isinstance(n, ast.Subscript) and is_key(n.slice):
            return is_container(n.value)
        if isinstance(n, ast.Call) and isinstance(n.func, ast.Attribute) and n.func.attr in ("get", "setdefault", "pop") \
                and n.args and is_key(n.args[0]):
            return is_container(n.func.value)
        return None

    def is_invocation(n: ast.AST) -> bool:
        return _dotted(n) == "self.task.invocation" or (isinstance(n, ast.Name) and aliases.get(n.id) == "invocation")

    def is_ctor(n: ast.AST) -> bool:
        if not (isinstance(n, ast.Call) and _dotted(n.func) == "DeterministicExecutor" and len(n.args) == 2
                and not n.keywords):
            return False
        a0, a1 = n.args
        if not (isinstance(a0, ast.Attribute) and a0.attr == "workflow" and is_invocation(a0.value)):
            raise TranslateError("DeterministicExecutor is not built from the running invocation's workflow")
        if _dotted(a1) != "self.task.app":
            raise TranslateError("DeterministicExecutor app argument not recognised")
        return True

    def visit(stmts):
        nonlocal holder, held_attr, constructed, container
        for s in stmts:
            if isinstance(s, ast.If):
                visit(s.body)
                if s.orelse:
                    raise TranslateError("else branch in WorkflowContext.deterministic")
            elif isinstance(s, ast.Assign) and len(s.targets) == 1:
                tgt, val = s.targets[0], s.value
                if isinstance(tgt, ast.Name):
                    if is_invocation(val):
                        aliases[tgt.id] = "invocation"
                    elif is_ctor(val):
                        aliases[tgt.id] = "executor"
                        constructed = True
                    elif (isinstance(val, ast.Call) and _dotted(val.func) == "getattr" and len(val.args) == 3
                          and is_invocation(val.args[0]) and isinstance(val.args[1], ast.Constant)):
                        aliases[tgt.id] = "executor"
                        held_attr = held_attr or val.args[1].value
                    elif keyed_lookup(val):
                        aliases[tgt.id] = "executor"
                        container = container or keyed_lookup(val)
                        if isinstance(val, ast.Call) and val.func.attr == "setdefault":
                            if len(val.args) == 2 and is_ctor(val.args[1]):
                                constructed = True
                            holder = "keyed"
                    else:
                        raise TranslateError("unrecognised local assignment in WorkflowContext.deterministic")
                elif isinstance(tgt, ast.Attribute):
                    is_exec = is_ctor(val) or (isinstance(val, ast.Name) and aliases.get(val.id) == "executor")
                    if is_ctor(val):
                        constructed = True
                    if not is_exec:
                        raise TranslateError("attribute store of something that is not the executor")
                    if _dotted(tgt.value) == "self":
                        holder, held_attr = "context", tgt.attr
                    elif is_invocation(tgt.value):
                        holder, held_attr = "invocation", tgt.attr
                    else:
                        raise TranslateError("executor stored on an unrecognised object")
                elif isinstance(tgt, ast.Subscript) and is_key(tgt.slice) and is_container(tgt.value):
                    if is_ctor(val):
                        constructed = True
                    elif not (isinstance(val, ast.Name) and aliases.get(val.id) == "executor"):
                        raise TranslateError("keyed store of something that is not the executor")
                    holder, container = "keyed", is_container(tgt.value)
                else:
                    raise TranslateError("unrecognised assignment target")
            elif isinstance(s, ast.Expr) and isinstance(s.value, ast.Call) and _dotted(s.value.func) == "setattr":
                a = s.value.args
                if len(a) == 3 and is_invocation(a[0]) and isinstance(a[2], ast.Name) and aliases.get(a[2].id) == "executor":
                    holder, held_attr = "invocation", getattr(a[1], "value", None)
                else:
                    raise TranslateError("unrecognised setattr in WorkflowContext.deterministic")
            elif isinstance(s, ast.Return):
                v = s.value
                ok = (isinstance(v, ast.Name) and aliases.get(v.id) == "executor") or \
                     (isinstance(v, ast.Attribute) and v.attr == held_attr
                      and (_dotted(v.value) == "self" or is_invocation(v.value))) or \
                     (holder == "keyed" and keyed_lookup(v) is not None)
                if not ok:
                    raise TranslateError("WorkflowContext.deterministic returns something unrecognised")
            else:
                raise TranslateError(f"unrecognised statement {type(s).__name__} in WorkflowContext.deterministic")

    visit(body)
    if not constructed or holder is None:
        raise TranslateError("executor construction / holder not found")
    info = {"wf_context_per": ctx_per, "executor_held_by": holder, "attr": held_attr}
    if holder == "keyed":
        info["container"] = container
        # a weak container loses the entry with the last reference to the key object of the earlier attempt
        cname = (container or "").split(".")[-1].split(" ")[-1]
        info["container_weak"] = any(
            isinstance(n, ast.Assign | ast.AnnAssign) and getattr(n, "value", None) is not None
            and any((isinstance(t, ast.Name) and t.id == cname) or (isinstance(t, ast.Attribute) and t.attr == cname)
                    for t in (n.targets if isinstance(n, ast.Assign) else [n.target]))
            and "Weak" in ast.dump(n.value)
            for n in ast.walk(ctx_tree))
        return "PerInvocationKey", info
    if holder == "invocation":
        return "PerExecution", info
    if ctx_per == "task_object":
        return "PerTaskObject", info
    raise TranslateError("executor per attribute access (Task.wf is a plain property): not modelled")


# ------------------------------------------------------------------ executor facts
def _fstring_parts(node: ast.AST) -> list[str]:
    if not isinstance(node, ast.JoinedStr):
        raise TranslateError("expected an f-string")
    out = []
    for v in node.values:
        if isinstance(v, ast.Constant):
            out.append("const:" + str(v.value))
        elif isinstance(v, ast.FormattedValue):
            out.append("expr:" + (_dotted(v.value) or ast.dump(v.value)))
        else:
            raise TranslateError("unrecognised f-string part")
    return out


def _find_assign(fn: ast.AST, name: str) -> ast.AST:
    for n in ast.walk(fn):
        if isinstance(n, ast.Assign) and len(n.targets) == 1 and isinstance(n.targets[0], ast.Name) \
                and n.targets[0].id == name:
            return n.value
    raise TranslateError(f"assignment to {name} not found")


def _seq_offset(fn: ast.FunctionDef, opname: str) -> int:
    v = _find_assign(fn, "sequence")
    if not (isinstance(v, ast.BinOp) and isinstance(v.op, ast.Add) and isinstance(v.right, ast.Constant)
            and isinstance(v.right.value, int) and isinstance(v.left, ast.Call)
            and _dotted(v.left.func) == "self._operation_counters.get" and len(v.left.args) == 2
            and isinstance(v.left.args[0], ast.Constant) and v.left.args[0].value == opname
            and isinstance(v.left.args[1], ast.Constant) and v.left.args[1].value == 0):
        raise TranslateError(f"generator sequence of {opname} is not `self._operation_counters.get({opname!r}, 0) + K`")
    return v.right.value


def _wfdata_calls(fn: ast.FunctionDef) -> list[str]:
    names = []
    for n in sorted((c for c in ast.walk(fn) if isinstance(c, ast.Call)), key=lambda c: (c.lineno, c.col_offset)):
        if True:
            d = _dotted(n.func) or ""
            if d.endswith("get_workflow_data") or d.endswith("set_workflow_data"):
                if not n.args or _dotted(n.args[0]) != "self.workflow_identity":
                    raise TranslateError(f"{fn.name}: workflow data access not keyed by self.workflow_identity")
                names.append(d.split(".")[-1])
    return names


def executor_facts(det_src: str) -> dict:
    cls = _cls(ast.parse(det_src), "DeterministicExecutor")
    rnd, uid, tim = _method(cls, "random"), _method(cls, "uuid"), _method(cls, "utc_now")
    seeds = {}
    for fn, opname in ((rnd, "random"), (uid, "uuid")):
        parts = _fstring_parts(_find_assign(fn, "seed_string"))
        if "expr:sequence" not in parts:
            raise TranslateError(f"{opname} seed does not contain the sequence")
        if f"const::{opname}:" not in parts and not any(p.startswith("const:") and opname in p for p in parts):
            raise TranslateError(f"{opname} seed does not contain the operation name")
        seeds[opname] = "expr:self.workflow_identity.workflow_id" in parts
        # the call that must receive the generator
        last = fn.body[-1]
        if not (isinstance(last, ast.Return) and isinstance(last.value, ast.Call)
                and _dotted(last.value.func) == "self._deterministic_operation"
                and isinstance(last.value.args[0], ast.Constant) and last.value.args[0].value == opname):
            raise TranslateError(f"{opname}() does not end in self._deterministic_operation({opname!r}, ...)")
    offsets = {_seq_offset(rnd, "random"), _seq_offset(uid, "uuid"), _seq_offset(tim, "time")}
    if len(offsets) != 1:
        raise TranslateError(f"generator sequence offsets differ: {offsets}")
    dop = _method(cls, "_deterministic_operation")
    key_parts = _fstring_parts(_find_assign(dop, "operation_key"))
    if "expr:operation" not in key_parts or "expr:sequence" not in key_parts:
        raise TranslateError("record key does not contain operation and sequence")
    if _wfdata_calls(dop) != ["get_workflow_data", "set_workflow_data", "get_workflow_data", "set_workflow_data"]:
        raise TranslateError("_deterministic_operation: unexpected workflow data accesses")
    _wfdata_calls(_method(cls, "get_base_time"))
    ex = _method(cls, "execute_task")
    if _wfdata_calls(ex) != ["get_workflow_data", "set_workflow_data"]:
        raise TranslateError("execute_task: unexpected workflow data accesses")
    tparts = _fstring_parts(_find_assign(ex, "task_invocation_key"))
    shapes = {n: _shape(_method(cls, n)) for n in EXPECTED_SHAPES}
    private, why_shared, xprivate, why_xshared = generators_private(ast.parse(det_src), cls)
    return {"replay_uncond": replay_unconditional(ex), "gen_private": private, "gen_shared_state": why_shared,
            "exec_private": xprivate, "exec_shared_state": why_xshared,
            "seed_wf": seeds["random"] and seeds["uuid"], "seed_wf_random": seeds["random"], "seed_wf_uuid": seeds["uuid"],
            "task_key_call": "expr:call.call_id" in tparts, "seq_offset": offsets.pop(), "shapes": shapes}


# ------------------------------------------------------------------ replay branch of execute_task
_COMPOUND = (ast.If, ast.IfExp, ast.Try, ast.While, ast.For, ast.Match, ast.With, ast.BoolOp,
             ast.AsyncFor, ast.AsyncWith) + ((ast.TryStar,) if hasattr(ast, "TryStar") else ())


def replay_unconditional(ex: ast.FunctionDef) -> bool:
    """execute_task: `<id> = ...get_workflow_data(self.workflow_identity, <key>)`, then
    `if <id> is not None: <branch>`.  True iff the branch is straight-line code ending in `return`."""
    recorded = None
    for n in ast.walk(ex):
        if isinstance(n, ast.Assign) and len(n.targets) == 1 and isinstance(n.targets[0], ast.Name) \
                and isinstance(n.value, ast.Call) and (_dotted(n.value.func) or "").endswith("get_workflow_data"):
            recorded = n.targets[0].id
    if recorded is None:
        raise TranslateError("execute_task: the recorded invocation id is not read into a local")
    branches = []
    for n in _strip_doc(ex.body):
        if isinstance(n, ast.If):
            t = n.test
            if isinstance(t, ast.Compare) and isinstance(t.left, ast.Name) and t.left.id == recorded \
                    and len(t.ops) == 1 and isinstance(t.ops[0], ast.IsNot) \
                    and isinstance(t.comparators[0], ast.Constant) and t.comparators[0].value is None:
                branches.append(n)
    if len(branches) != 1:
        raise TranslateError("execute_task: replay branch `if <recorded id> is not None:` not found")
    br = branches[0]
    straight = not any(isinstance(x, _COMPOUND) for st in br.body for x in ast.walk(st))
    returns = bool(br.body) and isinstance(br.body[-1], ast.Return) and br.body[-1].value is not None
    if br.orelse:
        # `if recorded: <replay> else: <launch + record>` followed by common code: the replay is unconditional
        # when its branch is straight-line code that does not launch (no call of the task)
        launches = any(isinstance(x, ast.Call) and isinstance(x.func, ast.Name) and x.func.id == "task"
                       for st in br.body for x in ast.walk(st))
        return straight and not launches
    if straight and not returns:
        raise TranslateError("execute_task: straight-line replay branch does not return")
    return straight and returns


# ------------------------------------------------------------------ privacy of the value generators
_BUILTINS = {"int", "str", "float", "bytes", "len", "max", "min", "round", "abs", "hex", "format", "bool",
             "tuple", "list", "dict", "isinstance", "repr", "divmod", "pow", "sum", "range"}
_SELF_MEMBERS = {"_operation_counters", "workflow_identity", "app"}


def _walk_code(node: ast.AST):
    """ast.walk without type annotations (they are not executed state)."""
    todo = [node]
    while todo:
        n = todo.pop()
        yield n
        for name, val in ast.iter_fields(n):
            if name in ("annotation", "returns", "type_comment", "decorator_list"):
                continue
            if isinstance(val, list):
                todo.extend(x for x in val if isinstance(x, ast.AST))
            elif isinstance(val, ast.AST):
                todo.append(val)
_GLOBAL_RNG_OK = {"Random", "SystemRandom"}


def _immutable(v: ast.AST | None) -> bool:
    """A module-level / class-level binding to an immutable literal is a constant, not state."""
    if v is None:
        return True
    if isinstance(v, ast.Constant | ast.JoinedStr):
        return True
    if isinstance(v, ast.Tuple):
        return all(_immutable(e) for e in v.elts)
    if isinstance(v, ast.UnaryOp | ast.BinOp):
        return all(_immutable(x) for x in ast.iter_child_nodes(v) if isinstance(x, ast.expr))
    if isinstance(v, ast.Call):
        f = (_dotted(v.func) or "").split(".")[-1]
        if f in ("frozenset", "tuple", "compile", "TypeVar", "ParamSpec", "getLogger", "int", "str", "float", "bytes"):
            return f in ("TypeVar", "ParamSpec", "getLogger", "compile") or all(_immutable(a) or isinstance(a, ast.List | ast.Set) for a in v.args)
    return False


def generators_private(tree: ast.Module, cls: ast.ClassDef) -> tuple[bool, list[str], bool, list[str]]:
    """(generators private?, reasons, execute_task private?, reasons).  Raises TranslateError on names it
    cannot classify."""
    modules, mod_vars, mod_defs = set(), set(), set()
    for n in tree.body:
        if isinstance(n, ast.Import):
            modules |= {(a.asname or a.name).split(".")[0] for a in n.names}
        elif isinstance(n, ast.ImportFrom):
            modules |= {a.asname or a.name for a in n.names}
        elif isinstance(n, ast.If):                      # `if TYPE_CHECKING:` imports
            for m in ast.walk(n):
                if isinstance(m, ast.ImportFrom | ast.Import):
                    modules |= {(a.asname or a.name).split(".")[0] for a in m.names}
        elif isinstance(n, ast.Assign | ast.AnnAssign | ast.AugAssign):
            if not isinstance(n, ast.AugAssign) and _immutable(n.value):
                modules |= {m.id for t in (n.targets if isinstance(n, ast.Assign) else [n.target])
                            for m in ast.walk(t) if isinstance(m, ast.Name)}       # constants: free to use
                continue
            for t in (n.targets if isinstance(n, ast.Assign) else [n.target]):
                for m in ast.walk(t):
                    if isinstance(m, ast.Name):
                        mod_vars.add(m.id)
        elif isinstance(n, ast.FunctionDef | ast.ClassDef | ast.AsyncFunctionDef):
            mod_defs.add(n.name)
    # `T = TypeVar("T")` style constants are immutable markers, not state
    mod_vars -= {t.id for n in tree.body if isinstance(n, ast.Assign) and isinstance(n.value, ast.Call)
                 and (_dotted(n.value.func) or "").split(".")[-1] in ("TypeVar", "getLogger", "ParamSpec")
                 for t in n.targets if isinstance(t, ast.Name)}
    class_data, methods, inst = set(), set(), set()
    for n in cls.body:
        if isinstance(n, ast.Assign | ast.AnnAssign):
            if isinstance(n, ast.AnnAssign) and n.value is None:
                continue
            for t in (n.targets if isinstance(n, ast.Assign) else [n.target]):
                if isinstance(t, ast.Name):
                    (inst if _immutable(n.value) else class_data).add(t.id)     # class constants are not state
        elif isinstance(n, ast.FunctionDef):
            methods.add(n.name)
            for m in ast.walk(n):
                if isinstance(m, ast.Assign | ast.AnnAssign | ast.AugAssign) and n.name == "__init__":
                    for t in (m.targets if isinstance(m, ast.Assign) else [m.target]):
                        if isinstance(t, ast.Attribute) and _dotted(t.value) == "self":
                            inst.add(t.attr)
    reasons: list[str] = []
    visited: set[str] = set()

    def check(fn: ast.FunctionDef, outer_locals: set[str]) -> None:
        if fn.name in visited:
            return
        visited.add(fn.name)
        local = set(outer_locals)
        for m in _walk_code(fn):
            if isinstance(m, ast.Name) and isinstance(m.ctx, ast.Store):
                local.add(m.id)
            elif isinstance(m, ast.FunctionDef) and m is not fn:
                local.add(m.name)
            elif isinstance(m, ast.arg):
                local.add(m.arg)
            elif isinstance(m, ast.Import | ast.ImportFrom):        # function-level import: a module / class name
                local |= {(a.asname or a.name).split(".")[0] for a in m.names}
        for m in _walk_code(fn):
            if isinstance(m, ast.Global | ast.Nonlocal):
                reasons.append(f"{fn.name}: {type(m).__name__.lower()} {', '.join(m.names)}")
            elif isinstance(m, ast.Attribute):
                root, chain = m, []
                while isinstance(root, ast.Attribute):
                    chain.append(root.attr)
                    root = root.value
                chain.reverse()
                is_cls = isinstance(root, ast.Name) and root.id == cls.name
                is_self_cls = isinstance(root, ast.Call) and _dotted(root.func) == "type" or \
                    (isinstance(root, ast.Name) and root.id == "self" and chain[0] == "__class__")
                if is_self_cls and chain[0] == "__class__":
                    chain = chain[1:] or ["__class__"]
                if isinstance(root, ast.Name) and root.id == "self" and not is_self_cls or is_cls or is_self_cls:
                    a = chain[0]
                    if a in class_data:
                        reasons.append(f"{fn.name}: class-level attribute {cls.name}.{a}")
                    elif a in inst or a in _SELF_MEMBERS:
                        pass
                    elif a in methods:                  # a helper method of the executor: same rules
                        check(_method(cls, a), set())
                    else:
                        raise TranslateError(f"{fn.name}: attribute self.{a} not classified")
                elif isinstance(root, ast.Name) and root.id == "random" and "random" in modules \
                        and "random" not in local and chain[0] not in _GLOBAL_RNG_OK:
                    reasons.append(f"{fn.name}: module-global generator random.{chain[0]}")
            elif isinstance(m, ast.Name) and isinstance(m.ctx, ast.Load):
                if m.id in local or m.id in _BUILTINS or m.id in modules or m.id == "self" or m.id == cls.name:
                    continue
                if m.id in mod_vars:
                    reasons.append(f"{fn.name}: module-level variable {m.id}")
                elif m.id in mod_defs:
                    raise TranslateError(f"{fn.name}: module-level helper {m.id} not analysed")
                else:
                    raise TranslateError(f"{fn.name}: free name {m.id} not classified")

    for name in ("random", "utc_now", "uuid"):
        check(_method(cls, name), set())
    gen_reasons = sorted(set(reasons))
    reasons.clear()
    visited.clear()
    check(_method(cls, "execute_task"), set())
    return (not gen_reasons), gen_reasons, (not reasons), sorted(set(reasons))


def emit(scope: str, seed_wf: bool, task_key_call: bool, seq_offset: int, replay_uncond: bool = True,
         gen_private: bool = True, exec_private: bool = True) -> str:
    b = lambda x: "true" if x else "false"  # noqa: E731
    return "\n".join([
        "(* GENERATED by harness/translate/workflow.py from pynenc/workflow/workflow_context.py,",
        "   pynenc/workflow/workflow_deterministic.py and pynenc/task.py.  Do not edit: rewritten on every check run. *)",
        "From PV Require Import Model.Workflow.",
        "",
        "Definition gen_cfg : cfg :=",
        f"  {{| c_scope := {scope}; c_seed_wf := {b(seed_wf)}; c_task_key_call := {b(task_key_call)};",
        f"     c_seq_offset := {int(seq_offset)}; c_replay_uncond := {b(replay_uncond)};",
        f"     c_gen_private := {b(gen_private)}; c_exec_private := {b(exec_private)} |}}.",
        "",
    ])


def translate(repo: str) -> tuple[str, dict]:
    task_src = open(f"{repo}/pynenc/task.py").read()
    ctx_src = open(f"{repo}/pynenc/workflow/workflow_context.py").read()
    det_src = open(f"{repo}/pynenc/workflow/workflow_deterministic.py").read()
    scope, sinfo = executor_scope(task_src, ctx_src)
    f = executor_facts(det_src)
    if not 0 <= f["seq_offset"] <= 8:
        raise TranslateError("sequence offset out of the modelled range")
    info = {"scope": scope, **sinfo, **{k: v for k, v in f.items() if k != "shapes"}, "shapes": f["shapes"],
            "shape_changed": sorted(k for k, v in EXPECTED_SHAPES.items() if f["shapes"].get(k) != v)}
    return emit(scope, f["seed_wf"], f["task_key_call"], f["seq_offset"], f["replay_uncond"], f["gen_private"],
                f["exec_private"]), info


if __name__ == "__main__":
    import sys
    text, info = translate(sys.argv[1] if len(sys.argv) > 1 else "/repo")
    print(text)
    print(info, file=sys.stderr)

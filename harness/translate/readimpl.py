"""Translator: pynenc/{broker,orchestrator,state_backend,trigger}/{base,mem,sqlite}_*.py -> coq/gen/ReadImpl_gen.v

For every API method that Model/Monitor.v classifies read-only (table READS of harness/translate/routes.py) and for
each of the two backends (in-memory, SQLite) the EFFECTS of its implementation, followed through `self.<method>`
calls along the class hierarchy (concrete class -> Base class), helper objects defined in the same files (the
blocking control of an orchestrator) and module-level helpers of the same file:

  ECall a            it calls API method `a` (own component through self, other components through self.app.<comp>)
  EWriteContainer    it mutates a container / attribute of the component in place: assignment or `del` on
                     self.<attr>[...] / self.<attr>, an in-place operator (`|=`, `&=`, `+=` ...) or a mutating method
                     (.add .update .pop .clear .append ...) on self.<attr> OR ON A LOCAL NAME THAT ALIASES IT
                     (bound from self.<attr>, self.<attr>[k], self.<attr>.get(...), a loop over .values()/.items()
                     - unless a copy was taken: .copy(), set(...), list(...), sorted(...), .intersection(...) ...)
  EWriteSql          it executes INSERT / UPDATE / DELETE / REPLACE / CREATE / DROP / ALTER

Props/C20.v states that no read-only classified method has an effect other than `ECall <read-only method>`; a
housekeeping sweep or an in-place narrowing of a live index inside a listing method flips the generated row and
the proof no longer checks.

Fail-closed rules: SQL text that cannot be resolved to a literal head, a component class that cannot be found, a
call on another component that the API table does not know  ->  TranslateError (the check falls back to
coq/gen_default/ReadImpl_gen.v and the before/after read-out of every route decides on its own).
Not state (ignored as write targets): attributes whose name says lock / cache / logger / thread.
"""
from __future__ import annotations

import ast
import os
import re

from harness.translate.routes import META_ATTRS, MUTATORS, READS, TranslateError

COMPONENT_FILES = {
    "broker": ("pynenc/broker", "broker", "BaseBroker"),
    "orchestrator": ("pynenc/orchestrator", "orchestrator", "BaseOrchestrator"),
    "state_backend": ("pynenc/state_backend", "state_backend", "BaseStateBackend"),
    "trigger": ("pynenc/trigger", "trigger", "BaseTrigger"),
}
BACKENDS = (("mem", 0), ("sqlite", 1))
ALL_COMPONENTS = ("broker", "orchestrator", "state_backend", "trigger", "client_data_store", "runner", "arg_cache",
                  "serializer")

MUTATING_METHODS = {"add", "append", "appendleft", "extend", "extendleft", "update", "pop", "popleft", "popitem",
                    "remove", "discard", "clear", "insert", "setdefault", "sort", "reverse", "intersection_update",
                    "difference_update", "symmetric_difference_update", "rotate", "move_to_end", "put", "put_nowait"}
# methods of a container that hand out the stored objects themselves
VIEW_METHODS = {"get", "values", "items", "keys", "setdefault", "pop", "popleft", "popitem", "__getitem__"}
# calls whose result is a fresh object
COPY_FUNCS = {"set", "list", "dict", "tuple", "frozenset", "sorted", "len", "sum", "any", "all", "min", "max", "str",
              "int", "float", "bool", "repr", "deque", "reversed", "enumerate", "zip", "map", "filter", "next", "iter",
              "isinstance", "hasattr", "getattr", "range", "deepcopy", "copy"}
COPY_METHODS = {"copy", "intersection", "union", "difference", "symmetric_difference", "__len__", "count", "index",
                "isdisjoint", "issubset", "issuperset", "join", "format", "split", "strip", "lower", "upper",
                "startswith", "endswith", "to_json", "isoformat", "total_seconds", "timestamp"}
NOT_STATE_RE = re.compile(r"lock|cache|logger|thread|^app$|^conf$|^_conf$|^tables$|^sqlite_db_path$", re.I)

SQL_WRITE = ("INSERT", "UPDATE", "DELETE", "REPLACE", "CREATE", "DROP", "ALTER", "TRUNCATE", "VACUUM")
SQL_NEUTRAL = ("BEGIN", "COMMIT", "ROLLBACK", "SAVEPOINT", "RELEASE", "END", "PRAGMA")
SQL_READ = ("SELECT", "WITH", "EXPLAIN", "VALUES")


# --------------------------------------------------------------------------------------------------- class table
class Cls:
    def __init__(self, name: str, node: ast.ClassDef, file: str, modfuncs: dict):
        self.name, self.file = name, file
        self.bases = []
        for b in node.bases:
            if isinstance(b, ast.Subscript):
                b = b.value
            if isinstance(b, ast.Name):
                self.bases.append(b.id)
            elif isinstance(b, ast.Attribute):
                self.bases.append(b.attr)
        self.methods = {s.name: s for s in node.body if isinstance(s, (ast.FunctionDef, ast.AsyncFunctionDef))}
        self.modfuncs = modfuncs           # module-level functions of the defining file


def load_component(repo: str, comp: str) -> dict[str, Cls]:
    d, stem, base = COMPONENT_FILES[comp]
    table: dict[str, Cls] = {}
    for prefix in ("base", "mem", "sqlite"):
        p = os.path.join(repo, d, f"{prefix}_{stem}.py")
        if not os.path.exists(p):
            raise TranslateError(f"{d}/{prefix}_{stem}.py not found")
        tree = ast.parse(open(p).read())
        modfuncs = {n.name: n for n in tree.body if isinstance(n, (ast.FunctionDef, ast.AsyncFunctionDef))}
        for n in tree.body:
            if isinstance(n, ast.ClassDef):
                key = n.name if n.name not in table else f"{prefix}:{n.name}"
                table[key] = Cls(n.name, n, f"{prefix}_{stem}.py", modfuncs)
    if base not in table:
        raise TranslateError(f"class {base} not found")
    return table


def mro(table: dict[str, Cls], cname: str) -> list[Cls]:
    out, todo, seen = [], [cname], set()
    while todo:
        c = todo.pop(0)
        if c in seen or c not in table:
            continue
        seen.add(c)
        out.append(table[c])
        todo.extend(table[c].bases)
    return out


def derives(table: dict[str, Cls], cname: str, base: str) -> bool:
    return any(c.name == base for c in mro(table, cname))


def concrete_class(table: dict[str, Cls], comp: str, backend: str) -> str:
    _, stem, base = COMPONENT_FILES[comp]
    cands = [k for k, c in table.items() if c.file == f"{backend}_{stem}.py" and k != base and derives(table, k, base)]
    if len(cands) != 1:
        raise TranslateError(f"{comp}/{backend}: expected one class deriving from {base}, found {cands}")
    return cands[0]


# --------------------------------------------------------------------------------------------------- expressions
def _chain(node) -> list[str]:
    parts = []
    while True:
        if isinstance(node, ast.Attribute):
            parts.append(node.attr)
            node = node.value
        elif isinstance(node, ast.Subscript):
            parts.append("[]")
            node = node.value
        else:
            break
    parts.append(node.id if isinstance(node, ast.Name) else "?")
    return parts[::-1]


def _self_state_chain(ch: list[str]) -> bool:
    """self.<attr>...  where <attr> is a state attribute (not app / conf / lock / cache ...)"""
    return len(ch) >= 2 and ch[0] == "self" and ch[1] != "[]" and not NOT_STATE_RE.search(ch[1]) \
        and not (ch[1] == "app")


class FnAnalysis:
    """effects of one function body (flow-sensitive alias tracking of local names that denote stored containers)"""

    def __init__(self, owner: "Walker", cls_mro: list[Cls], fn: ast.AST, where: str):
        self.owner, self.mro, self.fn, self.where = owner, cls_mro, fn, where
        self.effects: set[str] = set()
        self.calls: set[tuple[str, str]] = set()        # ("self", name) | ("helper", name) | ("modfunc", name)
        self.details: list[str] = []

    # ---- does the expression denote (a view into) the component's stored state?
    def stateful(self, e, alias: set[str]) -> bool:
        if isinstance(e, ast.Name):
            return e.id in alias
        if isinstance(e, (ast.Attribute, ast.Subscript)):
            ch = _chain(e)
            if ch[0] == "self":
                if isinstance(e, ast.Attribute) and len(ch) == 2 and self.owner.resolve(self.mro, ch[1]) is not None:
                    return False          # a method / property of the class, followed as a call edge
                return _self_state_chain(ch)
            root = e
            while isinstance(root, (ast.Attribute, ast.Subscript)):
                root = root.value
            if isinstance(root, ast.Call):
                return isinstance(e, ast.Subscript) and self.stateful(root, alias)
            return ch[0] in alias and isinstance(e, ast.Subscript)
        if isinstance(e, ast.Call):
            f = e.func
            if isinstance(f, ast.Name):
                return False if f.id in COPY_FUNCS else False
            if isinstance(f, ast.Attribute):
                if f.attr in COPY_METHODS:
                    return False
                if f.attr in VIEW_METHODS:
                    return self.stateful(f.value, alias)
            return False
        if isinstance(e, ast.IfExp):
            return self.stateful(e.body, alias) or self.stateful(e.orelse, alias)
        if isinstance(e, ast.BoolOp):
            return any(self.stateful(v, alias) for v in e.values)
        if isinstance(e, ast.NamedExpr):
            return self.stateful(e.value, alias)
        if isinstance(e, ast.Starred):
            return self.stateful(e.value, alias)
        return False

    def write(self, what: str, node):
        self.effects.add("EWriteContainer")
        d = f"{self.where}:{getattr(node, 'lineno', '?')}: {what}"
        if d not in self.details:
            self.details.append(d)

    # ---- targets
    def bind(self, target, value_stateful: bool, alias: set[str]):
        if isinstance(target, ast.Name):
            (alias.add if value_stateful else alias.discard)(target.id)
        elif isinstance(target, (ast.Tuple, ast.List)):
            for t in target.elts:
                self.bind(t, value_stateful, alias)
        elif isinstance(target, ast.Starred):
            self.bind(target.value, value_stateful, alias)

    def store(self, target, alias: set[str], node):
        if isinstance(target, (ast.Attribute, ast.Subscript)):
            ch = _chain(target)
            if ch[0] == "self" and _self_state_chain(ch):
                self.write("store into " + ".".join(ch), node)
            elif ch[0] in alias and ch[0] != "self":
                self.write(f"store into {'.'.join(ch)} (alias of stored state)", node)
            elif isinstance(target, ast.Subscript) and self.stateful(target.value, alias):
                self.write("store into an element of stored state", node)
        elif isinstance(target, (ast.Tuple, ast.List)):
            for t in target.elts:
                self.store(t, alias, node)

    # ---- expressions: calls
    def expr(self, e, alias: set[str]):
        for n in ast.walk(e):
            if isinstance(n, ast.Call):
                self.call(n, alias)
            elif isinstance(n, ast.Attribute):
                ch = _chain(n)
                if ch[0] == "self" and len(ch) >= 2 and self.owner.resolve(self.mro, ch[1]) is not None:
                    self.calls.add(("self", ch[1]))
                self.cross_component(ch, n)
            elif isinstance(n, (ast.Lambda,)):
                pass
            elif isinstance(n, ast.NamedExpr) and isinstance(n.target, ast.Name):
                self.bind(n.target, self.stateful(n.value, alias), alias)

    def cross_component(self, ch: list[str], node):
        # self.app.<comp>.<name> / app.<comp>.<name>
        for i, seg in enumerate(ch[:-1]):
            if seg == "app" and ch[i + 1] in ALL_COMPONENTS:
                comp = ch[i + 1]
                if i + 2 >= len(ch):
                    return
                name = ch[i + 2]
                if (comp, name) in MUTATORS:
                    self.effects.add("ECall " + MUTATORS[(comp, name)])
                    self.details.append(f"{self.where}:{getattr(node, 'lineno', '?')}: calls app.{comp}.{name}")
                elif (comp, name) in READS:
                    self.effects.add("ECall " + READS[(comp, name)])
                elif name in META_ATTRS or comp in ("serializer", "runner", "arg_cache", "client_data_store"):
                    pass      # configuration / identity; serializer, runner id, argument cache: not the monitored stores
                else:
                    raise TranslateError(f"{self.where}: app.{comp}.{name} is not in the API table")
                return

    def call(self, c: ast.Call, alias: set[str]):
        f = c.func
        if isinstance(f, ast.Name):
            if f.id in self.mro[0].modfuncs or any(f.id in k.modfuncs for k in self.mro):
                self.calls.add(("modfunc", f.id))
            return
        if not isinstance(f, ast.Attribute):
            return
        name = f.attr
        recv = f.value
        rch = _chain(recv)
        # SQL
        if name in ("execute", "executemany", "executescript") and c.args:
            kind = self.owner.sql_kind(c.args[0], self.fn, self.where)
            if kind == "write":
                self.effects.add("EWriteSql")
                self.details.append(f"{self.where}:{c.lineno}: SQL write")
            return
        # self.m(...) / super().m(...)
        if isinstance(recv, ast.Name) and recv.id == "self":
            if self.owner.resolve(self.mro, name) is not None:
                self.calls.add(("self", name))
            return
        if isinstance(recv, ast.Call) and isinstance(recv.func, ast.Name) and recv.func.id == "super":
            self.calls.add(("super", name))
            return
        # helper object of the same files:  self.<something>.m(...)
        if rch[0] == "self" and "app" not in rch[1:2]:
            helper = self.owner.helper_with(self.mro, name)
            if helper is not None and not (name in MUTATING_METHODS or name in VIEW_METHODS or name in COPY_METHODS):
                self.calls.add(("helper:" + helper, name))
                return
        # in-place mutation of stored state, directly or through an alias
        if name in MUTATING_METHODS and self.stateful(recv, alias):
            self.write(f".{name}() on {'.'.join(rch)}" + (" (alias of stored state)" if rch[0] != "self" else ""), c)

    # ---- statements
    def block(self, stmts, alias: set[str]) -> set[str]:
        for s in stmts:
            alias = self.stmt(s, alias)
        return alias

    def stmt(self, s, alias: set[str]) -> set[str]:
        if isinstance(s, (ast.FunctionDef, ast.AsyncFunctionDef)):
            self.block(s.body, set(alias))
            return alias
        if isinstance(s, ast.ClassDef):
            return alias
        if isinstance(s, ast.Assign):
            self.expr(s.value, alias)
            st = self.stateful(s.value, alias)
            for t in s.targets:
                self.store(t, alias, s)
                self.bind(t, st, alias)
            return alias
        if isinstance(s, ast.AnnAssign):
            if s.value is not None:
                self.expr(s.value, alias)
                self.store(s.target, alias, s)
                self.bind(s.target, self.stateful(s.value, alias), alias)
            return alias
        if isinstance(s, ast.AugAssign):
            self.expr(s.value, alias)
            t = s.target
            if isinstance(t, ast.Name):
                if t.id in alias:
                    self.write(f"in-place operator on {t.id} (alias of stored state)", s)
            else:
                self.store(t, alias, s)
            return alias
        if isinstance(s, ast.Delete):
            for t in s.targets:
                self.store(t, alias, s)
            return alias
        if isinstance(s, (ast.For, ast.AsyncFor)):
            self.expr(s.iter, alias)
            it = s.iter
            st = self.stateful(it, alias)
            if isinstance(it, ast.Call) and isinstance(it.func, ast.Name) and it.func.id in ("list", "tuple", "sorted", "enumerate", "reversed") \
                    and it.args and self.stateful(it.args[0], alias):
                st = True          # list(d.values()): a fresh list of the stored objects themselves
            a = set(alias)
            self.bind(s.target, st, a)
            out = set(a)
            for _ in range(2):
                out |= self.block(s.body, set(out))
            out |= self.block(s.orelse, set(out))
            return alias | out
        if isinstance(s, ast.While):
            self.expr(s.test, alias)
            out = set(alias)
            for _ in range(2):
                out |= self.block(s.body, set(out))
            out |= self.block(s.orelse, set(out))
            return out
        if isinstance(s, ast.If):
            self.expr(s.test, alias)
            a = self.block(s.body, set(alias))
            b = self.block(s.orelse, set(alias))
            return a | b
        if isinstance(s, (ast.With, ast.AsyncWith)):
            for it in s.items:
                self.expr(it.context_expr, alias)
                if it.optional_vars is not None:
                    self.bind(it.optional_vars, False, alias)
            return self.block(s.body, alias)
        if isinstance(s, ast.Try) or type(s).__name__ == "TryStar":
            a = self.block(s.body, set(alias))
            out = set(a)
            for h in s.handlers:
                out |= self.block(h.body, set(alias) | a)
            out |= self.block(s.orelse, set(a))
            return self.block(s.finalbody, out)
        if isinstance(s, ast.Match):
            self.expr(s.subject, alias)
            out = set(alias)
            for case in s.cases:
                out |= self.block(case.body, set(alias))
            return out
        for field in ("value", "exc", "test", "msg"):
            v = getattr(s, field, None)
            if isinstance(v, ast.AST):
                self.expr(v, alias)
        return alias

    def run(self):
        self.block(self.fn.body, set())
        return self


class Walker:
    def __init__(self, table: dict[str, Cls]):
        self.table = table
        self.cache: dict[tuple[str, str], FnAnalysis] = {}

    def resolve(self, cls_mro: list[Cls], name: str):
        for c in cls_mro:
            if name in c.methods:
                return c
        return None

    def helper_with(self, cls_mro: list[Cls], name: str) -> str | None:
        """a class of the same component files, outside this hierarchy, that defines `name` (prefer the same file)"""
        mine = {c.name for c in cls_mro}
        cands = [k for k, c in self.table.items() if c.name not in mine and name in c.methods]
        same = [k for k in cands if self.table[k].file == cls_mro[0].file]
        return (same or cands or [None])[0]

    # ---- SQL
    def sql_text(self, e, fn, depth=0) -> str | None:
        if isinstance(e, ast.Constant) and isinstance(e.value, str):
            return e.value
        if isinstance(e, ast.JoinedStr):
            out = ""
            for v in e.values:
                out += v.value if isinstance(v, ast.Constant) and isinstance(v.value, str) else " ? "
            return out
        if isinstance(e, ast.BinOp) and isinstance(e.op, (ast.Add, ast.Mod)):
            left = self.sql_text(e.left, fn, depth)
            if left is None:
                return None
            right = self.sql_text(e.right, fn, depth) if isinstance(e.op, ast.Add) else ""
            return left + (right if right is not None else " ? ")
        if isinstance(e, ast.Call) and isinstance(e.func, ast.Attribute) and e.func.attr in ("format", "strip"):
            return self.sql_text(e.func.value, fn, depth)
        if isinstance(e, ast.Call) and isinstance(e.func, ast.Attribute) and e.func.attr == "join" and len(e.args) == 1 \
                and isinstance(e.args[0], (ast.List, ast.Tuple)):
            parts = [self.sql_text(x, fn, depth) for x in e.args[0].elts]
            return None if any(p is None for p in parts) else " ".join(parts)
        if isinstance(e, ast.IfExp):
            a, b = self.sql_text(e.body, fn, depth), self.sql_text(e.orelse, fn, depth)
            return None if a is None or b is None else a + " " + b
        if isinstance(e, ast.Name) and depth < 3:
            texts = []
            for n in ast.walk(fn):
                if isinstance(n, ast.Assign) and any(isinstance(t, ast.Name) and t.id == e.id for t in n.targets):
                    texts.append(self.sql_text(n.value, fn, depth + 1))
                elif isinstance(n, ast.AnnAssign) and isinstance(n.target, ast.Name) and n.target.id == e.id and n.value is not None:
                    texts.append(self.sql_text(n.value, fn, depth + 1))
                elif isinstance(n, ast.AugAssign) and isinstance(n.target, ast.Name) and n.target.id == e.id:
                    texts.append(self.sql_text(n.value, fn, depth + 1))
            if not texts or any(t is None for t in texts):
                return None
            return " ; ".join(texts)
        return None

    def sql_kind(self, e, fn, where: str) -> str:
        text = self.sql_text(e, fn)
        if text is None:
            raise TranslateError(f"{where}: SQL text is not a literal")
        kinds = set()
        for part in text.split(";"):
            words = re.findall(r"[A-Za-z_]+", part)
            if not words:
                continue
            head = words[0].upper()
            up = {w.upper() for w in words}
            if head in SQL_WRITE or (head == "WITH" and up & set(SQL_WRITE)):
                kinds.add("write")
            elif head in SQL_READ or head in SQL_NEUTRAL:
                kinds.add("read")
            # anything else is a continuation fragment (" WHERE ...", " ORDER BY ...") of a statement built in pieces
        if not kinds:
            raise TranslateError(f"{where}: no recognisable SQL statement head in {text[:60]!r}")
        return "write" if "write" in kinds else "read"

    # ---- closure
    def analyse_fn(self, cls_key: str, name: str, start_after: str | None = None) -> FnAnalysis | None:
        m = mro(self.table, cls_key)
        if start_after is not None:       # super().name(...)
            idx = [i for i, c in enumerate(m) if c.name == start_after]
            m2 = m[idx[0] + 1:] if idx else m
        else:
            m2 = m
        owner = self.resolve(m2, name)
        if owner is None:
            return None
        key = (cls_key, owner.name + "." + name)
        if key not in self.cache:
            self.cache[key] = FnAnalysis(self, m, owner.methods[name], f"{owner.file}:{owner.name}.{name}")
            self.cache[key].defining = owner.name
            self.cache[key].run()
        return self.cache[key]

    def analyse_modfunc(self, cls_key: str, name: str) -> FnAnalysis | None:
        m = mro(self.table, cls_key)
        for c in m:
            if name in c.modfuncs:
                key = (cls_key, "<module>." + c.file + "." + name)
                if key not in self.cache:
                    self.cache[key] = FnAnalysis(self, m, c.modfuncs[name], f"{c.file}:{name}")
                    self.cache[key].defining = c.name
                    self.cache[key].run()
                return self.cache[key]
        return None

    def closure(self, cls_key: str, name: str) -> tuple[set[str], list[str]]:
        effects: set[str] = set()
        details: list[str] = []
        seen = set()
        todo = [(cls_key, "self", name, None)]
        while todo:
            ck, kind, nm, after = todo.pop()
            if (ck, kind, nm, after) in seen:
                continue
            seen.add((ck, kind, nm, after))
            fa = self.analyse_modfunc(ck, nm) if kind == "modfunc" else self.analyse_fn(ck, nm, after)
            if fa is None:
                continue
            effects |= fa.effects
            details += [d for d in fa.details if d not in details]
            for (k, n2) in fa.calls:
                if k == "self":
                    todo.append((ck, "self", n2, None))
                elif k == "super":
                    todo.append((ck, "self", n2, fa.defining))
                elif k == "modfunc":
                    todo.append((ck, "modfunc", n2, None))
                elif k.startswith("helper:"):
                    todo.append((k[len("helper:"):], "self", n2, None))
        return effects, details


# --------------------------------------------------------------------------------------------------- emit
def analyse(repo: str) -> dict:
    rows = []
    details: dict[str, list[str]] = {}
    for comp in COMPONENT_FILES:
        table = load_component(repo, comp)
        walker = Walker(table)
        names = sorted(n for (c, n) in READS if c == comp)
        own_mut = {n: v for (c, n), v in MUTATORS.items() if c == comp}
        own_read = {n: v for (c, n), v in READS.items() if c == comp}
        for backend, code in BACKENDS:
            ck = concrete_class(table, comp, backend)
            for name in names:
                if walker.resolve(mro(table, ck), name) is None:
                    continue
                eff, det = walker.closure(ck, name)
                # API methods of the own component reached through self / super
                called = walker_called_names(walker, ck, name)
                for n2 in sorted(called):
                    if n2 == name:
                        continue
                    if n2 in own_mut:
                        eff.add("ECall " + own_mut[n2])
                        det.append(f"{comp}/{backend}: {name} reaches self.{n2}()")
                    elif n2 in own_read:
                        eff.add("ECall " + own_read[n2])
                rows.append({"api": READS[(comp, name)], "backend": code, "name": f"{table[ck].name}.{name}",
                             "effects": sorted(eff)})
                if any(not e.startswith("ECall ") or e[6:] in set(MUTATORS.values()) for e in eff):
                    details[f"{table[ck].name}.{name}"] = det[:6]
    return {"rows": rows, "details": details}


def walker_called_names(walker: Walker, cls_key: str, name: str) -> set[str]:
    """names of the methods followed through self / super from `name` (transitively, same hierarchy)"""
    out: set[str] = set()
    seen = set()
    todo = [(cls_key, "self", name, None)]
    while todo:
        ck, kind, nm, after = todo.pop()
        if (ck, kind, nm, after) in seen:
            continue
        seen.add((ck, kind, nm, after))
        fa = walker.analyse_modfunc(ck, nm) if kind == "modfunc" else walker.analyse_fn(ck, nm, after)
        if fa is None:
            continue
        if ck == cls_key and kind == "self":
            out.add(nm)
        for (k, n2) in fa.calls:
            if k == "self":
                todo.append((ck, "self", n2, None))
            elif k == "super":
                todo.append((ck, "self", n2, fa.defining))
            elif k == "modfunc":
                todo.append((ck, "modfunc", n2, None))
            elif k.startswith("helper:"):
                todo.append((k[len("helper:"):], "self", n2, None))
    return out


def emit(rows: list[dict]) -> str:
    lines = ["(* GENERATED by harness/translate/readimpl.py from pynenc/{broker,orchestrator,state_backend,trigger}/*.py.",
             "   Do not edit: rewritten on every check run. *)",
             "From Coq Require Import String List Bool.",
             "Import ListNotations.",
             "From PV Require Import Model.Monitor.",
             "Local Open Scope string_scope.",
             "",
             "(* effects of the implementation of every read-only classified API method, per backend (0 = in-memory, 1 = SQLite) *)",
             "Definition gen_read_impl : list impl := ["]
    items = []
    for r in rows:
        eff = "; ".join(e if " " not in e else e for e in r["effects"])
        items.append(f"  {{| i_api := {r['api']}; i_backend := {r['backend']}; i_name := \"{r['name']}\"; i_effects := [{eff}] |}}")
    lines.append(";\n".join(items))
    lines.append("].")
    lines.append("")
    return "\n".join(lines)


def translate(repo: str) -> tuple[str, dict]:
    a = analyse(repo)
    if not a["rows"]:
        raise TranslateError("no implementation of a read-only API method found")
    info = {"rows": len(a["rows"]),
            "rows_with_effects_other_than_reads": a["details"],
            "backends": {b: sum(1 for r in a["rows"] if r["backend"] == c) for b, c in BACKENDS}}
    return emit(a["rows"]), info


if __name__ == "__main__":
    import json
    import sys
    text, info = translate(sys.argv[1] if len(sys.argv) > 1 else "/repo")
    print(text)
    print(json.dumps(info, indent=1), file=sys.stderr)

"""Translator: pynenc/broker/{mem,sqlite}_broker.py -> coq/gen/BrokerFacts_gen.v (boolean facts the
broker models are instantiated with).  Fail-closed: an unrecognised shape raises TranslateError."""
from __future__ import annotations

import ast


class TranslateError(Exception):
    pass


def _method(tree: ast.Module, cls: str, name: str) -> ast.FunctionDef:
    for node in tree.body:
        if isinstance(node, ast.ClassDef) and node.name == cls:
            for s in node.body:
                if isinstance(s, ast.FunctionDef) and s.name == name:
                    return s
    raise TranslateError(f"{cls}.{name} not found")


def _calls(node: ast.AST, attr: str) -> list[ast.Call]:
    return [n for n in ast.walk(node) if isinstance(n, ast.Call) and isinstance(n.func, ast.Attribute) and n.func.attr == attr]


def _strip_doc(body: list[ast.stmt]) -> list[ast.stmt]:
    if body and isinstance(body[0], ast.Expr) and isinstance(body[0].value, ast.Constant) and isinstance(body[0].value.value, str):
        return body[1:]
    return body


def _sql_text(call: ast.Call) -> str:
    if not call.args:
        raise TranslateError("execute() without SQL")
    a = call.args[0]
    if isinstance(a, ast.Constant) and isinstance(a.value, str):
        return " ".join(a.value.split()).upper()
    if isinstance(a, ast.JoinedStr):
        return " ".join("".join(v.value if isinstance(v, ast.Constant) else "{}" for v in a.values).split()).upper()
    raise TranslateError("SQL is not a string literal")


def mem_facts(src: str) -> dict:
    tree = ast.parse(src)
    route = _method(tree, "MemBroker", "route_invocation")
    retr = _method(tree, "MemBroker", "retrieve_invocation")
    app_r, app_l = _calls(route, "append"), _calls(route, "appendleft")
    if len(app_r) + len(app_l) != 1:
        raise TranslateError("route_invocation: expected exactly one append/appendleft")
    pop_l, pop_r = _calls(retr, "popleft"), _calls(retr, "pop")
    if len(pop_l) + len(pop_r) != 1:
        raise TranslateError("retrieve_invocation: expected exactly one popleft/pop")
    # guarded: the pop sits inside try/except IndexError, or inside a `with <lock>` that also covers the emptiness test
    pop = (pop_l + pop_r)[0]
    guarded = False
    for n in ast.walk(retr):
        if isinstance(n, ast.Try) and any(pop is c for b in n.body for c in ast.walk(b)):
            for h in n.handlers:
                names = []
                if h.type is None:
                    names = ["*"]
                elif isinstance(h.type, ast.Name):
                    names = [h.type.id]
                elif isinstance(h.type, ast.Tuple):
                    names = [e.id for e in h.type.elts if isinstance(e, ast.Name)]
                if any(x in ("IndexError", "LookupError", "Exception", "*") for x in names):
                    guarded = True
        if isinstance(n, ast.With) and any(pop is c for b in n.body for c in ast.walk(b)):
            for it in n.items:
                if "lock" in ast.dump(it.context_expr).lower():
                    guarded = True
    body = _strip_doc(retr.body)
    if not guarded:
        # the only other recognised shape: `if self._queue: return self._queue.popleft()` ; `return None`
        if not (len(body) == 2 and isinstance(body[0], ast.If) and isinstance(body[1], ast.Return)):
            raise TranslateError("retrieve_invocation: unrecognised shape")
    return {"mem_append_right": bool(app_r), "mem_pop_left": bool(pop_l), "mem_retrieve_guarded": guarded}


def sqlite_facts(src: str) -> dict:
    tree = ast.parse(src)
    retr = _method(tree, "SQLiteBroker", "retrieve_invocation")
    body = _strip_doc(retr.body)
    if not (len(body) == 1 and isinstance(body[0], ast.With)):
        raise TranslateError("SQLiteBroker.retrieve_invocation: expected a single `with sqlite_conn(...)` block")
    w = body[0]
    execs = [(_sql_text(c)) for s in w.body for c in _calls(s, "execute")]
    sel = [i for i, t in enumerate(execs) if t.startswith("SELECT")]
    dele = [i for i, t in enumerate(execs) if t.startswith("DELETE")]
    if len(sel) != 1 or len(dele) != 1 or sel[0] > dele[0]:
        raise TranslateError(f"retrieve_invocation: expected one SELECT followed by one DELETE, got {execs}")
    seltxt = execs[sel[0]]
    if "ORDER BY CREATED_AT ASC" in seltxt and "LIMIT 1" in seltxt:
        asc = True
    elif "ORDER BY CREATED_AT DESC" in seltxt and "LIMIT 1" in seltxt:
        asc = False
    else:
        raise TranslateError(f"unrecognised SELECT order: {seltxt}")
    if "WHERE ID = ?" not in execs[dele[0]]:
        raise TranslateError(f"unrecognised DELETE: {execs[dele[0]]}")
    immediate = any(t.startswith("BEGIN IMMEDIATE") or t.startswith("BEGIN EXCLUSIVE") for t in execs[:sel[0]])
    send = _method(tree, "SQLiteBroker", "send_message")
    ins = [_sql_text(c) for c in _calls(send, "execute")]
    if not (len(ins) == 1 and ins[0].startswith("INSERT INTO") and "JULIANDAY('NOW')" in ins[0]):
        raise TranslateError(f"send_message: unrecognised insert {ins}")
    return {"sqlite_order_asc": asc, "sqlite_retrieve_immediate": immediate}


def emit(f: dict) -> str:
    b = lambda x: "true" if x else "false"  # noqa: E731
    lines = ["(* GENERATED by harness/translate/broker_facts.py from pynenc/broker/mem_broker.py and sqlite_broker.py. *)",
             ""]
    for k in ("mem_append_right", "mem_pop_left", "mem_retrieve_guarded", "sqlite_order_asc", "sqlite_retrieve_immediate"):
        lines.append(f"Definition {k} : bool := {b(f[k])}.")
    return "\n".join(lines) + "\n"


def translate(repo: str):
    f = mem_facts(open(f"{repo}/pynenc/broker/mem_broker.py").read())
    f.update(sqlite_facts(open(f"{repo}/pynenc/broker/sqlite_broker.py").read()))
    return emit(f), {"facts": f}


if __name__ == "__main__":
    import sys
    t, i = translate(sys.argv[1] if len(sys.argv) > 1 else "/repo")
    print(t, i)

"""Translator: the effect sequences of the multi-step lifecycle operations -> coq/gen/CrashProgs_gen.v.  Fail-closed.

For each function the ordered list of backend effects it performs on the invocation (straight-line, top-level calls):
  set_invocation_status(.., InvocationStatus.X, ..) -> ETrans X      broker.route_invocation(..)      -> EPush
  broker.retrieve_invocation()                       -> EPop          set_result / set_exception /
  increment_invocation_retries / index_arguments...  -> EOther        (trigger / logger calls are ignored)
"""
from __future__ import annotations

import ast

STATUSES = ["REGISTERED", "CONCURRENCY_CONTROLLED", "CONCURRENCY_CONTROLLED_FINAL", "REROUTED", "PENDING", "PENDING_RECOVERY",
            "RUNNING", "RUNNING_RECOVERY", "PAUSED", "RESUMED", "KILLED", "SUCCESS", "FAILED", "RETRY"]
IGNORED = {"info", "debug", "warning", "error", "exception", "report_tasks_status", "report_invocation_result",
           "report_invocation_failure", "add_history", "add_histories", "release_waiters", "set_up_invocation_auto_purge"}
OTHER = {"set_result", "set_exception", "increment_invocation_retries", "index_arguments_for_concurrency_control"}


class TranslateError(Exception):
    pass


def _method(tree, cls, name):
    for node in tree.body:
        if isinstance(node, ast.ClassDef) and node.name == cls:
            for s in node.body:
                if isinstance(s, ast.FunctionDef) and s.name == name:
                    return s
    raise TranslateError(f"{cls}.{name} not found")


def _func(tree, name):
    for node in tree.body:
        if isinstance(node, ast.FunctionDef) and node.name == name:
            return node
    raise TranslateError(f"{name} not found")


def _effect(call: ast.Call):
    if not isinstance(call.func, ast.Attribute):
        return None
    n = call.func.attr
    if n == "set_invocation_status":
        for a in call.args:
            if isinstance(a, ast.Attribute) and isinstance(a.value, ast.Name) and a.value.id == "InvocationStatus" and a.attr in STATUSES:
                return f"ETrans {a.attr}"
        raise TranslateError("set_invocation_status with a non-literal status")
    if n == "route_invocation":
        return "EPush"
    if n == "retrieve_invocation":
        return "EPop"
    if n in OTHER:
        return "EOther"
    if n == "reroute_invocations":
        return "@reroute"
    if n in IGNORED:
        return None
    return None


def _seq(stmts) -> list[str]:
    out = []
    for s in stmts:
        if isinstance(s, ast.Expr) and isinstance(s.value, ast.Constant):
            continue
        calls = sorted([n for n in ast.walk(s) if isinstance(n, ast.Call)], key=lambda n: (n.lineno, n.col_offset))
        for c in calls:
            e = _effect(c)
            if e:
                out.append(e)
    return out


def poll_consumers(repo: str) -> tuple[bool, list]:
    """Every call site of get_invocations_to_run in pynenc/runner/*.py must run the generator to its END: the reroute of the
    invocations a poll deferred by concurrency control happens after the generator's last yield.  Recognised as exhausting:
    list(...)/tuple(...)/set(...)/sorted(...) around the call; a `for` over the call (or over the name it was assigned to)
    whose body has no break / return.  Anything else (next(), islice, unpacking, an early exit) counts as NOT exhausted."""
    import glob
    import os
    sites = []
    ok = True
    for path in sorted(glob.glob(f"{repo}/pynenc/runner/*.py")):
        tree = ast.parse(open(path).read())
        parents = {}
        for node in ast.walk(tree):
            for ch in ast.iter_child_nodes(node):
                parents[ch] = node
        for node in ast.walk(tree):
            if not (isinstance(node, ast.Call) and isinstance(node.func, ast.Attribute) and node.func.attr == "get_invocations_to_run"):
                continue
            par = parents.get(node)
            fn = node
            while fn is not None and not isinstance(fn, (ast.FunctionDef, ast.AsyncFunctionDef)):
                fn = parents.get(fn)

            def loop_ok(loop):
                for n in ast.walk(loop):
                    if isinstance(n, (ast.Break, ast.Return)) and n is not loop:
                        return False
                return True
            verdict = False
            if isinstance(par, ast.Call) and isinstance(par.func, ast.Name) and par.func.id in ("list", "tuple", "set", "sorted") and par.args and par.args[0] is node:
                verdict = True
            elif isinstance(par, ast.For) and par.iter is node:
                verdict = loop_ok(par)
            elif isinstance(par, ast.Assign) and len(par.targets) == 1 and isinstance(par.targets[0], ast.Name) and fn is not None:
                name = par.targets[0].id
                uses = [n for n in ast.walk(fn) if isinstance(n, ast.Name) and n.id == name and isinstance(n.ctx, ast.Load)]
                loops = [n for n in ast.walk(fn) if isinstance(n, ast.For) and isinstance(n.iter, ast.Name) and n.iter.id == name]
                verdict = len(loops) == 1 and len(uses) == 1 and loop_ok(loops[0])
            sites.append((os.path.basename(path), node.lineno, verdict))
            ok = ok and verdict
    if not sites:
        raise TranslateError("no call site of get_invocations_to_run in pynenc/runner")
    return ok, sites


def translate(repo: str):
    bo = ast.parse(open(f"{repo}/pynenc/orchestrator/base_orchestrator.py").read())
    retry = _seq(_method(bo, "BaseOrchestrator", "set_invocation_retry").body)
    fin_ok = _seq(_method(bo, "BaseOrchestrator", "set_invocation_result").body)
    fin_err = _seq(_method(bo, "BaseOrchestrator", "set_invocation_exception").body)
    rr = _method(bo, "BaseOrchestrator", "reroute_invocations")
    loops = [s for s in rr.body if isinstance(s, ast.For)]
    if len(loops) != 1:
        raise TranslateError("reroute_invocations: expected one loop")
    reroute = _seq(loops[0].body)
    br = ast.parse(open(f"{repo}/pynenc/runner/base_runner.py").read())
    kr = _method(br, "BaseRunner", "_kill_and_reroute")
    tries = [s for s in kr.body if isinstance(s, ast.Try)]
    if len(tries) != 1:
        raise TranslateError("_kill_and_reroute: expected one try block")
    kill = _seq(tries[0].body)
    ct = ast.parse(open(f"{repo}/pynenc/core_tasks.py").read())
    recs = {}
    for fn, via in (("recover_pending_invocations", "PENDING_RECOVERY"), ("recover_running_invocations", "RUNNING_RECOVERY")):
        s = _seq(_func(ct, fn).body)
        if s != [f"ETrans {via}", "@reroute"]:
            raise TranslateError(f"{fn}: expected [ETrans {via}; reroute_invocations], got {s}")
        recs[fn] = s
    # a refused recovery transition (the owner moved on) must only skip that invocation: the handler `continue`s; a `return`,
    # `break` or re-raise abandons the invocations this run has already marked, before their reroute
    rec_continues = True
    for fn in ("recover_pending_invocations", "recover_running_invocations"):
        f = _func(ct, fn)
        loops = [n for n in f.body if isinstance(n, ast.For)]
        if len(loops) != 1:
            raise TranslateError(f"{fn}: expected one loop")
        tries = [n for n in ast.walk(loops[0]) if isinstance(n, ast.Try)]
        if len(tries) != 1:
            rec_continues = False      # no handler at all: a refusal escapes
            continue
        for h in tries[0].handlers:
            names = ast.dump(h.type) if h.type is not None else "*"
            if not any(x in names for x in ("InvocationStatusError", "PynencError", "Exception", "*")):
                rec_continues = False  # the refusal raised by a lost race is not caught
            if any(isinstance(x, (ast.Return, ast.Break, ast.Raise)) for x in ast.walk(h)):
                rec_continues = False
    # poll: the pop precedes every status write of get_additional_invocations_to_run
    ga = _method(bo, "BaseOrchestrator", "get_additional_invocations_to_run")
    s = _seq(ga.body)
    if not s or "EPop" not in s:
        raise TranslateError("get_additional_invocations_to_run: no retrieve_invocation")
    pop_first = s.index("EPop") == 0 and all(x.startswith("ETrans") for x in s[1:])
    want = {"ETrans CONCURRENCY_CONTROLLED", "ETrans CONCURRENCY_CONTROLLED_FINAL", "ETrans PENDING"}
    if set(s[1:]) != want:
        raise TranslateError(f"get_additional_invocations_to_run: unexpected status writes {s}")
    def lit(seq, allow_reroute=False):
        out = []
        for e in seq:
            if e == "@reroute":
                if not allow_reroute:
                    raise TranslateError("unexpected reroute_invocations call")
                continue
            out.append(e)
        return "[" + "; ".join(out) + "]"
    if kill[-1:] != ["@reroute"] or "@reroute" in kill[:-1]:
        # the model splices p_reroute after the head; a kill that never reroutes has an empty tail marker
        kill_head, kill_reroutes = [e for e in kill if e != "@reroute"], ("@reroute" in kill)
    else:
        kill_head, kill_reroutes = kill[:-1], True
    for name, seq in (("set_invocation_retry", retry), ("set_invocation_result", fin_ok), ("set_invocation_exception", fin_err), ("reroute", reroute)):
        if "@reroute" in seq:
            raise TranslateError(f"{name}: nested reroute")
    polls_ok, sites = poll_consumers(repo)
    lines = ["(* GENERATED by harness/translate/crash_progs.py from base_orchestrator.py / base_runner.py / core_tasks.py *)",
             "From Coq Require Import List.", "Import ListNotations.", "From PV Require Import Model.Status Model.Crash.", "",
             f"Definition gen_p_retry : list eff := {lit(retry)}.",
             f"Definition gen_p_reroute : list eff := {lit(reroute)}.",
             f"Definition gen_p_kill_head : list eff := {lit(kill_head)}.",
             f"Definition gen_kill_reroutes : bool := {'true' if kill_reroutes else 'false'}.",
             f"Definition gen_p_finish_ok : list eff := {lit(fin_ok)}.",
             f"Definition gen_p_finish_err : list eff := {lit(fin_err)}.",
             f"Definition gen_pop_before_claim : bool := {'true' if pop_first else 'false'}.",
             f"Definition gen_poll_exhausted : bool := {'true' if polls_ok else 'false'}.",
             f"Definition gen_recovery_continues : bool := {'true' if rec_continues else 'false'}.", ""]
    info = {"retry": retry, "reroute": reroute, "kill": kill, "finish_ok": fin_ok, "finish_err": fin_err, "poll": s, "recovery": recs, "poll_call_sites": sites}
    return "\n".join(lines), info


if __name__ == "__main__":
    import sys
    t, i = translate(sys.argv[1] if len(sys.argv) > 1 else "/repo")
    print(t)
    print(i, file=sys.stderr)

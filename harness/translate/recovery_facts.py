"""Translator: recovery scans (mem/sqlite orchestrators) + recovery runs (core_tasks.py)
-> coq/gen/RecoveryFacts_gen.v.  Fail-closed."""
from __future__ import annotations

import ast
import re


class TranslateError(Exception):
    pass


def _method(tree, cls, name):
    for node in tree.body:
        if isinstance(node, ast.ClassDef) and node.name == cls:
            for s in node.body:
                if isinstance(s, ast.FunctionDef) and s.name == name:
                    return s
    raise TranslateError(f"{cls}.{name} not found")


def _func(tree, name):
    for node in tree.body:
        if isinstance(node, ast.FunctionDef) and node.name == name:
            return node
    raise TranslateError(f"{name} not found")


def _sql_strings(fn) -> list[str]:
    out = []
    for n in ast.walk(fn):
        if isinstance(n, ast.Call) and isinstance(n.func, ast.Attribute) and n.func.attr == "execute" and n.args:
            a = n.args[0]
            if isinstance(a, ast.Constant) and isinstance(a.value, str):
                out.append(" ".join(a.value.split()).upper())
            elif isinstance(a, ast.JoinedStr):
                out.append(" ".join("".join(v.value if isinstance(v, ast.Constant) else "{}" for v in a.values).split()).upper())
            else:
                raise TranslateError("non-literal SQL")
    return out


def mem_facts(src: str) -> dict:
    tree = ast.parse(src)
    pend = _method(tree, "MemOrchestrator", "get_pending_invocations_for_recovery")
    cmps = [n for n in ast.walk(pend) if isinstance(n, ast.Compare) and len(n.ops) == 1
            and isinstance(n.comparators[0], ast.Name) and n.comparators[0].id == "cutoff_time"]
    if len(cmps) != 1 or "timestamp" not in ast.dump(cmps[0].left):
        raise TranslateError("pending scan: expected one `<ts> <op> cutoff_time`")
    op = cmps[0].ops[0]
    if not isinstance(op, (ast.LtE, ast.Lt)):
        raise TranslateError("pending scan: operator is not <= or <")
    # cutoff = current_time - max_pending_seconds, status index = PENDING
    d = ast.dump(pend)
    if "attr='PENDING'" not in d or "max_pending_seconds" not in d:
        raise TranslateError("pending scan: not over PENDING / max_pending_seconds")
    run = _method(tree, "MemOrchestrator", "_get_running_invocations_for_recovery")
    comps = [n for n in ast.walk(run) if isinstance(n, ast.SetComp)]
    if len(comps) != 1 or len(comps[0].generators) != 1 or len(comps[0].generators[0].ifs) != 1:
        raise TranslateError("running scan: expected one set comprehension with one condition")
    c = comps[0].generators[0].ifs[0]
    if not (isinstance(c, ast.Compare) and len(c.ops) == 1 and isinstance(c.left, ast.Name) and c.left.id == "last_heartbeat"
            and isinstance(c.comparators[0], ast.Name) and c.comparators[0].id == "cutoff_time"
            and isinstance(c.ops[0], (ast.GtE, ast.Gt))):
        raise TranslateError("running scan: heartbeat condition not `last_heartbeat >=|> cutoff_time`")
    if "runner_last_heartbeat" not in ast.dump(comps[0].generators[0].iter):
        raise TranslateError("running scan: active set not built from runner_last_heartbeat")
    notin = [n for n in ast.walk(run) if isinstance(n, ast.Compare) and len(n.ops) == 1 and isinstance(n.ops[0], ast.NotIn)
             and isinstance(n.comparators[0], ast.Name) and n.comparators[0].id == "active_runner_ids"]
    if len(notin) != 1 or "runner_id" not in ast.dump(notin[0].left):
        raise TranslateError("running scan: expected `record.runner_id not in active_runner_ids`")
    if "attr='RUNNING'" not in ast.dump(run):
        raise TranslateError("running scan: not over RUNNING")
    return {"mem_pending_le": isinstance(op, ast.LtE), "mem_hb_ge": isinstance(c.ops[0], ast.GtE)}


def sqlite_facts(src: str) -> dict:
    tree = ast.parse(src)
    pend = _sql_strings(_method(tree, "SQLiteOrchestrator", "get_pending_invocations_for_recovery"))
    if len(pend) != 1:
        raise TranslateError("sqlite pending scan: expected one statement")
    m = re.search(r"WHERE STATUS = \? AND STATUS_TIMESTAMP (<=|<) \?$", pend[0])
    if not m or "PENDING" not in ast.dump(_method(tree, "SQLiteOrchestrator", "get_pending_invocations_for_recovery")):
        raise TranslateError(f"sqlite pending scan: unrecognised {pend[0]}")
    run = _sql_strings(_method(tree, "SQLiteOrchestrator", "_get_running_invocations_for_recovery"))
    if len(run) != 1:
        raise TranslateError("sqlite running scan: expected one statement")
    q = run[0]
    m2 = re.search(r"LEFT JOIN \{\} R ON I\.STATUS_RUNNER_ID = R\.RUNNER_ID WHERE I\.STATUS = \? AND I\.STATUS_RUNNER_ID IS NOT NULL AND \((R\.RUNNER_ID IS NULL OR )?R\.LAST_HEARTBEAT (<|<=) \?\)$", q)
    if not m2 or "RUNNING" not in ast.dump(_method(tree, "SQLiteOrchestrator", "_get_running_invocations_for_recovery")):
        raise TranslateError(f"sqlite running scan: unrecognised {q}")
    return {"sqlite_pending_le": m.group(1) == "<=", "sqlite_hb_ge": m2.group(2) == "<",
            "sqlite_never_hb_selected": m2.group(1) is not None}


def _tolerant(fn: ast.FunctionDef, via: str) -> bool:
    loops = [n for n in fn.body if isinstance(n, ast.For)]
    if len(loops) != 1:
        raise TranslateError(f"{fn.name}: expected one for-loop")
    loop = loops[0]
    calls = [n for n in ast.walk(loop) if isinstance(n, ast.Call) and isinstance(n.func, ast.Attribute)
             and n.func.attr == "set_invocation_status"]
    if len(calls) != 1 or via not in ast.dump(calls[0]):
        raise TranslateError(f"{fn.name}: expected one set_invocation_status(..., {via}, ...) in the loop")
    after = [n for n in fn.body[fn.body.index(loop) + 1:] if "reroute_invocations" in ast.dump(n)]
    if len(after) != 1:
        raise TranslateError(f"{fn.name}: reroute_invocations not called after the loop")
    for t in [n for n in ast.walk(loop) if isinstance(n, ast.Try)]:
        if any(calls[0] is c for b in t.body for c in ast.walk(b)):
            names = []
            for h in t.handlers:
                if h.type is None:
                    names.append("*")
                elif isinstance(h.type, ast.Name):
                    names.append(h.type.id)
                elif isinstance(h.type, ast.Tuple):
                    names += [e.id for e in h.type.elts if isinstance(e, ast.Name)]
            catches = any(x in ("InvocationStatusError", "PynencError", "Exception", "*") for x in names) or \
                {"InvocationStatusTransitionError", "InvocationStatusOwnershipError"} <= set(names)
            # the id must only be collected when the transition succeeded: `.add(` after the call inside the try
            # body / else, or the handler `continue`s before a later add
            adds = [n for n in ast.walk(loop) if isinstance(n, ast.Call) and isinstance(n.func, ast.Attribute) and n.func.attr == "add"]
            if len(adds) != 1:
                raise TranslateError(f"{fn.name}: expected one .add()")
            add_line, call_line = adds[0].lineno, calls[0].lineno
            reraises = any(isinstance(x, ast.Raise) for h in t.handlers for x in ast.walk(h))
            if catches and add_line > call_line and not reraises:
                return True
            raise TranslateError(f"{fn.name}: try/except around the transition has an unrecognised shape")
    return False


def core_facts(src: str) -> dict:
    tree = ast.parse(src)
    a = _tolerant(_func(tree, "recover_pending_invocations"), "PENDING_RECOVERY")
    b = _tolerant(_func(tree, "recover_running_invocations"), "RUNNING_RECOVERY")
    return {"recovery_tolerates_lost_race": a and b, "_pending_tolerant": a, "_running_tolerant": b}


def loop_facts(src: str) -> dict:
    """BaseRunner.run: the parent reports its live children's heartbeats on EVERY iteration of the main loop (a top-level
    statement of the `while self.running` body, not behind any gate)"""
    tree = ast.parse(src)
    run = _method(tree, "BaseRunner", "run")
    loops = [n for n in ast.walk(run) if isinstance(n, ast.While)]
    if len(loops) != 1:
        raise TranslateError("BaseRunner.run: expected one while loop")
    every = any(isinstance(s, ast.Expr) and isinstance(s.value, ast.Call) and isinstance(s.value.func, ast.Attribute)
                and s.value.func.attr == "_report_child_runner_heartbeats" for s in loops[0].body)
    return {"child_heartbeats_every_iteration": every}


ORDER = ["child_heartbeats_every_iteration", "mem_pending_le", "sqlite_pending_le", "mem_hb_ge", "sqlite_hb_ge", "sqlite_never_hb_selected",
         "recovery_tolerates_lost_race"]


def emit(f: dict) -> str:
    lines = ["(* GENERATED by harness/translate/recovery_facts.py from mem_orchestrator.py, sqlite_orchestrator.py, core_tasks.py, base_runner.py *)", ""]
    for k in ORDER:
        lines.append(f"Definition {k} : bool := {'true' if f[k] else 'false'}.")
    return "\n".join(lines) + "\n"


def translate(repo: str):
    f = mem_facts(open(f"{repo}/pynenc/orchestrator/mem_orchestrator.py").read())
    f.update(sqlite_facts(open(f"{repo}/pynenc/orchestrator/sqlite_orchestrator.py").read()))
    f.update(core_facts(open(f"{repo}/pynenc/core_tasks.py").read()))
    f.update(loop_facts(open(f"{repo}/pynenc/runner/base_runner.py").read()))
    return emit(f), {"facts": f}


if __name__ == "__main__":
    import sys
    t, i = translate(sys.argv[1] if len(sys.argv) > 1 else "/repo")
    print(t)
    print(i, file=sys.stderr)

"""Translator: atomicity facts of the status transition -> coq/gen/Atomicity_gen.v.

  sqlite_transition_immediate : SQLiteOrchestrator._atomic_status_transition executes BEGIN IMMEDIATE
      before the SELECT, and SELECT, validation and UPDATE are inside the same `with` block.
  mem_transition_locked : MemOrchestrator._atomic_status_transition reads the record, validates and writes
      inside one `with <lock from _get_invocation_lock>` block.
  mem_lock_table_atomic : _get_invocation_lock obtains the lock with one atomic dict operation
      (dict.setdefault) or under a table-wide lock, not check-then-insert.
  mem_lock_table_stable : nothing but __init__ / _get_invocation_lock / purge ever changes the lock table.
Fail-closed on unrecognised shapes."""
from __future__ import annotations

import ast


class TranslateError(Exception):
    pass


def _method(tree, cls, name):
    for node in tree.body:
        if isinstance(node, ast.ClassDef) and node.name == cls:
            for s in node.body:
                if isinstance(s, ast.FunctionDef) and s.name == name:
                    return s
    raise TranslateError(f"{cls}.{name} not found")


def _body(fn):
    b = fn.body
    if b and isinstance(b[0], ast.Expr) and isinstance(b[0].value, ast.Constant) and isinstance(b[0].value.value, str):
        b = b[1:]
    return b


def _sql(call):
    a = call.args[0]
    if isinstance(a, ast.Constant) and isinstance(a.value, str):
        return " ".join(a.value.split()).upper()
    if isinstance(a, ast.JoinedStr):
        return " ".join("".join(v.value if isinstance(v, ast.Constant) else "{}" for v in a.values).split()).upper()
    raise TranslateError("non-literal SQL")


def sqlite_facts(src: str) -> dict:
    tree = ast.parse(src)
    fn = _method(tree, "SQLiteOrchestrator", "_atomic_status_transition")
    # no write-excluding transaction anywhere in the method: whatever else it does, read-validate-write is not one step
    sqls = []
    for n in ast.walk(fn):
        if isinstance(n, ast.Call) and isinstance(n.func, ast.Attribute) and n.func.attr == "execute" and n.args:
            try:
                sqls.append(_sql(n))
            except TranslateError:
                pass
    if not any(q.startswith(("BEGIN IMMEDIATE", "BEGIN EXCLUSIVE")) for q in sqls):
        return {"sqlite_transition_immediate": False}
    withs = [s for s in _body(fn) if isinstance(s, ast.With)]
    if len(withs) != 1:
        raise TranslateError("sqlite transition: expected exactly one `with` block")
    w = withs[0]
    seq = []   # ordered events inside the with block
    for node in ast.walk(w):
        pass
    for stmt in w.body:
        for n in ast.walk(stmt):
            if isinstance(n, ast.Call) and isinstance(n.func, ast.Attribute) and n.func.attr == "execute" and n.args:
                seq.append((n.lineno, "sql", _sql(n)))
            if isinstance(n, ast.Call) and isinstance(n.func, ast.Name) and n.func.id == "status_record_transition":
                seq.append((n.lineno, "validate", ""))
    seq.sort()
    kinds = [(k, t.split()[0] if t else "") for _, k, t in seq]
    sel = [i for i, (k, t) in enumerate(kinds) if k == "sql" and t == "SELECT"]
    upd = [i for i, (k, t) in enumerate(kinds) if k == "sql" and t == "UPDATE"]
    val = [i for i, (k, t) in enumerate(kinds) if k == "validate"]
    if len(sel) != 1 or len(upd) != 1 or len(val) != 1 or not (sel[0] < val[0] < upd[0]):
        raise TranslateError(f"sqlite transition: expected SELECT, validate, UPDATE in one with-block, got {kinds}")
    # every execute of the function must be inside the with block
    all_exec = [n for n in ast.walk(fn) if isinstance(n, ast.Call) and isinstance(n.func, ast.Attribute) and n.func.attr == "execute"]
    if len(all_exec) != len([1 for k, _ in kinds if k == "sql"]):
        raise TranslateError("sqlite transition: SQL outside the with block")
    immediate = any(k == "sql" and s[2].startswith(("BEGIN IMMEDIATE", "BEGIN EXCLUSIVE")) for (k, _), s in zip(kinds[:sel[0]], seq[:sel[0]]))
    return {"sqlite_transition_immediate": immediate}


def mem_facts(src: str) -> dict:
    tree = ast.parse(src)
    fn = _method(tree, "MemOrchestrator", "_atomic_status_transition")
    body = _body(fn)
    withs = [s for s in body if isinstance(s, ast.With)]
    reads = [n for n in ast.walk(fn) if isinstance(n, ast.Attribute) and n.attr == "invocation_status_record"]
    validates = [n for n in ast.walk(fn) if isinstance(n, ast.Call) and isinstance(n.func, ast.Name) and n.func.id == "status_record_transition"]
    writes = [n for n in ast.walk(fn) if isinstance(n, ast.Call) and isinstance(n.func, ast.Attribute) and n.func.attr == "_interanl_atomic_status_transition"]
    if len(validates) != 1 or len(writes) != 1 or not reads:
        raise TranslateError("mem transition: expected one read, one status_record_transition, one internal write")
    locked = False
    if len(withs) == 1:
        w = withs[0]
        inside = {id(n) for s in w.body for n in ast.walk(s)}
        ctx_dump = ast.dump(w.items[0].context_expr)
        lock_like = "lock" in ctx_dump.lower()
        locked = lock_like and all(id(n) in inside for n in reads + validates + writes)
    elif withs:
        raise TranslateError("mem transition: more than one with-block")
    # the lock must come from _get_invocation_lock (per invocation) or be an orchestrator-wide lock attribute
    gl = _method(tree, "MemOrchestrator", "_get_invocation_lock")
    gbody = _body(gl)
    dump = ast.dump(gl)
    if "setdefault" in dump and len(gbody) <= 2:
        table_atomic = True
    elif any(isinstance(s, ast.With) and "lock" in ast.dump(s.items[0].context_expr).lower() for s in gbody):
        table_atomic = True
    elif len(gbody) == 2 and isinstance(gbody[0], ast.If) and isinstance(gbody[1], ast.Return) and "NotIn" in ast.dump(gbody[0].test):
        table_atomic = False      # `if id not in self.locks: self.locks[id] = Lock()` — check-then-insert
    else:
        raise TranslateError("_get_invocation_lock: unrecognised shape")
    # the lock table must be stable: an entry, once created, is the lock of that invocation for good.  Every
    # mutation of `self.locks` in the class is accounted for: the assignment in __init__, the insertion in
    # _get_invocation_lock, `clear()` in purge.  Anything else (pop / del / popitem / reassignment / clear elsewhere)
    # retires a lock some thread may still hold or wait on: two threads then serialise on different locks.
    cls = next(n for n in tree.body if isinstance(n, ast.ClassDef) and n.name == "MemOrchestrator")
    stable = True
    for meth in [m for m in cls.body if isinstance(m, ast.FunctionDef)]:
        for n in ast.walk(meth):
            tgt = None
            if isinstance(n, ast.Call) and isinstance(n.func, ast.Attribute) and _is_locks(n.func.value) and \
                    n.func.attr in ("pop", "popitem", "clear", "update", "__delitem__", "__setitem__"):
                tgt = n.func.attr
            elif isinstance(n, ast.Delete) and any(_mentions_locks(t) for t in n.targets):
                tgt = "del"
            elif isinstance(n, (ast.Assign, ast.AugAssign, ast.AnnAssign)):
                ts = n.targets if isinstance(n, ast.Assign) else [n.target]
                if any(_mentions_locks(t) for t in ts):
                    tgt = "assign"
            if tgt is None:
                continue
            ok = (meth.name == "__init__" and tgt == "assign") or (meth.name == "purge" and tgt == "clear") or \
                 (meth.name == "_get_invocation_lock" and tgt in ("assign",))
            if not ok:
                stable = False
    return {"mem_transition_locked": locked, "mem_lock_table_atomic": table_atomic, "mem_lock_table_stable": stable}


def _is_locks(node) -> bool:
    return isinstance(node, ast.Attribute) and node.attr == "locks" and isinstance(node.value, ast.Name) and node.value.id == "self"


def _mentions_locks(node) -> bool:
    return any(_is_locks(n) for n in ast.walk(node))


def emit(f: dict) -> str:
    lines = ["(* GENERATED by harness/translate/atomicity.py from mem_orchestrator.py / sqlite_orchestrator.py *)", ""]
    for k in ("sqlite_transition_immediate", "mem_transition_locked", "mem_lock_table_atomic", "mem_lock_table_stable"):
        lines.append(f"Definition {k} : bool := {'true' if f[k] else 'false'}.")
    lines.append("Definition mem_transition_atomic : bool := mem_transition_locked && mem_lock_table_atomic && mem_lock_table_stable.")
    return "\n".join(lines) + "\n"


def translate(repo: str):
    f = sqlite_facts(open(f"{repo}/pynenc/orchestrator/sqlite_orchestrator.py").read())
    f.update(mem_facts(open(f"{repo}/pynenc/orchestrator/mem_orchestrator.py").read()))
    return emit(f), {"facts": f}


if __name__ == "__main__":
    import sys
    t, i = translate(sys.argv[1] if len(sys.argv) > 1 else "/repo")
    print(t)
    print(i, file=sys.stderr)

"""Translator: the runner-loop bodies of the three process-based runners -> coq/gen/Pool_gen.v

    multi_thread_runner.py       MultiThreadRunner.runner_loop_iteration        -> mtr_loop_ops
    persistent_process_runner.py PersistentProcessRunner.runner_loop_iteration  -> ppr_loop_ops
    process_runner.py            ProcessRunner.runner_loop_iteration
                                 + ProcessRunner._reclaim_available_slots       -> pr_loop_ops
    <each>.get_active_child_runner_ids                                          -> *_hb_sel
    _spawn_thread_runner_process / _spawn_persistent_process / the ProcessRunner loop body
    (+ runner_context.py RunnerContext.new_child_context): where the runner id under which a
    new worker is tracked comes from                                            -> *_id_src
    base_runner.py               BaseRunner._report_child_runner_heartbeats     -> base_reports_active_ids

A loop body is translated statement by statement into the pool operations of Model/Pool.v
(LPrune, LSpawnTo, LScaleUp, LSpawnFromQueue).  Logging, `time.sleep` and
`handle_waiting_invocations` carry no pool effect and are skipped; ANY other statement that is not
one of the recognised shapes raises TranslateError (fail-closed: the check then uses the committed
default and the differential run decides).  The helpers the operations stand for
(_cleanup_dead_processes, _scale_up_processes, the spawn functions, _on_start) are mirrored by
hand in Model/Pool.v; their normalised AST hashes are reported as `shape_changed` (information
only — the differential run is what ties them).
"""
from __future__ import annotations

import ast
import hashlib

FILES = {
    "mtr": ("pynenc/runner/multi_thread_runner.py", "MultiThreadRunner"),
    "ppr": ("pynenc/runner/persistent_process_runner.py", "PersistentProcessRunner"),
    "pr": ("pynenc/runner/process_runner.py", "ProcessRunner"),
    "base": ("pynenc/runner/base_runner.py", "BaseRunner"),
    "ctx": ("pynenc/runner/runner_context.py", "RunnerContext"),
}

# normalised-AST hashes of the hand-mirrored helpers (strings blanked, docstrings dropped)
EXPECTED_SHAPES = {
    "mtr._cleanup_dead_processes": "b4b0f1e06c71",
    "mtr._scale_up_processes": "bc2ab9bdbe8d",
    "mtr._spawn_thread_runner_process": "6e8db3df8fcc",
    "mtr._on_start": "0cca7d680c4a",
    "ppr._spawn_persistent_process": "2080b0d912bb",
    "ppr._on_start": "c4333ad13614",
    "pr._reclaim_available_slots": "c625a91b39c4",
    "pr._on_start": "19f0610169b2",
    "pr.max_parallel_slots": "c727a68ec9c8",
}


class TranslateError(Exception):
    pass


# ------------------------------------------------------------------ small AST helpers
def _is_self_attr(node: ast.AST, *path: str) -> bool:
    """node == self.<path[0]>.<path[1]>..."""
    for name in reversed(path):
        if not (isinstance(node, ast.Attribute) and node.attr == name):
            return False
        node = node.value
    return isinstance(node, ast.Name) and node.id == "self"


def _body(fn: ast.FunctionDef) -> list[ast.stmt]:
    b = fn.body
    if b and isinstance(b[0], ast.Expr) and isinstance(b[0].value, ast.Constant) and isinstance(b[0].value.value, str):
        b = b[1:]
    return b


def _shape(fn: ast.FunctionDef) -> str:
    class Blank(ast.NodeTransformer):
        def visit_Constant(self, n):
            if isinstance(n.value, str):
                return ast.copy_location(ast.Constant(value=""), n)
            return n

        def visit_JoinedStr(self, n):
            return ast.copy_location(ast.Constant(value=""), n)
    dump = "\n".join(ast.dump(Blank().visit(s), include_attributes=False) for s in _body(fn))
    return hashlib.sha256(dump.encode()).hexdigest()[:12]


def _methods(src: str, cls_name: str) -> dict[str, ast.FunctionDef]:
    tree = ast.parse(src)
    for node in tree.body:
        if isinstance(node, ast.ClassDef) and node.name == cls_name:
            return {s.name: s for s in node.body if isinstance(s, ast.FunctionDef)}
    raise TranslateError(f"class {cls_name} not found")


def _is_logging(stmt: ast.stmt) -> bool:
    """self.logger.<level>(...) / self.app.logger.<level>(...)"""
    if not (isinstance(stmt, ast.Expr) and isinstance(stmt.value, ast.Call)):
        return False
    f = stmt.value.func
    return isinstance(f, ast.Attribute) and (_is_self_attr(f.value, "logger") or _is_self_attr(f.value, "app", "logger"))


def _is_sleep(stmt: ast.stmt) -> bool:
    if not (isinstance(stmt, ast.Expr) and isinstance(stmt.value, ast.Call)):
        return False
    f = stmt.value.func
    return (isinstance(f, ast.Attribute) and f.attr == "sleep" and isinstance(f.value, ast.Name) and f.value.id == "time")


def _self_call(stmt: ast.stmt) -> str | None:
    """`self.<name>()` as a statement, no arguments -> name"""
    if (isinstance(stmt, ast.Expr) and isinstance(stmt.value, ast.Call) and not stmt.value.args
            and not stmt.value.keywords and isinstance(stmt.value.func, ast.Attribute)
            and isinstance(stmt.value.func.value, ast.Name) and stmt.value.func.value.id == "self"):
        return stmt.value.func.attr
    return None


def _alive_test(node: ast.AST) -> str | None:
    """`X.is_alive()` -> 'alive' ; `not X.is_alive()` -> 'dead' (X any attribute chain / name)."""
    if isinstance(node, ast.UnaryOp) and isinstance(node.op, ast.Not):
        return "dead" if _alive_test(node.operand) == "alive" else None
    if (isinstance(node, ast.Call) and not node.args and not node.keywords
            and isinstance(node.func, ast.Attribute) and node.func.attr == "is_alive"):
        v = node.func.value
        while isinstance(v, ast.Attribute):
            v = v.value
        if isinstance(v, ast.Name):
            return "alive"
    return None


def _items_comprehension(node: ast.AST) -> tuple[str, list[ast.AST]] | None:
    """[k for k, v in self.child_runner_ids.items() <ifs>] -> (k, ifs)"""
    if not (isinstance(node, ast.ListComp) and len(node.generators) == 1):
        return None
    g = node.generators[0]
    if g.is_async or not (isinstance(g.iter, ast.Call) and not g.iter.args and isinstance(g.iter.func, ast.Attribute)
                          and g.iter.func.attr == "items" and _is_self_attr(g.iter.func.value, "child_runner_ids")):
        return None
    if not (isinstance(g.target, ast.Tuple) and len(g.target.elts) == 2 and all(isinstance(e, ast.Name) for e in g.target.elts)):
        return None
    key = g.target.elts[0].id
    if not (isinstance(node.elt, ast.Name) and node.elt.id == key):
        return None
    return key, list(g.ifs)


def _contains(node: ast.AST, pred) -> bool:
    return any(pred(n) for n in ast.walk(node))


def _is_untrack(n: ast.AST) -> bool:
    """self.child_runner_ids.pop(...)  or  del self.child_runner_ids[...]"""
    if (isinstance(n, ast.Call) and isinstance(n.func, ast.Attribute) and n.func.attr == "pop"
            and _is_self_attr(n.func.value, "child_runner_ids")):
        return True
    if isinstance(n, ast.Delete):
        return any(isinstance(t, ast.Subscript) and _is_self_attr(t.value, "child_runner_ids") for t in n.targets)
    return False


def _is_plain_untrack(s: ast.stmt) -> bool:
    """an unconditional `self.child_runner_ids.pop(...)` / `del self.child_runner_ids[...]` statement"""
    return (isinstance(s, ast.Expr) and _is_untrack(s.value)) or (isinstance(s, ast.Delete) and _is_untrack(s))


def _is_bookkeeping(s: ast.stmt) -> bool:
    """`self.<something else>.<method>(...)` / `self.<helper>(...)` as a statement that never mentions child_runner_ids
    (e.g. _safe_remove_shared_state(rid), a free list): no effect on which workers are tracked"""
    if not (isinstance(s, ast.Expr) and isinstance(s.value, ast.Call) and isinstance(s.value.func, ast.Attribute)):
        return False
    v = s.value.func
    while isinstance(v, ast.Attribute):
        v = v.value
    if not (isinstance(v, ast.Name) and v.id == "self"):
        return False
    return not _contains(s, lambda n: isinstance(n, ast.Attribute) and n.attr == "child_runner_ids")


def _calls_self(node: ast.AST, name: str) -> bool:
    return _contains(node, lambda n: isinstance(n, ast.Call) and isinstance(n.func, ast.Attribute)
                     and n.func.attr == name and isinstance(n.func.value, ast.Name) and n.func.value.id == "self")


# ------------------------------------------------------------------ the four pieces
def hb_selector(fn: ast.FunctionDef) -> str:
    b = _body(fn)
    if not (len(b) == 1 and isinstance(b[0], ast.Return)):
        raise TranslateError("get_active_child_runner_ids is not a single return")
    c = _items_comprehension(b[0].value)
    if c is None:
        raise TranslateError("get_active_child_runner_ids does not return a comprehension over child_runner_ids.items()")
    _, ifs = c
    if not ifs:
        return "HbAll"
    if len(ifs) == 1:
        t = _alive_test(ifs[0])
        if t == "alive":
            return "HbAlive"
        if t == "dead":
            return "HbDead"
    raise TranslateError("unrecognised filter in get_active_child_runner_ids")


def mtr_loop(m: dict[str, ast.FunctionDef]) -> list[str]:
    ops = []
    for st in _body(m["runner_loop_iteration"]):
        if _is_logging(st) or _is_sleep(st):
            continue
        name = _self_call(st)
        if name == "_scale_up_processes":
            ops.append("LScaleUp")
        elif name == "_cleanup_dead_processes":
            _check_cleanup_helper(m)
            ops.append("LPrune")
        else:
            raise TranslateError(f"MultiThreadRunner.runner_loop_iteration: unrecognised statement {ast.dump(st)[:120]}")
    return ops


def _check_cleanup_helper(m: dict[str, ast.FunctionDef]) -> None:
    """_cleanup_dead_processes: dead ids = [rid ... if not proc.is_alive()], each popped from child_runner_ids."""
    fn = m.get("_cleanup_dead_processes")
    if fn is None:
        raise TranslateError("_cleanup_dead_processes missing")
    b = [s for s in _body(fn) if not _is_logging(s)]
    if not (len(b) == 2 and isinstance(b[0], ast.Assign) and len(b[0].targets) == 1 and isinstance(b[0].targets[0], ast.Name)):
        raise TranslateError("_cleanup_dead_processes: unexpected shape")
    c = _items_comprehension(b[0].value)
    if c is None or len(c[1]) != 1 or _alive_test(c[1][0]) != "dead":
        raise TranslateError("_cleanup_dead_processes: dead-id comprehension not recognised")
    var = b[0].targets[0].id
    rest = b[1]
    if isinstance(rest, ast.If) and isinstance(rest.test, ast.Name) and rest.test.id == var and not rest.orelse:
        loops = [s for s in rest.body if not _is_logging(s)]
    else:
        loops = [rest]
    if not (len(loops) == 1 and isinstance(loops[0], ast.For) and isinstance(loops[0].iter, ast.Name)
            and loops[0].iter.id == var and _contains(loops[0], _is_untrack)):
        raise TranslateError("_cleanup_dead_processes: pop loop not recognised")


def ppr_loop(m: dict[str, ast.FunctionDef]) -> list[str]:
    ops: list[str] = []
    body = [s for s in _body(m["runner_loop_iteration"]) if not (_is_logging(s) or _is_sleep(s))]
    i = 0
    while i < len(body):
        st = body[i]
        # dead = [rid for rid, proc in self.child_runner_ids.items() if not proc.is_alive()] ; for rid in dead: pop
        if isinstance(st, ast.Assign) and len(st.targets) == 1 and isinstance(st.targets[0], ast.Name):
            var = st.targets[0].id
            c = _items_comprehension(st.value)
            if c is not None:
                if len(c[1]) != 1 or _alive_test(c[1][0]) != "dead":
                    raise TranslateError("PPR: comprehension over child_runner_ids with an unrecognised filter")
                nxt = body[i + 1] if i + 1 < len(body) else None
                if not (isinstance(nxt, ast.For) and isinstance(nxt.iter, ast.Name) and nxt.iter.id == var
                        and _contains(nxt, _is_untrack)
                        and not nxt.orelse and all(_is_logging(s) or _is_plain_untrack(s) or _is_bookkeeping(s) for s in nxt.body)
                        and sum(1 for s in nxt.body if _is_plain_untrack(s)) == 1):
                    raise TranslateError("PPR: dead ids are not popped right after being collected")
                ops.append("LPrune")
                i += 2
                continue
            # current_count = len(self.child_runner_ids) ; if current_count < self.num_processes: spawn the difference
            if (isinstance(st.value, ast.Call) and isinstance(st.value.func, ast.Name) and st.value.func.id == "len"
                    and len(st.value.args) == 1 and _is_self_attr(st.value.args[0], "child_runner_ids")):
                nxt = body[i + 1] if i + 1 < len(body) else None
                if not _is_spawn_to(nxt, var):
                    raise TranslateError("PPR: tracked count is not followed by the spawn-up-to-num_processes block")
                ops.append("LSpawnTo")
                i += 2
                continue
        raise TranslateError(f"PersistentProcessRunner.runner_loop_iteration: unrecognised statement {ast.dump(st)[:120]}")
    return ops


def _is_spawn_to(st: ast.AST | None, count_var: str) -> bool:
    """if count < self.num_processes: n = self.num_processes - count ; for _ in range(n): self._spawn_persistent_process()"""
    if not (isinstance(st, ast.If) and not st.orelse and isinstance(st.test, ast.Compare) and len(st.test.ops) == 1
            and isinstance(st.test.ops[0], ast.Lt) and isinstance(st.test.left, ast.Name) and st.test.left.id == count_var
            and _is_self_attr(st.test.comparators[0], "num_processes")):
        return False
    b = [s for s in st.body if not _is_logging(s)]
    if not (len(b) == 2 and isinstance(b[0], ast.Assign) and len(b[0].targets) == 1 and isinstance(b[0].targets[0], ast.Name)):
        return False
    n_var = b[0].targets[0].id
    v = b[0].value
    if not (isinstance(v, ast.BinOp) and isinstance(v.op, ast.Sub) and _is_self_attr(v.left, "num_processes")
            and isinstance(v.right, ast.Name) and v.right.id == count_var):
        return False
    f = b[1]
    return (isinstance(f, ast.For) and not f.orelse and isinstance(f.iter, ast.Call) and isinstance(f.iter.func, ast.Name)
            and f.iter.func.id == "range" and len(f.iter.args) == 1 and isinstance(f.iter.args[0], ast.Name)
            and f.iter.args[0].id == n_var and len(f.body) == 1 and _self_call(f.body[0]) == "_spawn_persistent_process")


def pr_loop(m: dict[str, ast.FunctionDef]) -> list[str]:
    ops: list[str] = []
    for st in _body(m["runner_loop_iteration"]):
        if _is_logging(st) or _is_sleep(st) or _self_call(st) == "handle_waiting_invocations":
            continue
        # for _ in range(self._reclaim_available_slots()): reserve ctx ; get one invocation ; break if none ; Process(...).start() ; track
        if (isinstance(st, ast.For) and not st.orelse and isinstance(st.iter, ast.Call) and isinstance(st.iter.func, ast.Name)
                and st.iter.func.id == "range" and len(st.iter.args) == 1 and isinstance(st.iter.args[0], ast.Call)
                and not st.iter.args[0].args and _is_self_attr(st.iter.args[0].func, "_reclaim_available_slots")):
            ops += _reclaim_ops(m)
            has_get = _contains(st, lambda n: isinstance(n, ast.Attribute) and n.attr == "get_invocations_to_run")
            has_break = _contains(st, lambda n: isinstance(n, ast.Break))
            has_start = _contains(st, lambda n: isinstance(n, ast.Call) and isinstance(n.func, ast.Attribute) and n.func.attr == "start")
            has_track = _contains(st, lambda n: isinstance(n, ast.Assign) and any(
                isinstance(t, ast.Subscript) and _is_self_attr(t.value, "child_runner_ids") for t in n.targets))
            if not (has_get and has_break and has_start and has_track):
                raise TranslateError("ProcessRunner loop body: retrieve/break/start/track not all present")
            ops.append("LSpawnFromQueue")
            continue
        raise TranslateError(f"ProcessRunner.runner_loop_iteration: unrecognised statement {ast.dump(st)[:120]}")
    return ops


def _reclaim_ops(m: dict[str, ast.FunctionDef]) -> list[str]:
    """_reclaim_available_slots: [for rid in list(self.child_runner_ids): if not alive: join; del] ; return slots - len(tracked)."""
    fn = m.get("_reclaim_available_slots")
    if fn is None:
        raise TranslateError("_reclaim_available_slots missing")
    b = [s for s in _body(fn) if not _is_logging(s)]
    if not b or not isinstance(b[-1], ast.Return):
        raise TranslateError("_reclaim_available_slots: no final return")
    r = b[-1].value
    if not (isinstance(r, ast.BinOp) and isinstance(r.op, ast.Sub) and _is_self_attr(r.left, "max_parallel_slots")
            and isinstance(r.right, ast.Call) and isinstance(r.right.func, ast.Name) and r.right.func.id == "len"
            and len(r.right.args) == 1 and _is_self_attr(r.right.args[0], "child_runner_ids")):
        raise TranslateError("_reclaim_available_slots: return is not max_parallel_slots - len(child_runner_ids)")
    ops = []
    for st in b[:-1]:
        if not (isinstance(st, ast.For) and not st.orelse and isinstance(st.iter, ast.Call) and isinstance(st.iter.func, ast.Name)
                and st.iter.func.id == "list" and len(st.iter.args) == 1 and _is_self_attr(st.iter.args[0], "child_runner_ids")):
            raise TranslateError("_reclaim_available_slots: unrecognised statement")
        inner = [s for s in st.body if not _is_logging(s)]
        ifs = [s for s in inner if isinstance(s, ast.If)]
        others = [s for s in inner if not isinstance(s, ast.If)]
        if len(ifs) != 1 or ifs[0].orelse or _alive_test(ifs[0].test) != "dead" or not _contains(ifs[0], _is_untrack):
            raise TranslateError("_reclaim_available_slots: `if not <process>.is_alive(): ... del` not recognised")
        if not all(isinstance(s, ast.Assign) for s in others):
            raise TranslateError("_reclaim_available_slots: unexpected statement in the reclaim loop")
        ops.append("LPrune")
    return ops


# ------------------------------------------------------------------ where do the ids of new workers come from
def _is_uuid4_call(e: ast.AST) -> bool:
    """uuid.uuid4() / uuid4()"""
    if not (isinstance(e, ast.Call) and not e.args and not e.keywords):
        return False
    f = e.func
    return (isinstance(f, ast.Attribute) and f.attr == "uuid4" and isinstance(f.value, ast.Name) and f.value.id == "uuid") \
        or (isinstance(f, ast.Name) and f.id == "uuid4")


def _is_fresh_id(e: ast.AST) -> bool:
    """str(uuid4()) / uuid4().hex / f"...{uuid4()}..." : a value nobody has seen before"""
    if isinstance(e, ast.Call) and isinstance(e.func, ast.Name) and e.func.id == "str" and len(e.args) == 1 and not e.keywords:
        return _is_uuid4_call(e.args[0])
    if isinstance(e, ast.Attribute) and e.attr == "hex":
        return _is_uuid4_call(e.value)
    if isinstance(e, ast.JoinedStr):
        return any(isinstance(v, ast.FormattedValue) and (_is_uuid4_call(v.value) or _is_fresh_id(v.value)) for v in e.values)
    return False


def _alternatives(e: ast.AST) -> list[ast.AST]:
    if isinstance(e, ast.IfExp):
        return _alternatives(e.body) + _alternatives(e.orelse)
    if isinstance(e, ast.BoolOp) and isinstance(e.op, ast.Or):
        return [a for v in e.values for a in _alternatives(v)]
    return [e]


_STORE_READS = {"pop", "popleft", "popitem", "get", "setdefault"}


def _classify_id_alternatives(alts: list[ast.AST], where: str, methods: dict | None = None, depth: int = 0) -> str:
    """all alternatives fresh -> IdFresh; some alternative is a value kept from earlier (taken out of a container, an
    attribute, a name, a constant/f-string without uuid4) -> IdRecycled; a call we cannot look into -> TranslateError."""
    if not alts:
        raise TranslateError(f"{where}: no source for the worker id found")
    verdict = "IdFresh"
    for a in alts:
        if _is_fresh_id(a):
            continue
        if isinstance(a, ast.Call):
            f = a.func
            helper = (methods or {}).get(f.attr) if (isinstance(f, ast.Attribute) and isinstance(f.value, ast.Name)
                                                    and f.value.id in ("self", "cls")) else None
            if helper is not None and depth < 3:
                # an id helper of the same class: its return values are the alternatives
                rets = [r.value for r in ast.walk(helper) if isinstance(r, ast.Return)]
                if not rets or any(r is None for r in rets):
                    raise TranslateError(f"{where}: id helper {f.attr} has an empty return")
                inner = []
                for r in rets:
                    if isinstance(r, ast.Name) and r.id not in _fn_args(helper):
                        inner += [x for v in _assigned_values(helper, r.id) for x in _alternatives(v)]
                    else:
                        inner += _alternatives(r)
                if _classify_id_alternatives(inner, f"{where} -> {f.attr}", methods, depth + 1) == "IdRecycled":
                    verdict = "IdRecycled"
                continue
            if not (isinstance(f, ast.Attribute) and f.attr in _STORE_READS):
                raise TranslateError(f"{where}: worker id comes from a call that is not recognised: {ast.dump(a)[:100]}")
        elif isinstance(a, ast.Constant) and a.value is None:
            raise TranslateError(f"{where}: worker id may be None")
        verdict = "IdRecycled"
    return verdict


def _assigned_values(fn: ast.AST, var: str) -> list[ast.AST]:
    vals = []
    for n in ast.walk(fn):
        if isinstance(n, ast.Assign) and any(isinstance(t, ast.Name) and t.id == var for t in n.targets):
            vals.append(n.value)
        elif isinstance(n, ast.AnnAssign) and isinstance(n.target, ast.Name) and n.target.id == var and n.value is not None:
            vals.append(n.value)
        elif isinstance(n, ast.NamedExpr) and n.target.id == var:
            vals.append(n.value)
        elif isinstance(n, (ast.For, ast.comprehension)) and _contains(n.target, lambda x: isinstance(x, ast.Name) and x.id == var):
            raise TranslateError(f"worker id variable {var} is a loop variable")
    return vals


def _tracking_keys(fn: ast.AST) -> list[ast.AST]:
    """K of every `self.child_runner_ids[K] = ...` in fn"""
    keys = []
    for n in ast.walk(fn):
        if isinstance(n, ast.Assign):
            for t in n.targets:
                if isinstance(t, ast.Subscript) and _is_self_attr(t.value, "child_runner_ids"):
                    keys.append(t.slice)
    return keys


def _fn_args(fn: ast.FunctionDef) -> set[str]:
    a = fn.args
    return {x.arg for x in a.posonlyargs + a.args + a.kwonlyargs} | ({a.vararg.arg} if a.vararg else set()) \
        | ({a.kwarg.arg} if a.kwarg else set())


def spawn_id_src(fn: ast.FunctionDef, where: str, methods: dict | None = None) -> str:
    """MTR/PPR spawn helper: the key under which the new process is tracked is a local name; classify its sources."""
    keys = _tracking_keys(fn)
    if len(keys) != 1 or not isinstance(keys[0], ast.Name):
        raise TranslateError(f"{where}: expected exactly one `self.child_runner_ids[<name>] = ...`")
    var = keys[0].id
    if var in _fn_args(fn):
        raise TranslateError(f"{where}: the worker id is a parameter")
    alts = [a for v in _assigned_values(fn, var) for a in _alternatives(v)]
    return _classify_id_alternatives(alts, where, methods)


def _new_child_context_default_fresh(ctx_m: dict[str, ast.FunctionDef]) -> bool:
    """RunnerContext.new_child_context(runner_cls, runner_id=None): runner_id=runner_id or str(uuid.uuid4())"""
    fn = ctx_m.get("new_child_context")
    if fn is None:
        raise TranslateError("RunnerContext.new_child_context missing")
    for n in ast.walk(fn):
        if isinstance(n, ast.Call) and isinstance(n.func, ast.Name) and n.func.id == "RunnerContext":
            for kw in n.keywords:
                if kw.arg == "runner_id":
                    alts = _alternatives(kw.value)
                    given = [a for a in alts if isinstance(a, ast.Name) and a.id == "runner_id"]
                    rest = [a for a in alts if a not in given]
                    if len(given) == 1 and rest and all(_is_fresh_id(a) for a in rest):
                        return True
                    raise TranslateError("RunnerContext.new_child_context: default runner id is not `runner_id or str(uuid.uuid4())`")
    raise TranslateError("RunnerContext.new_child_context: RunnerContext(runner_id=...) not found")


def pr_id_src(m: dict[str, ast.FunctionDef], ctx_m: dict[str, ast.FunctionDef]) -> str:
    """ProcessRunner loop: tracked under <ctx>.runner_id with <ctx> = self.runner_context.new_child_context(cls[, id])"""
    fn = m["runner_loop_iteration"]
    where = "ProcessRunner.runner_loop_iteration"
    keys = _tracking_keys(fn)
    if len(keys) != 1:
        raise TranslateError(f"{where}: expected exactly one `self.child_runner_ids[...] = ...`")
    k = keys[0]
    if isinstance(k, ast.Name):
        if k.id in _fn_args(fn):
            raise TranslateError(f"{where}: the worker id is a parameter")
        return _classify_id_alternatives([a for v in _assigned_values(fn, k.id) for a in _alternatives(v)], where, m)
    if not (isinstance(k, ast.Attribute) and k.attr == "runner_id" and isinstance(k.value, ast.Name)):
        raise TranslateError(f"{where}: tracking key is not <ctx>.runner_id")
    vals = _assigned_values(fn, k.value.id)
    if len(vals) != 1:
        raise TranslateError(f"{where}: the reserved context is not assigned exactly once")
    call = vals[0]
    if not (isinstance(call, ast.Call) and isinstance(call.func, ast.Attribute) and call.func.attr == "new_child_context"
            and _is_self_attr(call.func.value, "runner_context")):
        raise TranslateError(f"{where}: the reserved context does not come from self.runner_context.new_child_context(...)")
    given = [kw.value for kw in call.keywords if kw.arg == "runner_id"] + list(call.args[1:2])
    if any(kw.arg is None for kw in call.keywords) or any(isinstance(a, ast.Starred) for a in call.args):
        raise TranslateError(f"{where}: new_child_context called with unpacked arguments")
    if not given or (isinstance(given[0], ast.Constant) and given[0].value is None):
        _new_child_context_default_fresh(ctx_m)
        return "IdFresh"
    e = given[0]
    if isinstance(e, ast.Name) and e.id not in _fn_args(fn):
        alts = [a for v in _assigned_values(fn, e.id) for a in _alternatives(v)]
    else:
        alts = _alternatives(e)
    # `X or None` style fall-through to the default of new_child_context
    alts = [a for a in alts if not (isinstance(a, ast.Constant) and a.value is None)]
    _new_child_context_default_fresh(ctx_m)
    return _classify_id_alternatives(alts, where, m)


def base_reports_active(m: dict[str, ast.FunctionDef]) -> bool:
    """if ids := self.get_active_child_runner_ids(): self.app.orchestrator.register_runner_heartbeats(ids)"""
    b = _body(m["_report_child_runner_heartbeats"])
    if not (len(b) == 1 and isinstance(b[0], ast.If) and not b[0].orelse and isinstance(b[0].test, ast.NamedExpr)):
        raise TranslateError("_report_child_runner_heartbeats: unexpected shape")
    ne = b[0].test
    if not (isinstance(ne.value, ast.Call) and not ne.value.args and _is_self_attr(ne.value.func, "get_active_child_runner_ids")):
        raise TranslateError("_report_child_runner_heartbeats: ids do not come from get_active_child_runner_ids()")
    inner = [s for s in b[0].body if not _is_logging(s)]
    if not (len(inner) == 1 and isinstance(inner[0], ast.Expr) and isinstance(inner[0].value, ast.Call)):
        raise TranslateError("_report_child_runner_heartbeats: unexpected body")
    call = inner[0].value
    if not (_is_self_attr(call.func, "app", "orchestrator", "register_runner_heartbeats") and len(call.args) == 1
            and not call.keywords and isinstance(call.args[0], ast.Name) and call.args[0].id == ne.target.id):
        raise TranslateError("_report_child_runner_heartbeats: does not pass the active ids to register_runner_heartbeats")
    return True


def parse(repo: str) -> dict:
    meth = {k: _methods(open(f"{repo}/{path}").read(), cls) for k, (path, cls) in FILES.items() if k != "ctx"}
    for k, need in (("mtr", ["runner_loop_iteration", "get_active_child_runner_ids"]),
                    ("ppr", ["runner_loop_iteration", "get_active_child_runner_ids"]),
                    ("pr", ["runner_loop_iteration", "get_active_child_runner_ids"]),
                    ("base", ["_report_child_runner_heartbeats"])):
        for n in need:
            if n not in meth[k]:
                raise TranslateError(f"{FILES[k][1]}.{n} not found")
    shapes = {}
    for key in EXPECTED_SHAPES:
        k, n = key.split(".")
        if n in meth[k]:
            shapes[key] = _shape(meth[k][n])
    return {
        "mtr_loop": mtr_loop(meth["mtr"]),
        "ppr_loop": ppr_loop(meth["ppr"]),
        "pr_loop": pr_loop(meth["pr"]),
        "mtr_hb": hb_selector(meth["mtr"]["get_active_child_runner_ids"]),
        "ppr_hb": hb_selector(meth["ppr"]["get_active_child_runner_ids"]),
        "pr_hb": hb_selector(meth["pr"]["get_active_child_runner_ids"]),
        "base_reports_active": base_reports_active(meth["base"]),
        "shapes": shapes,
    }


def emit(p: dict) -> str:
    def lst(x):
        return "[" + "; ".join(x) + "]"
    return "\n".join([
        "(* GENERATED by harness/translate/pool_loops.py from pynenc/runner/{multi_thread_runner,",
        "   persistent_process_runner,process_runner,base_runner}.py.  Do not edit: rewritten on every check run. *)",
        "From Coq Require Import List Bool.",
        "Import ListNotations.",
        "From PV Require Import Model.Pool.",
        "",
        "(* MultiThreadRunner.runner_loop_iteration *)",
        f"Definition mtr_loop_ops : list lop := {lst(p['mtr_loop'])}.",
        "(* PersistentProcessRunner.runner_loop_iteration *)",
        f"Definition ppr_loop_ops : list lop := {lst(p['ppr_loop'])}.",
        "(* ProcessRunner.runner_loop_iteration (+ _reclaim_available_slots) *)",
        f"Definition pr_loop_ops : list lop := {lst(p['pr_loop'])}.",
        "",
        "(* get_active_child_runner_ids of each runner *)",
        f"Definition mtr_hb_sel : hbsel := {p['mtr_hb']}.",
        f"Definition ppr_hb_sel : hbsel := {p['ppr_hb']}.",
        f"Definition pr_hb_sel : hbsel := {p['pr_hb']}.",
        "",
        "(* BaseRunner._report_child_runner_heartbeats passes exactly get_active_child_runner_ids() on *)",
        f"Definition base_reports_active_ids : bool := {'true' if p['base_reports_active'] else 'false'}.",
        "",
    ])


def translate(repo: str) -> tuple[str, dict]:
    p = parse(repo)
    info = {k: p[k] for k in ("mtr_loop", "ppr_loop", "pr_loop", "mtr_hb", "ppr_hb", "pr_hb", "base_reports_active")}
    info["shapes"] = p["shapes"]
    info["shape_changed"] = sorted(k for k, v in EXPECTED_SHAPES.items() if p["shapes"].get(k) != v)
    return emit(p), info


# ------------------------------------------------------------------ second generated file: gen/PoolIds_gen.v
def parse_ids(repo: str) -> dict:
    meth = {k: _methods(open(f"{repo}/{FILES[k][0]}").read(), FILES[k][1]) for k in ("mtr", "ppr", "pr", "ctx")}
    for k, n in (("mtr", "_spawn_thread_runner_process"), ("ppr", "_spawn_persistent_process"),
                 ("pr", "runner_loop_iteration"), ("ctx", "new_child_context")):
        if n not in meth[k]:
            raise TranslateError(f"{FILES[k][1]}.{n} not found")
    return {
        "mtr_id_src": spawn_id_src(meth["mtr"]["_spawn_thread_runner_process"], "MultiThreadRunner._spawn_thread_runner_process",
                                   meth["mtr"]),
        "ppr_id_src": spawn_id_src(meth["ppr"]["_spawn_persistent_process"], "PersistentProcessRunner._spawn_persistent_process",
                                   meth["ppr"]),
        "pr_id_src": pr_id_src(meth["pr"], meth["ctx"]),
    }


def emit_ids(p: dict) -> str:
    return "\n".join([
        "(* GENERATED by harness/translate/pool_loops.py (translate_ids) from the spawn code of the three process runners:",
        "   MultiThreadRunner._spawn_thread_runner_process, PersistentProcessRunner._spawn_persistent_process,",
        "   ProcessRunner.runner_loop_iteration (+ RunnerContext.new_child_context).  Do not edit: rewritten on every check run. *)",
        "From PV Require Import Model.Pool.",
        "",
        "(* where the runner id under which a newly spawned worker is tracked comes from *)",
        f"Definition mtr_id_src : idsrc := {p['mtr_id_src']}.",
        f"Definition ppr_id_src : idsrc := {p['ppr_id_src']}.",
        f"Definition pr_id_src : idsrc := {p['pr_id_src']}.",
        "",
    ])


def translate_ids(repo: str) -> tuple[str, dict]:
    p = parse_ids(repo)
    return emit_ids(p), dict(p)


if __name__ == "__main__":
    import sys
    repo = sys.argv[1] if len(sys.argv) > 1 else "/repo"
    for fn in (translate, translate_ids):
        try:
            text, info = fn(repo)
            print(text)
            print(info, file=sys.stderr)
        except TranslateError as ex:
            print(f"{fn.__name__}: TranslateError: {ex}", file=sys.stderr)

"""Translator: pynmon (app.py, views/*.py, util/**/*.py)  ->  coq/gen/Routes_gen.v

What is generated
  gen_routes      every GET route (decorators of the routers that setup_routes includes + @app.get), with the
                  set of pynenc API methods reachable from its handler through pynmon's own call graph,
  gen_post_routes the same for the other HTTP methods (information only: "mutating actions are POST"),
  gen_qv          the normal form ("shape") of pynmon/views/broker.py:queue_view.

Fail-closed rules
  * a call/attribute whose name is a pynenc component/app/task/invocation method that the table below does
    not know, a mutator name on an unrecognised receiver, `getattr(...)(...)`-style dynamic dispatch on a
    component, a call of a name imported from pynenc that is not in the small pure list  ->  AUnknown
    (the model treats AUnknown as mutating, so `get_routes_read_only` stops checking);
  * a route decorator / router prefix / include_router that is not a plain literal -> TranslateError;
  * a queue_view whose body is not one of the recognised drain / read shapes     -> TranslateError.
  TranslateError makes the check fall back to coq/gen_default/Routes_gen.v (translator_degraded); the
  before/after read-out of every live route then decides on its own.
"""
from __future__ import annotations

import ast
import builtins
import os
import re

COMPONENTS = ("broker", "orchestrator", "state_backend", "trigger", "client_data_store", "runner",
              "arg_cache", "serializer")
# a bare local name that denotes the component itself (`runner` is commonly a loop variable over runner records)
ROOT_COMPONENTS = ("broker", "orchestrator", "state_backend", "trigger", "client_data_store")
HTTP_METHODS = ("get", "post", "put", "delete", "patch", "head", "options")

# ---------------------------------------------------------------------------------------------------
# API table: (component | "*", python name) -> constructor of Model/Monitor.v:api
READS = {
    ("broker", "count_invocations"): "ABrokerCount",
    ("broker", "peek_invocations"): "ABrokerPeek",
    ("orchestrator", "get_existing_invocations"): "AOrchExisting",
    ("orchestrator", "get_blocking_invocations"): "AOrchBlocking",
    ("orchestrator", "get_active_runners"): "AOrchActiveRunners",
    ("orchestrator", "count_invocations"): "AOrchCount",
    ("orchestrator", "get_invocation_ids_paginated"): "AOrchIdsPaginated",
    ("orchestrator", "get_task_invocation_ids"): "AOrchTaskIds",
    ("orchestrator", "get_call_invocation_ids"): "AOrchCallIds",
    ("orchestrator", "get_invocation_status"): "AOrchStatus",
    ("orchestrator", "get_invocation_status_record"): "AOrchStatusRecord",
    ("orchestrator", "get_invocation_retries"): "AOrchRetries",
    ("orchestrator", "filter_by_status"): "AOrchFilter",
    ("orchestrator", "filter_final"): "AOrchFilter",
    ("orchestrator", "get_pending_invocations_for_recovery"): "AOrchRecoveryScan",
    ("orchestrator", "get_running_invocations_for_recovery"): "AOrchRecoveryScan",
    ("state_backend", "get_invocation"): "ASbInvocation",
    ("state_backend", "get_result"): "ASbResult",
    ("state_backend", "get_exception"): "ASbException",
    ("state_backend", "get_history"): "ASbHistory",
    ("state_backend", "get_all_workflow_types"): "ASbWorkflowTypes",
    ("state_backend", "get_workflow_runs"): "ASbWorkflowRuns",
    ("state_backend", "get_all_workflow_runs"): "ASbAllWorkflowRuns",
    ("state_backend", "get_invocation_ids_by_workflow"): "ASbIdsByWorkflow",
    ("state_backend", "iter_history_in_timerange"): "ASbIterHistory",
    ("state_backend", "iter_invocations_in_timerange"): "ASbIterInvocations",
    ("state_backend", "get_runner_context"): "ASbRunnerContext",
    ("state_backend", "get_runner_contexts"): "ASbRunnerContexts",
    ("state_backend", "get_matching_runner_contexts"): "ASbMatchingRunnerContexts",
    ("state_backend", "get_child_invocations"): "ASbChildren",
    ("state_backend", "get_workflow_sub_invocations"): "ASbWorkflowSubs",
    ("state_backend", "get_workflow_data"): "ASbWorkflowData",
    ("state_backend", "get_app_info"): "ASbAppInfo",
    ("trigger", "get_condition"): "ATrigRead",
    ("trigger", "get_trigger"): "ATrigRead",
    ("trigger", "get_triggers_for_condition"): "ATrigRead",
    ("trigger", "get_conditions_sourced_from_task"): "ATrigRead",
    ("trigger", "get_valid_conditions"): "ATrigRead",
    ("trigger", "get_last_cron_execution"): "ATrigRead",
    ("app", "tasks"): "AAppTasks",
    ("app", "get_task"): "AAppGetTask",
    # lazily deserialised data of a loaded invocation / property reads through the orchestrator
    ("*", "status"): "AOrchStatus",
    ("*", "num_retries"): "AOrchRetries",
    ("*", "call"): "ACallData",
    ("*", "arguments"): "ACallData",
    ("*", "serialized_arguments"): "ACallData",
}
MUTATORS = {
    ("broker", "retrieve_invocation"): "ABrokerRetrieve",
    ("broker", "route_invocation"): "ABrokerRoute",
    ("broker", "route_invocations"): "ABrokerRouteMany",
    ("broker", "purge"): "ABrokerPurge",
    ("orchestrator", "purge"): "AOrchPurge",
    ("orchestrator", "auto_purge"): "AOrchPurge",
    ("orchestrator", "set_invocation_status"): "AOrchSetStatus",
    ("orchestrator", "set_invocation_result"): "AOrchSetOutcome",
    ("orchestrator", "set_invocation_exception"): "AOrchSetOutcome",
    ("orchestrator", "set_invocation_retry"): "AOrchSetOutcome",
    ("orchestrator", "register_runner_heartbeats"): "AOrchHeartbeat",
    ("orchestrator", "route_call"): "AOrchRouteCall",
    ("orchestrator", "route_calls"): "AOrchRouteCall",
    ("orchestrator", "register_new_invocations"): "AOrchRouteCall",
    ("orchestrator", "reroute_invocations"): "AOrchReroute",
    ("state_backend", "purge"): "ASbPurge",
    ("state_backend", "upsert_invocations"): "ASbUpsert",
    ("state_backend", "set_result"): "ASbSetResult",
    ("state_backend", "set_exception"): "ASbSetException",
    ("state_backend", "add_history"): "ASbAddHistory",
    ("state_backend", "add_histories"): "ASbAddHistory",
    ("state_backend", "store_runner_context"): "ASbStoreRunnerContext",
    ("state_backend", "store_workflow_run"): "ASbStoreWorkflow",
    ("state_backend", "store_workflow_sub_invocation"): "ASbStoreWorkflow",
    ("state_backend", "set_workflow_data"): "ASbStoreWorkflow",
    ("trigger", "purge"): "ATrigPurge",
    ("client_data_store", "purge"): "ACdsPurge",
    ("app", "purge"): "AAppPurge",
    ("*", "_call"): "ATaskCall",
}
# attribute of a component / of the app that is configuration or identity, not stored state
META_ATTRS = {"conf", "__class__", "tables", "sqlite_db_path", "app_id", "logger", "config_values", "config_filepath"}
# names imported from pynenc that pynmon may call without touching any component
PURE_PYNENC = {"InvocationId", "TaskId", "CallId", "InvocationStatus", "InvocationNotFoundError", "WorkflowIdentity",
               "RunnerContext", "ActiveRunnerInfo", "InvocationHistory", "Call", "Task", "DistributedInvocation",
               "Pynenc", "AppInfo", "BaseStateBackend", "calculate_time_slot", "PynencError"}
APP_GETTERS = {"get_pynenc_instance", "get_active_app"}
APP_NAMES = {"app", "pynenc", "active_app", "pynenc_instance", "app_instance"}

_BUILTIN_METHODS = set()
for _t in (str, list, dict, set, frozenset, tuple, bytes, int, float):
    _BUILTIN_METHODS |= {n for n in dir(_t) if not n.startswith("__")}
_BUILTIN_METHODS |= {"name", "value", "popleft", "appendleft", "total_seconds", "isoformat", "timestamp"}


class TranslateError(Exception):
    pass


# ---------------------------------------------------------------------------------------------------
def _chain(node: ast.AST) -> list[str] | None:
    """a.b.c -> ['a','b','c'] ; anything else at the root -> ['?', ...]"""
    parts: list[str] = []
    while isinstance(node, ast.Attribute):
        parts.append(node.attr)
        node = node.value
    if isinstance(node, ast.Name):
        parts.append(node.id)
    else:
        parts.append("?")
    return parts[::-1]


def pynenc_method_universe(repo: str) -> set[str]:
    """every method/property name defined by the classes pynmon can hold a reference to."""
    files = ["pynenc/broker/base_broker.py", "pynenc/orchestrator/base_orchestrator.py",
             "pynenc/state_backend/base_state_backend.py", "pynenc/trigger/base_trigger.py",
             "pynenc/client_data_store/base_client_data_store.py", "pynenc/runner/base_runner.py",
             "pynenc/app.py", "pynenc/task.py", "pynenc/invocation/base_invocation.py",
             "pynenc/invocation/dist_invocation.py", "pynenc/broker/mem_broker.py", "pynenc/broker/sqlite_broker.py"]
    names: set[str] = set()
    for f in files:
        p = os.path.join(repo, f)
        if not os.path.exists(p):
            continue
        for node in ast.walk(ast.parse(open(p).read())):
            if isinstance(node, ast.ClassDef):
                for s in node.body:
                    if isinstance(s, (ast.FunctionDef, ast.AsyncFunctionDef)) and not s.name.startswith("__"):
                        names.add(s.name)
    return names


class Module:
    def __init__(self, name: str, path: str):
        self.name = name
        self.tree = ast.parse(open(path).read())
        self.funcs: dict[str, ast.AST] = {}        # "f" or "Class.m" -> node
        self.imports: dict[str, tuple] = {}        # local name -> ("mod", module) | ("obj", module, name)
        self.pynenc_names: set[str] = set()
        for node in ast.walk(self.tree):
            if isinstance(node, ast.ImportFrom) and node.module:
                for a in node.names:
                    local = a.asname or a.name
                    if node.module.startswith("pynmon"):
                        self.imports[local] = ("obj", node.module, a.name)
                    elif node.module.startswith("pynenc"):
                        self.pynenc_names.add(local)
            elif isinstance(node, ast.Import):
                for a in node.names:
                    if a.name.startswith("pynmon"):
                        self.imports[a.asname or a.name.split(".")[0]] = ("mod", a.name)
        for node in self.tree.body:
            if isinstance(node, (ast.FunctionDef, ast.AsyncFunctionDef)):
                self.funcs[node.name] = node
            elif isinstance(node, ast.ClassDef):
                for s in node.body:
                    if isinstance(s, (ast.FunctionDef, ast.AsyncFunctionDef)):
                        self.funcs[f"{node.name}.{s.name}"] = s


def load_modules(repo: str) -> dict[str, Module]:
    mods: dict[str, Module] = {}
    root = os.path.join(repo, "pynmon")
    for d, _, names in os.walk(root):
        for n in sorted(names):
            if n.endswith(".py"):
                p = os.path.join(d, n)
                rel = os.path.relpath(p, repo)[:-3].replace(os.sep, ".")
                if rel.endswith(".__init__"):
                    rel = rel[:-9]
                mods[rel] = Module(rel, p)
    return mods


# ---------------------------------------------------------------------------------------------------
def _literal_str(node) -> str:
    if isinstance(node, ast.Constant) and isinstance(node.value, str):
        return node.value
    raise TranslateError("route path / prefix is not a string literal")


def extract_routes(mods: dict[str, Module]) -> list[dict]:
    appm = mods.get("pynmon.app")
    if appm is None or "setup_routes" not in appm.funcs:
        raise TranslateError("pynmon/app.py:setup_routes not found")
    included: list[str] = []
    view_alias: dict[str, str] = {}
    for node in ast.walk(appm.funcs["setup_routes"]):
        if isinstance(node, ast.ImportFrom) and node.module == "pynmon.views":
            for a in node.names:
                view_alias[a.asname or a.name] = "pynmon.views." + a.name
    for node in ast.walk(appm.funcs["setup_routes"]):
        if isinstance(node, ast.Call) and isinstance(node.func, ast.Attribute) and node.func.attr == "include_router":
            if node.keywords or len(node.args) != 1:
                raise TranslateError("include_router with extra arguments")
            ch = _chain(node.args[0])
            if len(ch) != 2 or ch[1] != "router" or ch[0] not in view_alias:
                raise TranslateError("include_router argument is not <view module>.router")
            included.append(view_alias[ch[0]])
    routes: list[dict] = []

    def decorated(modname: str, obj: str, prefix: str):
        m = mods[modname]
        for fname, fn in m.funcs.items():
            for dec in getattr(fn, "decorator_list", []):
                if not (isinstance(dec, ast.Call) and isinstance(dec.func, ast.Attribute)
                        and isinstance(dec.func.value, ast.Name) and dec.func.value.id == obj):
                    continue
                meth = dec.func.attr
                if meth in ("middleware", "exception_handler", "on_event"):
                    continue
                if meth == "api_route" or meth not in HTTP_METHODS:
                    raise TranslateError(f"unsupported route decorator {obj}.{meth}")
                if not dec.args:
                    raise TranslateError("route decorator without a path")
                routes.append({"method": meth.upper(), "path": prefix + _literal_str(dec.args[0]),
                               "module": modname, "func": fname})

    decorated("pynmon.app", "app", "")
    for modname in included:
        if modname not in mods:
            raise TranslateError(f"included view module {modname} not found")
        prefix = None
        for node in mods[modname].tree.body:
            if isinstance(node, ast.Assign) and len(node.targets) == 1 and isinstance(node.targets[0], ast.Name) \
                    and node.targets[0].id == "router":
                c = node.value
                if not (isinstance(c, ast.Call) and isinstance(c.func, ast.Name) and c.func.id == "APIRouter" and not c.args):
                    raise TranslateError(f"{modname}.router is not APIRouter(...)")
                prefix = ""
                for kw in c.keywords:
                    if kw.arg == "prefix":
                        prefix = _literal_str(kw.value)
                    elif kw.arg not in ("tags",):
                        raise TranslateError(f"APIRouter keyword {kw.arg}")
        if prefix is None:
            raise TranslateError(f"{modname} has no router")
        decorated(modname, "router", prefix)
    return routes


# ---------------------------------------------------------------------------------------------------
class Analysis:
    def __init__(self, repo: str):
        self.mods = load_modules(repo)
        self.universe = pynenc_method_universe(repo)
        self.known_names = {n for (_, n) in list(READS) + list(MUTATORS)}
        self.method_index: dict[str, list[tuple[str, str]]] = {}
        for mn, m in self.mods.items():
            for fn in m.funcs:
                self.method_index.setdefault(fn.split(".")[-1], []).append((mn, fn))
        self.unknown: dict[str, list[str]] = {}
        self._direct: dict[tuple[str, str], tuple[set, set]] = {}

    # -- one function: API constructors used directly + pynmon functions referenced
    def direct(self, mn: str, fn: str):
        key = (mn, fn)
        if key in self._direct:
            return self._direct[key]
        m = self.mods[mn]
        node = m.funcs[fn]
        apis: set[str] = set()
        edges: set[tuple[str, str]] = set()
        body = list(node.body)
        # argument defaults and decorators are evaluated at import time, not per request
        called_attr_ids = set()
        for n in ast.walk(ast.Module(body=body, type_ignores=[])):
            if isinstance(n, ast.Call):
                called_attr_ids.add(id(n.func))
                if isinstance(n.func, ast.Name) and n.func.id in ("getattr", "setattr", "delattr") and n.args:
                    ch = _chain(n.args[0])
                    if any(c in COMPONENTS for c in ch) or ch[0] in APP_NAMES:
                        dyn_ok = (n.func.id == "getattr" and len(n.args) >= 2 and isinstance(n.args[1], ast.Constant)
                                  and self.classify(None, str(n.args[1].value), mn, fn) is not None)
                        if dyn_ok:
                            apis.add(self.classify(None, str(n.args[1].value), mn, fn) or "AUnknown")
                        else:
                            self.note_unknown(mn, fn, f"{n.func.id}({'.'.join(ch)}, ...)")
                            apis.add("AUnknown")
        seen_attr: set[int] = set()
        for n in ast.walk(ast.Module(body=body, type_ignores=[])):
            if isinstance(n, ast.Attribute) and id(n) not in seen_attr:
                # only the outermost attribute of a chain is classified
                ch = _chain(n)
                inner = n.value
                while isinstance(inner, ast.Attribute):
                    seen_attr.add(id(inner))
                    inner = inner.value
                self.classify_chain(ch, m, mn, fn, apis, edges, is_call=id(n) in called_attr_ids)
            elif isinstance(n, ast.Name) and isinstance(n.ctx, ast.Load):
                self.resolve_name(n.id, m, mn, edges)
                if n.id in m.pynenc_names and n.id not in PURE_PYNENC:
                    self.note_unknown(mn, fn, f"pynenc name {n.id}")
                    apis.add("AUnknown")
        self._direct[key] = (apis, edges)
        return self._direct[key]

    def note_unknown(self, mn, fn, what):
        self.unknown.setdefault(f"{mn}.{fn}", []).append(what)

    def resolve_name(self, name: str, m: Module, mn: str, edges: set):
        if name in m.funcs:
            edges.add((mn, name))
        for k in m.funcs:
            if k.startswith(name + "."):          # a pynmon class used (constructed): all its methods
                edges.add((mn, k))
        imp = m.imports.get(name)
        if imp and imp[0] == "obj":
            tm = self.mods.get(imp[1])
            if tm is not None:
                if imp[2] in tm.funcs:
                    edges.add((imp[1], imp[2]))
                for k in tm.funcs:
                    if k.startswith(imp[2] + "."):
                        edges.add((imp[1], k))

    def classify(self, comp: str | None, name: str, mn: str, fn: str) -> str | None:
        """constructor for python name `name` on component `comp` (None = unknown receiver); None = not an API"""
        if comp is not None:
            for table in (MUTATORS, READS):
                if (comp, name) in table:
                    return table[(comp, name)]
            if name in META_ATTRS:
                return "AMeta"
            return "AUnknown"
        cands = [(c, v) for table in (MUTATORS, READS) for (c, n), v in table.items() if n == name]
        if not cands:
            return None
        if any((c, name) in MUTATORS for c, _ in cands):
            muts = {v for (c, v) in cands if (c, name) in MUTATORS}
            return muts.pop() if len(cands) == 1 else "AUnknown"     # e.g. x.purge() on an unknown receiver
        return cands[0][1]

    def classify_chain(self, ch, m: Module, mn, fn, apis: set, edges: set, is_call: bool):
        # pynmon module alias:  mod.func
        imp = m.imports.get(ch[0])
        if imp and imp[0] == "obj" and imp[1] + "." + imp[2] in self.mods and len(ch) >= 2:
            tm = self.mods[imp[1] + "." + imp[2]]
            if ch[1] in tm.funcs:
                edges.add((tm.name, ch[1]))
        # component somewhere in the chain
        for i, seg in enumerate(ch):
            if seg in COMPONENTS and (i > 0 or seg in ROOT_COMPONENTS):
                if i + 1 < len(ch):
                    c = self.classify(seg, ch[i + 1], mn, fn)
                    if c == "AUnknown":
                        self.note_unknown(mn, fn, ".".join(ch))
                    apis.add(c)
                else:
                    apis.add("AMeta")          # the component object itself is passed on
                return
        # app-level
        if ch[0] in APP_NAMES and len(ch) >= 2 and not (ch[0] == "app" and mn == "pynmon.app"):
            c = self.classify("app", ch[1], mn, fn)
            if c == "AUnknown":
                self.note_unknown(mn, fn, ".".join(ch))
            apis.add(c)
            return
        last = ch[-1]
        # every segment after the root is looked at (a.status.name -> status)
        for seg in ch[1:]:
            c = self.classify(None, seg, mn, fn)
            if c is not None:
                if c == "AUnknown":
                    self.note_unknown(mn, fn, ".".join(ch))
                apis.add(c)
            elif seg in self.universe and seg not in _BUILTIN_METHODS and seg not in self.method_index \
                    and is_call and seg == last:
                self.note_unknown(mn, fn, ".".join(ch) + "()  [pynenc method name not in the API table]")
                apis.add("AUnknown")
        # method of some pynmon class
        if is_call and last in self.method_index:
            for (tmn, tfn) in self.method_index[last]:
                if "." in tfn:
                    edges.add((tmn, tfn))

    def reach(self, mn: str, fn: str) -> tuple[set[str], set[tuple[str, str]]]:
        seen: set[tuple[str, str]] = set()
        apis: set[str] = set()
        todo = [(mn, fn)]
        while todo:
            k = todo.pop()
            if k in seen or k[0] not in self.mods or k[1] not in self.mods[k[0]].funcs:
                continue
            seen.add(k)
            a, e = self.direct(*k)
            apis |= a
            todo.extend(e)
        return apis, seen


# ---------------------------------------------------------------------------------------------------
# queue_view shape
def _calls_in(node, name: str) -> list[ast.Call]:
    return [n for n in ast.walk(node) if isinstance(n, ast.Call) and isinstance(n.func, ast.Attribute)
            and n.func.attr == name]


def queue_view_shape(mods: dict[str, Module], an: Analysis) -> tuple[str, dict]:
    m = mods.get("pynmon.views.broker")
    if m is None or "queue_view" not in m.funcs:
        raise TranslateError("pynmon/views/broker.py:queue_view not found")
    fn = m.funcs["queue_view"]
    apis, _ = an.reach("pynmon.views.broker", "queue_view")
    queue_muts = {"ABrokerRetrieve", "ABrokerRoute", "ABrokerRouteMany"}
    other_bad = {a for a in apis if a in set(MUTATORS.values()) | {"AUnknown"}} - queue_muts
    pops = _calls_in(fn, "retrieve_invocation")
    routes = _calls_in(fn, "route_invocation") + _calls_in(fn, "route_invocations")
    lookups = _calls_in(fn, "get_invocation")
    info = {"pops": len(pops), "routes": len(routes), "lookups": len(lookups)}
    if other_bad:
        raise TranslateError(f"queue_view reaches other mutators: {sorted(other_bad)}")

    def guarded(call: ast.Call, within: ast.AST) -> bool:
        for t in ast.walk(within):
            if isinstance(t, ast.Try) and t.handlers and any(c is call for s in t.body for c in ast.walk(s)):
                for h in t.handlers:
                    names = []
                    if h.type is None:
                        return True
                    for x in (h.type.elts if isinstance(h.type, ast.Tuple) else [h.type]):
                        names.append(x.id if isinstance(x, ast.Name) else getattr(x, "attr", "?"))
                    swallowed = not any(isinstance(s, ast.Raise) for b in h.body for s in ast.walk(b))
                    if swallowed and any(nm in ("Exception", "BaseException", "InvocationNotFoundError", "KeyError") for nm in names):
                        return True
        return False

    if not pops and not routes:
        g = all(guarded(c, fn) for c in lookups) if lookups else True
        return f"QVRead {_b(g)}", dict(info, shape="read")
    if len(pops) != 1:
        raise TranslateError("queue_view: more than one retrieve_invocation call site")
    # the pop loop: for _ in range(E)
    pop_loop = None
    for n in ast.walk(fn):
        if isinstance(n, ast.For) and any(c is pops[0] for c in ast.walk(n)):
            if pop_loop is None or any(x is n for x in ast.walk(pop_loop)):
                pop_loop = n          # innermost
    if pop_loop is None or pop_loop.orelse:
        raise TranslateError("queue_view: retrieve_invocation is not inside a plain for loop")
    it = pop_loop.iter
    if not (isinstance(it, ast.Call) and isinstance(it.func, ast.Name) and it.func.id == "range" and len(it.args) == 1):
        raise TranslateError("queue_view: pop loop is not `for _ in range(E)`")
    # names bound to broker.count_invocations()
    count_names = set()
    limit_names = {a.arg for a in fn.args.args + fn.args.kwonlyargs if a.arg == "limit"}
    for n in ast.walk(fn):
        if isinstance(n, ast.Assign) and len(n.targets) == 1 and isinstance(n.targets[0], ast.Name) \
                and isinstance(n.value, ast.Call) and isinstance(n.value.func, ast.Attribute) \
                and n.value.func.attr == "count_invocations" and "broker" in _chain(n.value.func):
            count_names.add(n.targets[0].id)
    e = it.args[0]
    if isinstance(e, ast.Name) and e.id in count_names:
        all_ = True
    elif isinstance(e, ast.Call) and isinstance(e.func, ast.Name) and e.func.id == "min" and len(e.args) == 2 \
            and all(isinstance(a, ast.Name) for a in e.args) \
            and {a.id for a in e.args} & count_names and {a.id for a in e.args} & limit_names:
        all_ = False
    else:
        raise TranslateError("queue_view: pop count is neither the queue size nor min(limit, queue size)")
    # the popped id must be bound by a walrus / assignment and tested for truth
    popped_var = None
    for n in ast.walk(pop_loop):
        if isinstance(n, ast.NamedExpr) and n.value is pops[0]:
            popped_var = n.target.id
        if isinstance(n, ast.Assign) and n.value is pops[0] and isinstance(n.targets[0], ast.Name):
            popped_var = n.targets[0].id
    if popped_var is None:
        raise TranslateError("queue_view: popped id is not bound to a name")
    inside = [c for c in lookups if any(x is c for x in ast.walk(pop_loop))]
    if lookups and len(inside) not in (0, len(lookups)):
        raise TranslateError("queue_view: lookups both inside and outside the pop loop")
    is_inside = bool(inside)
    is_guarded = all(guarded(c, fn) for c in lookups) if lookups else True
    # lists appended to inside the pop loop
    popped_lists, looked_lists = set(), set()
    for n in ast.walk(pop_loop):
        if isinstance(n, ast.Call) and isinstance(n.func, ast.Attribute) and n.func.attr == "append" \
                and isinstance(n.func.value, ast.Name) and len(n.args) == 1:
            a = n.args[0]
            if isinstance(a, ast.Name) and a.id == popped_var:
                popped_lists.add(n.func.value.id)
            elif any(x in lookups for x in ast.walk(a)):
                looked_lists.add(n.func.value.id)
            else:
                # a name assigned from a lookup inside the loop
                looked_lists.add(n.func.value.id) if is_inside else popped_lists.add(n.func.value.id)
    # the re-route
    if not routes:
        rr, fin = "RNone", False
    else:
        if len(routes) != 1:
            raise TranslateError("queue_view: more than one re-route call site")
        rc = routes[0]
        src = None
        if rc.func.attr == "route_invocations":
            if len(rc.args) == 1 and isinstance(rc.args[0], ast.Name):
                src = rc.args[0].id
        else:
            for n in ast.walk(fn):
                if isinstance(n, ast.For) and any(x is rc for x in ast.walk(n)) and isinstance(n.iter, ast.Name) \
                        and not any(x is n for x in ast.walk(pop_loop)):
                    src = n.iter.id
        if src is None or any(x is rc for x in ast.walk(pop_loop)):
            raise TranslateError("queue_view: re-route is not a loop over a collected list after the pop loop")
        if src in popped_lists:
            rr = "RPopped"
        elif src in looked_lists:
            rr = "RLooked"
        else:
            raise TranslateError(f"queue_view: re-route source {src} is not a list filled by the pop loop")
        fin = False
        for t in ast.walk(fn):
            if isinstance(t, ast.Try) and any(x is rc for s in t.finalbody for x in ast.walk(s)) \
                    and any(x is pop_loop for s in t.body for x in ast.walk(s)):
                fin = True
    shape = f"QVDrain {_b(all_)} {_b(is_inside)} {_b(is_guarded)} {rr} {_b(fin)}"
    return shape, dict(info, shape="drain", all=all_, inside=is_inside, guarded=is_guarded, reroute=rr, finally_=fin)


def _b(x: bool) -> str:
    return "true" if x else "false"


# ---------------------------------------------------------------------------------------------------
def model_constructors() -> set[str]:
    here = os.path.dirname(os.path.dirname(os.path.dirname(os.path.abspath(__file__))))
    src = open(os.path.join(here, "coq", "Model", "Monitor.v")).read()
    mm = re.search(r"Inductive api\s*:\s*Type\s*:=(.*?)\.\n", src, re.S)
    if not mm:
        raise TranslateError("Model/Monitor.v: Inductive api not found")
    return set(re.findall(r"\|\s*([A-Za-z0-9_]+)", mm.group(1)))


def default_shape() -> str:
    here = os.path.dirname(os.path.dirname(os.path.dirname(os.path.abspath(__file__))))
    src = open(os.path.join(here, "coq", "gen_default", "Routes_gen.v")).read()
    mm = re.search(r"Definition gen_qv : qv_shape := ([^.]+)\.", src)
    if not mm:
        raise TranslateError("default shape not found")
    return mm.group(1).strip()


def emit(routes: list[dict], qv: str) -> str:
    lines = ["(* GENERATED by harness/translate/routes.py from pynmon/app.py, pynmon/views/*.py, pynmon/util/**.",
             "   Do not edit: rewritten on every check run. *)",
             "From Coq Require Import String List Bool.",
             "Import ListNotations.",
             "From PV Require Import Model.Monitor.",
             "Local Open Scope string_scope.",
             ""]
    for name, sel in (("gen_routes", lambda r: r["method"] == "GET"), ("gen_post_routes", lambda r: r["method"] != "GET")):
        lines.append(f"Definition {name} : list route := [")
        items = []
        for r in routes:
            if sel(r):
                reach = "; ".join(r["reach"])
                items.append(f"  (* {r['method']} {r['module']}.{r['func']} *)\n"
                             f"  {{| r_path := \"{r['path']}\"; r_qv := {_b(r['qv'])}; r_reach := [{reach}] |}}")
        lines.append(";\n".join(items))
        lines.append("].")
        lines.append("")
    lines.append("(* normal form of pynmon/views/broker.py:queue_view *)")
    lines.append(f"Definition gen_qv : qv_shape := {qv}.")
    lines.append("")
    return "\n".join(lines)


def analyse(repo: str) -> dict:
    an = Analysis(repo)
    routes = extract_routes(an.mods)
    ctors = model_constructors()
    order = sorted(ctors)
    for r in routes:
        apis, fns = an.reach(r["module"], r["func"])
        bad = apis - ctors
        if bad:
            raise TranslateError(f"constructors not in Model/Monitor.v: {sorted(bad)}")
        r["reach"] = [a for a in order if a in apis]
        r["functions"] = len(fns)
        r["qv"] = False
    try:
        qv, qinfo = queue_view_shape(an.mods, an)
    except TranslateError as ex:
        # only the shape is unrecognised: keep the regenerated route table, take the committed default shape
        # (the check then relies on the before/after read-out and on model-vs-implementation of every request)
        qv = default_shape()
        qinfo = {"shape": "drain" if qv.startswith("QVDrain") else "read", "degraded": str(ex)}
    qmuts = {"ABrokerRetrieve", "ABrokerRoute", "ABrokerRouteMany"}
    for r in routes:
        if r["module"] == "pynmon.views.broker" and r["func"] == "queue_view" and qinfo["shape"] == "drain" \
                and (qmuts & set(r["reach"]) or not qinfo.get("degraded")):
            r["qv"] = True
    if qinfo.get("degraded") and qinfo["shape"] == "drain" and not any(r["qv"] for r in routes):
        raise TranslateError("queue_view shape unrecognised and no drain route left: " + qinfo["degraded"])
    return {"routes": routes, "qv": qv, "qv_info": qinfo, "unknown": an.unknown}


def translate(repo: str) -> tuple[str, dict]:
    a = analyse(repo)
    gets = [r for r in a["routes"] if r["method"] == "GET"]
    info = {"get_routes": len(gets), "other_routes": len(a["routes"]) - len(gets),
            "route_table": [[r["method"], r["path"], r["module"], r["func"]] for r in a["routes"]],
            "queue_view_shape": a["qv"], "queue_view_info": a["qv_info"],
            "unknown_calls": a["unknown"],
            "suspect_get_paths": sorted(r["path"] for r in gets if not r["qv"] and
                                        any(x in set(MUTATORS.values()) | {"AUnknown"} for x in r["reach"])),
            "api_methods_reached_by_get": sorted({x for r in gets for x in r["reach"]})}
    return emit(a["routes"], a["qv"]), info


if __name__ == "__main__":
    import json
    import sys
    text, info = translate(sys.argv[1] if len(sys.argv) > 1 else "/repo")
    print(text)
    print(json.dumps({k: v for k, v in info.items() if k != "route_table"}, indent=1), file=sys.stderr)

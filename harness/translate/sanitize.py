"""Translator: pynenc/util/sqlite_utils.py (sanitize_table_prefix, TableNames, delete_tables_with_prefix)
and the five per-component `Tables` classes  ->  coq/gen/Sanitize_gen.v

Fail-closed: every statement of the three anchored functions must have exactly the shape this
file knows; anything else raises TranslateError (the check then falls back to the committed
default and the differential correspondence decides).  What is extracted:

  gen_keep          character class kept by the regex  r"[^...]"   (ranges of code points)
  gen_repl          replacement text of re.sub
  gen_digit_guard   is the `if sanitized and sanitized[0].isdigit()` rule present; gen_digit_prefix
  gen_reserved_guard  is the `... or sanitized.lower().startswith("sqlite")` rule present; gen_reserved_word
  gen_default       the `sanitized or "<default>"` text ([] if the rule is absent)
  gen_hash_sep / gen_hash_len   f"{sanitized}<sep>{hash}" and hexdigest()[:N]  (0 if no hash is appended)
  gen_comp_sep      TableNames: f"{sanitize_table_prefix(app_id)}<sep>{component}"
  gen_vocab         per component file: the label passed to TableNames and every table suffix
  gen_purge         PurgeLike (name LIKE prefix||'%', every match emptied) or PurgeStructural
                    (the same query filtered by _owns_table: exact prefix + "_" and no "__" in the rest)
"""
from __future__ import annotations

import ast

COMPONENT_FILES = [
    "pynenc/broker/sqlite_broker.py",
    "pynenc/orchestrator/sqlite_orchestrator.py",
    "pynenc/state_backend/sqlite_state_backend.py",
    "pynenc/trigger/sqlite_trigger.py",
    "pynenc/client_data_store/sqlite_client_data_store.py",
]
LIKE_SQL = "SELECT name FROM sqlite_master WHERE type='table' AND name LIKE ?"
# canonical body of the helper introduced by proposed_fixes/C17-purge-structural-match.diff
OWNS_TABLE_SRC = 'def _owns_table(prefix, name):\n    return name.startswith(prefix + "_") and "__" not in name[len(prefix):]\n'


class TranslateError(Exception):
    pass


def _d(node) -> str:
    return ast.dump(node, include_attributes=False)


def _expr(src: str) -> str:
    return _d(ast.parse(src, mode="eval").body)


def _strip_doc(body):
    if body and isinstance(body[0], ast.Expr) and isinstance(body[0].value, ast.Constant) \
            and isinstance(body[0].value.value, str):
        return body[1:]
    return body


def _need(cond, msg):
    if not cond:
        raise TranslateError(msg)


def parse_class(pattern: str) -> list[tuple[int, int]]:
    """r"[^a-zA-Z0-9_]" -> kept ranges.  Only a single negated class of literals and ranges."""
    _need(len(pattern) >= 4 and pattern.startswith("[^") and pattern.endswith("]"), f"regex is not a single negated class: {pattern!r}")
    inner = pattern[2:-1]
    _need(not any(ch in inner for ch in "\\[]^"), f"unsupported regex class content: {pattern!r}")
    out = []
    i = 0
    while i < len(inner):
        if i + 2 < len(inner) and inner[i + 1] == "-":
            lo, hi = ord(inner[i]), ord(inner[i + 2])
            _need(lo <= hi, "bad range")
            out.append((lo, hi))
            i += 3
        else:
            out.append((ord(inner[i]), ord(inner[i])))
            i += 1
    return out


def _joined(node, names: list[str]):
    """f-string made of constants and plain {name} parts -> list of ('c', text) / ('v', name)."""
    _need(isinstance(node, ast.JoinedStr), "not an f-string")
    parts = []
    for v in node.values:
        if isinstance(v, ast.Constant) and isinstance(v.value, str):
            parts.append(("c", v.value))
        elif isinstance(v, ast.FormattedValue) and v.conversion == -1 and v.format_spec is None:
            parts.append(("v", _d(v.value)))
        else:
            raise TranslateError("unsupported f-string part")
    return parts


def parse_sanitize(fn: ast.FunctionDef) -> dict:
    _need([a.arg for a in fn.args.args] == ["app_id"], "sanitize_table_prefix signature changed")
    body = list(_strip_doc(fn.body))
    out = {"digit_guard": False, "digit_prefix": "", "default": "", "hash_len": 0, "hash_sep": "", "reserved_guard": False,
           "reserved_word": ""}
    _need(body, "empty body")
    s = body.pop(0)
    _need(isinstance(s, ast.Assign) and _d(s.targets[0]) == _expr("sanitized").replace("Load", "Store")
          and isinstance(s.value, ast.Call) and _d(s.value.func) == _expr("re.sub") and not s.value.keywords
          and len(s.value.args) == 3 and all(isinstance(a, ast.Constant) and isinstance(a.value, str) for a in s.value.args[:2])
          and _d(s.value.args[2]) == _expr("app_id"), "first statement is not sanitized = re.sub(<const>, <const>, app_id)")
    out["keep"] = parse_class(s.value.args[0].value)
    out["repl"] = s.value.args[1].value
    if body and isinstance(body[0], ast.If):
        s = body.pop(0)
        if _d(s.test) == _expr('sanitized and (sanitized[0].isdigit() or sanitized.lower().startswith("sqlite"))'):
            out["reserved_guard"], out["reserved_word"] = True, "sqlite"      # proposed_fixes/C17-reserved-sqlite-prefix.diff
        _need((out["reserved_guard"] or _d(s.test) == _expr("sanitized and sanitized[0].isdigit()")) and not s.orelse and len(s.body) == 1
              and isinstance(s.body[0], ast.Assign) and len(s.body[0].targets) == 1
              and isinstance(s.body[0].targets[0], ast.Name) and s.body[0].targets[0].id == "sanitized",
              "digit rule has an unknown shape")
        parts = _joined(s.body[0].value, [])
        _need(len(parts) == 2 and parts[0][0] == "c" and parts[1] == ("v", _expr("sanitized")), "digit rule f-string changed")
        out["digit_guard"], out["digit_prefix"] = True, parts[0][1]
    if body and isinstance(body[0], ast.Assign) and isinstance(body[0].value, ast.BoolOp):
        s = body.pop(0)
        v = s.value
        _need(isinstance(s.targets[0], ast.Name) and s.targets[0].id == "sanitized" and isinstance(v.op, ast.Or)
              and len(v.values) == 2 and _d(v.values[0]) == _expr("sanitized")
              and isinstance(v.values[1], ast.Constant) and isinstance(v.values[1].value, str), "default rule has an unknown shape")
        out["default"] = v.values[1].value
    if body and isinstance(body[0], ast.Assign):
        s = body.pop(0)
        _need(isinstance(s.targets[0], ast.Name) and s.targets[0].id == "hash_suffix" and isinstance(s.value, ast.Subscript)
              and _d(s.value.value) == _expr("hashlib.sha256(app_id.encode()).hexdigest()")
              and isinstance(s.value.slice, ast.Slice) and s.value.slice.lower is None and s.value.slice.step is None
              and isinstance(s.value.slice.upper, ast.Constant) and isinstance(s.value.slice.upper.value, int)
              and 0 <= s.value.slice.upper.value <= 64, "hash_suffix is not hashlib.sha256(app_id.encode()).hexdigest()[:N]")
        hash_len = s.value.slice.upper.value
    else:
        hash_len = None
    _need(len(body) == 1 and isinstance(body[0], ast.Return), "unexpected statements before return")
    r = body[0].value
    if isinstance(r, ast.Name) and r.id == "sanitized":
        out["hash_len"], out["hash_sep"] = 0, ""          # no hash appended
    else:
        parts = _joined(r, [])
        _need(len(parts) == 3 and parts[0] == ("v", _expr("sanitized")) and parts[1][0] == "c"
              and parts[2] == ("v", _expr("hash_suffix")) and hash_len is not None, "return is not f\"{sanitized}<sep>{hash_suffix}\"")
        out["hash_len"], out["hash_sep"] = hash_len, parts[1][1]
    return out


def parse_table_names(cls: ast.ClassDef) -> str:
    fns = [n for n in cls.body if isinstance(n, ast.FunctionDef)]
    _need(len(fns) == 1 and fns[0].name == "__init__" and [a.arg for a in fns[0].args.args] == ["self", "app_id", "component"],
          "TableNames changed")
    body = _strip_doc(fns[0].body)
    _need(len(body) == 1 and isinstance(body[0], (ast.Assign, ast.AnnAssign)), "TableNames.__init__ changed")
    tgt = body[0].target if isinstance(body[0], ast.AnnAssign) else body[0].targets[0]
    _need(_d(tgt) == _expr("self.table_prefix").replace("Load())", "Store())", 1)
          or (isinstance(tgt, ast.Attribute) and tgt.attr == "table_prefix"), "TableNames target changed")
    parts = _joined(body[0].value, [])
    _need(len(parts) == 3 and parts[0] == ("v", _expr("sanitize_table_prefix(app_id)")) and parts[1][0] == "c"
          and parts[2] == ("v", _expr("component")), "table_prefix is not f\"{sanitize_table_prefix(app_id)}<sep>{component}\"")
    return parts[1][1]


def parse_purge(fn: ast.FunctionDef, module: ast.Module) -> str:
    _need([a.arg for a in fn.args.args] == ["sqlite_db_path", "prefix"], "delete_tables_with_prefix signature changed")
    body = _strip_doc(fn.body)
    _need(len(body) == 1 and isinstance(body[0], ast.With), "delete_tables_with_prefix body changed")
    w = body[0]
    _need(len(w.items) == 1 and _d(w.items[0].context_expr) == _expr("create_sqlite_connection(sqlite_db_path)")
          and isinstance(w.items[0].optional_vars, ast.Name) and w.items[0].optional_vars.id == "conn", "with item changed")
    _need(len(w.body) == 4, "with body changed")
    sel, tr, loop, commit = w.body
    _need(isinstance(sel, ast.Assign) and isinstance(sel.targets[0], ast.Name) and sel.targets[0].id == "cursor"
          and isinstance(sel.value, ast.Call) and _d(sel.value.func) == _expr("conn.execute") and len(sel.value.args) == 2
          and isinstance(sel.value.args[0], ast.Constant) and isinstance(sel.value.args[0].value, str), "select changed")
    sql = " ".join(sel.value.args[0].value.split())
    _need(sql == LIKE_SQL, f"select statement changed: {sql!r}")
    par = sel.value.args[1]
    _need(isinstance(par, ast.Tuple) and len(par.elts) == 1, "select parameters changed")
    parts = _joined(par.elts[0], [])
    _need(parts == [("v", _expr("prefix")), ("c", "%")], "LIKE pattern is not f\"{prefix}%\"")
    _need(isinstance(tr, ast.Try) and len(tr.body) == 1 and isinstance(tr.body[0], ast.Assign) and not tr.handlers, "try changed")
    lc = tr.body[0].value
    _need(isinstance(tr.body[0].targets[0], ast.Name) and tr.body[0].targets[0].id == "tables" and isinstance(lc, ast.ListComp)
          and _d(lc.elt) == _expr("row[0]") and len(lc.generators) == 1 and _d(lc.generators[0].iter) == _expr("cursor.fetchall()")
          and isinstance(lc.generators[0].target, ast.Name) and lc.generators[0].target.id == "row", "table list changed")
    ifs = lc.generators[0].ifs
    _need(isinstance(loop, ast.For) and isinstance(loop.target, ast.Name) and loop.target.id == "table"
          and _d(loop.iter) == _expr("tables") and len(loop.body) == 1 and not loop.orelse
          and _d(loop.body[0]) == _d(ast.parse('conn.execute(f"DELETE FROM {table}")').body[0]), "delete loop changed")
    _need(_d(commit) == _d(ast.parse("conn.commit()").body[0]), "commit changed")
    if not ifs:
        return "PurgeLike"
    _need(len(ifs) == 1 and _d(ifs[0]) == _expr("_owns_table(prefix, row[0])"), "unknown table filter")
    helper = [n for n in module.body if isinstance(n, ast.FunctionDef) and n.name == "_owns_table"]
    _need(len(helper) == 1, "_owns_table missing")
    want = ast.parse(OWNS_TABLE_SRC).body[0]
    h = helper[0]
    _need([a.arg for a in h.args.args] == ["prefix", "name"] and
          [_d(s) for s in _strip_doc(h.body)] == [_d(s) for s in want.body], "_owns_table has an unknown body")
    return "PurgeStructural"


def parse_component(path: str, src: str) -> tuple[str, list[str]]:
    tree = ast.parse(src)
    classes = [n for n in tree.body if isinstance(n, ast.ClassDef) and n.name == "Tables"]
    _need(len(classes) == 1 and [_d(b) for b in classes[0].bases] == [_expr("TableNames")], f"{path}: no Tables(TableNames)")
    fns = [n for n in classes[0].body if isinstance(n, ast.FunctionDef)]
    _need(len(fns) == 1 and fns[0].name == "__init__" and [a.arg for a in fns[0].args.args] == ["self", "app_id"], f"{path}: Tables.__init__ changed")
    body = list(_strip_doc(fns[0].body))
    s = body.pop(0)
    _need(isinstance(s, ast.Expr) and isinstance(s.value, ast.Call) and _d(s.value.func) == _expr("super().__init__")
          and len(s.value.args) == 2 and _d(s.value.args[0]) == _expr("app_id") and isinstance(s.value.args[1], ast.Constant)
          and isinstance(s.value.args[1].value, str) and not s.value.keywords, f"{path}: super().__init__(app_id, <label>) changed")
    comp = s.value.args[1].value
    pvars = {_expr("self.table_prefix")}
    suffixes = []
    for s in body:
        _need(isinstance(s, ast.Assign) and len(s.targets) == 1, f"{path}: unexpected statement in Tables.__init__")
        t = s.targets[0]
        if isinstance(t, ast.Name) and _d(s.value) == _expr("self.table_prefix"):
            pvars.add(_expr(t.id))
            continue
        _need(isinstance(t, ast.Attribute) and isinstance(t.value, ast.Name) and t.value.id == "self", f"{path}: unexpected target")
        parts = _joined(s.value, [])
        _need(len(parts) == 2 and parts[0][0] == "v" and parts[0][1] in pvars and parts[1][0] == "c", f"{path}: table name is not f\"{{prefix}}<suffix>\"")
        suffixes.append(parts[1][1])
    _need(suffixes and len(set(suffixes)) == len(suffixes), f"{path}: no/duplicate table suffixes")
    # every purge goes through delete_tables_with_prefix(self.sqlite_db_path, self.tables.table_prefix)
    calls = [n for n in ast.walk(tree) if isinstance(n, ast.Call) and isinstance(n.func, ast.Name) and n.func.id == "delete_tables_with_prefix"]
    _need(len(calls) == 1 and [_d(a) for a in calls[0].args] == [_expr("self.sqlite_db_path"), _expr("self.tables.table_prefix")]
          and not calls[0].keywords, f"{path}: purge does not call delete_tables_with_prefix(self.sqlite_db_path, self.tables.table_prefix)")
    inst = [n for n in ast.walk(tree) if isinstance(n, ast.Assign) and _d(n.value) == _expr("Tables(app.app_id)")]
    _need(len(inst) == 1 and _d(inst[0].targets[0]).replace("Store", "Load") == _expr("self.tables"), f"{path}: self.tables = Tables(app.app_id) changed")
    return comp, suffixes


def coq_str(s: str) -> str:
    return "[" + "; ".join(str(ord(c)) for c in s) + "]"


def emit(p: dict) -> str:
    L = [
        "(* GENERATED by harness/translate/sanitize.py from pynenc/util/sqlite_utils.py and the five",
        "   sqlite component modules.  Do not edit: rewritten on every check run. *)",
        "From Coq Require Import List NArith Bool.",
        "Import ListNotations.",
        "From PV Require Import Model.SanitizeDef.",
        "Open Scope N_scope.",
        "",
        f"(* re.sub(r\"[^...]\", {p['repl']!r}, app_id) *)",
        "Definition gen_keep : list (N * N) := [" + "; ".join(f"({a}, {b})" for a, b in p["keep"]) + "].",
        f"Definition gen_repl : str := {coq_str(p['repl'])}.",
        f"Definition gen_digit_guard : bool := {'true' if p['digit_guard'] else 'false'}.",
        f"Definition gen_digit_prefix : str := {coq_str(p['digit_prefix'])}.   (* {p['digit_prefix']!r} *)",
        f"Definition gen_reserved_guard : bool := {'true' if p['reserved_guard'] else 'false'}.",
        f"Definition gen_reserved_word : str := {coq_str(p['reserved_word'])}.   (* {p['reserved_word']!r} *)",
        f"Definition gen_default : str := {coq_str(p['default'])}.   (* {p['default']!r} *)",
        f"Definition gen_hash_sep : str := {coq_str(p['hash_sep'])}.   (* {p['hash_sep']!r} *)",
        f"Definition gen_hash_len : nat := {p['hash_len']}.",
        f"Definition gen_comp_sep : str := {coq_str(p['comp_sep'])}.   (* {p['comp_sep']!r} *)",
        "",
        "(* component label, table suffixes (text after table_prefix) *)",
        "Definition gen_vocab : list (str * list str) := [",
    ]
    rows = []
    for comp, sufs in p["vocab"]:
        rows.append(f"  ({coq_str(comp)} (* {comp} *),\n   [" + ";\n    ".join(f"{coq_str(s)} (* {s} *)" for s in sufs) + "])")
    L.append(";\n".join(rows))
    L += ["].", "", f"Definition gen_purge : purge_kind := {p['purge']}.", ""]
    return "\n".join(L)


def parse_repo(repo: str) -> dict:
    src = open(f"{repo}/pynenc/util/sqlite_utils.py").read()
    tree = ast.parse(src)
    fns = {n.name: n for n in tree.body if isinstance(n, ast.FunctionDef)}
    classes = {n.name: n for n in tree.body if isinstance(n, ast.ClassDef)}
    _need("sanitize_table_prefix" in fns and "delete_tables_with_prefix" in fns and "TableNames" in classes, "anchored definitions missing")
    p = parse_sanitize(fns["sanitize_table_prefix"])
    p["comp_sep"] = parse_table_names(classes["TableNames"])
    p["purge"] = parse_purge(fns["delete_tables_with_prefix"], tree)
    p["vocab"] = [parse_component(f, open(f"{repo}/{f}").read()) for f in COMPONENT_FILES]
    _need(len({c for c, _ in p["vocab"]}) == len(p["vocab"]), "duplicate component labels")
    return p


def translate(repo: str) -> tuple[str, dict]:
    p = parse_repo(repo)
    info = {"purge": p["purge"], "hash_len": p["hash_len"], "reserved_guard": p["reserved_guard"], "components": [c for c, _ in p["vocab"]],
            "tables": sum(len(s) for _, s in p["vocab"]), "keep": p["keep"]}
    return emit(p), info


if __name__ == "__main__":
    import sys
    text, info = translate(sys.argv[1] if len(sys.argv) > 1 else "/repo")
    print(text)
    print(info, file=sys.stderr)

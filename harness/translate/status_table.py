"""Translator: pynenc/invocation/status.py:_CONFIG  ->  coq/gen/StatusTable_gen.v

Fail-closed: anything that is not the declarative shape
    _CONFIG = StatusConfiguration(definitions={ <None | InvocationStatus.X>: StatusDefinition(
        allowed_transitions=frozenset({InvocationStatus.Y, ...}) | frozenset(), <flag>=<True|False>, ...), ...})
raises TranslateError.  It also checks (by a normalised AST hash) that the three functions
the hand-written mirror Model/StatusImpl.v transcribes still have the shape it was written
against; a changed shape is reported as `shape_changed` (the caller then relies on the
exhaustive single-step correspondence, which is complete for those pure functions).
"""
from __future__ import annotations

import ast
import hashlib

STATUSES = [
    "REGISTERED", "CONCURRENCY_CONTROLLED", "CONCURRENCY_CONTROLLED_FINAL", "REROUTED",
    "PENDING", "PENDING_RECOVERY", "RUNNING", "RUNNING_RECOVERY", "PAUSED", "RESUMED",
    "KILLED", "SUCCESS", "FAILED", "RETRY",
]
FLAGS = ["is_final", "available_for_run", "requires_ownership", "acquires_ownership",
         "releases_ownership", "overrides_ownership"]

# normalised-AST hashes of the functions mirrored by Model/StatusImpl.v
EXPECTED_SHAPES = {
    "validate_transition": "7d0175d9f8cb",
    "validate_ownership": "8e123b0e8f02",
    "compute_new_owner": "6ff1d12c4390",
    "status_record_transition": "5e1fcc23570a",
}


class TranslateError(Exception):
    pass


def _status_name(node: ast.AST) -> str | None:
    """None constant -> None ; InvocationStatus.X -> 'X'."""
    if isinstance(node, ast.Constant) and node.value is None:
        return None
    if (isinstance(node, ast.Attribute) and isinstance(node.value, ast.Name)
            and node.value.id == "InvocationStatus" and node.attr in STATUSES):
        return node.attr
    raise TranslateError(f"unrecognised status expression: {ast.dump(node)}")


def _frozenset(node: ast.AST) -> list[str]:
    if not (isinstance(node, ast.Call) and isinstance(node.func, ast.Name)
            and node.func.id == "frozenset" and not node.keywords):
        raise TranslateError("allowed_transitions is not a frozenset(...) literal")
    if not node.args:
        return []
    if len(node.args) != 1 or not isinstance(node.args[0], (ast.Set, ast.List, ast.Tuple)):
        raise TranslateError("frozenset argument is not a literal collection")
    out = []
    for e in node.args[0].elts:
        n = _status_name(e)
        if n is None:
            raise TranslateError("None inside allowed_transitions")
        out.append(n)
    return sorted(set(out), key=STATUSES.index)


def _func_shape(fn: ast.FunctionDef) -> str:
    body = fn.body
    if body and isinstance(body[0], ast.Expr) and isinstance(body[0].value, ast.Constant) \
            and isinstance(body[0].value.value, str):
        body = body[1:]
    # f-string message texts are irrelevant to behaviour: blank every string constant
    h = hashlib.sha256()

    class Blank(ast.NodeTransformer):
        def visit_Constant(self, n):
            if isinstance(n.value, str):
                return ast.copy_location(ast.Constant(value=""), n)
            return n
    dump = "\n".join(ast.dump(Blank().visit(s), include_attributes=False) for s in body)
    h.update(dump.encode())
    return h.hexdigest()[:12]


def parse(source: str) -> dict:
    tree = ast.parse(source)
    # enum members
    members = None
    for node in tree.body:
        if isinstance(node, ast.ClassDef) and node.name == "InvocationStatus":
            members = [t.id for s in node.body if isinstance(s, ast.Assign)
                       for t in s.targets if isinstance(t, ast.Name)]
    if members is None or sorted(members) != sorted(STATUSES):
        raise TranslateError(f"InvocationStatus members differ from the modelled 14: {members}")
    cfg = None
    for node in tree.body:
        tgt = None
        if isinstance(node, ast.AnnAssign) and isinstance(node.target, ast.Name):
            tgt, val = node.target.id, node.value
        elif isinstance(node, ast.Assign) and len(node.targets) == 1 and isinstance(node.targets[0], ast.Name):
            tgt, val = node.targets[0].id, node.value
        if tgt == "_CONFIG":
            cfg = val
    if not (isinstance(cfg, ast.Call) and isinstance(cfg.func, ast.Name)
            and cfg.func.id == "StatusConfiguration" and not cfg.args
            and len(cfg.keywords) == 1 and cfg.keywords[0].arg == "definitions"
            and isinstance(cfg.keywords[0].value, ast.Dict)):
        raise TranslateError("_CONFIG is not StatusConfiguration(definitions={...})")
    d = cfg.keywords[0].value
    table: dict = {}
    for k, v in zip(d.keys, d.values):
        if k is None:
            raise TranslateError("dict unpacking in _CONFIG")
        name = _status_name(k)
        if name in table:
            raise TranslateError(f"duplicate key {name}")
        if not (isinstance(v, ast.Call) and isinstance(v.func, ast.Name)
                and v.func.id == "StatusDefinition" and not v.args):
            raise TranslateError(f"value for {name} is not StatusDefinition(...)")
        entry = {"allowed": [], **{f: False for f in FLAGS}}
        for kw in v.keywords:
            if kw.arg == "allowed_transitions":
                entry["allowed"] = _frozenset(kw.value)
            elif kw.arg in FLAGS:
                if not (isinstance(kw.value, ast.Constant) and isinstance(kw.value.value, bool)):
                    raise TranslateError(f"flag {kw.arg} of {name} is not a bool literal")
                entry[kw.arg] = kw.value.value
            else:
                raise TranslateError(f"unknown keyword {kw.arg}")
        table[name] = entry
    if set(table) != set(STATUSES) | {None}:
        raise TranslateError("table keys are not exactly the 14 statuses plus None")
    shapes = {}
    for node in tree.body:
        if isinstance(node, ast.FunctionDef) and node.name in EXPECTED_SHAPES:
            shapes[node.name] = _func_shape(node)
    return {"table": table, "shapes": shapes}


def _b(x: bool) -> str:
    return "true" if x else "false"


def emit(table: dict) -> str:
    lines = [
        "(* GENERATED by harness/translate/status_table.py from pynenc/invocation/status.py:_CONFIG.",
        "   Do not edit: rewritten on every check run. *)",
        "From Coq Require Import List Bool.",
        "Import ListNotations.",
        "From PV Require Import Model.Status Model.StatusDef.",
        "",
        "Definition gen_def (s : option status) : sdef :=",
        "  match s with",
    ]
    for name in [None] + STATUSES:
        e = table[name]
        pat = "None" if name is None else f"Some {name}"
        allowed = "[" + "; ".join(e["allowed"]) + "]"
        fields = "; ".join([f"allowed := {allowed}"] + [f"{f} := {_b(e[f])}" for f in FLAGS])
        lines.append(f"  | {pat} => {{| {fields} |}}")
    lines += ["  end.", ""]
    return "\n".join(lines)


def translate(repo: str) -> tuple[str, dict]:
    src = open(f"{repo}/pynenc/invocation/status.py").read()
    p = parse(src)
    info = {"shapes": p["shapes"],
            "shape_changed": sorted(k for k, v in EXPECTED_SHAPES.items() if p["shapes"].get(k) != v)}
    return emit(p["table"]), info


if __name__ == "__main__":
    import sys
    text, info = translate(sys.argv[1] if len(sys.argv) > 1 else "/repo")
    print(text)
    print(info, file=sys.stderr)

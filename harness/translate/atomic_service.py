"""Translator: pynenc/orchestrator/atomic_service.py  ->  coq/gen/AtomicService_gen.v   (property C12)

Expression-by-expression translation of
    calculate_time_slot, is_runner_in_time_slot, can_run_atomic_service
into Gallina functions over the arithmetic interface `Arith` of Model/AtomicArith.v (instantiated with
exact rationals and with binary64), keeping Python's operation order and int->float conversions, plus
the wiring facts of BaseOrchestrator.should_run_atomic_service (which list, which clock, which two
configuration fields reach can_run_atomic_service).

Fail-closed: every statement / expression form that is not recognised raises TranslateError (the caller
then falls back to coq/gen_default and relies on the bit-exact correspondence).

History-freedom: the generated functions take runner ids only - the execution history carried by ActiveRunnerInfo
(last_service_start / last_service_end, written by record_atomic_service_execution) is NOT a parameter of the model.
That is sound only while no value read from the history reaches the result of the three functions.  A separate,
deliberately tolerant data-flow pass (history_flow) decides this on the source; its verdict is emitted as the fact
`gen_history_free` (theorem authorisation_ignores_execution_history of Props/C12.v).  When the history DOES reach a
result the history-free model does not apply: the fact is emitted as false over the committed default definitions
(the proof of Props/C12.v then breaks) instead of silently degrading.
"""
from __future__ import annotations

import ast
import hashlib
import os

SRC = "pynenc/orchestrator/atomic_service.py"
ORCH = "pynenc/orchestrator/base_orchestrator.py"

# normalised-AST hash of the function mirrored by hand (Model/AtomicArith.v: position)
EXPECTED_SHAPES = {"calculate_runner_position": "3e9716da8f64"}


class TranslateError(Exception):
    pass


# ------------------------------------------------------------------------------------------ helpers
def _strip_doc(body):
    if body and isinstance(body[0], ast.Expr) and isinstance(body[0].value, ast.Constant) \
            and isinstance(body[0].value.value, str):
        return body[1:]
    return body


def _func_shape(fn: ast.FunctionDef) -> str:
    class Blank(ast.NodeTransformer):
        def visit_Constant(self, n):
            if isinstance(n.value, str):
                return ast.copy_location(ast.Constant(value=""), n)
            return n
    dump = "\n".join(ast.dump(Blank().visit(s), include_attributes=False) for s in _strip_doc(fn.body))
    return hashlib.sha256(dump.encode()).hexdigest()[:12]


def _ann(node) -> str:
    """parameter annotation -> 'int' | 'float' | 'str' | 'list' """
    if isinstance(node, ast.Name) and node.id in ("int", "float", "str"):
        return node.id
    if isinstance(node, ast.Subscript) and isinstance(node.value, ast.Name) and node.value.id == "list":
        return "list"
    if isinstance(node, ast.BinOp) and isinstance(node.op, ast.BitOr):      # list[...] | None
        l, r = node.left, node.right
        if isinstance(r, ast.Constant) and r.value is None:
            return _ann(l) + "?"
    raise TranslateError(f"unsupported annotation {ast.dump(node)}")


def _params(fn: ast.FunctionDef) -> list[tuple[str, str]]:
    a = fn.args
    if a.vararg or a.kwarg or a.kwonlyargs or a.posonlyargs:
        raise TranslateError(f"{fn.name}: unsupported signature")
    out = []
    for p in a.args:
        if p.annotation is None:
            raise TranslateError(f"{fn.name}: parameter {p.arg} has no annotation")
        out.append((p.arg, _ann(p.annotation)))
    return out


class Expr:
    """typed Gallina text"""

    def __init__(self, ty: str, text: str):
        self.ty, self.text = ty, text


def _coerce(e: Expr) -> str:
    if e.ty == "float":
        return e.text
    if e.ty == "int":
        return f"(ofZ A {e.text})"
    raise TranslateError(f"cannot use a {e.ty} as a number")


def _float_const(v: float) -> str:
    if v != v or v in (float("inf"), float("-inf")) or v < 0:
        raise TranslateError("unsupported float constant")
    num, den = v.as_integer_ratio()
    if num >= 2 ** 53 or den >= 2 ** 53:
        raise TranslateError("float constant outside the exactly convertible range")
    return f"(ofZ A {num})" if den == 1 else f"(div A (ofZ A {num}) (ofZ A {den}))"


def arith(node, env: dict[str, str]) -> Expr:
    """numeric expression -> Expr('int'|'float', text)"""
    if isinstance(node, ast.Name):
        if env.get(node.id) not in ("int", "float"):
            raise TranslateError(f"name {node.id} is not a known number here")
        return Expr(env[node.id], node.id)
    if isinstance(node, ast.Constant):
        if isinstance(node.value, bool):
            raise TranslateError("bool used as a number")
        if isinstance(node.value, int):
            if not 0 <= node.value < 2 ** 53:
                raise TranslateError("int constant outside the exactly convertible range")
            return Expr("int", str(node.value))
        if isinstance(node.value, float):
            return Expr("float", _float_const(node.value))
        raise TranslateError(f"constant {node.value!r}")
    if isinstance(node, ast.BinOp):
        l, r = arith(node.left, env), arith(node.right, env)
        op = type(node.op)
        if op in (ast.Add, ast.Sub, ast.Mult) and l.ty == "int" and r.ty == "int":
            sym = {ast.Add: "+", ast.Sub: "-", ast.Mult: "*"}[op]
            return Expr("int", f"({l.text} {sym} {r.text})%Z")
        name = {ast.Add: "add", ast.Sub: "sub", ast.Mult: "mul", ast.Div: "div", ast.Mod: "fmod"}.get(op)
        if name is None:
            raise TranslateError(f"operator {op.__name__}")
        if op is ast.Mod and (l.ty != "float" or r.ty != "float"):
            raise TranslateError("% on ints")
        return Expr("float", f"({name} A {_coerce(l)} {_coerce(r)})")
    raise TranslateError(f"expression {ast.dump(node)[:80]}")


def compare(node, env) -> str:
    """comparison chain over numbers -> bool text"""
    if not isinstance(node, ast.Compare):
        raise TranslateError("condition is not a comparison")
    terms = [node.left] + list(node.comparators)
    parts = []
    for op, a, b in zip(node.ops, terms, terms[1:]):
        ea, eb = arith(a, env), arith(b, env)
        if ea.ty == "int" and eb.ty == "int":
            sym = {ast.Eq: "=?", ast.LtE: "<=?", ast.Lt: "<?", ast.GtE: ">=?", ast.Gt: ">?"}.get(type(op))
            if sym is None:
                raise TranslateError("int comparison operator")
            parts.append(f"({ea.text} {sym} {eb.text})%Z")
            continue
        x, y = _coerce(ea), _coerce(eb)
        t = type(op)
        if t is ast.LtE:
            parts.append(f"(leb A {x} {y})")
        elif t is ast.Lt:
            parts.append(f"(ltb A {x} {y})")
        elif t is ast.GtE:
            parts.append(f"(leb A {y} {x})")
        elif t is ast.Gt:
            parts.append(f"(ltb A {y} {x})")
        else:
            raise TranslateError("float comparison operator")
    out = parts[0]
    for p in parts[1:]:
        out = f"(andb {out} {p})"
    return out


def _assigned_names(stmts) -> set[str]:
    out = set()
    for s in ast.walk(ast.Module(body=list(stmts), type_ignores=[])):
        if isinstance(s, ast.Name) and isinstance(s.ctx, ast.Store):
            out.add(s.id)
        if isinstance(s, ast.NamedExpr):
            out.add(s.target.id)
    return out


def _is_name(node, name=None) -> bool:
    return isinstance(node, ast.Name) and (name is None or node.id == name)


def _call_args(call: ast.Call, params: list[str]) -> dict[str, ast.AST]:
    if len(call.args) > len(params):
        raise TranslateError("too many arguments")
    out = dict(zip(params, call.args))
    for kw in call.keywords:
        if kw.arg is None or kw.arg not in params or kw.arg in out:
            raise TranslateError(f"bad keyword {kw.arg}")
        out[kw.arg] = kw.value
    return out


# ------------------------------------------------------------------------------------------ functions
def tr_time_slot(fn: ast.FunctionDef) -> tuple[str, dict]:
    params = _params(fn)
    want = [("runner_position", "int"), ("total_runners", "int"), ("service_interval_minutes", "float"),
            ("spread_margin_minutes", "float"), ("active_runners", "list?")]
    if params != want:
        raise TranslateError(f"calculate_time_slot signature changed: {params}")
    env = {n: t for n, t in params}
    lines = []
    end_expr = None
    ret = None
    body = _strip_doc(fn.body)
    for k, st in enumerate(body):
        if isinstance(st, ast.Assign) and len(st.targets) == 1 and _is_name(st.targets[0]):
            e = arith(st.value, env)
            name = st.targets[0].id
            if name in [p for p, _ in params]:
                raise TranslateError("assignment to a parameter")
            env[name] = e.ty
            if e.ty != "float":
                raise TranslateError(f"local {name} is not a float")
            lines.append(f"  let {name} := {e.text} in")
            if name == "runner_end_time" and end_expr is None:
                end_expr = st.value
        elif isinstance(st, ast.If) and _is_name(st.test, "active_runners"):
            # diagnostics on the execution history: may not touch anything the result depends on
            if st.orelse:
                raise TranslateError("history block has an else")
            touched = _assigned_names(st.body)
            later = {n.id for s2 in body[k + 1:] for n in ast.walk(s2) if isinstance(n, ast.Name)}
            if touched & later or touched & {p for p, _ in params}:
                raise TranslateError("history block assigns a name used afterwards")
            for n in ast.walk(ast.Module(body=st.body, type_ignores=[])):
                if isinstance(n, (ast.Return, ast.Raise, ast.Global, ast.Nonlocal, ast.Delete, ast.While, ast.For)):
                    raise TranslateError("history block has control flow")
                if isinstance(n, ast.Call) and not (_is_name(n.func, "validate_execution_time") or (
                        isinstance(n.func, ast.Attribute) and n.func.attr == "get_last_execution_duration_seconds")):
                    raise TranslateError("history block calls something unexpected")
        elif isinstance(st, ast.If):
            if st.orelse or len(st.body) != 1:
                raise TranslateError("if with else / several statements")
            b = st.body[0]
            if not (isinstance(b, ast.Assign) and len(b.targets) == 1 and _is_name(b.targets[0])):
                raise TranslateError("if body is not one assignment")
            name = b.targets[0].id
            if env.get(name) != "float":
                raise TranslateError("conditional assignment to an undefined name")
            c = compare(st.test, env)
            e = arith(b.value, env)
            lines.append(f"  let {name} := if {c} then {_coerce(e)} else {name} in")
        elif isinstance(st, ast.Return):
            if k != len(body) - 1:
                raise TranslateError("return is not last")
            if not (isinstance(st.value, ast.Tuple) and len(st.value.elts) == 2 and all(_is_name(x) for x in st.value.elts)):
                raise TranslateError("return is not a pair of names")
            ret = [x.id for x in st.value.elts]
            if any(env.get(x) != "float" for x in ret):
                raise TranslateError("returned names are not floats")
        else:
            raise TranslateError(f"statement {type(st).__name__} in calculate_time_slot")
    if ret is None:
        raise TranslateError("no return")
    text = ("Definition gen_calculate_time_slot (A : Arith) (runner_position total_runners : Z)\n"
            "    (service_interval_minutes spread_margin_minutes : T A) : T A * T A :=\n"
            + "\n".join(lines) + f"\n  ({ret[0]}, {ret[1]}).\n")
    return text, {"end_form": _end_form(end_expr, body)}


def _end_form(end_expr, body) -> str:
    """SumForm: start + size - margin;  NextStartForm: (position + 1) * size - margin.  Anything else: OtherForm.
    Only the exact canonical spellings count (Coq re-checks the claim by conversion)."""
    if end_expr is None:
        return "OtherForm"
    d = ast.dump(end_expr)
    canon_body = [
        "service_interval = service_interval_minutes * 60",
        "spread_margin = spread_margin_minutes * 60",
        "time_slot_size = service_interval / total_runners",
        "runner_start_time = runner_position * time_slot_size",
    ]
    pre = [ast.dump(ast.parse(s).body[0]) for s in canon_body]
    have = [ast.dump(s) for s in body[:4]]
    if pre != have:
        return "OtherForm"
    tail = [ast.dump(s) for s in body[5:6]]
    want_tail = [ast.dump(ast.parse(
        "if runner_end_time <= runner_start_time:\n    runner_end_time = runner_start_time + (time_slot_size / 2)").body[0])]
    if tail != want_tail:
        return "OtherForm"
    if d == ast.dump(ast.parse("runner_start_time + time_slot_size - spread_margin").body[0].value):
        return "SumForm"
    if d == ast.dump(ast.parse("(runner_position + 1) * time_slot_size - spread_margin").body[0].value):
        return "NextStartForm"
    return "OtherForm"


def tr_in_slot(fn: ast.FunctionDef) -> str:
    params = _params(fn)
    want = [("current_time", "float"), ("service_interval_minutes", "float"), ("start_time", "float"),
            ("end_time", "float")]
    if params != want:
        raise TranslateError(f"is_runner_in_time_slot signature changed: {params}")
    env = {n: t for n, t in params}
    lines = []
    body = _strip_doc(fn.body)
    for k, st in enumerate(body):
        if isinstance(st, ast.Assign) and len(st.targets) == 1 and _is_name(st.targets[0]):
            e = arith(st.value, env)
            if e.ty != "float":
                raise TranslateError("non-float local")
            env[st.targets[0].id] = "float"
            lines.append(f"  let {st.targets[0].id} := {e.text} in")
        elif isinstance(st, ast.Return) and k == len(body) - 1:
            lines.append("  " + compare(st.value, env) + ".")
        else:
            raise TranslateError(f"statement {type(st).__name__} in is_runner_in_time_slot")
    return ("Definition gen_is_runner_in_time_slot (A : Arith)\n"
            "    (current_time service_interval_minutes start_time end_time : T A) : bool :=\n" + "\n".join(lines) + "\n")


def _bool_const(node) -> str:
    if isinstance(node, ast.Constant) and isinstance(node.value, bool):
        return "true" if node.value else "false"
    raise TranslateError("return value is not a bool literal")


def tr_can_run(fn: ast.FunctionDef) -> str:
    params = _params(fn)
    want = [("runner_id", "str"), ("active_runners", "list"), ("current_time", "float"),
            ("service_interval_minutes", "float"), ("spread_margin_minutes", "float")]
    if params != want:
        raise TranslateError(f"can_run_atomic_service signature changed: {params}")
    env = {n: t for n, t in params}
    body = _strip_doc(fn.body)
    lines: list[str] = []
    closers = 0
    pending_match = None      # name bound by `match position ...` still waiting for its None branch
    for k, st in enumerate(body):
        last = k == len(body) - 1
        if isinstance(st, ast.If) and not st.orelse and len(st.body) == 1 and isinstance(st.body[0], ast.Return):
            rv = _bool_const(st.body[0].value)
            t = st.test
            if isinstance(t, ast.UnaryOp) and isinstance(t.op, ast.Not) and _is_name(t.operand) \
                    and env.get(t.operand.id) == "list":
                lines.append(f"  if is_empty {t.operand.id} then {rv} else")
            elif _is_name(t) and env.get(t.id) == "list":
                lines.append(f"  if negb (is_empty {t.id}) then {rv} else")
            elif isinstance(t, ast.Compare) and len(t.ops) == 1 and isinstance(t.ops[0], ast.Is) \
                    and _is_name(t.left) and isinstance(t.comparators[0], ast.Constant) and t.comparators[0].value is None:
                if pending_match != t.left.id:
                    raise TranslateError("`is None` test not directly after the position lookup")
                lines.append(f"  | None => {rv}\n  | Some {t.left.id} =>")
                env[t.left.id] = "int"
                pending_match = None
            else:
                lines.append(f"  if {compare(t, env)} then {rv} else")
        elif pending_match is not None:
            raise TranslateError("position used before its None test")
        elif isinstance(st, ast.Assign) and len(st.targets) == 1 and _is_name(st.targets[0]) \
                and isinstance(st.value, ast.Call) and _is_name(st.value.func):
            name, call = st.targets[0].id, st.value
            if call.func.id == "len" and len(call.args) == 1 and not call.keywords and _is_name(call.args[0]) \
                    and env.get(call.args[0].id) == "list":
                lines.append(f"  let {name} := len {call.args[0].id} in")
                env[name] = "int"
            elif call.func.id == "calculate_runner_position":
                a = _call_args(call, ["runner_id", "active_runners"])
                if not (_is_name(a.get("runner_id"), "runner_id") and _is_name(a.get("active_runners"), "active_runners")):
                    raise TranslateError("calculate_runner_position called with other arguments")
                lines.append(f"  match position runner_id active_runners with")
                pending_match = name
                closers += 1
            else:
                raise TranslateError(f"call to {call.func.id}")
        elif isinstance(st, ast.Assign) and len(st.targets) == 1 and isinstance(st.targets[0], ast.Tuple) \
                and isinstance(st.value, ast.Call) and _is_name(st.value.func, "calculate_time_slot"):
            names = [x.id for x in st.targets[0].elts if _is_name(x)]
            if len(names) != 2 or len(st.targets[0].elts) != 2:
                raise TranslateError("slot not unpacked into two names")
            a = _call_args(st.value, ["runner_position", "total_runners", "service_interval_minutes",
                                      "spread_margin_minutes", "active_runners"])
            if "active_runners" in a and not _is_name(a["active_runners"], "active_runners") and not (
                    isinstance(a["active_runners"], ast.Constant) and a["active_runners"].value is None):
                raise TranslateError("history argument is not the active list")
            args = []
            for p, ty in (("runner_position", "int"), ("total_runners", "int"),
                          ("service_interval_minutes", "float"), ("spread_margin_minutes", "float")):
                if p not in a:
                    raise TranslateError(f"missing argument {p}")
                e = arith(a[p], env)
                if ty == "int" and e.ty != "int":
                    raise TranslateError(f"{p} is not an int")
                args.append(e.text if ty == "int" else _coerce(e))
            lines.append(f"  let '({names[0]}, {names[1]}) := gen_calculate_time_slot A {' '.join(args)} in")
            env[names[0]] = env[names[1]] = "float"
        elif isinstance(st, ast.Return) and last:
            v = st.value
            if not (isinstance(v, ast.Call) and _is_name(v.func, "is_runner_in_time_slot")):
                raise TranslateError("final return is not is_runner_in_time_slot(...)")
            a = _call_args(v, ["current_time", "service_interval_minutes", "start_time", "end_time"])
            args = []
            for p in ("current_time", "service_interval_minutes", "start_time", "end_time"):
                if p not in a:
                    raise TranslateError(f"missing argument {p}")
                args.append(_coerce(arith(a[p], env)))
            lines.append(f"  gen_is_runner_in_time_slot A {' '.join(args)}")
        else:
            raise TranslateError(f"statement {type(st).__name__} in can_run_atomic_service")
    if pending_match is not None:
        raise TranslateError("position lookup without None test")
    return ("Definition gen_can_run_atomic_service (A : Arith) (runner_id : Z) (active_runners : list Z)\n"
            "    (current_time service_interval_minutes spread_margin_minutes : T A) : bool :=\n"
            + "\n".join(lines) + "\n" + "  end" * closers + ".\n")


# ------------------------------------------------------------------------------------------ wiring
def wiring(orch_src: str) -> dict[str, bool]:
    """Facts about BaseOrchestrator.should_run_atomic_service."""
    tree = ast.parse(orch_src)
    fn = None
    for node in ast.walk(tree):
        if isinstance(node, ast.FunctionDef) and node.name == "should_run_atomic_service":
            fn = node
    if fn is None:
        raise TranslateError("should_run_atomic_service not found")
    body = _strip_doc(fn.body)
    facts = {"heartbeat_first_eligible": False, "list_is_eligible_runners": False, "id_is_callers": False,
             "clock_is_time": False, "interval_from_conf": False, "margin_from_conf": False}
    list_var = None

    def attr_chain(n):
        out = []
        while isinstance(n, ast.Attribute):
            out.append(n.attr)
            n = n.value
        if isinstance(n, ast.Name):
            out.append(n.id)
        return ".".join(reversed(out))

    def kw_true(call, name):
        return any(kw.arg == name and isinstance(kw.value, ast.Constant) and kw.value.value is True for kw in call.keywords)

    for k, st in enumerate(body):
        if isinstance(st, ast.Expr) and isinstance(st.value, ast.Call) \
                and attr_chain(st.value.func) == "self.register_runner_heartbeats":
            c = st.value
            ids = c.args[0] if c.args else None
            ok_ids = isinstance(ids, ast.List) and len(ids.elts) == 1 and attr_chain(ids.elts[0]) == "runner_ctx.runner_id"
            if ok_ids and kw_true(c, "can_run_atomic_service") and list_var is None:
                facts["heartbeat_first_eligible"] = True
        elif isinstance(st, ast.Assign) and len(st.targets) == 1 and _is_name(st.targets[0]) \
                and isinstance(st.value, ast.Call) and attr_chain(st.value.func) == "self.get_active_runners":
            list_var = st.targets[0].id
            facts["list_is_eligible_runners"] = kw_true(st.value, "can_run_atomic_service") and not st.value.args
        elif isinstance(st, ast.Return) and isinstance(st.value, ast.Call) and _is_name(st.value.func, "can_run_atomic_service"):
            a = _call_args(st.value, ["runner_id", "active_runners", "current_time", "service_interval_minutes",
                                      "spread_margin_minutes"])
            facts["id_is_callers"] = "runner_id" in a and attr_chain(a["runner_id"]) == "runner_ctx.runner_id"
            facts["list_is_eligible_runners"] = facts["list_is_eligible_runners"] and _is_name(a.get("active_runners"), list_var)
            ct = a.get("current_time")
            facts["clock_is_time"] = isinstance(ct, ast.Call) and _is_name(ct.func, "time") and not ct.args and not ct.keywords
            facts["interval_from_conf"] = "service_interval_minutes" in a and attr_chain(
                a["service_interval_minutes"]) == "self.app.conf.atomic_service_interval_minutes"
            facts["margin_from_conf"] = "spread_margin_minutes" in a and attr_chain(
                a["spread_margin_minutes"]) == "self.app.conf.atomic_service_spread_margin_minutes"
        else:
            raise TranslateError(f"unrecognised statement in should_run_atomic_service: {type(st).__name__}")
    return facts


# ------------------------------------------------------------------------------------------ history flow
# what reads the execution history of an ActiveRunnerInfo
HISTORY_ACCESSORS = frozenset({"last_service_start", "last_service_end", "get_last_execution_duration_seconds"})
MODELLED = ("calculate_time_slot", "is_runner_in_time_slot", "can_run_atomic_service")


def _mentions(node, names) -> bool:
    for n in ast.walk(node):
        if isinstance(n, ast.Name) and n.id in names:
            return True
        if isinstance(n, ast.Attribute) and n.attr in names:
            return True
    return False


def history_readers(tree) -> set[str]:
    """names of the functions / methods of the module that (transitively) read the execution history"""
    H = set(HISTORY_ACCESSORS)
    defs = [n for n in ast.walk(tree) if isinstance(n, (ast.FunctionDef, ast.AsyncFunctionDef))]
    changed = True
    while changed:
        changed = False
        for fn in defs:
            if fn.name not in H and any(_mentions(st, H) for st in fn.body):
                H.add(fn.name)
                changed = True
    return H


def result_reads_history(fn: ast.FunctionDef, sources: set[str]) -> bool:
    """Does a value read through `sources` reach what `fn` returns (data flow through assignments / walrus /
    loop targets, control dependence of assignments, returns, raises and loop exits on a history-dependent test)?
    Flow-insensitive over the names of the function: errs towards True only for names that are re-used."""
    tainted: set[str] = set()
    result = [False]

    def et(e) -> bool:
        return e is not None and (_mentions(e, sources) or _mentions(e, tainted))

    def taint_target(t) -> bool:
        grew = False
        for n in ast.walk(t):
            if isinstance(n, ast.Name) and n.id not in tainted:
                tainted.add(n.id)
                grew = True
        return grew

    def walrus(e, ctrl) -> bool:
        grew = False
        if e is None:
            return False
        for n in ast.walk(e):
            if isinstance(n, ast.NamedExpr) and (ctrl or et(n.value)):
                grew |= taint_target(n.target)
        return grew

    def block(stmts, ctrl) -> bool:
        grew = False
        for st in stmts:
            for e in ast.iter_child_nodes(st):
                if isinstance(e, ast.expr):
                    grew |= walrus(e, ctrl)
            if isinstance(st, ast.Assign):
                if ctrl or et(st.value):
                    for t in st.targets:
                        grew |= taint_target(t)
            elif isinstance(st, (ast.AnnAssign, ast.AugAssign)):
                if st.value is not None and (ctrl or et(st.value)):
                    grew |= taint_target(st.target)
            elif isinstance(st, (ast.If, ast.While)):
                c = ctrl or et(st.test)
                grew |= block(st.body, c) | block(st.orelse, c)
            elif isinstance(st, (ast.For, ast.AsyncFor)):
                c = ctrl or et(st.iter)
                if c:
                    grew |= taint_target(st.target)
                grew |= block(st.body, c) | block(st.orelse, c)
            elif isinstance(st, (ast.With, ast.AsyncWith)):
                for it in st.items:
                    if it.optional_vars is not None and (ctrl or et(it.context_expr)):
                        grew |= taint_target(it.optional_vars)
                grew |= block(st.body, ctrl)
            elif isinstance(st, ast.Try):
                grew |= block(st.body, ctrl) | block(st.orelse, ctrl) | block(st.finalbody, ctrl)
                for h in st.handlers:
                    grew |= block(h.body, ctrl)
            elif isinstance(st, ast.Return):
                if ctrl or et(st.value):
                    result[0] = True
            elif isinstance(st, (ast.Raise, ast.Break, ast.Continue)):
                if ctrl:
                    result[0] = True
            elif isinstance(st, (ast.FunctionDef, ast.AsyncFunctionDef, ast.ClassDef)):
                if _mentions(st, sources):
                    grew |= taint_target(ast.Name(id=st.name, ctx=ast.Store()))
        return grew

    while block(_strip_doc(fn.body), False):
        pass
    block(_strip_doc(fn.body), False)
    return result[0]


def history_flow(tree, fns) -> dict[str, bool]:
    """{modelled function: its result is independent of the execution history}"""
    readers = history_readers(tree)
    base = set(readers) - set(MODELLED)
    slot_reads = result_reads_history(fns["calculate_time_slot"], base)
    in_reads = result_reads_history(fns["is_runner_in_time_slot"], base)
    inner = base | ({"calculate_time_slot"} if slot_reads else set()) | ({"is_runner_in_time_slot"} if in_reads else set())
    can_reads = result_reads_history(fns["can_run_atomic_service"], inner)
    return {"calculate_time_slot": not slot_reads, "is_runner_in_time_slot": not in_reads,
            "can_run_atomic_service": not can_reads}


def _history_fact_text(free: dict[str, bool]) -> str:
    b = lambda x: "true" if x else "false"   # noqa: E731
    return ("(* no value read from the execution history (last_service_start / last_service_end) reaches the result of\n"
            "   calculate_time_slot, is_runner_in_time_slot, can_run_atomic_service: the model takes runner ids only *)\n"
            "Definition gen_history_free : list bool :=\n  ("
            + " :: ".join(b(free[k]) for k in MODELLED) + " :: nil)%list.\n")


def _default_with_history_fact(free: dict[str, bool]) -> str:
    """the committed default definitions with the history fact of THIS source (used when the history reaches a result)"""
    import re
    path = os.path.join(os.path.dirname(os.path.dirname(os.path.dirname(os.path.abspath(__file__)))),
                        "coq", "gen_default", "AtomicService_gen.v")
    text = open(path).read()
    pat = re.compile(r"\(\* no value read from the execution history.*?nil\)%list\.\n", re.S)
    if not pat.search(text):
        raise TranslateError("default file has no gen_history_free")
    return pat.sub(lambda _m: _history_fact_text(free), text, count=1)


# ------------------------------------------------------------------------------------------ driver
def translate(repo: str) -> tuple[str, dict]:
    src = open(f"{repo}/{SRC}").read()
    tree = ast.parse(src)
    fns = {n.name: n for n in tree.body if isinstance(n, ast.FunctionDef)}
    for need in ("calculate_time_slot", "is_runner_in_time_slot", "can_run_atomic_service", "calculate_runner_position"):
        if need not in fns:
            raise TranslateError(f"{need} not found")
    free = history_flow(tree, fns)
    if not all(free.values()):
        # the history-free model does not describe this source: say so in Coq (Props/C12.v stops building)
        return _default_with_history_fact(free), {
            "history_free": free, "history_reaches_result": True, "end_form": "unknown (history reaches the result)",
            "wiring": {}, "shapes": {}, "shape_changed": []}
    slot_text, slot_info = tr_time_slot(fns["calculate_time_slot"])
    in_text = tr_in_slot(fns["is_runner_in_time_slot"])
    can_text = tr_can_run(fns["can_run_atomic_service"])
    facts = wiring(open(f"{repo}/{ORCH}").read())
    shapes = {"calculate_runner_position": _func_shape(fns["calculate_runner_position"])}
    b = lambda x: "true" if x else "false"   # noqa: E731
    text = "\n".join([
        "(* GENERATED by harness/translate/atomic_service.py from pynenc/orchestrator/atomic_service.py",
        "   (+ the call in base_orchestrator.py:should_run_atomic_service).  Do not edit: rewritten on every check run. *)",
        "From Coq Require Import ZArith List Bool.",
        "From PV Require Import Model.AtomicArith.",
        "",
        slot_text,
        in_text,
        can_text,
        f"Definition gen_end_form : end_form := {slot_info['end_form']}.",
        "",
        "(* should_run_atomic_service: heartbeat (eligible) first; the list is get_active_runners(eligible only);",
        "   the caller's own id; the wall clock; the two configuration fields *)",
        "Definition gen_wiring : list bool :=",
        "  (" + " :: ".join(b(facts[k]) for k in ("heartbeat_first_eligible", "list_is_eligible_runners", "id_is_callers",
                                                 "clock_is_time", "interval_from_conf", "margin_from_conf")) + " :: nil)%list.",
        "",
        _history_fact_text(free),
    ])
    info = {"end_form": slot_info["end_form"], "wiring": facts, "shapes": shapes, "history_free": free,
            "history_reaches_result": False,
            "shape_changed": sorted(k for k, v in EXPECTED_SHAPES.items() if shapes.get(k) != v)}
    return text, info


if __name__ == "__main__":
    import sys
    t, i = translate(sys.argv[1] if len(sys.argv) > 1 else "/repo")
    print(t)
    print(i, file=sys.stderr)

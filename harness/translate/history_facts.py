"""Translator: how BaseOrchestrator writes history -> coq/gen/HistoryFacts_gen.v.  Fail-closed.

  history_after_transition     : set_invocation_status calls add_history after _atomic_status_transition, unconditionally
  history_uses_returned_record : the record passed to add_history is the value returned by _atomic_status_transition
  history_names_requester      : add_history receives the requester's runner context (the one whose runner_id was validated)
  registration_writes_history  : register_new_invocations calls add_histories with the record returned by _register_new_invocations
  mem_history_append_atomic    : MemStateBackend._add_histories stores an entry with one `self._history[i].append(e)` on a defaultdict(list)
"""
from __future__ import annotations

import ast


class TranslateError(Exception):
    pass


def _method(tree, cls, name):
    for node in tree.body:
        if isinstance(node, ast.ClassDef) and node.name == cls:
            for s in node.body:
                if isinstance(s, ast.FunctionDef) and s.name == name:
                    return s
    raise TranslateError(f"{cls}.{name} not found")


def _top_calls(fn):
    """(lineno, kind, node) for top-level statements of the body"""
    out = []
    for s in fn.body:
        if isinstance(s, ast.Assign) and isinstance(s.value, ast.Call):
            out.append((s.lineno, "assign", s))
        elif isinstance(s, ast.Expr) and isinstance(s.value, ast.Call):
            out.append((s.lineno, "call", s))
    return out


def translate(repo: str):
    tree = ast.parse(open(f"{repo}/pynenc/orchestrator/base_orchestrator.py").read())
    fn = _method(tree, "BaseOrchestrator", "set_invocation_status")
    tops = _top_calls(fn)
    trans = [(ln, s) for ln, k, s in tops if isinstance(s.value.func, ast.Attribute)
             and s.value.func.attr == "_atomic_status_transition"]
    hist = [(ln, s) for ln, k, s in tops if k == "call" and isinstance(s.value.func, ast.Attribute) and s.value.func.attr == "add_history"]
    all_hist = [n for n in ast.walk(fn) if isinstance(n, ast.Call) and isinstance(n.func, ast.Attribute) and n.func.attr in ("add_history", "add_histories")]
    if len(trans) != 1 or len(all_hist) != 1:
        raise TranslateError("set_invocation_status: expected one `x = self._atomic_status_transition(...)` and one add_history call")
    after = len(hist) == 1 and hist[0][0] > trans[0][0]
    # the record the transition returned: bound to a name, or dropped (then whatever reaches add_history is not it)
    tgt = trans[0][1].targets[0] if isinstance(trans[0][1], ast.Assign) else None
    if tgt is not None and not isinstance(tgt, ast.Name):
        raise TranslateError("transition result is not bound to a name")
    targs = trans[0][1].value.args
    uses = False
    names_req = False
    if hist:
        hargs = hist[0][1].value.args
        if len(hargs) != 3:
            raise TranslateError("add_history: expected (invocation_id, record, runner_ctx)")
        uses = tgt is not None and isinstance(hargs[1], ast.Name) and hargs[1].id == tgt.id
        # requester: transition got <ctx>.runner_id, add_history got <ctx>
        if len(targs) == 3 and isinstance(targs[2], ast.Attribute) and targs[2].attr == "runner_id" and isinstance(targs[2].value, ast.Name):
            names_req = isinstance(hargs[2], ast.Name) and hargs[2].id == targs[2].value.id
        same_inv = ast.dump(hargs[0]) == ast.dump(targs[0])
        if not same_inv:
            uses = False
    reg = _method(tree, "BaseOrchestrator", "register_new_invocations")
    rt = _top_calls(reg)
    rreg = [(ln, s) for ln, k, s in rt if k == "assign" and isinstance(s.value.func, ast.Attribute) and s.value.func.attr == "_register_new_invocations"]
    rh = [(ln, s) for ln, k, s in rt if k == "call" and isinstance(s.value.func, ast.Attribute) and s.value.func.attr == "add_histories"]
    regok = False
    if len(rreg) == 1 and len(rh) == 1 and rh[0][0] > rreg[0][0]:
        t = rreg[0][1].targets[0]
        a = rh[0][1].value.args
        regok = isinstance(t, ast.Name) and len(a) == 3 and isinstance(a[1], ast.Name) and a[1].id == t.id \
            and ast.dump(a[0]) == ast.dump(rreg[0][1].value.args[0])
    # the in-memory writer: `for i in ids: self._history[i].append(entry)` on a defaultdict(list) — one atomic call per entry
    mtree = ast.parse(open(f"{repo}/pynenc/state_backend/mem_state_backend.py").read())
    ah = _method(mtree, "MemStateBackend", "_add_histories")
    body = [b for b in ah.body if not (isinstance(b, ast.Expr) and isinstance(b.value, ast.Constant))]
    append_atomic = False
    if len(body) == 1 and isinstance(body[0], ast.For) and len(body[0].body) == 1 and isinstance(body[0].body[0], ast.Expr):
        c = body[0].body[0].value
        append_atomic = (isinstance(c, ast.Call) and isinstance(c.func, ast.Attribute) and c.func.attr == "append"
                         and isinstance(c.func.value, ast.Subscript) and isinstance(c.func.value.value, ast.Attribute)
                         and c.func.value.value.attr == "_history" and len(c.args) == 1)
    init = _method(mtree, "MemStateBackend", "__init__")
    inits = [n for n in ast.walk(init) if isinstance(n, (ast.Assign, ast.AnnAssign)) and "_history" in ast.dump(n.targets[0] if isinstance(n, ast.Assign) else n.target)]
    if len(inits) != 1 or inits[0].value is None:
        raise TranslateError("MemStateBackend.__init__: expected one initialisation of _history")
    v = inits[0].value
    append_atomic = append_atomic and isinstance(v, ast.Call) and isinstance(v.func, ast.Name) and v.func.id == "defaultdict" \
        and len(v.args) == 1 and isinstance(v.args[0], ast.Name) and v.args[0].id == "list"
    # the flush (wait_for_all_async_operations) joins every writer that was ever tracked: `invocation_threads` only grows by
    # `.append(thread)` in add_history / add_histories and is never rebuilt, filtered or shrunk (a tracked thread that has not
    # started yet, or one that is slow, must still be waited for); the joins are unbounded (no timeout argument)
    stree = ast.parse(open(f"{repo}/pynenc/state_backend/base_state_backend.py").read())
    tracked = True
    for node in ast.walk(stree):
        if isinstance(node, (ast.Assign, ast.AugAssign, ast.AnnAssign)):
            tgts = node.targets if isinstance(node, ast.Assign) else [node.target]
            for t in tgts:
                if isinstance(t, ast.Subscript) and "invocation_threads" in ast.dump(t.value):
                    tracked = False                      # self.invocation_threads[k] = ...   (a rebuilt list)
        if isinstance(node, ast.Delete) and any("invocation_threads" in ast.dump(t) for t in node.targets):
            tracked = False
        if isinstance(node, ast.Call) and isinstance(node.func, ast.Attribute) and node.func.attr in ("pop", "remove", "clear", "popitem") \
                and "invocation_threads" in ast.dump(node.func.value):
            tracked = False
    for fn_name in ("wait_for_invocation_async_operations", "wait_for_all_async_operations"):
        fn = _method(stree, "BaseStateBackend", fn_name)
        for c in ast.walk(fn):
            if isinstance(c, ast.Call) and isinstance(c.func, ast.Attribute) and c.func.attr == "join" and (c.args or c.keywords):
                tracked = False                          # a bounded join may return before the writer has run
    # every writer thread created in the class is appended to invocation_threads[...] before it is started, in the function that
    # creates it; add_history and add_histories each create their writer there or through helper methods of the class
    cls = [n for n in stree.body if isinstance(n, ast.ClassDef) and n.name == "BaseStateBackend"][0]
    methods = {m.name: m for m in cls.body if isinstance(m, ast.FunctionDef)}
    has_site: dict[str, bool] = {}
    for name, m in methods.items():
        creations = [c for c in ast.walk(m) if isinstance(c, ast.Call) and (
            (isinstance(c.func, ast.Attribute) and c.func.attr == "Thread") or (isinstance(c.func, ast.Name) and c.func.id == "Thread"))]
        has_site[name] = bool(creations)
        bound = {id(a.value): a.targets[0].id for a in ast.walk(m) if isinstance(a, ast.Assign) and len(a.targets) == 1
                 and isinstance(a.targets[0], ast.Name)}
        for c in creations:
            var = bound.get(id(c))
            if var is None:
                tracked = False                          # a writer that is not bound to a name cannot have been tracked
                continue
            app = [x.lineno for x in ast.walk(m) if isinstance(x, ast.Call) and isinstance(x.func, ast.Attribute) and x.func.attr == "append"
                   and "invocation_threads" in ast.dump(x.func.value) and len(x.args) == 1 and isinstance(x.args[0], ast.Name) and x.args[0].id == var]
            starts = [x.lineno for x in ast.walk(m) if isinstance(x, ast.Call) and isinstance(x.func, ast.Attribute) and x.func.attr == "start"
                      and isinstance(x.func.value, ast.Name) and x.func.value.id == var]
            if len(app) != 1 or len(starts) != 1 or not (c.lineno <= app[0] < starts[0]):
                tracked = False

    def reaches(name: str, depth: int = 0) -> bool:
        if name not in methods or depth > 3:
            return False
        if has_site[name]:
            return True
        return any(reaches(c.func.attr, depth + 1) for c in ast.walk(methods[name]) if isinstance(c, ast.Call)
                   and isinstance(c.func, ast.Attribute) and isinstance(c.func.value, ast.Name) and c.func.value.id == "self")
    if not (reaches("add_history") and reaches("add_histories")):
        tracked = False
    f = {"history_writers_stay_tracked": tracked, "mem_history_append_atomic": append_atomic, "history_after_transition": after, "history_uses_returned_record": uses, "history_names_requester": names_req,
         "registration_writes_history": regok}
    lines = ["(* GENERATED by harness/translate/history_facts.py from base_orchestrator.py *)", ""]
    for k, v in f.items():
        lines.append(f"Definition {k} : bool := {'true' if v else 'false'}.")
    return "\n".join(lines) + "\n", {"facts": f}


if __name__ == "__main__":
    import sys
    t, i = translate(sys.argv[1] if len(sys.argv) > 1 else "/repo")
    print(t)
    print(i, file=sys.stderr)

"""Translator: thread_runner.py / base_orchestrator.py -> coq/gen/RunnerFacts_gen.v.  Fail-closed.

  waiting_frees_slot : _reclaim_available_slots counts only threads that are NOT in waiting_invocation_ids against the
                       slots, and _waiting_for_results puts the waiting invocation into that set
  blocking_first     : get_invocations_to_run serves get_blocking_invocations_to_run before the queue
  stop_kills_alive_before_join / stop_reroutes_dead_after_join / kill_then_reroute / kill_ignores_final : shape of
                       ThreadRunner._on_stop and BaseRunner._kill_and_reroute (used by C11)
"""
from __future__ import annotations

import ast


class TranslateError(Exception):
    pass


def _method(tree, cls, name):
    for node in tree.body:
        if isinstance(node, ast.ClassDef) and node.name == cls:
            for s in node.body:
                if isinstance(s, ast.FunctionDef) and s.name == name:
                    return s
    raise TranslateError(f"{cls}.{name} not found")


def _calls(fn, attr):
    return [n for n in ast.walk(fn) if isinstance(n, ast.Call) and isinstance(n.func, ast.Attribute) and n.func.attr == attr]


def translate(repo: str):
    tr = ast.parse(open(f"{repo}/pynenc/runner/thread_runner.py").read())
    rec = _method(tr, "ThreadRunner", "_reclaim_available_slots")
    d = ast.dump(rec)
    ret = [n for n in ast.walk(rec) if isinstance(n, ast.Return)]
    if len(ret) != 1 or "max_parallel_slots" not in ast.dump(ret[0]) or not isinstance(ret[0].value, ast.BinOp) \
            or not isinstance(ret[0].value.op, ast.Sub):
        raise TranslateError("_reclaim_available_slots: return is not `max_parallel_slots - len(...)`")
    comps = [n for n in ast.walk(rec) if isinstance(n, ast.ListComp)]
    frees = False
    if len(comps) == 1 and len(comps[0].generators) == 1:
        g = comps[0].generators[0]
        if len(g.ifs) == 1 and isinstance(g.ifs[0], ast.Compare) and isinstance(g.ifs[0].ops[0], ast.NotIn) \
                and "waiting_invocation_ids" in ast.dump(g.ifs[0].comparators[0]) and "threads" in ast.dump(g.iter):
            frees = True
        elif not g.ifs and "threads" in ast.dump(g.iter):
            frees = False
        else:
            raise TranslateError("_reclaim_available_slots: unrecognised comprehension")
    elif "len(self.threads)" in ast.unparse(ret[0]):
        frees = False
    else:
        raise TranslateError("_reclaim_available_slots: unrecognised shape")
    if "is_alive" not in d or "discard" not in d:
        raise TranslateError("_reclaim_available_slots: dead threads are not dropped from threads / the waiting set")
    wf = _method(tr, "ThreadRunner", "_waiting_for_results")
    adds = [c for c in _calls(wf, "add") if "waiting_invocation_ids" in ast.dump(c.func)]
    if frees and len(adds) != 1:
        frees = False
    # ---- get_invocations_to_run
    bo = ast.parse(open(f"{repo}/pynenc/orchestrator/base_orchestrator.py").read())
    g = _method(bo, "BaseOrchestrator", "get_invocations_to_run")
    b = _calls(g, "get_blocking_invocations_to_run")
    a = _calls(g, "get_additional_invocations_to_run")
    if len(a) != 1:
        raise TranslateError("get_invocations_to_run: expected one get_additional_invocations_to_run")
    blocking_first = len(b) == 1 and b[0].lineno < a[0].lineno
    # ---- stop path
    st = _method(tr, "ThreadRunner", "_on_stop")
    loops = [n for n in st.body if isinstance(n, ast.For)]
    # the stop deals with ONE entry of the thread table at a time (kill + re-queue + join of that entry) — a stop that first
    # re-queues every alive entry and only then joins them takes a running child away from under a parent it then waits for
    def has(loop, name):
        return any(isinstance(n, ast.Call) and isinstance(n.func, ast.Attribute) and n.func.attr == name for n in ast.walk(loop))
    one_at_a_time = len(loops) == 1
    if len(loops) > 1 and any(has(l, "_kill_and_reroute") and not has(l, "join") for l in loops) and any(has(l, "join") for l in loops):
        one_at_a_time = False
        loops = [l for l in loops if has(l, "join")][:1]
    elif len(loops) != 1:
        raise TranslateError("_on_stop: expected one loop over the thread table")
    ifs = [n for n in loops[0].body if isinstance(n, ast.If)]
    if one_at_a_time and (len(ifs) != 1 or "is_alive" not in ast.dump(ifs[0].test)):
        raise TranslateError("_on_stop: expected `if thread.is_alive(): ... else: ...`")
    if not one_at_a_time:
        ifs = [ast.parse("if x:\n    self._kill_and_reroute(i)\n    t.join()\nelse:\n    t.join()\n    self._kill_and_reroute(i)").body[0]]
    def order(stmts):
        out = []
        for s in stmts:
            for n in ast.walk(s):
                if isinstance(n, ast.Call) and isinstance(n.func, ast.Attribute) and n.func.attr in ("_kill_and_reroute", "join"):
                    out.append((n.lineno, n.func.attr))
        return [x for _, x in sorted(out)]
    alive, dead = order(ifs[0].body), order(ifs[0].orelse)
    base = ast.parse(open(f"{repo}/pynenc/runner/base_runner.py").read())
    kr = _method(base, "BaseRunner", "_kill_and_reroute")
    kd = ast.dump(kr)
    sets = _calls(kr, "set_invocation_status")
    rer = _calls(kr, "reroute_invocations")
    kill_then = len(sets) == 1 and "KILLED" in ast.dump(sets[0]) and len(rer) == 1 and sets[0].lineno < rer[0].lineno
    tries = [n for n in kr.body if isinstance(n, ast.Try)]
    # a refused KILLED / REROUTED can be a transition refusal (final, already released) or an ownership refusal (another runner
    # holds it by now): both must be swallowed — a handler for their common base class, or one handler for each
    caught: set[str] = set()
    for t in tries:
        for h in t.handlers:
            if h.type is None:
                caught.add("*")
            else:
                caught |= {n.id for n in ast.walk(h.type) if isinstance(n, ast.Name)} | {n.attr for n in ast.walk(h.type) if isinstance(n, ast.Attribute)}
    covers = bool(caught & {"*", "Exception", "PynencError", "InvocationStatusError"}) or \
        {"InvocationStatusTransitionError", "InvocationStatusOwnershipError"} <= caught
    ignores = bool(tries) and covers \
        and not any(isinstance(x, ast.Raise) for t in tries for h in t.handlers for x in ast.walk(h))
    f = {"waiting_frees_slot": frees, "blocking_first": blocking_first,
         "stop_kills_alive_before_join": alive == ["_kill_and_reroute", "join"],
         "stop_reroutes_dead_after_join": dead == ["join", "_kill_and_reroute"],
         "kill_then_reroute": kill_then, "kill_ignores_refusal": ignores, "stop_one_entry_at_a_time": one_at_a_time}
    del kd
    lines = ["(* GENERATED by harness/translate/runner_facts.py from thread_runner.py / base_runner.py / base_orchestrator.py *)", ""]
    for k, v in f.items():
        lines.append(f"Definition {k} : bool := {'true' if v else 'false'}.")
    return "\n".join(lines) + "\n", {"facts": f}


if __name__ == "__main__":
    import sys
    t, i = translate(sys.argv[1] if len(sys.argv) > 1 else "/repo")
    print(t)
    print(i, file=sys.stderr)

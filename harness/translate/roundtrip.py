"""Translator for C15:  pynenc/call.py:compute_args_id, identifiers/{call_id,task_id}.py,
arguments.py:Arguments.from_call, client_data_store/base_client_data_store.py,
serializer/{constants,json_serializer}.py   ->   coq/gen/Roundtrip_gen.v

Fail-closed: every function is matched against the declarative shape written below; anything
else raises TranslateError (the caller then falls back to coq/gen_default/Roundtrip_gen.v and
the differential correspondence decides).  What is extracted are exactly the constants and
structural facts the theorems of Props/C15.v are stated over:
  gen_enc   sorted keys?  json.dumps on key / value?  the separator bytes, the empty-map literal;
            gen_args_text_whole: the WHOLE key and value text is hashed (no slice)
  gen_keys  the separators of CallId.key / TaskId.key and the from-the-right split
  gen_bind  apply_defaults() present?
  gen_cds   comparison operators of _maybe_store, reference prefix/separator, pass-through of
            reference-like strings, WHAT the process-local LRU holds (object or text), whether
            _maybe_store writes the backend row unconditionally or skips keys remembered in a
            process-local set, and whether purge() forgets that set
  gen_json  reserved keys + envelope field names on the encoder and on the decoder side, order of
            the decoder's tests
  gen_args_hash_full / gen_key_hash_full   whole SHA-256 hex digest used (collision oracle)
"""
from __future__ import annotations

import ast


class TranslateError(Exception):
    pass


def _fail(msg: str):
    raise TranslateError(msg)


def _body(fn: ast.FunctionDef) -> list[ast.stmt]:
    b = fn.body
    if b and isinstance(b[0], ast.Expr) and isinstance(b[0].value, ast.Constant) and isinstance(b[0].value.value, str):
        b = b[1:]
    return b


def _find_func(tree: ast.AST, name: str, cls: str | None = None) -> ast.FunctionDef:
    scope = tree.body
    if cls is not None:
        c = [n for n in tree.body if isinstance(n, ast.ClassDef) and n.name == cls]
        if len(c) != 1:
            _fail(f"class {cls} not found")
        scope = c[0].body
    f = [n for n in scope if isinstance(n, ast.FunctionDef) and n.name == name]
    if len(f) != 1:
        _fail(f"function {cls + '.' if cls else ''}{name} not found")
    return f[0]


def _d(node: ast.AST) -> str:
    return ast.dump(node, include_attributes=False)


def _is_attr_chain(node: ast.AST, dotted: str) -> bool:
    parts = dotted.split(".")
    cur = node
    for p in reversed(parts[1:]):
        if not (isinstance(cur, ast.Attribute) and cur.attr == p):
            return False
        cur = cur.value
    return isinstance(cur, ast.Name) and cur.id == parts[0]


def _const_str(node: ast.AST) -> str:
    if isinstance(node, ast.Constant) and isinstance(node.value, str):
        return node.value
    _fail(f"not a str literal: {_d(node)}")


# ------------------------------------------------------------------ call.py
def parse_compute_args_id(src: str) -> dict:
    fn = _find_func(ast.parse(src), "compute_args_id")
    if [a.arg for a in fn.args.args] != ["serialized_args"]:
        _fail("compute_args_id signature changed")
    b = _body(fn)
    if len(b) != 4:
        _fail(f"compute_args_id: expected 4 statements, got {len(b)}")
    s0, s1, s2, s3 = b
    # if not serialized_args: return "<literal>"
    if not (isinstance(s0, ast.If) and isinstance(s0.test, ast.UnaryOp) and isinstance(s0.test.op, ast.Not)
            and isinstance(s0.test.operand, ast.Name) and s0.test.operand.id == "serialized_args"
            and len(s0.body) == 1 and isinstance(s0.body[0], ast.Return) and not s0.orelse):
        _fail("compute_args_id: empty-map guard not recognised")
    empty_id = _const_str(s0.body[0].value)
    # hasher = hashlib.sha256()
    if not (isinstance(s1, ast.Assign) and len(s1.targets) == 1 and isinstance(s1.targets[0], ast.Name)
            and isinstance(s1.value, ast.Call) and _is_attr_chain(s1.value.func, "hashlib.sha256")
            and not s1.value.args and not s1.value.keywords):
        _fail("compute_args_id: hasher is not hashlib.sha256()")
    hname = s1.targets[0].id
    # for k in sorted(serialized_args.keys()):
    if not (isinstance(s2, ast.For) and isinstance(s2.target, ast.Name) and not s2.orelse):
        _fail("compute_args_id: loop not recognised")
    kname = s2.target.id

    def is_keys(n):
        return (isinstance(n, ast.Name) and n.id == "serialized_args") or (
            isinstance(n, ast.Call) and _is_attr_chain(n.func, "serialized_args.keys") and not n.args and not n.keywords)
    it = s2.iter
    if isinstance(it, ast.Call) and isinstance(it.func, ast.Name) and it.func.id == "sorted" \
            and len(it.args) == 1 and not it.keywords and is_keys(it.args[0]):
        sort_keys = True
    elif is_keys(it):
        sort_keys = False
    else:
        _fail("compute_args_id: loop iterable not recognised")

    def is_k(n):
        return isinstance(n, ast.Name) and n.id == kname

    def is_v(n):
        return (isinstance(n, ast.Subscript) and isinstance(n.value, ast.Name) and n.value.id == "serialized_args"
                and is_k(n.slice))

    sliced: set = set()

    def classify(n, env):
        """-> ('key'|'val', quoted); a slice of the key / value text (x[:N], x[a:b]) is recorded in `sliced`:
        only part of the text reaches the hash (structural fact gen_args_text_whole)"""
        if isinstance(n, ast.Name) and n.id in env:
            return env[n.id]
        if isinstance(n, ast.Subscript) and isinstance(n.slice, ast.Slice):
            what, quoted = classify(n.value, env)
            sliced.add(what)
            return (what, quoted)
        if is_k(n):
            return ("key", False)
        if is_v(n):
            return ("val", False)
        if isinstance(n, ast.Call) and _is_attr_chain(n.func, "json.dumps") and len(n.args) == 1:
            kw = {k.arg: k.value for k in n.keywords}
            if set(kw) != {"ensure_ascii"} or not (isinstance(kw["ensure_ascii"], ast.Constant)
                                                   and kw["ensure_ascii"].value is False):
                _fail("compute_args_id: json.dumps without ensure_ascii=False (escaping of non-ASCII not modelled)")
            what, quoted = classify(n.args[0], env)
            if quoted:
                _fail("compute_args_id: double quoting")
            return (what, True)
        _fail(f"compute_args_id: expression not recognised: {_d(n)}")

    env: dict = {}
    segs: list = []
    for st in s2.body:
        if isinstance(st, ast.Assign) and len(st.targets) == 1 and isinstance(st.targets[0], ast.Name):
            env[st.targets[0].id] = classify(st.value, env)
        elif (isinstance(st, ast.Expr) and isinstance(st.value, ast.Call)
              and _is_attr_chain(st.value.func, f"{hname}.update") and len(st.value.args) == 1 and not st.value.keywords):
            a = st.value.args[0]
            if isinstance(a, ast.Constant) and isinstance(a.value, bytes):
                segs.append(("lit", a.value))
            elif (isinstance(a, ast.Call) and isinstance(a.func, ast.Attribute) and a.func.attr == "encode"
                  and (not a.args or (len(a.args) == 1 and isinstance(a.args[0], ast.Constant)
                                      and str(a.args[0].value).lower().replace("-", "") == "utf8")) and not a.keywords):
                segs.append(classify(a.func.value, env))
            else:
                _fail(f"compute_args_id: update argument not recognised: {_d(a)}")
        else:
            _fail(f"compute_args_id: loop statement not recognised: {_d(st)}")
    kinds = [s[0] for s in segs]
    shapes = {("key", "lit", "val", "lit"): (1, 3), ("key", "lit", "val"): (1, None), ("key", "val", "lit"): (None, 2),
              ("key", "val"): (None, None)}
    if tuple(kinds) not in shapes:
        _fail(f"compute_args_id: update sequence {kinds} is not key [sep] value [sep]")
    i_kv, i_it = shapes[tuple(kinds)]
    kv_sep = segs[i_kv][1] if i_kv is not None else b""
    item_sep = segs[i_it][1] if i_it is not None else b""
    quote_key = [s for s in segs if s[0] == "key"][0][1]
    quote_val = [s for s in segs if s[0] == "val"][0][1]
    # return hasher.hexdigest()
    if not isinstance(s3, ast.Return):
        _fail("compute_args_id: no final return")
    r = s3.value
    full = (isinstance(r, ast.Call) and _is_attr_chain(r.func, f"{hname}.hexdigest") and not r.args)
    if not full:
        if not (isinstance(r, ast.Subscript) and isinstance(r.value, ast.Call)
                and _is_attr_chain(r.value.func, f"{hname}.hexdigest")):
            _fail("compute_args_id: return value not recognised")
    return {"sort_keys": sort_keys, "quote_key": quote_key, "quote_val": quote_val, "kv_sep": kv_sep.decode("latin1"),
            "item_sep": item_sep.decode("latin1"), "empty_id": empty_id, "args_hash_full": bool(full),
            "args_text_whole": not sliced}


# ------------------------------------------------------------------ identifiers
def parse_keys(call_src: str, task_src: str) -> dict:
    ct = ast.parse(call_src)
    key = _find_func(ct, "key", "CallId")
    b = _body(key)
    if not (len(b) == 1 and isinstance(b[0], ast.Return) and isinstance(b[0].value, ast.BinOp)
            and isinstance(b[0].value.op, ast.Add) and isinstance(b[0].value.left, ast.BinOp)
            and _is_attr_chain(b[0].value.left.left, "self.task_id.key")
            and _is_attr_chain(b[0].value.right, "self.args_id")):
        _fail("CallId.key shape")
    call_sep = _const_str(b[0].value.left.right)
    fk = _find_func(ct, "from_key", "CallId")
    rs = [n for n in ast.walk(fk) if isinstance(n, ast.Call) and isinstance(n.func, ast.Attribute)
          and n.func.attr in ("rsplit", "split", "partition", "rpartition")]
    if not (len(rs) == 1 and rs[0].func.attr == "rsplit" and len(rs[0].args) == 2
            and _const_str(rs[0].args[0]) == call_sep and isinstance(rs[0].args[1], ast.Constant) and rs[0].args[1].value == 1):
        _fail("CallId.from_key is not key.rsplit(sep, 1)")
    rets = [n for n in ast.walk(fk) if isinstance(n, ast.Return)]
    if not (len(rets) == 1 and isinstance(rets[0].value, ast.Call) and len(rets[0].value.keywords) == 2):
        _fail("CallId.from_key return shape")
    tt = ast.parse(task_src)
    seps = [n for n in tt.body if isinstance(n, ast.Assign) and isinstance(n.targets[0], ast.Name)
            and n.targets[0].id == "TASK_ID_SEPARATOR"]
    if len(seps) != 1:
        _fail("TASK_ID_SEPARATOR not found")
    task_sep = _const_str(seps[0].value)
    tk = _body(_find_func(tt, "key", "TaskId"))
    if not (len(tk) == 1 and isinstance(tk[0], ast.Return) and isinstance(tk[0].value, ast.BinOp)
            and isinstance(tk[0].value.left, ast.BinOp) and _is_attr_chain(tk[0].value.left.left, "self.module")
            and isinstance(tk[0].value.left.right, ast.Name) and tk[0].value.left.right.id == "TASK_ID_SEPARATOR"
            and _is_attr_chain(tk[0].value.right, "self.func_name")):
        _fail("TaskId.key shape")
    tf = _find_func(tt, "from_key", "TaskId")
    rp = [n for n in ast.walk(tf) if isinstance(n, ast.Call) and isinstance(n.func, ast.Attribute)
          and n.func.attr in ("rsplit", "split", "partition", "rpartition")]
    if not (len(rp) == 1 and rp[0].func.attr == "rpartition" and len(rp[0].args) == 1
            and isinstance(rp[0].args[0], ast.Name) and rp[0].args[0].id == "TASK_ID_SEPARATOR"):
        _fail("TaskId.from_key is not key.rpartition(TASK_ID_SEPARATOR)")
    rejects = any(isinstance(n, ast.If) and isinstance(n.test, ast.BoolOp) and isinstance(n.test.op, ast.Or)
                  and all(isinstance(v, ast.UnaryOp) and isinstance(v.op, ast.Not) for v in n.test.values)
                  and len(n.test.values) == 2 and any(isinstance(x, ast.Raise) for x in n.body)
                  for n in ast.walk(tf))
    if len(call_sep) != 1 or len(task_sep) != 1:
        _fail("multi-character separators are not modelled")
    return {"call_sep": call_sep, "task_sep": task_sep, "task_rejects_empty": rejects}


# ------------------------------------------------------------------ arguments.py
def parse_from_call(src: str) -> dict:
    fn = _find_func(ast.parse(src), "from_call", "Arguments")
    b = _body(fn)
    if not (fn.args.vararg and fn.args.kwarg and [a.arg for a in fn.args.args] == ["cls", "func"]):
        _fail("from_call signature")
    if len(b) not in (3, 4):
        _fail("from_call: statement count")
    s = b[0]
    if not (isinstance(s, ast.Assign) and isinstance(s.value, ast.Call) and _is_attr_chain(s.value.func, "inspect.signature")
            and len(s.value.args) == 1 and isinstance(s.value.args[0], ast.Name) and s.value.args[0].id == "func"):
        _fail("from_call: inspect.signature(func)")
    sig = s.targets[0].id
    s = b[1]
    if not (isinstance(s, ast.Assign) and isinstance(s.value, ast.Call) and _is_attr_chain(s.value.func, f"{sig}.bind")
            and len(s.value.args) == 1 and isinstance(s.value.args[0], ast.Starred)
            and len(s.value.keywords) == 1 and s.value.keywords[0].arg is None):
        _fail("from_call: sig.bind(*args, **kwargs)")
    bound = s.targets[0].id
    apply_defaults = False
    if len(b) == 4:
        s = b[2]
        if not (isinstance(s, ast.Expr) and isinstance(s.value, ast.Call)
                and _is_attr_chain(s.value.func, f"{bound}.apply_defaults") and not s.value.args):
            _fail("from_call: third statement is not apply_defaults()")
        apply_defaults = True
    s = b[-1]
    if not (isinstance(s, ast.Return) and isinstance(s.value, ast.Call) and isinstance(s.value.func, ast.Name)
            and s.value.func.id == "cls" and len(s.value.args) == 1 and _is_attr_chain(s.value.args[0], f"{bound}.arguments")):
        _fail("from_call: return cls(bound.arguments)")
    return {"apply_defaults": apply_defaults}


# ------------------------------------------------------------------ constants.py
def parse_reserved(src: str) -> dict:
    tree = ast.parse(src)
    c = [n for n in tree.body if isinstance(n, ast.ClassDef) and n.name == "ReservedKeys"]
    if len(c) != 1:
        _fail("ReservedKeys not found")
    out = {}
    for st in c[0].body:
        if isinstance(st, ast.Assign) and len(st.targets) == 1 and isinstance(st.targets[0], ast.Name):
            out[st.targets[0].id] = _const_str(st.value)
    for k in ("ERROR", "CLIENT_DATA", "JSON_SERIALIZABLE", "ENUM", "CLIENT_EXCEPTION"):
        if k not in out:
            _fail(f"ReservedKeys.{k} missing")
    return out


def _reserved_member(node: ast.AST) -> str | None:
    """ReservedKeys.X.value -> 'X'"""
    if (isinstance(node, ast.Attribute) and node.attr == "value" and isinstance(node.value, ast.Attribute)
            and isinstance(node.value.value, ast.Name) and node.value.value.id == "ReservedKeys"):
        return node.value.attr
    return None


# ------------------------------------------------------------------ base_client_data_store.py
def parse_cds(src: str, reserved: dict) -> dict:
    tree = ast.parse(src)
    ms = _body(_find_func(tree, "_maybe_store", "BaseClientDataStore"))
    if not (isinstance(ms[0], ast.Assign) and isinstance(ms[0].value, ast.Call) and isinstance(ms[0].value.func, ast.Name)
            and ms[0].value.func.id == "len"):
        _fail("_maybe_store: size = len(serialized)")
    size = ms[0].targets[0].id
    gpos = [i for i, st in enumerate(ms) if isinstance(st, ast.Assign) and isinstance(st.value, ast.Call)
            and isinstance(st.value.func, ast.Name) and st.value.func.id == "_generate_key"]
    if len(gpos) != 1:
        _fail("_maybe_store: one key = _generate_key(serialized)")
    if any(isinstance(x, ast.Return) for st in ms[:gpos[0]] if not isinstance(st, ast.If) for x in ast.walk(st)):
        _fail("_maybe_store: return outside the size tests")
    ifs = [s for s in ms[:gpos[0]] if isinstance(s, ast.If)]
    if len(ifs) != 3:
        _fail("_maybe_store: expected three ifs (min, max, warn)")

    def returns_inline(i: ast.If) -> bool:
        return any(isinstance(x, ast.Return) and isinstance(x.value, ast.Name) and x.value.id == "serialized" for x in i.body)
    i0, i1, i2 = ifs
    if not (isinstance(i0.test, ast.Compare) and isinstance(i0.test.left, ast.Name) and i0.test.left.id == size
            and len(i0.test.ops) == 1 and _is_attr_chain(i0.test.comparators[0], "self.conf.min_size_to_cache")
            and returns_inline(i0)):
        _fail("_maybe_store: min test")
    lo = {ast.Lt: "CLt", ast.LtE: "CLe"}.get(type(i0.test.ops[0])) or _fail("_maybe_store: min comparison operator")
    t = i1.test
    if not (isinstance(t, ast.BoolOp) and isinstance(t.op, ast.And) and len(t.values) == 2 and returns_inline(i1)):
        _fail("_maybe_store: max test")
    a, b2 = t.values
    if not (isinstance(a, ast.Compare) and _is_attr_chain(a.left, "self.conf.max_size_to_cache") and isinstance(a.ops[0], ast.Gt)
            and isinstance(a.comparators[0], ast.Constant) and a.comparators[0].value == 0):
        _fail("_maybe_store: max > 0 test")
    if not (isinstance(b2, ast.Compare) and isinstance(b2.left, ast.Name) and b2.left.id == size
            and _is_attr_chain(b2.comparators[0], "self.conf.max_size_to_cache")):
        _fail("_maybe_store: size vs max test")
    hi = {ast.Gt: "CGt", ast.GtE: "CGe"}.get(type(b2.ops[0])) or _fail("_maybe_store: max comparison operator")
    if returns_inline(i2):
        _fail("_maybe_store: the warn branch returns")
    # key = _generate_key(serialized); <write>; return key      where <write> is either the unconditional
    #   self._store(key, serialized)
    # or a write guarded by a process-local set of remembered keys (structural fact store_skip_known):
    #   if key not in self.X: self._store(key, serialized); self.X.add(key)
    #   if key in self.X: return key / self._store(key, serialized) / self.X.add(key)
    gi = [i for i, st in enumerate(ms) if isinstance(st, ast.Assign) and isinstance(st.value, ast.Call)
          and isinstance(st.value.func, ast.Name) and st.value.func.id == "_generate_key"]
    if not (len(gi) == 1 and len(ms[gi[0]].targets) == 1 and isinstance(ms[gi[0]].targets[0], ast.Name)
            and len(ms[gi[0]].value.args) == 1 and _d(ms[gi[0]].value.args[0]) == _d(ast.Name("serialized", ast.Load()))):
        _fail("_maybe_store: key = _generate_key(serialized)")
    kname = ms[gi[0]].targets[0].id
    tail = ms[gi[0] + 1:]

    def is_store(st) -> bool:
        return (isinstance(st, ast.Expr) and isinstance(st.value, ast.Call) and _is_attr_chain(st.value.func, "self._store")
                and not st.value.keywords
                and [_d(x) for x in st.value.args] == [_d(ast.Name(kname, ast.Load())), _d(ast.Name("serialized", ast.Load()))])

    def is_ret_key(st) -> bool:
        return isinstance(st, ast.Return) and isinstance(st.value, ast.Name) and st.value.id == kname

    def self_attr(n) -> str | None:
        return n.attr if isinstance(n, ast.Attribute) and isinstance(n.value, ast.Name) and n.value.id == "self" else None

    def is_add(st, attr) -> bool:
        return (isinstance(st, ast.Expr) and isinstance(st.value, ast.Call) and isinstance(st.value.func, ast.Attribute)
                and st.value.func.attr == "add" and self_attr(st.value.func.value) == attr and not st.value.keywords
                and [_d(x) for x in st.value.args] == [_d(ast.Name(kname, ast.Load()))])

    def membership(test, op_cls) -> str | None:
        if (isinstance(test, ast.Compare) and len(test.ops) == 1 and isinstance(test.ops[0], op_cls)
                and isinstance(test.left, ast.Name) and test.left.id == kname):
            return self_attr(test.comparators[0])
        return None
    known_attr = None
    if len(tail) == 2 and is_store(tail[0]) and is_ret_key(tail[1]):
        pass
    elif (len(tail) == 2 and isinstance(tail[0], ast.If) and not tail[0].orelse and membership(tail[0].test, ast.NotIn)
          and len(tail[0].body) == 2 and is_ret_key(tail[1])):
        known_attr = membership(tail[0].test, ast.NotIn)
        b0, b1 = tail[0].body
        if not ((is_store(b0) and is_add(b1, known_attr)) or (is_add(b0, known_attr) and is_store(b1))):
            _fail("_maybe_store: guarded write is not {self._store(key, serialized); self.<set>.add(key)}")
    elif (len(tail) == 4 and isinstance(tail[0], ast.If) and not tail[0].orelse and membership(tail[0].test, ast.In)
          and len(tail[0].body) == 1 and is_ret_key(tail[0].body[0]) and is_ret_key(tail[3])):
        known_attr = membership(tail[0].test, ast.In)
        if not ((is_store(tail[1]) and is_add(tail[2], known_attr)) or (is_add(tail[1], known_attr) and is_store(tail[2]))):
            _fail("_maybe_store: early-return write is not {self._store(key, serialized); self.<set>.add(key)}")
    else:
        _fail("_maybe_store: key = _generate_key(serialized); [if key not in self.<set>:] self._store(key, serialized); return key")
    # purge(): what this instance forgets
    pg = _body(_find_func(tree, "purge", "BaseClientDataStore"))
    purge_clears_lru = purge_calls_backend = purge_clears_known = False
    for st in pg:
        if _d(st) == _d(ast.parse("self._deserialized_cache.clear()").body[0]):
            purge_clears_lru = True
        elif _d(st) == _d(ast.parse("self._purge()").body[0]):
            purge_calls_backend = True
        elif known_attr and (_d(st) == _d(ast.parse(f"self.{known_attr}.clear()").body[0])
                             or _d(st) == _d(ast.parse(f"self.{known_attr} = set()").body[0])):
            purge_clears_known = True
        else:
            _fail("purge: statement not recognised")
    if not (purge_clears_lru and purge_calls_backend):
        _fail("purge: does not clear the LRU and the backend")
    if known_attr:
        # the remembered-key set may only be created in __init__, consulted/extended in _maybe_store and reset in purge
        cls_node = [n for n in tree.body if isinstance(n, ast.ClassDef) and n.name == "BaseClientDataStore"][0]
        for fn_node in cls_node.body:
            if isinstance(fn_node, (ast.FunctionDef, ast.AsyncFunctionDef)) and fn_node.name not in ("__init__", "_maybe_store", "purge"):
                if any(self_attr(n) == known_attr for n in ast.walk(fn_node)):
                    _fail(f"self.{known_attr} is used in {fn_node.name}")
        init = _find_func(tree, "__init__", "BaseClientDataStore")
        inits = [n for n in ast.walk(init) if isinstance(n, (ast.Assign, ast.AnnAssign))
                 and self_attr(n.targets[0] if isinstance(n, ast.Assign) else n.target) == known_attr]
        if not (len(inits) == 1 and _d(inits[0].value) in (_d(ast.parse("set()", mode="eval").body),)):
            _fail(f"self.{known_attr} is not initialised to an empty set in __init__")
    # _generate_key
    gk = _body(_find_func(tree, "_generate_key"))
    if not (len(gk) == 2 and isinstance(gk[0], ast.Assign) and isinstance(gk[1], ast.Return) and isinstance(gk[1].value, ast.JoinedStr)):
        _fail("_generate_key shape")
    hv = gk[0].value
    full = (isinstance(hv, ast.Call) and isinstance(hv.func, ast.Attribute) and hv.func.attr == "hexdigest")
    inner = hv if full else (hv.value if isinstance(hv, ast.Subscript) else None)
    if not (isinstance(inner, ast.Call) and isinstance(inner.func, ast.Attribute) and inner.func.attr == "hexdigest"
            and isinstance(inner.func.value, ast.Call) and _is_attr_chain(inner.func.value.func, "hashlib.sha256")
            and len(inner.func.value.args) == 1
            and _d(inner.func.value.args[0]) in (_d(ast.parse("value.encode()", mode="eval").body),
                                                 _d(ast.parse("value.encode('utf-8')", mode="eval").body))):
        _fail("_generate_key: hash is not sha256(value.encode()).hexdigest()")
    js = gk[1].value.values
    if not (len(js) == 3 and isinstance(js[0], ast.FormattedValue) and _reserved_member(js[0].value) == "CLIENT_DATA"
            and isinstance(js[1], ast.Constant) and isinstance(js[2], ast.FormattedValue)
            and isinstance(js[2].value, ast.Name) and js[2].value.id == gk[0].targets[0].id):
        _fail("_generate_key: f-string shape")
    ref_sep = js[1].value
    # is_reference
    ir = _body(_find_func(tree, "is_reference", "BaseClientDataStore"))
    if not (len(ir) == 1 and isinstance(ir[0], ast.Return) and isinstance(ir[0].value, ast.Call)
            and _is_attr_chain(ir[0].value.func, "value.startswith") and _reserved_member(ir[0].value.args[0]) == "CLIENT_DATA"):
        _fail("is_reference shape")
    # serialize
    se = _body(_find_func(tree, "serialize", "BaseClientDataStore"))
    first = se[0]
    if not (isinstance(first, ast.If) and isinstance(first.test, ast.BoolOp) and isinstance(first.test.op, ast.Or)
            and _is_attr_chain(first.test.values[0], "self.conf.disable_client_data_store")
            and isinstance(first.test.values[1], ast.Name) and first.test.values[1].id == "disable_cache"
            and isinstance(first.body[0], ast.Return) and _d(first.body[0].value) == _d(ast.parse("self.app.serializer.serialize(obj)", mode="eval").body)):
        _fail("serialize: disabled branch")
    rest = se[1:]
    passthrough = False
    if (rest and isinstance(rest[0], ast.If)
            and _d(rest[0].test) == _d(ast.parse("isinstance(obj, str) and self.is_reference(obj)", mode="eval").body)
            and len(rest[0].body) == 1 and isinstance(rest[0].body[0], ast.Return)
            and isinstance(rest[0].body[0].value, ast.Name) and rest[0].body[0].value.id == "obj"):
        passthrough = True
        rest = rest[1:]
    if not (len(rest) == 4 and _d(rest[0]) == _d(ast.parse("serialized = self.app.serializer.serialize(obj)").body[0])
            and _d(rest[1]) == _d(ast.parse("key = self._maybe_store(serialized)").body[0])
            and isinstance(rest[2], ast.If) and _d(rest[2].test) == _d(ast.parse("self.is_reference(key)", mode="eval").body)
            and len(rest[2].body) == 1 and not rest[2].orelse
            and _d(rest[3]) == _d(ast.parse("return key").body[0])):
        _fail("serialize: main path shape")
    call = rest[2].body[0]
    if not (isinstance(call, ast.Expr) and isinstance(call.value, ast.Call) and _is_attr_chain(call.value.func, "self._cache_deserialized")
            and len(call.value.args) == 2 and isinstance(call.value.args[0], ast.Name) and call.value.args[0].id == "key"
            and isinstance(call.value.args[1], ast.Name) and call.value.args[1].id in ("obj", "serialized")):
        _fail("serialize: _cache_deserialized(key, obj|serialized)")
    holds_a = call.value.args[1].id == "obj"
    # resolve
    rv = _body(_find_func(tree, "resolve", "BaseClientDataStore"))
    if not (len(rv) == 2 and _d(rv[0]) == _d(ast.parse("if self.is_reference(data):\n    return self._resolve_reference(data)").body[0])
            and _d(rv[1]) == _d(ast.parse("return self.app.serializer.deserialize(data)").body[0])):
        _fail("resolve shape")
    # _resolve_reference: what is cached / returned
    rr = _find_func(tree, "_resolve_reference", "BaseClientDataStore")
    rb = _body(rr)
    if not (isinstance(rb[0], ast.If) and _d(rb[0].test) == _d(ast.parse("ref_key in self._deserialized_cache", mode="eval").body)
            and _d(rb[0].body[0]) == _d(ast.parse("self._deserialized_cache.move_to_end(ref_key)").body[0])):
        _fail("_resolve_reference: hit branch")
    cache_get = _d(ast.parse("self._deserialized_cache[ref_key]", mode="eval").body)
    assigns = {}
    for n in ast.walk(rr):
        if isinstance(n, ast.Assign) and len(n.targets) == 1 and isinstance(n.targets[0], ast.Name):
            v = n.value
            kind = None
            if isinstance(v, ast.Call) and _is_attr_chain(v.func, "self._retrieve"):
                kind = "text"
            elif isinstance(v, ast.Call) and _is_attr_chain(v.func, "self.app.serializer.deserialize"):
                kind = "obj"
            elif _d(v) == cache_get:
                kind = "cached"
            if kind is None:
                _fail("_resolve_reference: assignment not recognised")
            assigns.setdefault(n.targets[0].id, set()).add(kind)
    hit_returns_cached = any(isinstance(n, ast.Return) and _d(n.value) == cache_get for n in rb[0].body)
    puts = [n for n in ast.walk(rr) if isinstance(n, ast.Call) and _is_attr_chain(n.func, "self._cache_deserialized")]
    if not (len(puts) == 1 and isinstance(puts[0].args[0], ast.Name) and puts[0].args[0].id == "ref_key"
            and isinstance(puts[0].args[1], ast.Name)):
        _fail("_resolve_reference: one _cache_deserialized(ref_key, name)")
    put_kinds = assigns.get(puts[0].args[1].id, set())
    rets = [n for n in ast.walk(rr) if isinstance(n, ast.Return)]
    if put_kinds == {"obj"} and hit_returns_cached and holds_a:
        holds = True
    elif put_kinds <= {"text", "cached"} and "text" in put_kinds and not hit_returns_cached and not holds_a \
            and all(isinstance(r.value, ast.Call) and _is_attr_chain(r.value.func, "self.app.serializer.deserialize") for r in rets):
        holds = False
    else:
        _fail("LRU content is inconsistent between serialize and _resolve_reference")
    # _cache_deserialized
    cd = _body(_find_func(tree, "_cache_deserialized", "BaseClientDataStore"))
    if not (len(cd) == 2 and _d(cd[0]) == _d(ast.parse(
            "if len(self._deserialized_cache) >= self.conf.local_cache_size:\n    self._deserialized_cache.popitem(last=False)").body[0])
            and _d(cd[1]) == _d(ast.parse("self._deserialized_cache[key] = obj").body[0])):
        _fail("_cache_deserialized shape")
    return {"inline_cmp": lo, "over_cmp": hi, "lru_holds_object": holds, "ref_passthrough": passthrough,
            "ref_prefix": reserved["CLIENT_DATA"], "ref_sep": ref_sep, "key_hash_full": bool(full),
            "store_skip_known": known_attr is not None, "purge_clears_known": purge_clears_known}


# ------------------------------------------------------------------ json_serializer.py
KINDS = ["EErr", "ECExc", "EJs", "EEnum"]


def _envelope_dict(node: ast.AST):
    """{ReservedKeys.X.value: {"a": e1, "b": e2, ...}} -> (X, [(a, e1), ...])"""
    if not (isinstance(node, ast.Dict) and len(node.keys) == 1 and isinstance(node.values[0], ast.Dict)):
        return None
    m = _reserved_member(node.keys[0])
    if m is None:
        return None
    inner = node.values[0]
    return m, [(_const_str(k), v) for k, v in zip(inner.keys, inner.values)]


def _attr_name(n: ast.AST) -> str | None:
    return n.attr if isinstance(n, ast.Attribute) else None


def parse_json(src: str) -> dict:
    tree = ast.parse(src)
    enc: dict = {}

    def record(kind: str, member: str, fields: list, where: str):
        names = [f for f, _ in fields]
        if kind == "EErr":
            ok = (len(fields) >= 2 and _attr_name(fields[0][1]) == "__name__" and _attr_name(fields[1][1]) == "args")
            f1, fp = names[0], names[1]
            f2 = names[2] if len(names) > 2 else "message"
        else:
            ok = (len(fields) >= 3 and _attr_name(fields[0][1]) == "__module__" and _attr_name(fields[1][1]) == "__qualname__")
            f1, f2, fp = names[0], names[1], names[2] if len(names) > 2 else None
            pv_ = fields[2][1] if len(fields) > 2 else None
            if kind == "ECExc":
                ok = ok and _attr_name(pv_) == "args"
            elif kind == "EEnum":
                ok = ok and _attr_name(pv_) == "value"
            else:
                ok = ok and isinstance(pv_, ast.Call) and _attr_name(pv_.func) == "to_json"
        if not ok:
            _fail(f"{where}: envelope for {kind} not recognised")
        rec = {"key": member, "f1": f1, "f2": f2, "fp": fp}
        if kind in enc and enc[kind] != rec:
            _fail(f"{where}: two different envelopes for {kind}")
        enc[kind] = rec

    default = _find_func(tree, "default", "DefaultJSONEncoder")
    for st in _body(default):
        if not isinstance(st, ast.If):
            continue
        t = _d(st.test)
        if t == _d(ast.parse("isinstance(obj, Enum)", mode="eval").body):
            rets = [n for n in st.body if isinstance(n, ast.Return)]
            e = _envelope_dict(rets[0].value) if rets else None
            e or _fail("default: Enum branch")
            record("EEnum", e[0], e[1], "default")
        elif t == _d(ast.parse("isinstance(obj, Exception)", mode="eval").body):
            inner = [n for n in st.body if isinstance(n, ast.If)]
            if not (len(inner) == 1 and _d(inner[0].test) == _d(ast.parse("json_cls.__module__ == 'builtins'", mode="eval").body)):
                _fail("default: builtin-exception test")
            e1 = _envelope_dict(inner[0].body[0].value) if isinstance(inner[0].body[0], ast.Return) else None
            rets = [n for n in st.body if isinstance(n, ast.Return)]
            e2 = _envelope_dict(rets[0].value) if rets else None
            (e1 and e2) or _fail("default: exception envelopes")
            record("EErr", e1[0], e1[1], "default")
            record("ECExc", e2[0], e2[1], "default")
        elif t == _d(ast.parse("isinstance(obj, JsonSerializable)", mode="eval").body):
            rets = [n for n in st.body if isinstance(n, ast.Return)]
            e = _envelope_dict(rets[0].value) if rets else None
            e or _fail("default: JsonSerializable branch")
            record("EJs", e[0], e[1], "default")
        else:
            _fail("default: unknown branch")
    pre = _find_func(tree, "_preprocess_for_json")
    pb = _body(pre)
    if not (len(pb) == 4 and isinstance(pb[0], ast.If) and _d(pb[0].test) == _d(ast.parse("isinstance(obj, Enum)", mode="eval").body)):
        _fail("_preprocess_for_json shape")
    rets = [n for n in pb[0].body if isinstance(n, ast.Return)]
    e = _envelope_dict(rets[0].value) if rets else None
    e or _fail("_preprocess_for_json: Enum envelope")
    record("EEnum", e[0], e[1], "_preprocess_for_json")
    if _d(pb[1]) != _d(ast.parse("if isinstance(obj, dict):\n    return {k: _preprocess_for_json(v) for k, v in obj.items()}").body[0]) \
            or _d(pb[2]) != _d(ast.parse("if isinstance(obj, (list, tuple)):\n    return [_preprocess_for_json(item) for item in obj]").body[0]) \
            or _d(pb[3]) != _d(ast.parse("return obj").body[0]):
        _fail("_preprocess_for_json: container recursion")
    if set(enc) != set(KINDS):
        _fail("encoder does not produce the four envelopes")
    # decoder
    rec_fn = _find_func(tree, "_reconstruct_from_json")
    rb = _body(rec_fn)
    if not (len(rb) == 3 and isinstance(rb[0], ast.If) and _d(rb[0].test) == _d(ast.parse("isinstance(data, dict)", mode="eval").body)
            and _d(rb[1]) == _d(ast.parse("if isinstance(data, list):\n    return [_reconstruct_from_json(item) for item in data]").body[0])
            and _d(rb[2]) == _d(ast.parse("return data").body[0])):
        _fail("_reconstruct_from_json shape")
    branches = rb[0].body
    if _d(branches[-1]) != _d(ast.parse("return {k: _reconstruct_from_json(v) for k, v in data.items()}").body[0]):
        _fail("_reconstruct_from_json: generic dict branch")
    dec: dict = {}
    order = []
    for br in branches[:-1]:
        if not (isinstance(br, ast.If) and isinstance(br.test, ast.NamedExpr) and isinstance(br.test.value, ast.Call)
                and _is_attr_chain(br.test.value.func, "data.get") and len(br.test.value.args) == 1):
            _fail("_reconstruct_from_json: branch test")
        member = _reserved_member(br.test.value.args[0]) or _fail("decoder key")
        var = br.test.target.id
        names: dict = {}

        def sub(n):
            """var["x"] or a name bound to it -> "x" """
            if isinstance(n, ast.Name) and n.id in names:
                return names[n.id]
            if isinstance(n, ast.Subscript) and isinstance(n.value, ast.Name) and n.value.id == var:
                return _const_str(n.slice)
            return None
        kind = None
        f1 = f2 = fp = None
        for n in ast.walk(br):
            if isinstance(n, ast.Assign) and len(n.targets) == 1 and isinstance(n.targets[0], ast.Name) and sub(n.value):
                names[n.targets[0].id] = sub(n.value)
        for n in ast.walk(br):
            if not isinstance(n, ast.Call):
                continue
            if isinstance(n.func, ast.Name) and n.func.id == "_resolve_class" and len(n.args) == 2:
                f1, f2 = sub(n.args[0]), sub(n.args[1])
            elif isinstance(n.func, ast.Call) and isinstance(n.func.func, ast.Name) and n.func.func.id == "getattr" \
                    and isinstance(n.func.args[0], ast.Name) and n.func.args[0].id == "builtins":
                kind = "EErr"
                f1 = sub(n.func.args[1])
                fp = sub(n.args[0].value) if n.args and isinstance(n.args[0], ast.Starred) else None
            elif isinstance(n.func, ast.Attribute) and n.func.attr == "from_json" and len(n.args) == 1:
                kind = "EJs"
                fp = sub(n.args[0])
            elif isinstance(n.func, ast.Name) and n.func.id not in ("_resolve_class", "RuntimeError", "str", "hasattr", "getattr") \
                    and len(n.args) == 1 and kind is None:
                if isinstance(n.args[0], ast.Starred) and sub(n.args[0].value):
                    kind = "ECExc"
                    fp = sub(n.args[0].value)
                elif sub(n.args[0]):
                    kind = "EEnum"
                    fp = sub(n.args[0])
        if kind is None or kind in dec or f1 is None or fp is None or (kind != "EErr" and f2 is None):
            _fail(f"_reconstruct_from_json: branch for {member} not recognised")
        dec[kind] = {"key": member, "f1": f1, "f2": f2 if kind != "EErr" else enc["EErr"]["f2"], "fp": fp}
        order.append(kind)
    if set(dec) != set(KINDS):
        _fail("decoder does not test the four envelopes")
    return {"enc": enc, "dec": dec, "order": order}


# ------------------------------------------------------------------ emit
def coq_str(s: str) -> str:
    return "[" + "; ".join(str(ord(c)) for c in s) + "]"


def _b(x: bool) -> str:
    return "true" if x else "false"


def emit(f: dict) -> str:
    e, k, c, j, r = f["enc"], f["keys"], f["cds"], f["json"], f["reserved"]

    def kfun(side: str, field: str) -> str:
        def val(kind):
            rec = j[side][kind]
            return coq_str(r[rec["key"]]) if field == "key" else coq_str(rec[field])
        return "(fun k => match k with " + " | ".join(f"{kd} => {val(kd)}" for kd in KINDS) + " end)"
    lines = [
        "(* GENERATED by harness/translate/roundtrip.py from pynenc/call.py, arguments.py, identifiers/call_id.py,",
        "   identifiers/task_id.py, client_data_store/base_client_data_store.py, serializer/constants.py,",
        "   serializer/json_serializer.py.  Do not edit: rewritten on every check run. *)",
        "From Coq Require Import List NArith Bool.",
        "Import ListNotations.",
        "From PV Require Import Model.ArgsId Model.Bind Model.CDS Model.JsonEnv.",
        "Open Scope N_scope.",
        "",
        "Definition gen_enc : enc_cfg :=",
        f"  {{| sort_keys := {_b(e['sort_keys'])}; quote_key := {_b(e['quote_key'])}; quote_val := {_b(e['quote_val'])};",
        f"     kv_sep := {coq_str(e['kv_sep'])}; item_sep := {coq_str(e['item_sep'])}; empty_id := {coq_str(e['empty_id'])} |}}.",
        f"Definition gen_args_hash_full : bool := {_b(e['args_hash_full'])}.",
        f"Definition gen_args_text_whole : bool := {_b(e['args_text_whole'])}.",
        "",
        "Definition gen_keys : key_cfg :=",
        f"  {{| call_sep := {ord(k['call_sep'])}; task_sep := {ord(k['task_sep'])}; task_rejects_empty := {_b(k['task_rejects_empty'])} |}}.",
        "",
        f"Definition gen_bind : bind_cfg := {{| apply_defaults := {_b(f['bind']['apply_defaults'])} |}}.",
        "",
        "Definition gen_cds : cds_facts :=",
        f"  {{| inline_cmp := {c['inline_cmp']}; over_cmp := {c['over_cmp']}; lru_holds_object := {_b(c['lru_holds_object'])};",
        f"     ref_passthrough := {_b(c['ref_passthrough'])}; ref_prefix := {coq_str(c['ref_prefix'])}; ref_sep := {coq_str(c['ref_sep'])};",
        f"     store_skip_known := {_b(c['store_skip_known'])}; purge_clears_known := {_b(c['purge_clears_known'])} |}}.",
        f"Definition gen_key_hash_full : bool := {_b(c['key_hash_full'])}.",
        "",
        "Definition gen_json : json_facts :=",
        f"  {{| enc_key := {kfun('enc', 'key')};",
        f"     dec_key := {kfun('dec', 'key')};",
        f"     enc_f1 := {kfun('enc', 'f1')};",
        f"     dec_f1 := {kfun('dec', 'f1')};",
        f"     enc_f2 := {kfun('enc', 'f2')};",
        f"     dec_f2 := {kfun('dec', 'f2')};",
        f"     enc_fp := {kfun('enc', 'fp')};",
        f"     dec_fp := {kfun('dec', 'fp')};",
        f"     dec_order := [{'; '.join(j['order'])}] |}}.",
        "",
    ]
    return "\n".join(lines)


def facts(repo: str) -> dict:
    def rd(p):
        return open(f"{repo}/pynenc/{p}").read()
    reserved = parse_reserved(rd("serializer/constants.py"))
    return {"enc": parse_compute_args_id(rd("call.py")),
            "keys": parse_keys(rd("identifiers/call_id.py"), rd("identifiers/task_id.py")),
            "bind": parse_from_call(rd("arguments.py")),
            "reserved": reserved,
            "cds": parse_cds(rd("client_data_store/base_client_data_store.py"), reserved),
            "json": parse_json(rd("serializer/json_serializer.py"))}


def translate(repo: str) -> tuple[str, dict]:
    f = facts(repo)
    return emit(f), {"facts": f}


if __name__ == "__main__":
    import json
    import sys
    text, info = translate(sys.argv[1] if len(sys.argv) > 1 else "/repo")
    print(text)
    print(json.dumps(info, indent=1), file=sys.stderr)

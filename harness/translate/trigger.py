"""Translator: pynenc/trigger/*  ->  coq/gen/Trigger_gen.v  (the `facts` record of Model/TriggerDef.v).

Reads, with Python `ast` only (nothing is imported or executed):
  base_trigger.py        trigger_loop_iteration: is every execute_task guarded by `if self.claim_trigger_run(run_id)`,
                         is clear_valid_conditions the step after the launch loop, which trigger context is handed to
                         get_arguments / generate_trigger_run_ids (the collected one, or one per occurrence)
  trigger_definitions.py generate_trigger_run_ids (shape), should_trigger (shape)
  argument_providers.py  ContextTypeArgumentProvider.get_arguments (shape: first context of the type)
  mem_trigger.py         claim_trigger_run / store_last_cron_execution: read-test-write inside `with self.<lock>`
  sqlite_trigger.py      same two methods: BEGIN IMMEDIATE before the SELECT inside the connection block
  conditions/*.py        context_id f-strings; cron defaults and the two comparison operators
  base_trigger.py        _should_trigger_cron_condition: is the stored last execution read from the store on every poll that
                         passes the cache short cut, and is that value the expectation of the compare-and-swap
  mem/sqlite_trigger.py  get_conditions_sourced_from_task: exact context-type filter; get_valid_conditions: every pending
                         entry is returned (no WHERE / LIMIT / partial fetch)
Fail-closed: an unrecognised shape raises TranslateError (the check then falls back to gen_default and to the
differential correspondence).
"""
from __future__ import annotations

import ast
import hashlib


class TranslateError(Exception):
    pass


# normalised-AST hashes of functions the hand-written model mirrors without reading facts from them
EXPECTED_SHAPES = {
    "TriggerDefinition.generate_trigger_run_ids": "b6259e2668f5",
    "TriggerDefinition.should_trigger": "08b3ead4917f",
    "TriggerContext.add_valid_condition": "7e0dfb43619c",
    "TriggerContext.has_condition": "da2f8887cc8d",
    "ValidCondition.valid_condition_id": "5c7e69257e78",
    "ContextTypeArgumentProvider.get_arguments": "07be867b1bdf",
    "CompositeArgumentProvider.get_arguments": "48e3bdfea727",
    "CronCondition._is_satisfied_by": "bc61f38e4baa",
    "BaseTrigger._should_trigger_cron_condition": "3d996b632023",
    "BaseTrigger.check_time_based_triggers": "5fb7ef18a4f6",
}


def _shape(fn: ast.AST) -> str:
    body = list(fn.body)
    if body and isinstance(body[0], ast.Expr) and isinstance(body[0].value, ast.Constant) \
            and isinstance(body[0].value.value, str):
        body = body[1:]

    class Blank(ast.NodeTransformer):
        def visit_Constant(self, n):
            if isinstance(n.value, str):
                return ast.copy_location(ast.Constant(value=""), n)
            return n
    dump = "\n".join(ast.dump(Blank().visit(s), include_attributes=False) for s in body)
    return hashlib.sha256(dump.encode()).hexdigest()[:12]


def _parse(repo: str, rel: str) -> ast.Module:
    return ast.parse(open(f"{repo}/{rel}").read())


def _method(tree: ast.Module, cls: str, name: str) -> ast.FunctionDef:
    for node in tree.body:
        if isinstance(node, ast.ClassDef) and node.name == cls:
            for s in node.body:
                if isinstance(s, ast.FunctionDef) and s.name == name:
                    return s
    raise TranslateError(f"{cls}.{name} not found")


def _is_self_call(node: ast.AST, name: str) -> bool:
    return (isinstance(node, ast.Call) and isinstance(node.func, ast.Attribute) and node.func.attr == name
            and isinstance(node.func.value, ast.Name) and node.func.value.id == "self")


def _parents(root: ast.AST) -> dict:
    par = {}
    for n in ast.walk(root):
        for c in ast.iter_child_nodes(n):
            par[c] = n
    return par


# ------------------------------------------------------------------ trigger_loop_iteration
def loop_facts(fn: ast.FunctionDef) -> dict:
    par = _parents(fn)
    execs = [n for n in ast.walk(fn) if _is_self_call(n, "execute_task")]
    if not execs:
        raise TranslateError("trigger_loop_iteration never calls self.execute_task")
    guarded = True
    for e in execs:
        n, ok = e, False
        while n in par:
            p = par[n]
            if isinstance(p, ast.If) and _is_self_call(p.test, "claim_trigger_run") and n in p.body:
                ok = True
                break
            n = p
        guarded = guarded and ok
    # clear_valid_conditions: a top-level statement after the top-level loop that launches
    top = fn.body
    launch_idx = [i for i, s in enumerate(top) if any(e in list(ast.walk(s)) for e in execs)]
    clear_idx = [i for i, s in enumerate(top)
                 if isinstance(s, ast.Expr) and _is_self_call(s.value, "clear_valid_conditions")]
    all_clear = [n for n in ast.walk(fn) if _is_self_call(n, "clear_valid_conditions")]
    if len(all_clear) != 1:
        raise TranslateError("expected exactly one clear_valid_conditions call in trigger_loop_iteration")
    clear_after = bool(clear_idx) and bool(launch_idx) and clear_idx[0] > max(launch_idx)
    # which context reaches get_arguments
    outer = [s for s in top if isinstance(s, ast.For) and any(e in list(ast.walk(s)) for e in execs)]
    if len(outer) != 1 or not (isinstance(outer[0].target, ast.Tuple) and len(outer[0].target.elts) == 2
                               and all(isinstance(x, ast.Name) for x in outer[0].target.elts)):
        raise TranslateError("launch loop is not `for trigger, context in ...`")
    trig_name, ctx_name = (x.id for x in outer[0].target.elts)
    getargs = [n for n in ast.walk(outer[0]) if isinstance(n, ast.Call) and isinstance(n.func, ast.Attribute)
               and n.func.attr == "get_arguments"]
    runids = [n for n in ast.walk(outer[0]) if isinstance(n, ast.Call) and isinstance(n.func, ast.Attribute)
              and n.func.attr == "generate_trigger_run_ids"]
    if len(getargs) != 1 or len(runids) != 1 or len(getargs[0].args) != 1 or len(runids[0].args) != 1:
        raise TranslateError("expected one get_arguments(ctx) and one generate_trigger_run_ids(ctx)")
    a, r = getargs[0].args[0], runids[0].args[0]
    if not (isinstance(a, ast.Name) and isinstance(r, ast.Name) and a.id == r.id):
        raise TranslateError("get_arguments and generate_trigger_run_ids receive different contexts")
    if a.id == ctx_name:
        per_occurrence = False
    else:
        per_occurrence = _per_occurrence_shape(outer[0], a.id, trig_name, ctx_name)
    return {"claim_guards_launch": guarded, "clear_after_launch": clear_after, "per_occurrence": per_occurrence}


def _per_occurrence_shape(loop: ast.For, name: str, trig: str, ctx: str) -> bool:
    """`for <name> in L:` where L = [ctx] for AND triggers with more than one condition and
    [TriggerContext(valid_conditions={k: v}) for k, v in ctx.valid_conditions.items()] otherwise."""
    fors = [n for n in ast.walk(loop) if isinstance(n, ast.For) and isinstance(n.target, ast.Name)
            and n.target.id == name and isinstance(n.iter, ast.Name)]
    if len(fors) != 1:
        raise TranslateError("unrecognised source of the launch context")
    lst = fors[0].iter.id
    ifs = [n for n in ast.walk(loop) if isinstance(n, ast.If)
           and any(isinstance(s, ast.Assign) and isinstance(s.targets[0], ast.Name) and s.targets[0].id == lst
                   for s in n.body)]
    if len(ifs) != 1 or len(ifs[0].body) != 1 or len(ifs[0].orelse) != 1:
        raise TranslateError("unrecognised construction of the launch contexts")
    test = ast.unparse(ifs[0].test).replace(" ", "")
    want = f"{trig}.logic==CompositeLogic.ANDandlen({trig}.condition_ids)>1"
    if test != want:
        raise TranslateError(f"launch-context test is `{test}`")
    whole = ast.unparse(ifs[0].body[0].value).replace(" ", "")
    if whole != f"[{ctx}]":
        raise TranslateError("AND branch does not use the collected context")
    els = ifs[0].orelse[0]
    if not (isinstance(els, ast.Assign) and isinstance(els.value, ast.ListComp) and len(els.value.generators) == 1):
        raise TranslateError("per-occurrence branch is not a list comprehension")
    gen = els.value.generators[0]
    if ast.unparse(gen.iter).replace(" ", "") != f"{ctx}.valid_conditions.items()" or gen.ifs:
        raise TranslateError("per-occurrence branch does not range over the collected valid conditions")
    k, v = (x.id for x in gen.target.elts)
    if ast.unparse(els.value.elt).replace(" ", "") != f"TriggerContext(valid_conditions={{{k}:{v}}})":
        raise TranslateError("per-occurrence context is not TriggerContext(valid_conditions={k: v})")
    return True


# ------------------------------------------------------------------ stores
def _with_blocks(fn: ast.FunctionDef):
    return [n for n in ast.walk(fn) if isinstance(n, ast.With)]


def _default_of(fn: ast.FunctionDef, arg: str):
    args = fn.args.args
    defaults = fn.args.defaults
    off = len(args) - len(defaults)
    for i, a in enumerate(args):
        if a.arg == arg and i >= off and isinstance(defaults[i - off], ast.Constant):
            return defaults[i - off].value
    raise TranslateError(f"no literal default for {arg} in {fn.name}")


def mem_locked(fn: ast.FunctionDef, lock: str, store: str) -> bool:
    """every read and write of self.<store> happens inside one `with self.<lock>` block"""
    uses = [n for n in ast.walk(fn) if isinstance(n, ast.Attribute) and n.attr == store
            and isinstance(n.value, ast.Name) and n.value.id == "self"]
    if len(uses) < 2:
        raise TranslateError(f"{fn.name}: expected a read and a write of self.{store}")
    writes = [n for n in ast.walk(fn) if isinstance(n, ast.Assign) and isinstance(n.targets[0], ast.Subscript)
              and n.targets[0].value in uses]
    if len(writes) != 1:
        raise TranslateError(f"{fn.name}: expected one write of self.{store}[...]")
    blocks = [w for w in _with_blocks(fn)
              if any(isinstance(i.context_expr, ast.Attribute) and i.context_expr.attr == lock for i in w.items)]
    for w in blocks:
        inside = set(ast.walk(w))
        if all(u in inside for u in uses):
            return True
    return False


def _sql_of(call: ast.Call) -> str:
    if not call.args:
        return ""
    a = call.args[0]
    if isinstance(a, ast.Constant) and isinstance(a.value, str):
        return a.value.strip().upper()
    if isinstance(a, ast.JoinedStr):
        return "".join(v.value if isinstance(v, ast.Constant) else "?" for v in a.values).strip().upper()
    return ""


def sqlite_immediate(fn: ast.FunctionDef, write_kw: tuple) -> bool:
    """inside `with sqlite_conn(...) as conn:` — is there conn.execute("BEGIN IMMEDIATE") before the SELECT,
    with the write statement in the same block"""
    blocks = [w for w in _with_blocks(fn) if any(isinstance(i.context_expr, ast.Call) for i in w.items)]
    if len(blocks) != 1:
        raise TranslateError(f"{fn.name}: expected one connection block")
    calls = []
    for s in blocks[0].body:
        for n in ast.walk(s):
            if isinstance(n, ast.Call) and isinstance(n.func, ast.Attribute) and n.func.attr == "execute":
                calls.append((n.lineno, n.col_offset, _sql_of(n)))
    calls.sort()
    sqls = [c[2] for c in calls]
    sel = [i for i, q in enumerate(sqls) if q.startswith("SELECT")]
    wr = [i for i, q in enumerate(sqls) if q.startswith(write_kw)]
    if len(sel) != 1 or len(wr) != 1 or not sel[0] < wr[0]:
        raise TranslateError(f"{fn.name}: expected one SELECT followed by one write, got {sqls}")
    begin = [i for i, q in enumerate(sqls) if q.startswith("BEGIN")]
    if not begin:
        return False
    if len(begin) != 1 or sqls[begin[0]] != "BEGIN IMMEDIATE":
        raise TranslateError(f"{fn.name}: unrecognised transaction start {sqls}")
    return begin[0] < sel[0]


def cas_rejects_none(fn: ast.FunctionDef) -> bool:
    tests = [n.test for n in ast.walk(fn) if isinstance(n, ast.If)
             and any(isinstance(s, ast.Return) and isinstance(s.value, ast.Constant) and s.value.value is False
                     for s in n.body)]
    if len(tests) != 1:
        raise TranslateError(f"{fn.name}: expected one refusing test")
    t = ast.unparse(tests[0]).replace(" ", "").replace("\n", "")
    if t == "expected_last_executionisnotNoneandcurrent!=expected_last_execution":
        return False
    if t == "current!=expected_last_execution":
        return True
    raise TranslateError(f"{fn.name}: unrecognised compare-and-swap test `{t}`")


# ------------------------------------------------------------------ conditions
def _fstring_attrs(fn: ast.FunctionDef) -> list[str]:
    rets = [n for n in ast.walk(fn) if isinstance(n, ast.Return)]
    if len(rets) != 1 or not isinstance(rets[0].value, ast.JoinedStr):
        raise TranslateError(f"{fn.name} is not a single f-string")
    out = []
    for v in rets[0].value.values:
        if isinstance(v, ast.FormattedValue):
            if not (isinstance(v.value, ast.Attribute) and isinstance(v.value.value, ast.Name)
                    and v.value.value.id == "self"):
                raise TranslateError(f"{fn.name}: unrecognised interpolation")
            out.append(v.value.attr)
    return out


def cron_facts(tree: ast.Module) -> dict:
    consts = {}
    for node in tree.body:
        if isinstance(node, ast.Assign) and isinstance(node.targets[0], ast.Name) \
                and node.targets[0].id.startswith("DEFAULT_") and isinstance(node.value, ast.Constant):
            consts[node.targets[0].id] = node.value.value
    for k in ("DEFAULT_CHECK_WINDOW_SECONDS", "DEFAULT_MIN_INTERVAL_SECONDS", "DEFAULT_PRECISION_TOLERANCE_SECONDS"):
        if not isinstance(consts.get(k), int) or isinstance(consts.get(k), bool):
            raise TranslateError(f"{k} is not an int literal")
    if consts.get("DEFAULT_STRICT_TIMING") is not False:
        raise TranslateError("DEFAULT_STRICT_TIMING is not False")
    fn = _method(tree, "CronCondition", "_is_satisfied_by")
    cmps = [n for n in ast.walk(fn) if isinstance(n, ast.Compare)]
    mi = [c for c in cmps if ast.unparse(c.left) == "time_since_last"
          and ast.unparse(c.comparators[0]) == "self.min_interval_seconds" and len(c.ops) == 1]
    wi = [c for c in cmps if len(c.ops) == 2 and ast.unparse(c.comparators[0]) == "time_diff_seconds"
          and ast.unparse(c.comparators[1]) == "self.check_window_seconds" and ast.unparse(c.left) == "0"]
    if len(mi) != 1 or len(wi) != 1:
        raise TranslateError("cron comparisons not recognised")
    if not isinstance(mi[0].ops[0], (ast.Lt, ast.LtE)):
        raise TranslateError("min-interval comparison is not < or <=")
    if not (isinstance(wi[0].ops[0], ast.LtE) and isinstance(wi[0].ops[1], (ast.Lt, ast.LtE))):
        raise TranslateError("window comparison is not 0 <= d <(=) window")
    par = _parents(fn)
    if not (isinstance(par.get(wi[0]), ast.UnaryOp) and isinstance(par[wi[0]].op, ast.Not)):
        raise TranslateError("window comparison is not negated")
    return {"window": consts["DEFAULT_CHECK_WINDOW_SECONDS"], "min_interval": consts["DEFAULT_MIN_INTERVAL_SECONDS"],
            "tolerance": consts["DEFAULT_PRECISION_TOLERANCE_SECONDS"],
            "window_inclusive": isinstance(wi[0].ops[1], ast.LtE),
            "min_interval_strict": isinstance(mi[0].ops[0], ast.Lt)}


def _storage_read(fn: ast.FunctionDef) -> tuple[int, bool]:
    """index of the top-level statement that assigns the stored last execution the method goes on with, and whether
    that value is `self.get_last_cron_execution(...)` itself (read on every poll that gets this far) or an expression
    that merely contains the read (`cached or self.get_...`, a conditional expression, ...: the store may be skipped)"""
    top = fn.body
    rd = [(i, s) for i, s in enumerate(top) if isinstance(s, (ast.Assign, ast.AnnAssign)) and s.value is not None
          and any(_is_self_call(n, "get_last_cron_execution") for n in ast.walk(s.value))]
    wr = [i for i, s in enumerate(top) if isinstance(s, ast.Assign) and _is_self_call(s.value, "store_last_cron_execution")]
    if len(rd) != 1 or len(wr) != 1 or not rd[0][0] < wr[0]:
        raise TranslateError("_should_trigger_cron_condition: read / compare-and-swap order not recognised")
    i, st = rd[0]
    tgt = st.targets[0] if isinstance(st, ast.Assign) else st.target
    if not isinstance(tgt, ast.Name):
        raise TranslateError("_should_trigger_cron_condition: stored last execution is not bound to a name")
    # the compare-and-swap must expect exactly that name
    cas = top[wr[0]].value
    exp = [k.value for k in cas.keywords if k.arg == "expected_last_execution"] or cas.args[2:3]
    if len(exp) != 1 or not (isinstance(exp[0], ast.Name) and exp[0].id == tgt.id):
        raise TranslateError("_should_trigger_cron_condition: compare-and-swap does not expect the value read from the store")
    # an earlier statement that can return must be the cache short cut only (nested under `if cached_...:`)
    always = _is_self_call(st.value, "get_last_cron_execution")
    if not always and not isinstance(st.value, (ast.BoolOp, ast.IfExp)):
        raise TranslateError("_should_trigger_cron_condition: unrecognised expression around the storage read")
    for later in top[i + 1:wr[0]]:
        for n in ast.walk(later):
            if isinstance(n, (ast.Assign, ast.AugAssign, ast.AnnAssign)):
                t = n.targets[0] if isinstance(n, ast.Assign) else n.target
                if isinstance(t, ast.Name) and t.id == tgt.id:
                    always = False       # re-bound between the read and the compare-and-swap
    return i, always


def first_poll_checked(fn: ast.FunctionDef) -> bool:
    """between reading the stored last execution and the compare-and-swap: is `if not condition.is_satisfied_by(context):
    return None` a statement of the function body itself (always evaluated) or only nested under `if storage_last_execution:`"""
    top = fn.body
    rd0, _ = _storage_read(fn)
    wr = [i for i, s in enumerate(top) if isinstance(s, ast.Assign) and _is_self_call(s.value, "store_last_cron_execution")]

    def is_check(s):
        return (isinstance(s, ast.If) and ast.unparse(s.test).replace(" ", "") == "notcondition.is_satisfied_by(context)"
                and len(s.body) == 1 and isinstance(s.body[0], ast.Return))
    between = top[rd0 + 1:wr[0]]
    if any(is_check(s) for s in between):
        return True
    nested = [s for s in between if isinstance(s, ast.If) and ast.unparse(s.test) == "storage_last_execution"
              and any(is_check(x) for x in s.body)]
    if len(nested) == 1:
        return False
    raise TranslateError("_should_trigger_cron_condition: schedule check after the storage read not recognised")


# ------------------------------------------------------------------ occurrence routing / pending read
def source_filter_exact(fn: ast.FunctionDef) -> bool:
    """get_conditions_sourced_from_task(task_id, context_type): under `if context_type is not None:` the conditions are
    filtered with `cond.context_type == context_type` (exact type: a result / exception report never reaches the status
    conditions although ResultContext and ExceptionContext subclass StatusContext).  Any other filter -> False."""
    ifs = [n for n in ast.walk(fn) if isinstance(n, ast.If)
           and ast.unparse(n.test).replace(" ", "") == "context_typeisnotNone"]
    if len(ifs) != 1:
        raise TranslateError(f"{fn.name}: expected one `if context_type is not None:`")
    comps = [n for s in ifs[0].body for n in ast.walk(s) if isinstance(n, ast.ListComp)]
    if len(comps) != 1 or len(comps[0].generators) != 1 or len(comps[0].generators[0].ifs) != 1:
        raise TranslateError(f"{fn.name}: context-type filter is not one filtered comprehension")
    g = comps[0].generators[0]
    if not isinstance(g.target, ast.Name) or ast.unparse(comps[0].elt) != g.target.id:
        raise TranslateError(f"{fn.name}: context-type filter maps its elements")
    v = g.target.id
    t = ast.unparse(g.ifs[0]).replace(" ", "")
    if t in (f"{v}.context_type==context_type", f"context_type=={v}.context_type",
             f"{v}.context_typeiscontext_type", f"context_typeis{v}.context_type"):
        return True
    if "issubclass(" in t or "isinstance(" in t or "__mro__" in t:
        return False
    raise TranslateError(f"{fn.name}: unrecognised context-type filter `{t}`")


def pending_read_complete_sqlite(fn: ast.FunctionDef) -> bool:
    """get_valid_conditions: one SELECT over the valid-conditions table without WHERE / LIMIT / OFFSET / JOIN / GROUP,
    every fetched row returned (fetchall + a dict comprehension without filter)"""
    calls = [n for n in ast.walk(fn) if isinstance(n, ast.Call) and isinstance(n.func, ast.Attribute)
             and n.func.attr == "execute"]
    if len(calls) != 1:
        raise TranslateError(f"{fn.name}: expected one SQL statement")
    sql = " ".join(_sql_full(calls[0]).split())
    if not sql.startswith("SELECT"):
        raise TranslateError(f"{fn.name}: statement is not a SELECT")
    whole = not any(k in f" {sql} " for k in (" WHERE ", " LIMIT ", " OFFSET ", " JOIN ", " GROUP ", " HAVING ", " DISTINCT "))
    fetch = [n.func.attr for n in ast.walk(fn) if isinstance(n, ast.Call) and isinstance(n.func, ast.Attribute)
             and n.func.attr.startswith("fetch")]
    if fetch in (["fetchmany"], ["fetchone"]):
        whole = False
    elif fetch != ["fetchall"]:
        raise TranslateError(f"{fn.name}: unrecognised fetch {fetch}")
    rets = [n for n in ast.walk(fn) if isinstance(n, ast.Return)]
    if len(rets) != 1 or not isinstance(rets[0].value, ast.DictComp):
        raise TranslateError(f"{fn.name}: result is not one dict comprehension")
    gens = rets[0].value.generators
    if len(gens) != 1 or gens[0].ifs or not isinstance(gens[0].iter, ast.Name):
        raise TranslateError(f"{fn.name}: result comprehension filters or slices the fetched rows")
    return whole


def mem_pending_in_place(tree: ast.Module) -> bool:
    """MemTrigger: outside __init__ the pending dict self._valid_conditions is never re-bound (only mutated in place:
    subscript store, del, .clear(), .pop()): a reporter that already loaded the dict object cannot write into a dict the
    store no longer reads"""
    cls = [n for n in tree.body if isinstance(n, ast.ClassDef) and n.name == "MemTrigger"]
    if len(cls) != 1:
        raise TranslateError("MemTrigger not found")

    def is_store(t):
        return isinstance(t, ast.Attribute) and t.attr == "_valid_conditions" and isinstance(t.value, ast.Name) and t.value.id == "self"
    init_binds, rebinds = 0, 0
    for fn in cls[0].body:
        if not isinstance(fn, ast.FunctionDef):
            continue
        for n in ast.walk(fn):
            tg = []
            if isinstance(n, ast.Assign):
                tg = [x for t in n.targets for x in (t.elts if isinstance(t, ast.Tuple) else [t])]
            elif isinstance(n, (ast.AugAssign, ast.AnnAssign)):
                tg = [n.target]
            elif isinstance(n, ast.NamedExpr):
                tg = [n.target]
            k = sum(1 for t in tg if is_store(t))
            if fn.name == "__init__":
                init_binds += k
            else:
                rebinds += k
        if any(isinstance(n, ast.Call) and isinstance(n.func, ast.Name) and n.func.id == "setattr"
               and any(isinstance(a, ast.Constant) and a.value == "_valid_conditions" for a in n.args) for n in ast.walk(fn)):
            rebinds += 1
    if init_binds != 1:
        raise TranslateError("MemTrigger.__init__ does not bind self._valid_conditions exactly once")
    return rebinds == 0


def _sql_full(call: ast.Call) -> str:
    """SQL text of an execute call, also when it is built from adjacent / concatenated (f-)strings"""
    if not call.args:
        return ""

    def txt(a):
        if isinstance(a, ast.Constant) and isinstance(a.value, str):
            return a.value
        if isinstance(a, ast.JoinedStr):
            return "".join(v.value if isinstance(v, ast.Constant) else "?" for v in a.values)
        if isinstance(a, ast.BinOp) and isinstance(a.op, ast.Add):
            return txt(a.left) + txt(a.right)
        raise TranslateError("SQL text is not a literal")
    return txt(call.args[0]).strip().upper()


def pending_read_complete_mem(fn: ast.FunctionDef) -> bool:
    """get_valid_conditions: returns self._valid_conditions.copy() / dict(self._valid_conditions) (every pending entry)"""
    body = [s for s in fn.body if not (isinstance(s, ast.Expr) and isinstance(s.value, ast.Constant))]
    if len(body) != 1 or not isinstance(body[0], ast.Return):
        raise TranslateError(f"{fn.name}: not a single return")
    t = ast.unparse(body[0].value).replace(" ", "")
    if t in ("self._valid_conditions.copy()", "dict(self._valid_conditions)", "{**self._valid_conditions}"):
        return True
    if "islice(" in t or "[:" in t or "max_events_batch_size" in t:
        return False
    raise TranslateError(f"{fn.name}: unrecognised result `{t}`")


def _b(x: bool) -> str:
    return "true" if x else "false"


def extract(repo: str) -> tuple[dict, dict]:
    base = _parse(repo, "pynenc/trigger/base_trigger.py")
    mem = _parse(repo, "pynenc/trigger/mem_trigger.py")
    sql = _parse(repo, "pynenc/trigger/sqlite_trigger.py")
    tdefs = _parse(repo, "pynenc/trigger/trigger_definitions.py")
    tctx = _parse(repo, "pynenc/trigger/trigger_context.py")
    cbase = _parse(repo, "pynenc/trigger/conditions/base.py")
    cron = _parse(repo, "pynenc/trigger/conditions/cron.py")
    exc = _parse(repo, "pynenc/trigger/conditions/exception.py")
    stat = _parse(repo, "pynenc/trigger/conditions/status.py")
    prov = _parse(repo, "pynenc/trigger/arguments/argument_providers.py")

    f = loop_facts(_method(base, "BaseTrigger", "trigger_loop_iteration"))
    m_claim = _method(mem, "MemTrigger", "claim_trigger_run")
    s_claim = _method(sql, "SQLiteTrigger", "claim_trigger_run")
    b_claim = _method(base, "BaseTrigger", "claim_trigger_run")
    exp = {_default_of(x, "expiration_seconds") for x in (m_claim, s_claim, b_claim)}
    if len(exp) != 1 or not isinstance(next(iter(exp)), int):
        raise TranslateError(f"claim expiry defaults differ: {exp}")
    f["claim_expiry"] = next(iter(exp))
    f["mem_claim_locked"] = mem_locked(m_claim, "_trigger_run_lock", "_trigger_run_claims")
    f["sqlite_claim_immediate"] = sqlite_immediate(s_claim, ("INSERT", "REPLACE", "UPDATE"))
    m_cas = _method(mem, "MemTrigger", "store_last_cron_execution")
    s_cas = _method(sql, "SQLiteTrigger", "store_last_cron_execution")
    f["mem_cas_locked"] = mem_locked(m_cas, "_cron_lock", "_last_cron_executions")
    f["sqlite_cas_immediate"] = sqlite_immediate(s_cas, ("UPDATE", "INSERT", "REPLACE"))
    f["mem_cas_rejects_none"] = cas_rejects_none(m_cas)
    f["sqlite_cas_rejects_none"] = cas_rejects_none(s_cas)
    ea = _fstring_attrs(_method(exc, "ExceptionContext", "context_id"))
    if "exception_type" not in ea:
        raise TranslateError("ExceptionContext.context_id without the exception type")
    f["exc_ctx_has_invocation"] = "invocation_id" in ea
    sa = _fstring_attrs(_method(stat, "StatusContext", "context_id"))
    f["status_ctx_inv_and_status"] = sorted(sa) == ["invocation_id", "status"]
    f.update({"cron_" + k: v for k, v in cron_facts(cron).items()})
    f["cron_first_poll_checked"] = first_poll_checked(_method(base, "BaseTrigger", "_should_trigger_cron_condition"))
    f["cron_storage_read_always"] = _storage_read(_method(base, "BaseTrigger", "_should_trigger_cron_condition"))[1]
    f["mem_source_filter_exact"] = source_filter_exact(_method(mem, "MemTrigger", "get_conditions_sourced_from_task"))
    f["sqlite_source_filter_exact"] = source_filter_exact(_method(sql, "SQLiteTrigger", "get_conditions_sourced_from_task"))
    f["mem_pending_read_complete"] = pending_read_complete_mem(_method(mem, "MemTrigger", "get_valid_conditions"))
    f["mem_pending_in_place"] = mem_pending_in_place(mem)
    f["sqlite_pending_read_complete"] = pending_read_complete_sqlite(_method(sql, "SQLiteTrigger", "get_valid_conditions"))

    shapes = {
        "TriggerDefinition.generate_trigger_run_ids": _shape(_method(tdefs, "TriggerDefinition", "generate_trigger_run_ids")),
        "TriggerDefinition.should_trigger": _shape(_method(tdefs, "TriggerDefinition", "should_trigger")),
        "TriggerContext.add_valid_condition": _shape(_method(tctx, "TriggerContext", "add_valid_condition")),
        "TriggerContext.has_condition": _shape(_method(tctx, "TriggerContext", "has_condition")),
        "ValidCondition.valid_condition_id": _shape(_method(cbase, "ValidCondition", "valid_condition_id")),
        "ContextTypeArgumentProvider.get_arguments": _shape(_method(prov, "ContextTypeArgumentProvider", "get_arguments")),
        "CompositeArgumentProvider.get_arguments": _shape(_method(prov, "CompositeArgumentProvider", "get_arguments")),
        "CronCondition._is_satisfied_by": _shape(_method(cron, "CronCondition", "_is_satisfied_by")),
        "BaseTrigger._should_trigger_cron_condition": _shape(_method(base, "BaseTrigger", "_should_trigger_cron_condition")),
        "BaseTrigger.check_time_based_triggers": _shape(_method(base, "BaseTrigger", "check_time_based_triggers")),
    }
    changed = sorted(k for k, v in EXPECTED_SHAPES.items() if shapes.get(k) != v)
    # facts that are read off an unchanged shape
    f["or_runid_per_occurrence"] = "TriggerDefinition.generate_trigger_run_ids" not in changed
    f["and_runid_joins_all"] = "TriggerDefinition.generate_trigger_run_ids" not in changed
    f["args_first_match"] = "ContextTypeArgumentProvider.get_arguments" not in changed
    return f, {"shapes": shapes, "shape_changed": changed}


def emit(f: dict) -> str:
    rows = [
        ("f_claim_guards_launch", _b(f["claim_guards_launch"])),
        ("f_clear_after_launch", _b(f["clear_after_launch"])),
        ("f_per_occurrence", _b(f["per_occurrence"])),
        ("f_or_runid_per_occurrence", _b(f["or_runid_per_occurrence"])),
        ("f_and_runid_joins_all", _b(f["and_runid_joins_all"])),
        ("f_args_first_match", _b(f["args_first_match"])),
        ("f_mem_claim_locked", _b(f["mem_claim_locked"])),
        ("f_sqlite_claim_immediate", _b(f["sqlite_claim_immediate"])),
        ("f_claim_expiry_s", str(f["claim_expiry"])),
        ("f_mem_cas_locked", _b(f["mem_cas_locked"])),
        ("f_sqlite_cas_immediate", _b(f["sqlite_cas_immediate"])),
        ("f_mem_cas_rejects_none", _b(f["mem_cas_rejects_none"])),
        ("f_sqlite_cas_rejects_none", _b(f["sqlite_cas_rejects_none"])),
        ("f_exc_ctx_has_invocation", _b(f["exc_ctx_has_invocation"])),
        ("f_status_ctx_inv_and_status", _b(f["status_ctx_inv_and_status"])),
        ("f_cron_window_s", str(f["cron_window"])),
        ("f_cron_min_interval_s", str(f["cron_min_interval"])),
        ("f_cron_tolerance_s", str(f["cron_tolerance"])),
        ("f_cron_window_inclusive", _b(f["cron_window_inclusive"])),
        ("f_cron_min_interval_strict", _b(f["cron_min_interval_strict"])),
        ("f_cron_first_poll_checked", _b(f["cron_first_poll_checked"])),
        ("f_cron_storage_read_always", _b(f["cron_storage_read_always"])),
        ("f_mem_source_filter_exact", _b(f["mem_source_filter_exact"])),
        ("f_sqlite_source_filter_exact", _b(f["sqlite_source_filter_exact"])),
        ("f_mem_pending_read_complete", _b(f["mem_pending_read_complete"])),
        ("f_sqlite_pending_read_complete", _b(f["sqlite_pending_read_complete"])),
        ("f_mem_pending_in_place", _b(f["mem_pending_in_place"])),
    ]
    lines = [
        "(* GENERATED by harness/translate/trigger.py from pynenc/trigger/*.py.",
        "   Do not edit: rewritten on every check run. *)",
        "From Coq Require Import ZArith Bool.",
        "From PV Require Import Model.TriggerDef.",
        "Local Open Scope Z_scope.",
        "",
        "Definition gen_facts : facts :=",
        "  {| " + ";\n     ".join(f"{k} := {v}" for k, v in rows) + " |}.",
        "",
    ]
    return "\n".join(lines)


def translate(repo: str) -> tuple[str, dict]:
    f, info = extract(repo)
    info["facts"] = f
    return emit(f), info


if __name__ == "__main__":
    import sys
    text, info = translate(sys.argv[1] if len(sys.argv) > 1 else "/repo")
    print(text)
    print(info, file=sys.stderr)

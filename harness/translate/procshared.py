"""Translator: the top-level modules of the five component packages (pynenc/broker, orchestrator,
state_backend, trigger, client_data_store)  ->  coq/gen/ProcShared_gen.v

What two applications of one process can have in common is state that is NOT bound per instance:
a mutable container bound in a class body or at module level (one object per process).  For every
such container the translator lists the kinds of access the source makes to it (Model/ProcShared.v:
AGetId / APutId / ADelId at an application id, AScan, AGetKey / APutKey / ADelKey at any other key,
AClear).  The theorem `process_isolation_of_this_tree` is stated over the generated list: a container
that is cleared as a whole or written at keys that are not application ids breaks its proof.

Fail-closed: a class-level / module-level value of unknown nature, an alias of a shared container,
an unknown method, `global` statements, ... raise TranslateError (the check then falls back to the
committed default and the observation on the real objects decides).
"""
from __future__ import annotations

import ast
import glob
import os

PACKAGES = ["broker", "orchestrator", "state_backend", "trigger", "client_data_store"]

MUTABLE_CTORS = {"dict", "list", "set", "OrderedDict", "defaultdict", "deque", "Counter", "ChainMap", "bytearray",
                 "WeakValueDictionary", "WeakKeyDictionary", "WeakSet", "Queue", "LifoQueue", "PriorityQueue", "SimpleQueue"}
INERT_CALLS = {"field", "Lock", "RLock", "Condition", "Event", "Semaphore", "BoundedSemaphore", "TypeVar", "ParamSpec", "cast",
               "getLogger", "ConfigField", "frozenset", "tuple", "namedtuple", "NewType", "compile", "local", "str", "int",
               "float", "bool", "bytes", "timedelta", "Path", "object", "MappingProxyType", "auto", "property", "getenv"}
SCAN_FUNCS = {"dict", "list", "len", "sorted", "set", "tuple", "iter", "frozenset", "bool", "any", "all", "sum", "max", "min",
              "enumerate", "reversed", "next", "repr", "str", "OrderedDict"}
SCAN_METHODS = {"items", "keys", "values", "copy", "__len__", "__iter__", "count", "index"}
PUTKEY_METHODS = {"update", "append", "add", "appendleft", "extend", "extendleft", "insert", "put", "put_nowait", "sort", "reverse"}
DELKEY_METHODS = {"popitem", "remove", "discard", "popleft", "get_nowait"}
ORDER = ["AGetId", "APutId", "ADelId", "AScan", "AGetKey", "APutKey", "ADelKey", "AClear"]


class TranslateError(Exception):
    pass


def _need(cond, msg):
    if not cond:
        raise TranslateError(msg)


def _fname(call: ast.Call) -> str:
    f = call.func
    return f.id if isinstance(f, ast.Name) else f.attr if isinstance(f, ast.Attribute) else ""


def value_kind(v: ast.AST, where: str) -> str:
    """'mutable' | 'inert' for a value bound in a class body / at module level (fail-closed)."""
    if isinstance(v, (ast.Dict, ast.List, ast.Set, ast.DictComp, ast.ListComp, ast.SetComp)):
        return "mutable"
    if isinstance(v, (ast.Constant, ast.Name, ast.Attribute, ast.Lambda, ast.JoinedStr, ast.Subscript, ast.GeneratorExp)):
        return "inert"
    if isinstance(v, ast.Tuple):
        _need(all(value_kind(e, where) == "inert" for e in v.elts), f"{where}: tuple holding a mutable container")
        return "inert"
    if isinstance(v, (ast.BinOp, ast.UnaryOp, ast.BoolOp, ast.Compare, ast.IfExp)):
        for e in ast.iter_child_nodes(v):
            if isinstance(e, ast.expr):
                _need(value_kind(e, where) == "inert", f"{where}: expression over a mutable container")
        return "inert"
    if isinstance(v, ast.Call):
        n = _fname(v)
        if n in MUTABLE_CTORS:
            return "mutable"
        _need(n in INERT_CALLS, f"{where}: value of unknown nature: {ast.unparse(v)[:60]}")
        return "inert"
    raise TranslateError(f"{where}: value of unknown nature: {ast.unparse(v)[:60]}")


class Module:
    def __init__(self, path: str, rel: str):
        self.rel = rel
        self.tree = ast.parse(open(path).read())
        self.parent: dict[int, ast.AST] = {}
        for n in ast.walk(self.tree):
            for c in ast.iter_child_nodes(n):
                self.parent[id(c)] = n

    def up(self, n):
        return self.parent.get(id(n))

    def func_of(self, n):
        while n is not None and not isinstance(n, (ast.FunctionDef, ast.AsyncFunctionDef)):
            n = self.up(n)
        return n

    def class_of(self, n):
        while n is not None and not isinstance(n, ast.ClassDef):
            n = self.up(n)
        return n


def _bindings(body, owner: str, rel: str):
    """(name, value node, statement) of every simple binding with a value in a class body / module body"""
    for s in body:
        if isinstance(s, ast.Assign):
            for t in s.targets:
                if isinstance(t, ast.Name):
                    yield t.id, s.value, s
                elif isinstance(t, ast.Tuple):
                    raise TranslateError(f"{rel}:{owner}: tuple binding at class/module level")
        elif isinstance(s, ast.AnnAssign) and s.value is not None and isinstance(s.target, ast.Name):
            yield s.target.id, s.value, s


def is_app_id(key: ast.AST, mod: Module, depth: int = 0) -> bool:
    """the key expression is (derived from) the application id: <...>.app_id, <...>.table_prefix,
    sanitize_table_prefix(...), a parameter app_id, a local name bound only from such expressions, or a tuple /
    f-string / concatenation / call that mentions one of them"""
    if isinstance(key, ast.Attribute) and key.attr in ("app_id", "table_prefix"):
        return True
    if isinstance(key, ast.Call) and _fname(key) == "sanitize_table_prefix":
        return True
    if isinstance(key, ast.Name):
        fn = mod.func_of(key)
        if fn is None or depth > 3:
            return False
        binds = []
        for n in ast.walk(fn):
            if isinstance(n, (ast.Assign, ast.AnnAssign, ast.NamedExpr)):
                tgts = n.targets if isinstance(n, ast.Assign) else [n.target]
                if any(isinstance(t, ast.Name) and t.id == key.id for t in tgts):
                    binds.append(n.value)
            elif isinstance(n, (ast.For, ast.comprehension)) and any(isinstance(t, ast.Name) and t.id == key.id for t in ast.walk(n.target)):
                return False
        if binds:
            return all(b is not None and is_app_id(b, mod, depth + 1) for b in binds)
        return key.id == "app_id" and any(a.arg == "app_id" for a in fn.args.args + fn.args.kwonlyargs)
    if isinstance(key, (ast.Tuple, ast.JoinedStr, ast.BinOp, ast.FormattedValue, ast.Call)):
        return any(is_app_id(c, mod, depth + 1) for c in ast.iter_child_nodes(key) if isinstance(c, ast.expr))
    return False


def classify(node: ast.AST, mod: Module, name: str) -> list[str]:
    """kinds of access made by the occurrence `node` of the shared container (fail-closed)"""
    where = f"{mod.rel}:{getattr(node, 'lineno', 0)}: {name}"
    p = mod.up(node)

    def at(key, kind):     # kind in Get/Put/Del
        return f"A{kind}{'Id' if is_app_id(key, mod) else 'Key'}"

    if isinstance(p, ast.Subscript) and p.value is node:
        key = p.slice
        if isinstance(p.ctx, ast.Store):
            return [at(key, "Put")]
        if isinstance(p.ctx, ast.Del):
            return [at(key, "Del")]
        out = [at(key, "Get")]
        gp = mod.up(p)
        if isinstance(gp, (ast.Attribute, ast.Subscript)) and gp.value is p:      # X[k].append(..), X[k][j] = ..: the entry changes
            out.append(at(key, "Put"))
        if isinstance(gp, ast.AugAssign) and gp.target is p:
            out.append(at(key, "Put"))
        return out
    if isinstance(p, ast.Compare) and node in p.comparators and all(isinstance(o, (ast.In, ast.NotIn)) for o in p.ops) and len(p.ops) == 1:
        return [at(p.left, "Get")]
    if isinstance(p, ast.Attribute) and p.value is node:
        call = mod.up(p)
        _need(isinstance(call, ast.Call) and call.func is p, f"{where}: bound method .{p.attr} escapes")
        m, args = p.attr, call.args
        if m in ("get", "__getitem__", "__contains__", "move_to_end") and args:
            return [at(args[0], "Get")]
        if m in ("setdefault", "__setitem__") and args:
            return [at(args[0], "Get"), at(args[0], "Put")]
        if m in ("pop", "__delitem__") and args:
            return [at(args[0], "Del")]
        if m == "add" and len(args) == 1:              # set of keys
            return [at(args[0], "Put")]
        if m in ("remove", "discard") and len(args) == 1:
            return [at(args[0], "Del")]
        if m == "pop":
            return ["ADelKey"]
        if m == "clear":
            return ["AClear"]
        if m in SCAN_METHODS:
            return ["AScan"]
        if m in PUTKEY_METHODS:
            return ["APutKey"]
        if m in DELKEY_METHODS:
            return ["ADelKey"]
        raise TranslateError(f"{where}: unknown method .{m}()")
    if isinstance(p, ast.Call) and node in p.args:
        _need(_fname(p) in SCAN_FUNCS and isinstance(p.func, ast.Name), f"{where}: passed to {ast.unparse(p.func)[:40]}()")
        return ["AScan"]
    if isinstance(p, (ast.For, ast.AsyncFor, ast.comprehension)) and p.iter is node:
        return ["AScan"]
    if isinstance(p, (ast.If, ast.While, ast.IfExp)) and p.test is node:
        return ["AScan"]
    if isinstance(p, ast.BoolOp) or (isinstance(p, ast.UnaryOp) and isinstance(p.op, ast.Not)):
        return ["AScan"]
    if isinstance(p, (ast.Assign, ast.AnnAssign, ast.AugAssign)):
        tgts = p.targets if isinstance(p, ast.Assign) else [p.target]
        if any(t is node for t in tgts):
            return ["AClear"] if not isinstance(p, ast.AugAssign) else ["APutKey"]       # rebinding the whole container
        # self.<attr> = X : the instance attribute is one more name of the process-wide object
        if isinstance(p, (ast.Assign, ast.AnnAssign)) and p.value is node and len(tgts) == 1 and isinstance(tgts[0], ast.Attribute) \
                and isinstance(tgts[0].value, ast.Name) and tgts[0].value.id == "self":
            return [f"ALIAS:{tgts[0].attr}"]
        raise TranslateError(f"{where}: aliased ({ast.unparse(p)[:60]})")
    if isinstance(p, ast.Delete):
        return ["AClear"]
    raise TranslateError(f"{where}: unknown use ({type(p).__name__}: {ast.unparse(p)[:60]})")


def component_files(repo: str) -> list[str]:
    out = []
    for pkg in PACKAGES:
        files = sorted(glob.glob(os.path.join(repo, "pynenc", pkg, "*.py")))
        _need(files, f"pynenc/{pkg}: no modules")
        out += files
    return out


def parse_repo(repo: str) -> dict:
    mods = [Module(f, os.path.relpath(f, repo)) for f in component_files(repo)]
    classes = {n.name for m in mods for n in ast.walk(m.tree) if isinstance(n, ast.ClassDef)}
    containers: dict[str, dict] = {}          # display name -> {"attr", "module_level", "defs": [stmt ids], "rel"}
    inert = 0
    for m in mods:
        for n in ast.walk(m.tree):
            _need(not isinstance(n, ast.Global), f"{m.rel}: global statement (module state rebound from a function)")
            if isinstance(n, ast.Call) and isinstance(n.func, ast.Name) and n.func.id in ("setattr", "globals", "vars", "delattr"):
                raise TranslateError(f"{m.rel}:{n.lineno}: {n.func.id}() - state may be bound dynamically")
        for name, value, stmt in _bindings(m.tree.body, "<module>", m.rel):
            if name.startswith("__") and name.endswith("__"):
                continue
            if value_kind(value, f"{m.rel}:{name}") == "mutable":
                disp = f"{os.path.basename(m.rel)[:-3]}.{name}"
                containers[disp] = {"attr": name, "module_level": True, "defs": {id(stmt)}, "rel": m.rel, "cls": None}
            else:
                inert += 1
        for c in ast.walk(m.tree):
            if not isinstance(c, ast.ClassDef):
                continue
            for name, value, stmt in _bindings(c.body, c.name, m.rel):
                if name.startswith("__") and name.endswith("__"):
                    continue
                if value_kind(value, f"{m.rel}:{c.name}.{name}") == "mutable":
                    containers[f"{c.name}.{name}"] = {"attr": name, "module_level": False, "defs": {id(stmt)}, "rel": m.rel, "cls": c.name}
                else:
                    inert += 1
        # state bound on the class object from inside a method / from outside:  cls.X = ..., type(self).X = ..., Klass.X = ...
        for n in ast.walk(m.tree):
            if isinstance(n, (ast.Assign, ast.AnnAssign)):
                for t in (n.targets if isinstance(n, ast.Assign) else [n.target]):
                    if isinstance(t, ast.Attribute) and _class_object(t.value, classes):
                        owner = m.class_of(n)
                        disp = f"{t.value.id if isinstance(t.value, ast.Name) and t.value.id in classes else owner.name if owner else '?'}.{t.attr}"
                        containers.setdefault(disp, {"attr": t.attr, "module_level": False, "defs": set(), "rel": m.rel, "cls": None})
    # per-instance shadowing: `self.X = <fresh>` in __init__ of the defining class
    shadowed = []
    for disp, c in list(containers.items()):
        if c["module_level"] or not c["cls"]:
            continue
        for m in mods:
            if m.rel != c["rel"]:
                continue
            for cls in ast.walk(m.tree):
                if isinstance(cls, ast.ClassDef) and cls.name == c["cls"]:
                    for fn in cls.body:
                        if isinstance(fn, ast.FunctionDef) and fn.name == "__init__":
                            for n in ast.walk(fn):
                                if isinstance(n, (ast.Assign, ast.AnnAssign)):
                                    for t in (n.targets if isinstance(n, ast.Assign) else [n.target]):
                                        if isinstance(t, ast.Attribute) and t.attr == c["attr"] and isinstance(t.value, ast.Name) and t.value.id == "self":
                                            shadowed.append(disp)
    out: dict[str, list[str]] = {}
    aliases: dict[str, list[str]] = {}
    for disp, c in containers.items():
        kinds: set[str] = set()
        non_self = False
        attrs, done_attrs = [c["attr"]], set()
        while attrs:
            attr = attrs.pop()
            done_attrs.add(attr)
            alias = attr != c["attr"]
            for m in mods:
                for n in ast.walk(m.tree):
                    hit = False
                    if isinstance(n, ast.Attribute) and n.attr == attr and not (c["module_level"] and not alias):
                        hit = True
                        if not (isinstance(n.value, ast.Name) and n.value.id == "self"):
                            non_self = True
                    elif c["module_level"] and not alias and m.rel == c["rel"] and isinstance(n, ast.Name) and n.id == attr:
                        hit = True
                    elif c["module_level"] and not alias and m.rel != c["rel"] and isinstance(n, ast.Attribute) and n.attr == attr \
                            and isinstance(n.value, ast.Name) and n.value.id == os.path.basename(c["rel"])[:-3]:
                        hit = True
                    if not hit:
                        continue
                    p = m.up(n)
                    if id(p) in c["defs"]:
                        continue
                    if alias and isinstance(p, (ast.Assign, ast.AnnAssign)) and isinstance(n.ctx, ast.Store):
                        continue                      # the aliasing statement itself (a second binding of the attribute: see below)
                    if disp in shadowed and isinstance(p, (ast.Assign, ast.AnnAssign)) and m.func_of(n) is not None \
                            and m.func_of(n).name == "__init__" and isinstance(n.ctx, ast.Store):
                        continue
                    for k in classify(n, m, disp):
                        if k.startswith("ALIAS:"):
                            if k[6:] not in done_attrs and k[6:] not in attrs:
                                attrs.append(k[6:])
                        else:
                            kinds.add(k)
        if disp in shadowed:
            _need(not non_self, f"{disp}: bound per instance in __init__ but also reached through the class")
            continue
        out[disp] = [k for k in ORDER if k in kinds]
        aliases[disp] = sorted(done_attrs - {c["attr"]})
    return {"containers": dict(sorted(out.items())), "shadowed": sorted(set(shadowed)), "inert_bindings": inert,
            "files": [m.rel for m in mods], "aliases": {k: v for k, v in sorted(aliases.items()) if v}}


def _class_object(v: ast.AST, classes: set[str]) -> bool:
    if isinstance(v, ast.Name):
        return v.id == "cls" or v.id in classes
    if isinstance(v, ast.Call):
        return isinstance(v.func, ast.Name) and v.func.id == "type"
    if isinstance(v, ast.Attribute):
        return v.attr == "__class__"
    return False


def coq_str(s: str) -> str:
    return "[" + "; ".join(str(ord(c)) for c in s) + "]"


def emit(p: dict) -> str:
    L = [
        "(* GENERATED by harness/translate/procshared.py from the top-level modules of pynenc/broker,",
        "   orchestrator, state_backend, trigger and client_data_store.  Do not edit: rewritten on every check run.",
        "   Every mutable container bound in a class body or at module level (one object per process, reachable",
        "   from the components of every application) with the kinds of access the source makes to it. *)",
        "From Coq Require Import List NArith Bool.",
        "Import ListNotations.",
        "From PV Require Import Model.SanitizeDef Model.ProcShared.",
        "Open Scope N_scope.",
        "",
        "Definition gen_shared : shared := [",
    ]
    rows = [f"  ({coq_str(n)} (* {n} *), [{'; '.join(a)}])" for n, a in p["containers"].items()]
    L.append(";\n".join(rows))
    L += ["].", ""]
    return "\n".join(L)


def translate(repo: str) -> tuple[str, dict]:
    p = parse_repo(repo)
    info = {"containers": p["containers"], "instance_attributes_bound_to_them": p["aliases"], "bound_per_instance_in_init": p["shadowed"], "inert_class_or_module_bindings": p["inert_bindings"],
            "modules": len(p["files"])}
    return emit(p), info


if __name__ == "__main__":
    import sys
    text, info = translate(sys.argv[1] if len(sys.argv) > 1 else "/repo")
    print(text)
    print(info, file=sys.stderr)

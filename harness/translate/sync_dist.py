"""Translator for C19: the retry tests, the retry bookkeeping, the retriable-exception rule and the
direct-task wrappers  ->  coq/gen/SyncDist_gen.v

Sources (all read with Python `ast`, fail-closed: any shape other than the one described raises
TranslateError and the check falls back to coq/gen_default/SyncDist_gen.v + the correspondence):

* pynenc/invocation/conc_invocation.py  ConcurrentInvocation.result
      try: ... run_task_sync(self.task.func, ...) ...
      except self.task.retriable_exceptions as exc:
          if self._num_retries <OP> self.task.conf.max_retries: ... raise exc
          ...; self._num_retries += <K>; ...; return self.result
      except Exception ...: ... raise
  -> gen_sync_exhausted (the comparison), gen_sync_incr (K)
* pynenc/invocation/dist_invocation.py  DistributedInvocation.run
      except self.task.retriable_exceptions as ex:      (before the generic `except Exception`)
          if self.num_retries <OP> self.task.conf.max_retries: set_invocation_exception(...); raise ex
          set_invocation_retry(...)
  -> gen_dist_exhausted
* pynenc/orchestrator/base_orchestrator.py  BaseOrchestrator.set_invocation_retry
      the ordered calls set_invocation_status(.., RETRY, ..) / increment_invocation_retries / route_invocation
  -> gen_dist_incr (number of increments), gen_dist_requeues, gen_retry_incr_before_publish
* pynenc/task.py  Task.retriable_exceptions
      if not retry_for: (RetryError,) ; if RetryError in retry_for: retry_for ; retry_for + (RetryError,)
  -> gen_retriable
* pynenc/app.py  Pynenc.direct_task / sync_wrapper
      if parallel_func: group = _parallelize(...); return _aggregate_results(group.results)
      return task(*args, **kwargs).result
  -> gen_direct_returns_result, gen_direct_par_aggregates
* pynenc/conf/config_task.py  ConfigTask.max_retries = ConfigField(<n>)  -> gen_default_max_retries
* pynenc/task.py  distribute_calls, the dev_mode_force_sync_tasks branch (see parse_sync_group)
      for a in all_args: v = task._call(a); <type guard>; L.append(v)   return ConcurrentInvocationGroup(task, L)
  -> gen_sync_group_own_invocations (every element of a parallelized list is its own fresh invocation)
* pynenc/task.py  distribute_batch_calls (see parse_batches)  -> gen_batch_count n b
* pynenc/task.py  prepare_arguments (see parse_common_args)  -> gen_common_args_fresh_per_call
* pynenc/app.py   direct_task.decorator option filter (see parse_direct_options)  -> gen_direct_option
"""
from __future__ import annotations

import ast


class TranslateError(Exception):
    pass


def _find_class(tree: ast.Module, name: str) -> ast.ClassDef:
    for n in tree.body:
        if isinstance(n, ast.ClassDef) and n.name == name:
            return n
    raise TranslateError(f"class {name} not found")


def _find_func(body: list, name: str) -> ast.FunctionDef:
    for n in body:
        if isinstance(n, ast.FunctionDef) and n.name == name:
            return n
    raise TranslateError(f"function {name} not found")


def _dotted(n: ast.AST) -> str | None:
    parts = []
    while isinstance(n, ast.Attribute):
        parts.append(n.attr)
        n = n.value
    if isinstance(n, ast.Name):
        parts.append(n.id)
        return ".".join(reversed(parts))
    return None


def _cmp_to_coq(test: ast.AST, counter: str) -> str:
    """`<counter> OP self.task.conf.max_retries` (either operand order) -> Coq bool over n (counter) m (max)."""
    if not (isinstance(test, ast.Compare) and len(test.ops) == 1 and len(test.comparators) == 1):
        raise TranslateError("retry test is not a single comparison")
    left, right = _dotted(test.left), _dotted(test.comparators[0])
    op = type(test.ops[0]).__name__
    if left == counter and right == "self.task.conf.max_retries":
        pass
    elif right == counter and left == "self.task.conf.max_retries":
        op = {"GtE": "LtE", "Gt": "Lt", "LtE": "GtE", "Lt": "Gt", "Eq": "Eq", "NotEq": "NotEq"}.get(op, op)
    else:
        raise TranslateError(f"retry test operands not recognised: {left} / {right}")
    table = {"GtE": "Nat.leb m n", "Gt": "Nat.ltb m n", "LtE": "Nat.leb n m", "Lt": "Nat.ltb n m",
             "Eq": "Nat.eqb n m", "NotEq": "negb (Nat.eqb n m)"}
    if op not in table:
        raise TranslateError(f"unsupported comparison {op}")
    return table[op]


def _retriable_handler(fn: ast.FunctionDef) -> tuple[ast.ExceptHandler, ast.Try]:
    tries = [n for n in ast.walk(fn) if isinstance(n, ast.Try)]
    for t in tries:
        names = [_dotted(h.type) if h.type is not None else None for h in t.handlers]
        if "self.task.retriable_exceptions" in names:
            i = names.index("self.task.retriable_exceptions")
            generic = [k for k, nm in enumerate(names) if nm in ("Exception", "BaseException", None)]
            if any(k < i for k in generic):
                raise TranslateError("a generic except clause precedes the retriable one")
            if not generic:
                raise TranslateError("no generic except clause after the retriable one")
            calls = [c for s in t.body for c in ast.walk(s) if isinstance(c, ast.Call)
                     and _dotted(c.func) == "run_task_sync"]
            if len(calls) != 1:
                raise TranslateError("the try body does not run the task function exactly once")
            return t.handlers[i], t
    raise TranslateError("no `except self.task.retriable_exceptions` handler")


def _calls_in(stmts: list) -> list[str]:
    out = []
    for s in stmts:
        for c in ast.walk(s):
            if isinstance(c, ast.Call):
                d = _dotted(c.func)
                if d:
                    out.append(d)
    return out


def _has_raise(stmts: list, name: str) -> bool:
    return any(isinstance(n, ast.Raise) and isinstance(n.exc, ast.Name) and n.exc.id == name
               for s in stmts for n in ast.walk(s))


def parse_sync(src: str) -> dict:
    cls = _find_class(ast.parse(src), "ConcurrentInvocation")
    fn = _find_func(cls.body, "result")
    h, _ = _retriable_handler(fn)
    if not (h.body and isinstance(h.body[0], ast.If) and not h.body[0].orelse):
        raise TranslateError("sync retriable handler does not start with the max-retries test")
    test = h.body[0]
    if not _has_raise(test.body, h.name or ""):
        raise TranslateError("sync max-retries branch does not re-raise the exception")
    rest = h.body[1:]
    incs = [s for s in rest if isinstance(s, ast.AugAssign) and _dotted(s.target) == "self._num_retries"]
    if len(incs) != 1 or not isinstance(incs[0].op, ast.Add) or not isinstance(incs[0].value, ast.Constant) \
            or not isinstance(incs[0].value.value, int) or isinstance(incs[0].value.value, bool):
        raise TranslateError("sync retry branch does not do `self._num_retries += <int>` exactly once")
    last = rest[-1]
    if not (isinstance(last, ast.Return) and _dotted(last.value) == "self.result"):
        raise TranslateError("sync retry branch does not end with `return self.result`")
    if any(isinstance(s, (ast.Return, ast.Raise)) for s in rest[:-1]):
        raise TranslateError("sync retry branch leaves early")
    if incs[0].value.value < 0 or incs[0].value.value > 3:
        raise TranslateError("sync increment out of the modelled range")
    return {"exhausted": _cmp_to_coq(test.test, "self._num_retries"), "incr": incs[0].value.value}


def parse_dist(src: str) -> dict:
    cls = _find_class(ast.parse(src), "DistributedInvocation")
    fn = _find_func(cls.body, "run")
    h, _ = _retriable_handler(fn)
    if not (h.body and isinstance(h.body[0], ast.If) and not h.body[0].orelse):
        raise TranslateError("dist retriable handler does not start with the max-retries test")
    test = h.body[0]
    if "self.app.orchestrator.set_invocation_exception" not in _calls_in(test.body) or not _has_raise(test.body, h.name or ""):
        raise TranslateError("dist max-retries branch does not store the exception and re-raise")
    rest_calls = _calls_in(h.body[1:])
    if rest_calls.count("self.app.orchestrator.set_invocation_retry") != 1:
        raise TranslateError("dist retry branch does not call set_invocation_retry exactly once")
    if any(isinstance(n, (ast.Raise, ast.Return)) for s in h.body[1:] for n in ast.walk(s)):
        raise TranslateError("dist retry branch raises/returns")
    return {"exhausted": _cmp_to_coq(test.test, "self.num_retries")}


def parse_set_retry(src: str) -> dict:
    cls = _find_class(ast.parse(src), "BaseOrchestrator")
    fn = _find_func(cls.body, "set_invocation_retry")
    seq = []
    for s in fn.body:
        if isinstance(s, ast.Expr) and isinstance(s.value, ast.Constant):
            continue                                   # docstring / comments
        if not (isinstance(s, ast.Expr) and isinstance(s.value, ast.Call)):
            raise TranslateError("set_invocation_retry is not a straight sequence of calls")
        d = _dotted(s.value.func) or ""
        if d.endswith(".set_invocation_status"):
            if not any(_dotted(a) == "InvocationStatus.RETRY" for a in s.value.args):
                raise TranslateError("set_invocation_retry sets a status other than RETRY")
            seq.append("status")
        elif d.endswith(".increment_invocation_retries"):
            seq.append("incr")
        elif d.endswith(".broker.route_invocation"):
            seq.append("route")
        elif d.endswith(".logger.info") or d.endswith(".logger.debug") or d.endswith(".logger.warning"):
            continue
        else:
            raise TranslateError(f"unexpected call in set_invocation_retry: {d}")
    if seq.count("status") != 1:
        raise TranslateError("set_invocation_retry does not publish RETRY exactly once")
    if seq.count("incr") > 3:
        raise TranslateError("too many increments")
    return {"incr": seq.count("incr"), "requeues": seq.count("route") >= 1, "seq": seq,
            "incr_before_publish": "incr" in seq and seq.index("incr") < seq.index("status")}


def parse_retriable(src: str) -> dict:
    cls = _find_class(ast.parse(src), "Task")
    fn = _find_func(cls.body, "retriable_exceptions")
    body = [s for s in fn.body if not (isinstance(s, ast.Expr) and isinstance(s.value, ast.Constant))]
    rf = "self.conf.retry_for"

    def is_tuple_retry(n):
        return isinstance(n, ast.Tuple) and len(n.elts) == 1 and _dotted(n.elts[0]) == "RetryError"
    ok = (len(body) == 3
          and isinstance(body[0], ast.If) and isinstance(body[0].test, ast.UnaryOp)
          and isinstance(body[0].test.op, ast.Not) and _dotted(body[0].test.operand) == rf
          and len(body[0].body) == 1 and isinstance(body[0].body[0], ast.Return) and is_tuple_retry(body[0].body[0].value)
          and not body[0].orelse
          and isinstance(body[1], ast.If) and isinstance(body[1].test, ast.Compare)
          and _dotted(body[1].test.left) == "RetryError" and len(body[1].test.ops) == 1
          and isinstance(body[1].test.ops[0], ast.In) and _dotted(body[1].test.comparators[0]) == rf
          and len(body[1].body) == 1 and isinstance(body[1].body[0], ast.Return) and _dotted(body[1].body[0].value) == rf
          and not body[1].orelse
          and isinstance(body[2], ast.Return) and isinstance(body[2].value, ast.BinOp)
          and isinstance(body[2].value.op, ast.Add) and _dotted(body[2].value.left) == rf
          and is_tuple_retry(body[2].value.right))
    if not ok:
        raise TranslateError("Task.retriable_exceptions has an unrecognised shape")
    return {"shape": "retry_for or (RetryError,), always including RetryError"}


def parse_direct(src: str) -> dict:
    cls = _find_class(ast.parse(src), "Pynenc")
    impls = [n for n in cls.body if isinstance(n, ast.FunctionDef) and n.name == "direct_task"
             and not any(_dotted(d) == "overload" for d in n.decorator_list)]
    if len(impls) != 1:
        raise TranslateError("direct_task implementation not found")
    wrappers = [n for n in ast.walk(impls[0]) if isinstance(n, ast.FunctionDef) and n.name == "sync_wrapper"]
    if len(wrappers) != 1:
        raise TranslateError("sync_wrapper not found")
    w = wrappers[0]
    if not (len(w.body) == 2 and isinstance(w.body[0], ast.If) and _dotted(w.body[0].test) == "parallel_func"
            and not w.body[0].orelse and isinstance(w.body[1], ast.Return)):
        raise TranslateError("sync_wrapper has an unrecognised shape")
    ret = w.body[1].value
    # `task(*args, **kwargs).result`  vs  `task(*args, **kwargs)`
    def is_task_call(n):
        return (isinstance(n, ast.Call) and isinstance(n.func, ast.Name) and n.func.id == "task"
                and len(n.args) == 1 and isinstance(n.args[0], ast.Starred) and len(n.keywords) == 1
                and n.keywords[0].arg is None)
    if isinstance(ret, ast.Attribute) and ret.attr == "result" and is_task_call(ret.value):
        returns_result = True
    elif is_task_call(ret):
        returns_result = False
    else:
        raise TranslateError("sync_wrapper return expression not recognised")
    par = w.body[0].body
    if not (len(par) == 2 and isinstance(par[0], ast.Assign) and isinstance(par[1], ast.Return)):
        raise TranslateError("sync_wrapper parallel branch not recognised")
    r = par[1].value
    if isinstance(r, ast.Call) and _dotted(r.func) == "_aggregate_results" and len(r.args) == 1 \
            and isinstance(r.args[0], ast.Attribute) and r.args[0].attr == "results":
        aggregates = True
    elif isinstance(r, ast.Name) or (isinstance(r, ast.Attribute) and r.attr == "results"):
        aggregates = False
    else:
        raise TranslateError("sync_wrapper parallel return not recognised")
    # _aggregate_results must apply aggregate_func to the results
    aggs = [n for n in ast.walk(impls[0]) if isinstance(n, ast.FunctionDef) and n.name == "_aggregate_results"]
    if len(aggs) != 1 or not any(isinstance(n, ast.Return) and isinstance(n.value, ast.Call)
                                 and _dotted(n.value.func) == "aggregate_func" and len(n.value.args) == 1
                                 and _dotted(n.value.args[0]) == "results" for n in ast.walk(aggs[0])):
        raise TranslateError("_aggregate_results does not return aggregate_func(results)")
    return {"returns_result": returns_result, "aggregates": aggregates}


def parse_default_max(src: str) -> int:
    cls = _find_class(ast.parse(src), "ConfigTask")
    for s in cls.body:
        if isinstance(s, ast.Assign) and len(s.targets) == 1 and _dotted(s.targets[0]) == "max_retries":
            v = s.value
            if isinstance(v, ast.Call) and _dotted(v.func) == "ConfigField" and len(v.args) == 1 \
                    and isinstance(v.args[0], ast.Constant) and isinstance(v.args[0].value, int) \
                    and 0 <= v.args[0].value <= 50:
                return v.args[0].value
    raise TranslateError("ConfigTask.max_retries default not recognised")


def _names_bound(stmts: list) -> list[str]:
    """every name (re)bound by the statements, with multiplicity (assignments, walrus, for/with targets)"""
    out = []
    for s in stmts:
        for n in ast.walk(s):
            if isinstance(n, ast.Name) and isinstance(n.ctx, (ast.Store, ast.Del)):
                out.append(n.id)
    return out


def parse_sync_group(src: str) -> dict:
    """pynenc/task.py  distribute_calls, the branch taken under dev_mode_force_sync_tasks:

          <L> = []                                   (anything else that does not touch L / all_args)
          for <a> in all_args:
              <v> = task._call(<a>)
              if not isinstance(<v>, ConcurrentInvocation): raise ...
              <L>.append(<v>)
          return ConcurrentInvocationGroup(task, <L>)

    -> own_invocations = True: every element of the parallelized list becomes its own, freshly created
       invocation of the group (in list order).
    Recognised DEVIATIONS give own_invocations = False (the model then shares the invocation of a repeated
    argument set and the theorems over the generated fact break): the appended value is not the value bound
    by `task._call(<a>)` in that iteration (re-bound in between / another expression), the append is
    conditional or skipped (`continue`/`break`), the loop does not range over all of `all_args`, or the
    list is rebuilt / mutated before it is handed to the group.  Anything else: TranslateError."""
    tree = ast.parse(src)
    fn = _find_func(tree.body, "distribute_calls")
    body = [s for s in fn.body if not (isinstance(s, ast.Expr) and isinstance(s.value, ast.Constant))]
    branches = [s for s in body if isinstance(s, ast.If) and _dotted(s.test) == "task.app.conf.dev_mode_force_sync_tasks"]
    if len(branches) != 1:
        raise TranslateError("distribute_calls: no single `if task.app.conf.dev_mode_force_sync_tasks:` branch")
    br = branches[0]
    before = body[:body.index(br)]
    # all_args = prepare_arguments(task, param_list, common_args), bound once, before the branch
    binds = [s for s in before if isinstance(s, ast.Assign) and len(s.targets) == 1 and _dotted(s.targets[0]) == "all_args"]
    if len(binds) != 1 or not (isinstance(binds[0].value, ast.Call) and _dotted(binds[0].value.func) == "prepare_arguments"):
        raise TranslateError("distribute_calls: all_args is not bound once from prepare_arguments(...)")
    if _names_bound(fn.body).count("all_args") != 1:
        return {"own_invocations": False, "why": "all_args is re-bound"}
    stmts = br.body
    if not stmts or not isinstance(stmts[-1], ast.Return):
        raise TranslateError("distribute_calls: the sync branch does not end with a return")
    ret = stmts[-1].value
    if not (isinstance(ret, ast.Call) and _dotted(ret.func) == "ConcurrentInvocationGroup" and len(ret.args) == 2
            and not ret.keywords and _dotted(ret.args[0]) == "task"):
        raise TranslateError("distribute_calls: the sync branch does not return ConcurrentInvocationGroup(task, <list>)")
    if not isinstance(ret.args[1], ast.Name):
        return {"own_invocations": False, "why": "the group is not built from the list of created invocations itself"}
    lst = ret.args[1].id
    loops = [s for s in stmts[:-1] if isinstance(s, (ast.For, ast.While))]
    if len(loops) != 1 or not isinstance(loops[0], ast.For):
        raise TranslateError("distribute_calls: the sync branch does not have exactly one for loop")
    loop = loops[0]
    rest = [s for s in stmts[:-1] if s is not loop]
    # the list starts empty and nothing but the loop touches it
    inits = [s for s in rest if isinstance(s, (ast.Assign, ast.AnnAssign))
             and _dotted(s.targets[0] if isinstance(s, ast.Assign) else s.target) == lst]
    if not inits or not (isinstance(inits[0].value, ast.List) and not inits[0].value.elts):
        raise TranslateError(f"distribute_calls: `{lst}` is not initialised to [] in the sync branch")
    if len(inits) > 1:
        return {"own_invocations": False, "why": f"`{lst}` is rebuilt outside the loop"}
    if stmts.index(inits[0]) > stmts.index(loop):
        raise TranslateError(f"distribute_calls: `{lst}` initialised after the loop")
    for s in rest:
        if s is inits[0]:
            continue
        if any(isinstance(n, ast.Name) and n.id == lst for n in ast.walk(s)):
            return {"own_invocations": False, "why": f"`{lst}` is rebuilt or mutated outside the loop"}
    if loop.orelse:
        raise TranslateError("distribute_calls: for ... else")
    if not (isinstance(loop.target, ast.Name) and isinstance(loop.iter, ast.Name)):
        if any(isinstance(n, ast.Name) and n.id == "all_args" for n in ast.walk(loop.iter)):
            return {"own_invocations": False, "why": "the loop does not range over all_args itself"}
        raise TranslateError("distribute_calls: loop header not recognised")
    if loop.iter.id != "all_args":
        raise TranslateError("distribute_calls: the loop does not range over all_args")
    arg = loop.target.id
    fresh = None          # the name bound by `v = task._call(arg)`
    appended = 0
    for s in loop.body:
        if (isinstance(s, ast.Assign) and len(s.targets) == 1 and isinstance(s.targets[0], ast.Name)
                and isinstance(s.value, ast.Call) and _dotted(s.value.func) == "task._call"
                and len(s.value.args) == 1 and not s.value.keywords and _dotted(s.value.args[0]) == arg
                and fresh is None):
            fresh = s.targets[0].id
        elif (isinstance(s, ast.If) and not s.orelse and all(isinstance(x, ast.Raise) for x in s.body)
              and isinstance(s.test, ast.UnaryOp) and isinstance(s.test.op, ast.Not)
              and isinstance(s.test.operand, ast.Call) and _dotted(s.test.operand.func) == "isinstance"):
            continue      # the type guard
        elif (isinstance(s, ast.Expr) and isinstance(s.value, ast.Call) and _dotted(s.value.func) == f"{lst}.append"
              and len(s.value.args) == 1 and not s.value.keywords):
            if fresh is None or _dotted(s.value.args[0]) != fresh:
                return {"own_invocations": False, "why": "the appended value is not the invocation created in this iteration"}
            appended += 1
        elif isinstance(s, ast.Expr) and isinstance(s.value, ast.Call) and (_dotted(s.value.func) or "").startswith("task.logger."):
            continue
        else:
            touched = {n.id for n in ast.walk(s) if isinstance(n, ast.Name)}
            jumps = any(isinstance(n, (ast.Continue, ast.Break, ast.Return)) for n in ast.walk(s))
            if jumps or lst in touched or (fresh is not None and fresh in _names_bound([s])) or arg in _names_bound([s]):
                return {"own_invocations": False,
                        "why": "an element can be skipped, or the created invocation / the list is replaced inside the loop"}
            if fresh is None and any(isinstance(n, ast.Call) and _dotted(n.func) == "task._call" for n in ast.walk(s)):
                raise TranslateError("distribute_calls: task._call used in an unrecognised way")
            # bookkeeping that neither jumps nor touches the list / the created invocation's binding
            continue
    if fresh is None:
        raise TranslateError("distribute_calls: the loop does not create an invocation with task._call(<element>)")
    if _names_bound(loop.body).count(fresh) != 1:
        return {"own_invocations": False, "why": f"`{fresh}` is re-bound between task._call and the append"}
    if appended != 1:
        return {"own_invocations": False, "why": f"{appended} appends per element"}
    return {"own_invocations": True, "why": "one fresh invocation appended per element of all_args"}


def _arith(e: ast.AST, env: dict) -> str:
    """integer expression over len(other_args) (n) and batch_size (b) -> Coq nat term (truncated subtraction,
    floor division as in Python for non-negative operands)"""
    if isinstance(e, ast.Constant) and isinstance(e.value, int) and not isinstance(e.value, bool) and 0 <= e.value <= 1000:
        return str(e.value)
    if isinstance(e, ast.Name):
        if e.id in env:
            return env[e.id]
        raise TranslateError(f"batch arithmetic: unknown name {e.id}")
    if isinstance(e, ast.Call) and _dotted(e.func) == "len" and len(e.args) == 1 and _dotted(e.args[0]) == "other_args":
        return "n"
    if isinstance(e, ast.Call) and _dotted(e.func) in ("max", "min") and len(e.args) == 2 and not e.keywords:
        return f"(Nat.{_dotted(e.func)} {_arith(e.args[0], env)} {_arith(e.args[1], env)})"
    if isinstance(e, ast.Call) and _dotted(e.func) == "math.ceil" and len(e.args) == 1 \
            and isinstance(e.args[0], ast.BinOp) and isinstance(e.args[0].op, ast.Div):
        x, y = _arith(e.args[0].left, env), _arith(e.args[0].right, env)
        return f"(Nat.div ({x} + {y} - 1) {y})"
    if isinstance(e, ast.BinOp):
        x, y = _arith(e.left, env), _arith(e.right, env)
        op = {ast.Add: "+", ast.Sub: "-", ast.Mult: "*"}.get(type(e.op))
        if op:
            return f"({x} {op} {y})"
        if isinstance(e.op, ast.FloorDiv):
            return f"(Nat.div {x} {y})"
    raise TranslateError("batch arithmetic: unsupported expression " + ast.dump(e)[:80])


def parse_batches(src: str) -> dict:
    """pynenc/task.py  distribute_batch_calls: how many batches of `batch_size` calls are routed.

          for i in range(0, len(other_args), batch_size):        -> ceil(n / b) batches, batch k starts at k*b
              batch_args = other_args[i : i + batch_size]
       or
          [<count> = <arithmetic over len(other_args), batch_size>]
          for k in range(<count>):
              i = k * batch_size
              batch_args = other_args[i : i + batch_size]

       and every batch is routed and added: `<x> = task.app.orchestrator.route_calls(<calls of the batch>)`,
       `invocations.extend(<x>)`; the group is built from `invocations`.
    -> gen_batch_count n b (a Coq term).  Anything else: TranslateError."""
    fn = _find_func(ast.parse(src).body, "distribute_batch_calls")
    loops = [s for s in fn.body if isinstance(s, ast.For)]
    loops = [l for l in loops if any(isinstance(n, ast.Call) and (_dotted(n.func) or "").endswith("orchestrator.route_calls")
                                     for n in ast.walk(l))]
    if len(loops) != 1:
        raise TranslateError("distribute_batch_calls: no single loop routing the batches")
    loop = loops[0]
    if not (isinstance(loop.target, ast.Name) and isinstance(loop.iter, ast.Call) and _dotted(loop.iter.func) == "range"
            and not loop.iter.keywords and not loop.orelse):
        raise TranslateError("distribute_batch_calls: loop header is not `for <name> in range(...)`")
    bs = [s for s in fn.body if isinstance(s, ast.Assign) and len(s.targets) == 1 and _dotted(s.targets[0]) == "batch_size"]
    if len(bs) != 1 or _dotted(bs[0].value) != "task.conf.parallel_batch_size" or _names_bound(fn.body).count("batch_size") != 1:
        raise TranslateError("distribute_batch_calls: batch_size is not task.conf.parallel_batch_size, bound once")
    env = {"batch_size": "b"}
    for st in fn.body[:fn.body.index(loop)]:          # simple integer names defined before the loop
        if isinstance(st, ast.Assign) and len(st.targets) == 1 and isinstance(st.targets[0], ast.Name) \
                and st.targets[0].id not in ("batch_size", "other_args", "invocations"):
            try:
                env[st.targets[0].id] = _arith(st.value, env)
            except TranslateError:
                pass
    var = loop.target.id
    body = list(loop.body)
    rargs = loop.iter.args
    if len(rargs) == 3:
        if not (isinstance(rargs[0], ast.Constant) and rargs[0].value == 0 and _arith(rargs[1], env) == "n"
                and _arith(rargs[2], env) == "b"):
            raise TranslateError("distribute_batch_calls: range(start, stop, step) is not range(0, len(other_args), batch_size)")
        count, start = "Nat.div (n + b - 1) b", var
    elif len(rargs) == 1:
        count = _arith(rargs[0], env)
        if not (body and isinstance(body[0], ast.Assign) and len(body[0].targets) == 1 and isinstance(body[0].targets[0], ast.Name)
                and isinstance(body[0].value, ast.BinOp) and isinstance(body[0].value.op, ast.Mult)
                and {_dotted(body[0].value.left), _dotted(body[0].value.right)} == {var, "batch_size"}):
            raise TranslateError("distribute_batch_calls: batch start is not <k> * batch_size")
        start = body[0].targets[0].id
        body = body[1:]
    else:
        raise TranslateError("distribute_batch_calls: range() form not recognised")
    # batch_args = other_args[start : start + batch_size]
    sl = [s for s in body if isinstance(s, ast.Assign) and isinstance(s.value, ast.Subscript)
          and _dotted(s.value.value) == "other_args" and isinstance(s.value.slice, ast.Slice)]
    if len(sl) != 1:
        raise TranslateError("distribute_batch_calls: the batch is not one slice of other_args")
    lo, hi, step = sl[0].value.slice.lower, sl[0].value.slice.upper, sl[0].value.slice.step
    if not (step is None and _dotted(lo) == start and isinstance(hi, ast.BinOp) and isinstance(hi.op, ast.Add)
            and {_dotted(hi.left), _dotted(hi.right)} == {start, "batch_size"}):
        raise TranslateError("distribute_batch_calls: slice is not other_args[i : i + batch_size]")
    if _names_bound(loop.body).count(start) != (0 if len(rargs) == 3 else 1):
        raise TranslateError("distribute_batch_calls: the batch start is re-bound in the loop")
    routed = [s for s in body if isinstance(s, ast.Assign) and isinstance(s.value, ast.Call)
              and (_dotted(s.value.func) or "").endswith("orchestrator.route_calls") and len(s.targets) == 1
              and isinstance(s.targets[0], ast.Name)]
    ext = [s for s in body if isinstance(s, ast.Expr) and isinstance(s.value, ast.Call) and _dotted(s.value.func) == "invocations.extend"
           and len(s.value.args) == 1]
    if len(routed) != 1 or len(ext) != 1 or _dotted(ext[0].value.args[0]) != routed[0].targets[0].id:
        raise TranslateError("distribute_batch_calls: a batch is not routed and added to `invocations` exactly once")
    if any(isinstance(n, (ast.Break, ast.Continue, ast.Return)) for s in loop.body for n in ast.walk(s)):
        raise TranslateError("distribute_batch_calls: the batch loop can leave early")
    ret = fn.body[-1]
    if not (isinstance(ret, ast.Return) and isinstance(ret.value, ast.Call) and _dotted(ret.value.func) == "DistributedInvocationGroup"
            and len(ret.value.args) == 2 and _dotted(ret.value.args[1]) == "invocations"):
        raise TranslateError("distribute_batch_calls: does not return DistributedInvocationGroup(task, invocations)")
    return {"count": count}


def parse_common_args(src: str) -> dict:
    """pynenc/task.py  prepare_arguments, a dict element next to common_args:

          for params in param_iter:
              ...
              elif isinstance(params, dict):
                  if common_args:
                      <m> = common_args.copy()        (or dict(common_args) / {**common_args})
                      <m>.update(params)
                      args_obj = task.args(**<m>)

    -> fresh_per_call = True: each call's keyword arguments are its own parameters over a FRESH copy of common_args.
       False (recognised deviation): the dict that is updated and passed on is not re-created from common_args
       inside the iteration (keys of one call stay for the next ones), or common_args itself is updated."""
    fn = _find_func(ast.parse(src).body, "prepare_arguments")
    loops = [s for s in fn.body if isinstance(s, ast.For)]
    if len(loops) != 1 or _dotted(loops[0].iter) != "param_iter" or not isinstance(loops[0].target, ast.Name):
        raise TranslateError("prepare_arguments: no single `for <p> in param_iter` loop")
    loop, par = loops[0], loops[0].target.id
    ifs = [n for n in ast.walk(loop) if isinstance(n, ast.If) and _dotted(n.test) == "common_args"]
    ifs = [n for n in ifs if any(isinstance(c, ast.Call) and _dotted(c.func) == "task.args" for s in n.body for c in ast.walk(s))]
    if len(ifs) != 1:
        raise TranslateError("prepare_arguments: no single `if common_args:` branch building the call's arguments")
    br = ifs[0].body
    calls = [c for s in br for c in ast.walk(s) if isinstance(c, ast.Call) and _dotted(c.func) == "task.args"]
    if len(calls) != 1 or calls[0].args or len(calls[0].keywords) != 1 or calls[0].keywords[0].arg is not None \
            or not isinstance(calls[0].keywords[0].value, ast.Name):
        raise TranslateError("prepare_arguments: the merged call is not task.args(**<name>)")
    m = calls[0].keywords[0].value.id
    ups = [s for s in br if isinstance(s, ast.Expr) and isinstance(s.value, ast.Call) and _dotted(s.value.func) == f"{m}.update"
           and len(s.value.args) == 1 and _dotted(s.value.args[0]) == par]
    if len(ups) != 1:
        raise TranslateError(f"prepare_arguments: `{m}` is not updated with the call's parameters exactly once")
    if m == "common_args":
        return {"fresh_per_call": False, "why": "common_args itself is updated with each call's parameters"}

    def fresh_copy(v):
        return ((isinstance(v, ast.Call) and _dotted(v.func) in ("common_args.copy", "dict", "copy.copy", "copy.deepcopy")
                 and (_dotted(v.func) == "common_args.copy" or (len(v.args) == 1 and _dotted(v.args[0]) == "common_args")))
                or (isinstance(v, ast.Dict) and v.keys == [None] and _dotted(v.values[0]) == "common_args"))
    binds_in = [s for s in br if isinstance(s, ast.Assign) and len(s.targets) == 1 and _dotted(s.targets[0]) == m]
    if len(binds_in) == 1 and fresh_copy(binds_in[0].value) and br.index(binds_in[0]) < br.index(ups[0]):
        if _names_bound(loop.body).count(m) != 1:
            raise TranslateError(f"prepare_arguments: `{m}` bound more than once in the loop")
        return {"fresh_per_call": True, "why": f"{m} = fresh copy of common_args; {m}.update({par}); task.args(**{m})"}
    if not binds_in and m not in _names_bound(loop.body):
        return {"fresh_per_call": False,
                "why": f"`{m}` is created outside the loop and updated in place for every call"}
    raise TranslateError(f"prepare_arguments: how `{m}` is built is not recognised")


def parse_direct_options(src: str) -> dict:
    """pynenc/app.py  Pynenc.direct_task.decorator:
          task_options = {k: v for k, v in task_options.items() if <test on v>}
          task = self.task(func, **task_options)
    -> keeps_falsy = True for `v is not None` (an option the caller passes - 0, False, () included - reaches the
       task); False for a truthiness test (`if v`): falsy options are dropped and the app-level value applies."""
    cls = _find_class(ast.parse(src), "Pynenc")
    impls = [n for n in cls.body if isinstance(n, ast.FunctionDef) and n.name == "direct_task"
             and not any(_dotted(d) == "overload" for d in n.decorator_list)]
    if len(impls) != 1:
        raise TranslateError("direct_task implementation not found")
    decs = [n for n in ast.walk(impls[0]) if isinstance(n, ast.FunctionDef) and n.name == "decorator"]
    if len(decs) != 1:
        raise TranslateError("direct_task.decorator not found")
    comps = [s for s in decs[0].body if isinstance(s, ast.Assign) and len(s.targets) == 1 and _dotted(s.targets[0]) == "task_options"
             and isinstance(s.value, ast.DictComp)]
    if len(comps) != 1:
        raise TranslateError("direct_task: task_options is not filtered by one dict comprehension")
    dc = comps[0].value
    gen = dc.generators[0] if len(dc.generators) == 1 else None
    if not (gen and isinstance(gen.target, ast.Tuple) and len(gen.target.elts) == 2 and all(isinstance(e, ast.Name) for e in gen.target.elts)
            and isinstance(gen.iter, ast.Call) and _dotted(gen.iter.func) == "task_options.items"
            and _dotted(dc.key) == gen.target.elts[0].id and _dotted(dc.value) == gen.target.elts[1].id and len(gen.ifs) == 1):
        raise TranslateError("direct_task: option filter comprehension not recognised")
    v, test = gen.target.elts[1].id, gen.ifs[0]
    uses = [c for c in ast.walk(decs[0]) if isinstance(c, ast.Call) and _dotted(c.func) == "self.task"]
    if len(uses) != 1 or len(uses[0].keywords) != 1 or uses[0].keywords[0].arg is not None \
            or _dotted(uses[0].keywords[0].value) != "task_options":
        raise TranslateError("direct_task: the task is not created with self.task(func, **task_options)")
    if isinstance(test, ast.Compare) and _dotted(test.left) == v and len(test.ops) == 1 and isinstance(test.ops[0], ast.IsNot) \
            and isinstance(test.comparators[0], ast.Constant) and test.comparators[0].value is None:
        return {"keeps_falsy": True, "why": f"options filtered with `{v} is not None`"}
    if isinstance(test, ast.Name) and test.id == v:
        return {"keeps_falsy": False, "why": f"options filtered by truthiness (`if {v}`): explicit 0 / False / () are dropped"}
    raise TranslateError("direct_task: option filter test not recognised")


def _b(x: bool) -> str:
    return "true" if x else "false"


def _c(text: str) -> str:
    """text safe inside a Coq comment"""
    return text.replace("(*", "( *").replace("*)", "* )").replace('"', "'")


def emit(p: dict) -> str:
    return "\n".join([
        "(* GENERATED by harness/translate/sync_dist.py from conc_invocation.py, dist_invocation.py,",
        "   base_orchestrator.py, task.py, app.py, config_task.py.  Do not edit: rewritten on every check run. *)",
        "From Coq Require Import List Bool Arith.",
        "Import ListNotations.",
        "",
        "(* ConcurrentInvocation.result: `if self._num_retries OP self.task.conf.max_retries: raise`  (n = counter, m = max) *)",
        f"Definition gen_sync_exhausted (n m : nat) : bool := {p['sync']['exhausted']}.",
        f"Definition gen_sync_incr : nat := {p['sync']['incr']}.",
        "(* DistributedInvocation.run: `if self.num_retries OP self.task.conf.max_retries: set_invocation_exception; raise` *)",
        f"Definition gen_dist_exhausted (n m : nat) : bool := {p['dist']['exhausted']}.",
        f"(* BaseOrchestrator.set_invocation_retry: {' ; '.join(p['retry']['seq'])} *)",
        f"Definition gen_dist_incr : nat := {p['retry']['incr']}.",
        f"Definition gen_dist_requeues : bool := {_b(p['retry']['requeues'])}.",
        f"Definition gen_retry_incr_before_publish : bool := {_b(p['retry']['incr_before_publish'])}.",
        "(* Task.retriable_exceptions over exception kinds (0 = RetryError): retry_for, always with RetryError *)",
        "Definition gen_retriable (rf : list nat) (k : nat) : bool :=",
        "  match rf with",
        "  | [] => Nat.eqb k 0",
        "  | _ => if existsb (Nat.eqb 0) rf then existsb (Nat.eqb k) rf else existsb (Nat.eqb k) rf || Nat.eqb k 0",
        "  end.",
        "(* Pynenc.direct_task.sync_wrapper *)",
        f"Definition gen_direct_returns_result : bool := {_b(p['direct']['returns_result'])}.",
        f"Definition gen_direct_par_aggregates : bool := {_b(p['direct']['aggregates'])}.",
        f"Definition gen_default_max_retries : nat := {p['default_max']}.",
        f"(* task.py distribute_calls, dev_mode_force_sync_tasks branch: {_c(p['group']['why'])} *)",
        f"Definition gen_sync_group_own_invocations : bool := {_b(p['group']['own_invocations'])}.",
        "(* task.py distribute_batch_calls: number of batches routed for n calls and batch size b (batch k starts at k*b) *)",
        f"Definition gen_batch_count (n b : nat) : nat := {p['batches']['count']}.",
        f"(* task.py prepare_arguments, dict element next to common_args: {_c(p['common']['why'])} *)",
        f"Definition gen_common_args_fresh_per_call : bool := {_b(p['common']['fresh_per_call'])}.",
        f"(* app.py direct_task: {_c(p['dopts']['why'])}; the max_retries a direct task runs with, given the declared option and the app-level value *)",
        "Definition gen_direct_option (declared app : nat) : nat := "
        + ("declared." if p['dopts']['keeps_falsy'] else "if Nat.eqb declared 0 then app else declared."),
        "",
    ])


def translate(repo: str) -> tuple[str, dict]:
    def rd(rel):
        return open(f"{repo}/{rel}").read()
    p = {
        "sync": parse_sync(rd("pynenc/invocation/conc_invocation.py")),
        "dist": parse_dist(rd("pynenc/invocation/dist_invocation.py")),
        "retry": parse_set_retry(rd("pynenc/orchestrator/base_orchestrator.py")),
        "retriable": parse_retriable(rd("pynenc/task.py")),
        "group": parse_sync_group(rd("pynenc/task.py")),
        "batches": parse_batches(rd("pynenc/task.py")),
        "common": parse_common_args(rd("pynenc/task.py")),
        "dopts": parse_direct_options(rd("pynenc/app.py")),
        "direct": parse_direct(rd("pynenc/app.py")),
        "default_max": parse_default_max(rd("pynenc/conf/config_task.py")),
    }
    info = {"facts": {"sync_exhausted": p["sync"]["exhausted"], "sync_incr": p["sync"]["incr"],
                      "dist_exhausted": p["dist"]["exhausted"], "set_invocation_retry": p["retry"]["seq"],
                      "direct_returns_result": p["direct"]["returns_result"],
                      "direct_par_aggregates": p["direct"]["aggregates"], "default_max_retries": p["default_max"],
                      "sync_group_own_invocations": p["group"]["own_invocations"],
                      "sync_group_shape": p["group"]["why"], "batch_count": p["batches"]["count"],
                      "common_args_fresh_per_call": p["common"]["fresh_per_call"],
                      "direct_keeps_falsy_options": p["dopts"]["keeps_falsy"]}}
    return emit(p), info


if __name__ == "__main__":
    import sys
    text, info = translate(sys.argv[1] if len(sys.argv) > 1 else "/repo")
    print(text)
    print(info, file=sys.stderr)

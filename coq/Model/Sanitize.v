(* Model/Sanitize.v — C17: pynenc/util/sqlite_utils.py sanitize_table_prefix, TableNames and the
   per-component Tables classes, over the constants generated from the source
   (gen/Sanitize_gen.v).  The digest function is a parameter H (instantiated with the executable
   SHA-256 of Model/Sha256.v in Props/C17.v; the general lemmas only use that H yields at least
   gen_hash_len lower-case hex digits).  Definitions only. *)
From Coq Require Import List NArith Bool.
Import ListNotations.
From PV Require Import Model.SanitizeDef gen.Sanitize_gen.
Open Scope N_scope.

(* re.sub(r"[^...]", repl, app_id): every code point outside the kept class is replaced *)
Definition sub_chars (s : str) : str :=
  flat_map (fun c => if in_ranges gen_keep c then [c] else gen_repl) s.

(* if sanitized and (sanitized[0].isdigit() [or sanitized.lower().startswith("sqlite")]): sanitized = f"_{sanitized}" *)
Definition needs_guard (t : str) : bool :=
  match t with
  | c :: _ => (gen_digit_guard && is_digit c) || (gen_reserved_guard && starts_with_nocase gen_reserved_word t)
  | [] => false
  end.

Definition guard_digit (t : str) : str := if needs_guard t then gen_digit_prefix ++ t else t.

(* sanitized = sanitized or "_default" *)
Definition or_default (t : str) : str := match t with [] => gen_default | _ => t end.

Definition sanitize (id : str) : str := or_default (guard_digit (sub_chars id)).

(* every (component label, table suffix) pair of the five Tables classes *)
Definition vocab_pairs : list (str * str) :=
  flat_map (fun cs => map (pair (fst cs)) (snd cs)) gen_vocab.
Definition components : list str := map fst gen_vocab.

Section WithDigest.
  Variable H : str -> str.       (* hashlib.sha256(app_id.encode()).hexdigest() *)

  Definition hash_part (id : str) : str := firstn gen_hash_len (H id).

  (* sanitize_table_prefix(app_id) *)
  Definition prefix (id : str) : str := sanitize id ++ gen_hash_sep ++ hash_part id.

  (* TableNames.table_prefix *)
  Definition table_prefix (id comp : str) : str := prefix id ++ gen_comp_sep ++ comp.

  (* an attribute of a Tables class: f"{table_prefix}<suffix>" *)
  Definition table_name (id comp suffix : str) : str := table_prefix id comp ++ suffix.

  Definition all_tables (id : str) : list str :=
    map (fun ct => table_name id (fst ct) (snd ct)) vocab_pairs.
End WithDigest.

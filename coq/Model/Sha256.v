(* Model/Sha256.v — C17: an executable SHA-256 (FIPS 180-4) over byte lists, UTF-8 encoding of
   code points, and the lower-case hex digest, so that the table-prefix model needs no hash
   oracle: the refutation witnesses (a prefix look-alike id, a 32-bit collision pair) are closed
   terms checked by vm_compute, and the correspondence compares the model's complete prefix with
   hashlib's on every run.  Definitions only. *)
From Coq Require Import List NArith Bool.
Import ListNotations.
Open Scope N_scope.

Definition w32 (x : N) : N := x mod 4294967296.
Definition add32 (a b : N) : N := w32 (a + b).
Definition rotr (n x : N) : N := N.lor (N.shiftr x n) (w32 (N.shiftl x (32 - n))).
Definition not32 (x : N) : N := N.lxor x 4294967295.
Definition xor3 (a b c : N) : N := N.lxor (N.lxor a b) c.
Definition ch (x y z : N) : N := N.lxor (N.land x y) (N.land (not32 x) z).
Definition maj (x y z : N) : N := xor3 (N.land x y) (N.land x z) (N.land y z).
Definition bsig0 (x : N) : N := xor3 (rotr 2 x) (rotr 13 x) (rotr 22 x).
Definition bsig1 (x : N) : N := xor3 (rotr 6 x) (rotr 11 x) (rotr 25 x).
Definition ssig0 (x : N) : N := xor3 (rotr 7 x) (rotr 18 x) (N.shiftr x 3).
Definition ssig1 (x : N) : N := xor3 (rotr 17 x) (rotr 19 x) (N.shiftr x 10).

Definition sha_k : list N :=
 [1116352408; 1899447441; 3049323471; 3921009573; 961987163; 1508970993; 2453635748; 2870763221;
  3624381080; 310598401; 607225278; 1426881987; 1925078388; 2162078206; 2614888103; 3248222580;
  3835390401; 4022224774; 264347078; 604807628; 770255983; 1249150122; 1555081692; 1996064986;
  2554220882; 2821834349; 2952996808; 3210313671; 3336571891; 3584528711; 113926993; 338241895;
  666307205; 773529912; 1294757372; 1396182291; 1695183700; 1986661051; 2177026350; 2456956037;
  2730485921; 2820302411; 3259730800; 3345764771; 3516065817; 3600352804; 4094571909; 275423344;
  430227734; 506948616; 659060556; 883997877; 958139571; 1322822218; 1537002063; 1747873779;
  1955562222; 2024104815; 2227730452; 2361852424; 2428436474; 2756734187; 3204031479; 3329325298].

Record sha_state := { sa : N; sb : N; sc : N; sd : N; se : N; sf : N; sg : N; sh : N }.

Definition sha_init : sha_state :=
  {| sa := 1779033703; sb := 3144134277; sc := 1013904242; sd := 2773480762;
     se := 1359893119; sf := 2600822924; sg := 528734635; sh := 1541459225 |}.

(* message schedule, most recent word first: W[t] = ssig1 W[t-2] + W[t-7] + ssig0 W[t-15] + W[t-16] *)
Definition sched_next (ws : list N) : list N :=
  add32 (add32 (ssig1 (nth 1 ws 0)) (nth 6 ws 0)) (add32 (ssig0 (nth 14 ws 0)) (nth 15 ws 0)) :: ws.

Fixpoint iter_n {A} (n : nat) (f : A -> A) (x : A) : A :=
  match n with O => x | S k => iter_n k f (f x) end.

Definition schedule (block : list N) : list N := rev (iter_n 48 sched_next (rev block)).

Definition round (s : sha_state) (kw : N * N) : sha_state :=
  let t1 := add32 (add32 (add32 (sh s) (bsig1 (se s))) (add32 (ch (se s) (sf s) (sg s)) (fst kw))) (snd kw) in
  let t2 := add32 (bsig0 (sa s)) (maj (sa s) (sb s) (sc s)) in
  {| sa := add32 t1 t2; sb := sa s; sc := sb s; sd := sc s;
     se := add32 (sd s) t1; sf := se s; sg := sf s; sh := sg s |}.

Definition compress (s : sha_state) (block : list N) : sha_state :=
  let r := fold_left round (combine sha_k (schedule block)) s in
  {| sa := add32 (sa s) (sa r); sb := add32 (sb s) (sb r); sc := add32 (sc s) (sc r);
     sd := add32 (sd s) (sd r); se := add32 (se s) (se r); sf := add32 (sf s) (sf r);
     sg := add32 (sg s) (sg r); sh := add32 (sh s) (sh r) |}.

(* bytes -> big-endian 32-bit words (the padded message length is a multiple of 4) *)
Fixpoint words (fuel : nat) (bs : list N) : list N :=
  match fuel with
  | O => []
  | S f => match bs with
           | a :: b :: c :: d :: r => (((a * 256 + b) * 256 + c) * 256 + d) :: words f r
           | _ => []
           end
  end.

Fixpoint chunks16 (fuel : nat) (ws : list N) : list (list N) :=
  match fuel with
  | O => []
  | S f => match ws with [] => [] | _ => firstn 16 ws :: chunks16 f (skipn 16 ws) end
  end.

Definition be_bytes8 (n : N) : list N :=
  map (fun i => (N.shiftr n (8 * i)) mod 256) [7; 6; 5; 4; 3; 2; 1; 0].

Definition pad (bs : list N) : list N :=
  let l := N.of_nat (length bs) in
  let z := (64 - ((l + 9) mod 64)) mod 64 in
  bs ++ [128] ++ repeat 0 (N.to_nat z) ++ be_bytes8 (8 * l).

Definition sha256_state (bs : list N) : sha_state :=
  let p := pad bs in
  let ws := words (length p) p in
  fold_left compress (chunks16 (length ws) ws) sha_init.

Definition hexdigit (n : N) : N := if n <? 10 then 48 + n else 87 + n.
Definition hex8 (w : N) : list N :=
  map (fun i => hexdigit ((N.shiftr w (4 * i)) mod 16)) [7; 6; 5; 4; 3; 2; 1; 0].

Definition sha256_hex_bytes (bs : list N) : list N :=
  let s := sha256_state bs in
  hex8 (sa s) ++ hex8 (sb s) ++ hex8 (sc s) ++ hex8 (sd s) ++
  hex8 (se s) ++ hex8 (sf s) ++ hex8 (sg s) ++ hex8 (sh s).

(* str.encode(): UTF-8 of one code point (surrogates are rejected by Python; the generator never
   produces them) *)
Definition utf8_char (c : N) : list N :=
  if c <? 128 then [c]
  else if c <? 2048 then [192 + c / 64; 128 + c mod 64]
  else if c <? 65536 then [224 + c / 4096; 128 + (c / 64) mod 64; 128 + c mod 64]
  else [240 + c / 262144; 128 + (c / 4096) mod 64; 128 + (c / 64) mod 64; 128 + c mod 64].

Definition utf8 (s : list N) : list N := flat_map utf8_char s.

(* hashlib.sha256(s.encode()).hexdigest() on a list of code points *)
Definition sha256_hex (s : list N) : list N := sha256_hex_bytes (utf8 s).

(* Model/ConcControl.v — C06 / C07.  Submissions (single and batch path), polls, worker starts and
   finishes over one orchestrator, with registration and running concurrency control.
   Arguments are canonical value lists (binding is C15's subject); the concurrency key of a call is
   [] (TASK), all values (ARGUMENTS) or the values of the key parameters (KEYS).
   `batch_indexes` (does the batch routing path index arguments?) comes from gen/ConcFacts_gen.v. *)
From Coq Require Import List Bool Arith.
Import ListNotations.
From PV Require Import Model.Status.

Inductive cmode : Set := MDisabled | MTask | MArguments | MKeys (ks : list nat).

Definition key_of (m : cmode) (args : list nat) : list nat :=
  match m with
  | MDisabled | MTask => []
  | MArguments => args
  | MKeys ks => map (fun k => nth k args 0) ks
  end.

Record tcfg : Set := { reg_mode : cmode; reg_raise : bool; run_mode : cmode; run_reroute : bool }.

Record cinv : Set := { cid : nat; ctask : nat; cargs : list nat; cst : status; cown : option runner; cindexed : bool }.

Record cstate : Set := { invs : list cinv; cqueue : list nat; next_id : nat }.
Definition cstate0 : cstate := {| invs := []; cqueue := []; next_id := 0 |}.

Definition list_eqb (a b : list nat) : bool := if list_eq_dec Nat.eq_dec a b then true else false.
Definition mode_on (m : cmode) : bool := match m with MDisabled => false | _ => true end.

Section Cfg.
Variable cfg : nat -> tcfg.          (* options of each task *)
Variable batch_indexes : bool.       (* generated fact: route_calls indexes arguments *)
Variable single_indexes : bool.      (* generated fact: _route_new_call_invocation indexes arguments *)
Variable reg_sts cand_sts auth_sts : list status.   (* generated: statuses looked up at registration / candidate / authorisation *)

(* get_existing_invocations(task, key args of mode m, statuses): only INDEXED invocations can match
   an argument filter; TASK mode (no filter) matches by task alone *)
Definition in_statuses (s : status) (l : list status) : bool := existsb (status_eqb s) l.

Definition same_key (m : cmode) (t : nat) (args : list nat) (i : cinv) : bool :=
  Nat.eqb (ctask i) t &&
  match key_of m args with
  | [] => true                                                   (* no argument filter *)
  | k => cindexed i && list_eqb (key_of m (cargs i)) k
  end.

Definition existing (s : cstate) (m : cmode) (t : nat) (args : list nat) (sts : list status) : list cinv :=
  filter (fun i => same_key m t args i && in_statuses (cst i) sts) (invs s).

Definition set_inv (i : cinv) (st' : status) (o : option runner) : cinv :=
  {| cid := cid i; ctask := ctask i; cargs := cargs i; cst := st'; cown := o; cindexed := cindexed i |}.

Definition update (id : nat) (f : cinv -> cinv) (l : list cinv) : list cinv :=
  map (fun i => if Nat.eqb (cid i) id then f i else i) l.

Fixpoint find_inv (id : nat) (l : list cinv) : option cinv :=
  match l with
  | [] => None
  | i :: rest => if Nat.eqb (cid i) id then Some i else find_inv id rest
  end.

Definition new_inv (s : cstate) (t : nat) (args : list nat) (indexed : bool) : cstate :=
  {| invs := invs s ++ [{| cid := next_id s; ctask := t; cargs := args; cst := REGISTERED; cown := None; cindexed := indexed |}];
     cqueue := cqueue s ++ [next_id s];
     next_id := S (next_id s) |}.

Inductive cop : Set :=
| OSubmit (t : nat) (args : list nat)            (* task(...): route_call *)
| OBatch (t : nat) (argss : list (list nat))     (* parallelize through the batch path: route_calls *)
| OPoll (r : runner)                             (* one queue entry handled by one poller, atomically *)
| OStart (id : nat)                              (* worker: authorisation check + RUNNING *)
| OFinish (id : nat)                             (* RUNNING -> SUCCESS *)
| ORetry (id : nat)                              (* RUNNING -> RETRY + re-queue *)
| OKill (id : nat).                              (* owner kills: KILLED -> REROUTED + re-queue *)

Inductive cout : Set :=
| CNew (id : nat) | CReused (id : nat) | CRaised | CBatch (ids : list nat) | CBatchRefused
| CClaimed (id : nat) | CBlockedFinal (id : nat) | CBlockedRequeued (id : nat) | CSkipped | CEmpty
| CPollRaises (id : nat)                         (* the status has no edge to the concurrency status *)
| CDone | CRefused.

Definition indexed_on_submit (t : nat) : bool :=
  mode_on (reg_mode (cfg t)) || mode_on (run_mode (cfg t)).

Definition submit (s : cstate) (t : nat) (args : list nat) : cstate * cout :=
  let c := cfg t in
  match reg_mode c with
  | MDisabled => (new_inv s t args (single_indexes && indexed_on_submit t), CNew (next_id s))
  | m =>
      match existing s m t args reg_sts with
      | [] => (new_inv s t args (single_indexes && indexed_on_submit t), CNew (next_id s))
      | e :: _ =>
          if list_eqb (cargs e) args then (s, CReused (cid e))
          else if reg_raise c then (s, CRaised) else (s, CReused (cid e))
      end
  end.

Fixpoint batch (s : cstate) (t : nat) (argss : list (list nat)) (acc : list nat) : cstate * list nat :=
  match argss with
  | [] => (s, acc)
  | a :: rest => batch (new_inv s t a (batch_indexes && indexed_on_submit t)) t rest (acc ++ [next_id s])
  end.

Definition is_pr (s : status) : bool := match s with PENDING | RUNNING => true | _ => false end.

(* another invocation with the same running-concurrency key in one of `sts` *)
Definition blocked_by (s : cstate) (i : cinv) (sts : list status) : bool :=
  match run_mode (cfg (ctask i)) with
  | MDisabled => false
  | m => existsb (fun j => negb (Nat.eqb (cid j) (cid i))) (existing s m (ctask i) (cargs i) sts)
  end.

Definition set_status (s : cstate) (id : nat) (st' : status) (o : option runner) : cstate :=
  {| invs := update id (fun i => set_inv i st' o) (invs s); cqueue := cqueue s; next_id := next_id s |}.
Definition push (s : cstate) (id : nat) : cstate :=
  {| invs := invs s; cqueue := cqueue s ++ [id]; next_id := next_id s |}.

Definition poll (s : cstate) (r : runner) : cstate * cout :=
  match cqueue s with
  | [] => (s, CEmpty)
  | id :: rest =>
      let s1 := {| invs := invs s; cqueue := rest; next_id := next_id s |} in
      match find_inv id (invs s) with
      | None => (s1, CSkipped)
      | Some i =>
          if negb (doc_available (cst i)) then (s1, CSkipped)
          else if blocked_by s1 i cand_sts then
            if run_reroute (cfg (ctask i)) then
              if doc_edge (cst i) CONCURRENCY_CONTROLLED
              then (push (set_status s1 id REROUTED None) id, CBlockedRequeued id)
              else (s1, CPollRaises id)
            else
              if doc_edge (cst i) CONCURRENCY_CONTROLLED_FINAL
              then (set_status s1 id CONCURRENCY_CONTROLLED_FINAL None, CBlockedFinal id)
              else (s1, CPollRaises id)
          else (set_status s1 id PENDING (Some r), CClaimed id)
      end
  end.

Definition step_status (s : cstate) (id : nat) (from : status -> bool) (to : status) (requeue : bool) : cstate * cout :=
  match find_inv id (invs s) with
  | Some i => if from (cst i)
              then (let s' := set_status s id to (if doc_owned to then cown i else None) in
                    if requeue then push s' id else s', CDone)
              else (s, CRefused)
  | None => (s, CRefused)
  end.

Definition cstep (s : cstate) (o : cop) : cstate * cout :=
  match o with
  | OSubmit t args => submit s t args
  | OBatch t argss =>
      if mode_on (reg_mode (cfg t)) then (s, CBatchRefused)
      else let (s', ids) := batch s t argss [] in (s', CBatch ids)
  | OPoll r => poll s r
  | OStart id =>
      match find_inv id (invs s) with
      | Some i =>
          if status_eqb (cst i) PENDING then
            if blocked_by s i auth_sts then (push (set_status s id REROUTED None) id, CBlockedRequeued id)
            else (set_status s id RUNNING (cown i), CDone)
          else (s, CRefused)
      | None => (s, CRefused)
      end
  | OFinish id => step_status s id (fun x => status_eqb x RUNNING) SUCCESS false
  | ORetry id => step_status s id (fun x => status_eqb x RUNNING) RETRY true
  | OKill id => step_status s id is_pr REROUTED true
  end.

Fixpoint crun (s : cstate) (ops : list cop) : cstate * list cout :=
  match ops with
  | [] => (s, [])
  | o :: rest => let (s1, out) := cstep s o in let (s2, outs) := crun s1 rest in (s2, out :: outs)
  end.
Definition cexec (s : cstate) (ops : list cop) : cstate := fold_left (fun s o => fst (cstep s o)) ops s.

(* counts used by the theorems *)
Definition n_registered (s : cstate) (t : nat) (k : list nat) : nat :=
  length (filter (fun i => Nat.eqb (ctask i) t && status_eqb (cst i) REGISTERED &&
                           list_eqb (key_of (reg_mode (cfg t)) (cargs i)) k) (invs s)).
Definition n_active (s : cstate) (t : nat) (k : list nat) (p : status -> bool) : nat :=
  length (filter (fun i => Nat.eqb (ctask i) t && p (cst i) &&
                           list_eqb (key_of (run_mode (cfg t)) (cargs i)) k) (invs s)).
End Cfg.

(* Model/ArgsId.v — C15: the byte string pynenc/call.py:compute_args_id feeds to SHA-256, the
   JSON string quoting json.dumps(s, ensure_ascii=False) performs on code points, the call
   identity (task id, args id) and the composite keys of identifiers/{call_id,task_id}.py.
   Strings are lists of code points (N).  Definitions only; lemmas in Proofs/ArgsIdProofs.v.
   The configuration record is instantiated by gen/Roundtrip_gen.v (regenerated from the
   source on every run). *)
From Coq Require Import List NArith Bool.
Import ListNotations.
Open Scope N_scope.

Definition str := list N.

(* ---------- json.dumps(s, ensure_ascii=False) on one string ----------
   py_encode_basestring / c_encode_basestring: the double quote (34) and the backslash (92)
   are preceded by a backslash; LF CR TAB BS FF become backslash + n r t b f; other controls
   below 0x20 become backslash u 0 0 X Y (lower-case hex); everything else is literal. *)
Definition hexd (d : N) : N := if d <? 10 then 48 + d else 87 + d.   (* 0-9, a-f *)

Definition esc (c : N) : str :=
  if c =? 34 then [92; 34]
  else if c =? 92 then [92; 92]
  else if c =? 10 then [92; 110]
  else if c =? 13 then [92; 114]
  else if c =? 9 then [92; 116]
  else if c =? 8 then [92; 98]
  else if c =? 12 then [92; 102]
  else if c <? 32 then [92; 117; 48; 48; hexd (c / 16); hexd (c mod 16)]
  else [c].

Definition jquote (s : str) : str := 34 :: flat_map esc s ++ [34].

(* decoder of ONE escaped character from the front of a text (used by the proofs and by the
   harness to cross-check json.loads on the model's output) *)
Definition unhex (d : N) : option N :=
  if (48 <=? d) && (d <=? 57) then Some (d - 48)
  else if (97 <=? d) && (d <=? 102) then Some (d - 87) else None.

Definition unesc_head (t : str) : option (N * str) :=
  match t with
  | [] => None
  | c :: r =>
    if c =? 34 then None
    else if c =? 92 then
      match r with
      | 34 :: r' => Some (34, r')
      | 92 :: r' => Some (92, r')
      | 110 :: r' => Some (10, r')
      | 114 :: r' => Some (13, r')
      | 116 :: r' => Some (9, r')
      | 98 :: r' => Some (8, r')
      | 102 :: r' => Some (12, r')
      | 117 :: 48 :: 48 :: a :: b :: r' =>
          match unhex a, unhex b with
          | Some p, Some q => Some (16 * p + q, r')
          | _, _ => None
          end
      | _ => None
      end
    else Some (c, r)
  end.

(* ---------- sorted(keys): code-point lexicographic order of Python str ---------- *)
Fixpoint str_cmp (a b : str) : comparison :=
  match a, b with
  | [], [] => Eq
  | [], _ :: _ => Lt
  | _ :: _, [] => Gt
  | x :: a', y :: b' => match x ?= y with Eq => str_cmp a' b' | c => c end
  end.

Definition str_leb (a b : str) : bool := match str_cmp a b with Gt => false | _ => true end.
Definition str_eqb (a b : str) : bool := match str_cmp a b with Eq => true | _ => false end.

Definition amap := list (str * str).      (* serialized arguments: name -> serialized value *)

Fixpoint insert_kv (x : str * str) (l : amap) : amap :=
  match l with
  | [] => [x]
  | y :: l' => if str_leb (fst x) (fst y) then x :: l else y :: insert_kv x l'
  end.

Definition sort_kv (l : amap) : amap := fold_right insert_kv [] l.

(* ---------- compute_args_id ---------- *)
Record enc_cfg : Set := {
  sort_keys : bool;        (* for k in sorted(serialized_args.keys()) *)
  quote_key : bool;        (* ek = json.dumps(k, ensure_ascii=False) *)
  quote_val : bool;        (* ev = json.dumps(serialized_args[k], ensure_ascii=False) *)
  kv_sep : str;            (* the = byte *)
  item_sep : str;          (* the ; byte *)
  empty_id : str           (* no_args *)
}.

Definition q (b : bool) (s : str) : str := if b then jquote s else s.

Definition enc_item (c : enc_cfg) (kv : str * str) : str :=
  q (quote_key c) (fst kv) ++ kv_sep c ++ q (quote_val c) (snd kv) ++ item_sep c.

Definition encode (c : enc_cfg) (m : amap) : str :=
  flat_map (enc_item c) (if sort_keys c then sort_kv m else m).

(* H : the hash oracle (hex digest of SHA-256 over the UTF-8 bytes of the text) *)
Definition args_id (c : enc_cfg) (H : str -> str) (m : amap) : str :=
  match m with [] => empty_id c | _ => H (encode c m) end.

Definition call_id (c : enc_cfg) (H : str -> str) (task : str * str) (m : amap) : (str * str) * str :=
  (task, args_id c H m).

(* ---------- composite keys: identifiers/call_id.py, identifiers/task_id.py ---------- *)
(* rsplit_last sep s = Some (a, b)  iff  s = a ++ [sep] ++ b with sep not in b  (str.rsplit(sep,1) /
   str.rpartition(sep) for a one-character separator); None when sep does not occur. *)
Fixpoint rsplit_last (sep : N) (s : str) : option (str * str) :=
  match s with
  | [] => None
  | c :: r =>
    match rsplit_last sep r with
    | Some (a, b) => Some (c :: a, b)
    | None => if c =? sep then Some ([], r) else None
    end
  end.

Record key_cfg : Set := {
  call_sep : N;            (* colon in CallId.key / from_key (rsplit, maxsplit 1) *)
  task_sep : N;            (* TASK_ID_SEPARATOR, a dot (rpartition) *)
  task_rejects_empty : bool  (* from_key raises when module or func_name is empty *)
}.

Definition task_key (k : key_cfg) (t : str * str) : str := fst t ++ [task_sep k] ++ snd t.

Definition task_from_key (k : key_cfg) (s : str) : option (str * str) :=
  match rsplit_last (task_sep k) s with
  | None => None
  | Some (m, f) =>
    if task_rejects_empty k && (match m with [] => true | _ => false end || match f with [] => true | _ => false end)
    then None else Some (m, f)
  end.

Definition call_key (k : key_cfg) (c : (str * str) * str) : str :=
  task_key k (fst c) ++ [call_sep k] ++ snd c.

Definition call_from_key (k : key_cfg) (s : str) : option ((str * str) * str) :=
  match rsplit_last (call_sep k) s with
  | None => None
  | Some (tk, a) => match task_from_key k tk with None => None | Some t => Some (t, a) end
  end.

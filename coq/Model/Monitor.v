(* Model/Monitor.v — C20: the monitored system as seen by pynmon, the component API as
   primitives over it, handler programs (interaction trees), and the drain-and-requeue model of
   pynmon/views/broker.py:queue_view.  Definitions only. *)
From Coq Require Import String List Bool Arith ZArith.
Import ListNotations.

Definition inv := nat.

(* everything C20 calls "the system" *)
Record sys : Type := mkSys {
  queue   : list inv;                          (* broker: ids in delivery order            *)
  status  : list (inv * (nat * option nat));   (* orchestrator: status code, owner         *)
  records : list inv;                          (* state backend: stored invocation records *)
  results : list (inv * nat);
  excs    : list (inv * nat);
  hist    : list (inv * list nat);
  runners : list (nat * nat);                  (* runner id, last heartbeat                *)
  rctx    : list nat;                          (* stored runner contexts                   *)
  wf      : list (nat * inv);                  (* workflow runs                            *)
  trig    : list (nat * nat);                  (* trigger store                            *)
  cds     : list (nat * nat)                   (* client data store                        *)
}.

Definition set_queue (s : sys) (q : list inv) : sys :=
  mkSys q (status s) (records s) (results s) (excs s) (hist s) (runners s) (rctx s) (wf s) (trig s) (cds s).

(* the pynenc API as reachable from pynmon; AUnknown = anything the translator cannot name *)
Inductive api : Type :=
  | ABrokerCount | ABrokerPeek | ABrokerRetrieve | ABrokerRoute | ABrokerRouteMany | ABrokerPurge
  | AOrchExisting | AOrchBlocking | AOrchActiveRunners | AOrchCount | AOrchIdsPaginated | AOrchTaskIds
  | AOrchCallIds | AOrchStatus | AOrchStatusRecord | AOrchRetries | AOrchFilter | AOrchRecoveryScan
  | AOrchPurge | AOrchSetStatus | AOrchSetOutcome | AOrchHeartbeat | AOrchRouteCall | AOrchReroute
  | ASbInvocation | ASbResult | ASbException | ASbHistory | ASbWorkflowTypes | ASbWorkflowRuns
  | ASbAllWorkflowRuns | ASbIdsByWorkflow | ASbIterHistory | ASbIterInvocations | ASbRunnerContext
  | ASbRunnerContexts | ASbMatchingRunnerContexts | ASbChildren | ASbWorkflowSubs | ASbWorkflowData
  | ASbAppInfo | ASbPurge | ASbUpsert | ASbSetResult | ASbSetException | ASbAddHistory
  | ASbStoreRunnerContext | ASbStoreWorkflow
  | ATrigRead | ATrigPurge | ACdsPurge
  | AAppTasks | AAppGetTask | AAppPurge | ATaskCall | ACallData | AMeta | AUnknown.

Record call : Type := mkCall { c_api : api; c_n : nat; c_l : list nat }.

Inductive out : Type :=
  | OUnit | ONone | ONum (n : nat) | OIds (l : list nat) | ORaise.

Definition memb (i : nat) (l : list nat) : bool := existsb (Nat.eqb i) l.

Fixpoint alookup {A} (i : nat) (l : list (nat * A)) : option A :=
  match l with
  | [] => None
  | (k, v) :: t => if Nat.eqb i k then Some v else alookup i t
  end.

Fixpoint aupsert {A} (i : nat) (v : A) (l : list (nat * A)) : list (nat * A) :=
  match l with
  | [] => [(i, v)]
  | (k, w) :: t => if Nat.eqb i k then (i, v) :: t else (k, w) :: aupsert i v t
  end.

Definition opt_out (o : option nat) : out := match o with Some n => ONum n | None => ORaise end.

(* classification used by the theorems: true = the method only observes *)
Definition read_only (a : api) : bool :=
  match a with
  | ABrokerRetrieve | ABrokerRoute | ABrokerRouteMany | ABrokerPurge
  | AOrchPurge | AOrchSetStatus | AOrchSetOutcome | AOrchHeartbeat | AOrchRouteCall | AOrchReroute
  | ASbPurge | ASbUpsert | ASbSetResult | ASbSetException | ASbAddHistory | ASbStoreRunnerContext
  | ASbStoreWorkflow | ATrigPurge | ACdsPurge | AAppPurge | ATaskCall | AUnknown => false
  | _ => true
  end.

(* the operations through which queue_view drains and re-queues *)
Definition queue_op (a : api) : bool :=
  match a with ABrokerRetrieve | ABrokerRoute | ABrokerRouteMany => true | _ => false end.

(* sequential meaning of one API call: new system, what the caller sees *)
Definition prim (s : sys) (c : call) : sys * out :=
  let n := c_n c in
  match c_api c with
  (* ---- broker *)
  | ABrokerCount => (s, ONum (length (queue s)))
  | ABrokerPeek => (s, OIds (firstn n (queue s)))
  | ABrokerRetrieve =>
      match queue s with
      | [] => (s, ONone)
      | i :: q => (set_queue s q, ONum i)
      end
  | ABrokerRoute => (set_queue s (queue s ++ [n]), OUnit)
  | ABrokerRouteMany => (set_queue s (queue s ++ c_l c), OUnit)
  | ABrokerPurge => (set_queue s [], OUnit)
  (* ---- orchestrator reads *)
  | AOrchExisting | AOrchIdsPaginated | AOrchTaskIds | AOrchCallIds | AOrchFilter | AOrchRecoveryScan =>
      (s, OIds (map fst (filter (fun e => memb (fst (snd e)) (c_l c)) (status s))))
  | AOrchCount => (s, ONum (length (filter (fun e => memb (fst (snd e)) (c_l c)) (status s))))
  | AOrchBlocking => (s, OIds (firstn n (map fst (status s))))
  | AOrchActiveRunners => (s, OIds (map fst (runners s)))
  | AOrchStatus | AOrchStatusRecord =>
      (s, match alookup n (status s) with Some (st, _) => ONum st | None => ORaise end)
  | AOrchRetries => (s, ONum 0)
  (* ---- orchestrator effects *)
  | AOrchPurge =>
      (mkSys (queue s) [] (records s) (results s) (excs s) (hist s) [] (rctx s) (wf s) (trig s) (cds s), OUnit)
  | AOrchSetStatus | AOrchSetOutcome | AOrchReroute =>
      (mkSys (queue s) (aupsert n (length (c_l c), None) (status s)) (records s) (results s) (excs s)
             (aupsert n (c_l c) (hist s)) (runners s) (rctx s) (wf s) (trig s) (cds s), OUnit)
  | AOrchHeartbeat =>
      (mkSys (queue s) (status s) (records s) (results s) (excs s) (hist s)
             (aupsert n (length (c_l c)) (runners s)) (rctx s) (wf s) (trig s) (cds s), OUnit)
  | AOrchRouteCall | ATaskCall =>
      (mkSys (queue s ++ [n]) (aupsert n (0, None) (status s)) (n :: records s) (results s) (excs s)
             (aupsert n [0] (hist s)) (runners s) (rctx s) (wf s) (trig s) (cds s), ONum n)
  (* ---- state backend reads *)
  | ASbInvocation => (s, if memb n (records s) then ONum n else ORaise)
  | ASbResult => (s, opt_out (alookup n (results s)))
  | ASbException => (s, opt_out (alookup n (excs s)))
  | ASbHistory => (s, match alookup n (hist s) with Some h => OIds h | None => OIds [] end)
  | ASbWorkflowTypes | ASbAllWorkflowRuns => (s, OIds (map fst (wf s)))
  | ASbWorkflowRuns | ASbIdsByWorkflow | ASbWorkflowSubs | ASbWorkflowData =>
      (s, OIds (map snd (filter (fun e => Nat.eqb (fst e) n) (wf s))))
  | ASbIterHistory | ASbIterInvocations => (s, OIds (map fst (hist s)))
  | ASbRunnerContext | ASbRunnerContexts | ASbMatchingRunnerContexts =>
      (s, OIds (filter (fun r => memb r (n :: c_l c)) (rctx s)))
  | ASbChildren => (s, OIds [])
  | ASbAppInfo => (s, OUnit)
  (* ---- state backend effects *)
  | ASbPurge =>
      (mkSys (queue s) (status s) [] [] [] [] (runners s) [] [] (trig s) (cds s), OUnit)
  | ASbUpsert =>
      (mkSys (queue s) (status s) (n :: records s) (results s) (excs s) (hist s) (runners s) (rctx s) (wf s)
             (trig s) (cds s), OUnit)
  | ASbSetResult =>
      (mkSys (queue s) (status s) (records s) (aupsert n (length (c_l c)) (results s)) (excs s) (hist s)
             (runners s) (rctx s) (wf s) (trig s) (cds s), OUnit)
  | ASbSetException =>
      (mkSys (queue s) (status s) (records s) (results s) (aupsert n (length (c_l c)) (excs s)) (hist s)
             (runners s) (rctx s) (wf s) (trig s) (cds s), OUnit)
  | ASbAddHistory =>
      (mkSys (queue s) (status s) (records s) (results s) (excs s)
             (aupsert n (match alookup n (hist s) with Some h => h ++ c_l c | None => c_l c end) (hist s))
             (runners s) (rctx s) (wf s) (trig s) (cds s), OUnit)
  | ASbStoreRunnerContext =>
      (mkSys (queue s) (status s) (records s) (results s) (excs s) (hist s) (runners s) (n :: rctx s) (wf s)
             (trig s) (cds s), OUnit)
  | ASbStoreWorkflow =>
      (mkSys (queue s) (status s) (records s) (results s) (excs s) (hist s) (runners s) (rctx s)
             ((n, length (c_l c)) :: wf s) (trig s) (cds s), OUnit)
  (* ---- trigger / client data store / app *)
  | ATrigRead => (s, OIds (map fst (trig s)))
  | ATrigPurge =>
      (mkSys (queue s) (status s) (records s) (results s) (excs s) (hist s) (runners s) (rctx s) (wf s) []
             (cds s), OUnit)
  | ACdsPurge =>
      (mkSys (queue s) (status s) (records s) (results s) (excs s) (hist s) (runners s) (rctx s) (wf s)
             (trig s) [], OUnit)
  | AAppPurge => (mkSys [] [] [] [] [] [] [] [] [] [] [], OUnit)
  | AAppTasks | AAppGetTask | AMeta => (s, OUnit)
  | ACallData => (s, match alookup n (cds s) with Some v => ONum v | None => OUnit end)
  (* anything the translator could not name: assumed to destroy everything *)
  | AUnknown => (mkSys [] [] [] [] [] [] [] [] [] [] [], OUnit)
  end.

(* ------------------------------------------------------------------------------------------
   A request handler, abstractly: it calls API methods, looks at what they return (or raise),
   and finally renders (PRet) or fails (PFail).  Templates, formatting and every other pure
   computation live in the continuations. *)
Inductive prog : Type :=
  | PRet
  | PFail
  | PCall (c : call) (k : out -> prog).

Fixpoint run (p : prog) (s : sys) : sys * bool :=
  match p with
  | PRet => (s, true)
  | PFail => (s, false)
  | PCall c k => let (s', o) := prim s c in run (k o) s'
  end.

(* the handler only ever calls methods satisfying P, whatever the calls return *)
Inductive uses (P : api -> Prop) : prog -> Prop :=
  | U_Ret : uses P PRet
  | U_Fail : uses P PFail
  | U_Call : forall c k, P (c_api c) -> (forall o, uses P (k o)) -> uses P (PCall c k).

(* ------------------------------------------------------------------------------------------
   Generated route table *)
Record route : Type := mkRoute {
  r_path  : string;
  r_qv    : bool;            (* the drain-and-requeue queue view (decided from its shape) *)
  r_reach : list api         (* API methods reachable through pynmon's call graph         *)
}.

Definition route_reads_only (r : route) : bool := forallb read_only (r_reach r).
(* the queue view may, besides reading, use exactly the three queue operations *)
Definition route_qv_ok (r : route) : bool := forallb (fun a => read_only a || queue_op a) (r_reach r).

Definition routes_ok (rs : list route) : bool :=
  forallb (fun r => if r_qv r then route_qv_ok r else route_reads_only r) rs
  && (length (filter r_qv rs) <=? 1).

(* ------------------------------------------------------------------------------------------
   queue_view: normal form extracted from the source *)
Inductive reroute : Type := RNone | RLooked | RPopped.

Inductive qv_shape : Type :=
  | QVRead (guarded : bool)
      (* no pop, no route: the view peeks (or shows nothing); lookups guarded or not *)
  | QVDrain (all inside guarded : bool) (rr : reroute) (fin : bool).
      (* pops [all: the whole queue | else min(limit, size)] messages; the record lookup (which
         raises for a purged record) sits [inside] the pop loop or after the re-route; a failing
         lookup is skipped when [guarded]; then re-routes nothing / the looked-up invocations /
         the popped ids; [fin]: the re-route also runs when the lookup raised *)

(* the pop loop: rest of the queue, popped ids, looked-up ids, false = a lookup raised *)
Fixpoint pop_loop (inside guarded : bool) (recs : list inv) (n : nat) (q popped looked : list inv)
  : list inv * list inv * list inv * bool :=
  match n, q with
  | S n', i :: q' =>
      if inside then
        if memb i recs then pop_loop inside guarded recs n' q' (popped ++ [i]) (looked ++ [i])
        else if guarded then pop_loop inside guarded recs n' q' (popped ++ [i]) looked
        else (q', popped ++ [i], looked, false)
      else pop_loop inside guarded recs n' q' (popped ++ [i]) (looked ++ [i])
  | _, _ => (q, popped, looked, true)
  end.

Definition qv_run (sh : qv_shape) (limit : Z) (s : sys) : sys * bool :=
  match sh with
  | QVRead guarded =>
      (s, guarded || forallb (fun i => memb i (records s)) (firstn (Z.to_nat limit) (queue s)))
  | QVDrain all inside guarded rr fin =>
      let q := queue s in
      let n := if all then length q else Z.to_nat (Z.min limit (Z.of_nat (length q))) in
      match pop_loop inside guarded (records s) n q [] [] with
      | (rest, popped, looked, ok) =>
          let src := match rr with RNone => [] | RLooked => looked | RPopped => popped end in
          let q' := if ok || fin then rest ++ src else rest in
          let shown := firstn (Z.to_nat limit) popped in
          (set_queue s q',
           ok && (inside || guarded || forallb (fun i => memb i (records s)) shown))
      end
  end.

Definition reroute_eqb (a b : reroute) : bool :=
  match a, b with RNone, RNone | RLooked, RLooked | RPopped, RPopped => true | _, _ => false end.

(* the shapes that give the queue back as it was, for every queue, limit and record store *)
Definition qv_restoring (sh : qv_shape) : bool :=
  match sh with
  | QVRead _ => true
  | QVDrain all inside guarded rr _ =>
      all && ((reroute_eqb rr RPopped && (negb inside || guarded)) || (reroute_eqb rr RLooked && negb inside))
  end.

(* a system that is nothing but a queue and a record store (witnesses, correspondence) *)
Definition mk_qsys (q recs : list inv) : sys := mkSys q [] recs [] [] [] [] [] [] [] [].

(* rendering used by the correspondence: queue afterwards and 1 = rendered / 0 = failed *)
Definition qv_obs (sh : qv_shape) (limit : Z) (q recs : list inv) : list nat * nat :=
  let r := qv_run sh limit (mk_qsys q recs) in (queue (fst r), if snd r then 1 else 0).

Definition qv_shape_code (sh : qv_shape) : list nat :=
  let b (x : bool) := if x then 1 else 0 in
  match sh with
  | QVRead g => [0; b g]
  | QVDrain a i g rr f => [1; b a; b i; b g; match rr with RNone => 0 | RLooked => 1 | RPopped => 2 end; b f]
  end.

(* ------------------------------------------------------------------------------------------
   How the two backends IMPLEMENT the read-only classified methods (generated table,
   gen/ReadImpl_gen.v, harness/translate/readimpl.py): the effects of the method body followed
   through self-calls along the class hierarchy, helper objects and module helpers. *)
Inductive effect : Type :=
  | ECall (a : api)      (* calls this API method (own component through self, others through app) *)
  | EWriteContainer      (* mutates a stored container in place: store / del / in-place operator /
                            mutating method on self.<attr> or on a local alias of it            *)
  | EWriteSql.           (* executes INSERT / UPDATE / DELETE / REPLACE / DDL                     *)

Record impl : Type := mkImpl {
  i_api     : api;
  i_backend : nat;          (* 0 = in-memory, 1 = SQLite *)
  i_name    : string;
  i_effects : list effect
}.

Definition effect_observes (e : effect) : bool :=
  match e with ECall a => read_only a | EWriteContainer | EWriteSql => false end.

(* a method classified read-only has observing effects only (other rows are not constrained) *)
Definition impl_ok (i : impl) : bool :=
  negb (read_only (i_api i)) || forallb effect_observes (i_effects i).

Definition impls_ok (l : list impl) : bool := forallb impl_ok l.

Scheme Equality for api.

(* read-only methods that are implemented by the backend classes (the others are app / task /
   invocation-object level and are covered by the read-out only) *)
Definition backend_read (a : api) : bool :=
  match a with
  | AAppTasks | AAppGetTask | ACallData | AMeta => false
  | _ => read_only a
  end.

Definition has_impl (l : list impl) (a : api) (backend : nat) : bool :=
  existsb (fun i => api_beq (i_api i) a && Nat.eqb (i_backend i) backend) l.

(* every backend-implemented read method a GET route can reach was analysed for both backends *)
Definition impl_coverage (rs : list route) (l : list impl) : bool :=
  forallb (fun r => forallb (fun a => negb (backend_read a) || (has_impl l a 0 && has_impl l a 1)) (r_reach r)) rs.

(* Model/Stop.v — C11.  Stopping a ThreadRunner.
   The global system is a product: each invocation the runner has claimed evolves independently of the
   others (its status record, its queue entries, its task thread, and the stop procedure's visit of
   its thread-table entry); `gstep` updates exactly one component.  The per-invocation component is a
   FINITE machine, transcribed from ThreadRunner._on_stop, BaseRunner._kill_and_reroute,
   DistributedInvocation.run and set_invocation_retry; the order of kill / join and the handling of
   a refused kill come from gen/RunnerFacts_gen.v.  A second runner ("other") may claim whatever is
   queued and available, at any time. *)
From Coq Require Import List Bool Arith.
Import ListNotations.
From PV Require Import Model.Status.

Definition me : runner := 1.
Definition other : runner := 2.

Inductive tphase : Set :=      (* the task thread of this invocation *)
| TStart        (* thread started, RUNNING not yet requested *)
| TBody         (* body executing *)
| TSucc         (* body returned: result stored, SUCCESS about to be requested *)
| TFail         (* body raised: FAILED about to be requested *)
| TRetry        (* body raised a retriable exception: RETRY about to be requested *)
| TRetryPush    (* RETRY written, re-queue pending *)
| TDone.        (* thread ended *)

Inductive sphase : Set :=      (* the stop procedure's visit of this thread-table entry *)
| SIdle         (* stop not requested yet / entry not visited yet *)
| SGone         (* entry was dropped from the table earlier (thread had ended): never visited *)
| SCheck        (* about to test thread.is_alive() *)
| SKill (alive : bool) | SReroute (alive : bool) | SPush (alive : bool)   (* _kill_and_reroute *)
| SJoin (alive : bool) (killed : bool)                                     (* thread.join() *)
| SDone         (* visit finished *)
| SAbort.       (* an exception escaped _on_stop *)

Record lstate : Set := { lst : status; lown : option runner; lq : nat; lth : tphase; lsp : sphase }.

Inductive label : Set :=
| LThread (choice : nat)    (* the task thread takes its next step (choice: 0 success, 1 failure, 2 retry at the end of the body) *)
| LStop                     (* the stopping runner takes the next step of its visit *)
| LReclaim                  (* (before the stop) the loop drops the entry of an ended thread *)
| LOtherClaim | LOtherRun | LOtherFinish | LOtherRetry.   (* another runner *)

Section Facts.
Variable kills_alive_before_join reroutes_dead_after_join kill_then_reroute ignores_refusal : bool.

Definition try (s : lstate) (to : status) (rid : runner) : lstate * bool :=
  match doc_transition (Some {| st := lst s; owner := lown s; ts := 0 |}) to (Some rid) with
  | TOk s' o' => ({| lst := s'; lown := o'; lq := lq s; lth := lth s; lsp := lsp s |}, true)
  | TErr _ => (s, false)
  end.

Definition with_th (s : lstate) (t : tphase) : lstate := {| lst := lst s; lown := lown s; lq := lq s; lth := t; lsp := lsp s |}.
Definition with_sp (s : lstate) (p : sphase) : lstate := {| lst := lst s; lown := lown s; lq := lq s; lth := lth s; lsp := p |}.
Definition push (s : lstate) : lstate := {| lst := lst s; lown := lown s; lq := S (lq s); lth := lth s; lsp := lsp s |}.
Definition pop (s : lstate) : lstate := {| lst := lst s; lown := lown s; lq := pred (lq s); lth := lth s; lsp := lsp s |}.

Definition thread_step (s : lstate) (choice : nat) : lstate :=
  match lth s with
  | TStart => let (s', ok) := try s RUNNING me in with_th s' (if ok then TBody else TDone)
  | TBody => with_th s (match choice with 0 => TSucc | 1 => TFail | _ => TRetry end)
  | TSucc => with_th (fst (try s SUCCESS me)) TDone
  | TFail => with_th (fst (try s FAILED me)) TDone
  | TRetry => let (s', ok) := try s RETRY me in with_th s' (if ok then TRetryPush else TDone)
  | TRetryPush => with_th (push s) TDone
  | TDone => s
  end.

Definition after_kill (alive : bool) : sphase :=
  (* what follows _kill_and_reroute for this entry *)
  if alive then (if kills_alive_before_join then SJoin true true else SDone)
  else (if reroutes_dead_after_join then SDone else SJoin false true).

Definition stop_step (s : lstate) : lstate :=
  match lsp s with
  | SIdle => with_sp s SCheck
  | SCheck =>
      match lth s with
      | TDone => with_sp s (if reroutes_dead_after_join then SJoin false false else SKill false)
      | _ => with_sp s (if kills_alive_before_join then SKill true else SJoin true false)
      end
  | SKill a =>
      let (s', ok) := try s KILLED me in
      if ok then with_sp s' (if kill_then_reroute then SReroute a else after_kill a)
      else with_sp s (if ignores_refusal then after_kill a else SAbort)
  | SReroute a =>
      let (s', ok) := try s REROUTED me in
      if ok then with_sp s' (SPush a) else with_sp s (if ignores_refusal then after_kill a else SAbort)
  | SPush a => with_sp (push s) (after_kill a)
  | SJoin a killed =>
      match lth s with
      | TDone => with_sp s (if killed then SDone else SKill a)
      | _ => s                                             (* join blocks while the thread is alive *)
      end
  | _ => s
  end.

Definition lstep (s : lstate) (l : label) : lstate :=
  match l with
  | LThread c => thread_step s c
  | LStop => stop_step s
  | LReclaim => match lsp s, lth s with SIdle, TDone => with_sp s SGone | _, _ => s end
  | LOtherClaim =>
      if doc_available (lst s) && negb (Nat.eqb (lq s) 0) then fst (try (pop s) PENDING other) else s
  | LOtherRun => fst (try s RUNNING other)
  | LOtherFinish => fst (try s SUCCESS other)
  | LOtherRetry => let (s', ok) := try s RETRY other in if ok then push s' else s
  end.
End Facts.

Definition linit : lstate := {| lst := PENDING; lown := Some me; lq := 0; lth := TStart; lsp := SIdle |}.

Definition all_labels : list label :=
  [LThread 0; LThread 1; LThread 2; LStop; LReclaim; LOtherClaim; LOtherRun; LOtherFinish; LOtherRetry].

(* the statement, per claimed invocation, once its entry has been dealt with (or dropped earlier) *)
Definition settled (s : lstate) : bool :=
  doc_final (lst s)
  || (doc_available (lst s) && negb (Nat.eqb (lq s) 0) && match lown s with None => true | Some _ => false end)
  || match lown s with Some o => Nat.eqb o other | None => false end.

Definition post (s : lstate) : bool :=
  match lsp s with
  | SDone | SGone => settled s
  | SAbort => false
  | _ => true
  end.

(* decidable equality of local states, for the reachability computation *)
Definition tphase_eqb (a b : tphase) : bool :=
  match a, b with
  | TStart, TStart | TBody, TBody | TSucc, TSucc | TFail, TFail | TRetry, TRetry | TRetryPush, TRetryPush | TDone, TDone => true
  | _, _ => false
  end.
Definition sphase_eqb (a b : sphase) : bool :=
  match a, b with
  | SIdle, SIdle | SGone, SGone | SCheck, SCheck | SDone, SDone | SAbort, SAbort => true
  | SKill x, SKill y | SReroute x, SReroute y | SPush x, SPush y => Bool.eqb x y
  | SJoin x k, SJoin y k' => Bool.eqb x y && Bool.eqb k k'
  | _, _ => false
  end.
Definition lstate_eqb (a b : lstate) : bool :=
  status_eqb (lst a) (lst b) && orunner_eqb (lown a) (lown b) && Nat.eqb (lq a) (lq b) &&
  tphase_eqb (lth a) (lth b) && sphase_eqb (lsp a) (lsp b).

Definition lmem (s : lstate) (l : list lstate) : bool := existsb (lstate_eqb s) l.

Section Reach.
Variable step : lstate -> label -> lstate.
(* worklist closure with fuel; returns the set found and whether the worklist was exhausted *)
Fixpoint explore (fuel : nat) (todo seen : list lstate) : list lstate * bool :=
  match fuel with
  | 0 => (seen, match todo with [] => true | _ => false end)
  | S f =>
      match todo with
      | [] => (seen, true)
      | s :: rest =>
          let succs := map (step s) all_labels in
          let new := fold_left (fun acc x => if lmem x seen || lmem x acc then acc else acc ++ [x]) succs [] in
          explore f (rest ++ new) (seen ++ new)
      end
  end.
Definition closed (R : list lstate) : bool :=
  forallb (fun s => forallb (fun l => lmem (step s l) R) all_labels) R.
End Reach.

(* ---------------- the global system: independent components ---------------- *)
Definition gstate := list lstate.
Definition gstep (step : lstate -> label -> lstate) (g : gstate) (a : nat * label) : gstate :=
  let (i, l) := a in
  (fix upd (k : nat) (g : gstate) : gstate :=
     match g, k with
     | [], _ => []
     | s :: rest, 0 => step s l :: rest
     | s :: rest, S k' => s :: upd k' rest
     end) i g.
Definition grun (step : lstate -> label -> lstate) (g : gstate) (sched : list (nat * label)) : gstate :=
  fold_left (gstep step) sched g.

(* Model/AppDb.v — C17: one SQLite file shared by any number of applications, at the level the
   isolation property talks about: which table (by name) each operation of an application touches.
   A database is an association list  table name -> number of rows.  Definitions only. *)
From Coq Require Import List NArith Bool.
Import ListNotations.
From PV Require Import Model.SanitizeDef gen.Sanitize_gen Model.Sanitize Model.Like.
Open Scope N_scope.

Definition db := list (str * nat).

Fixpoint lookup (n : str) (d : db) : option nat :=
  match d with
  | [] => None
  | (m, r) :: d' => if str_eqb n m then Some r else lookup n d'
  end.

(* CREATE TABLE IF NOT EXISTS *)
Definition create (n : str) (d : db) : db :=
  match lookup n d with Some _ => d | None => d ++ [(n, O)] end.

(* INSERT of one row *)
Fixpoint insert (n : str) (d : db) : db :=
  match d with
  | [] => []
  | (m, r) :: d' => if str_eqb n m then (m, S r) :: d' else (m, r) :: insert n d'
  end.

(* DELETE FROM every selected table *)
Definition purge_where (sel : str -> bool) (d : db) : db :=
  map (fun mr => if sel (fst mr) then (fst mr, O) else mr) d.

Inductive op :=
| OInit (id : str)                     (* the component constructors: every table of the app is created *)
| OWrite (id comp suffix : str)        (* one row stored in one table of the app *)
| OPurge (id comp : str).              (* <component>.purge() *)

Definition op_app (o : op) : str :=
  match o with OInit a => a | OWrite a _ _ => a | OPurge a _ => a end.

Section WithDigest.
  Variable H : str -> str.
  Variable k : purge_kind.

  Definition step (d : db) (o : op) : db :=
    match o with
    | OInit a => fold_left (fun acc n => create n acc) (all_tables H a) d
    | OWrite a c t => insert (table_name H a c t) d
    | OPurge a c => purge_where (purge_selects k (table_prefix H a c)) d
    end.

  Definition run (d : db) (ops : list op) : db := fold_left step ops d.

  (* everything application b can observe in the file: the row count of each of its tables *)
  Definition view (b : str) (d : db) : list (option nat) :=
    map (fun n => lookup n d) (all_tables H b).
End WithDigest.

(* Model/ProcShared.v — C17: applications of ONE process.  Everything a component keeps per instance
   (attributes bound in __init__) belongs to one application object; what two applications can have
   in common is the state bound at class level or module level of the component modules — one
   container per process.  The generated file (gen/ProcShared_gen.v) lists every such container of
   the five component packages together with the KINDS of access the source makes to it; this file
   says what those accesses do and what an application can observe through them.  Definitions only. *)
From Coq Require Import List NArith Bool.
Import ListNotations.
From PV Require Import Model.SanitizeDef.
Open Scope N_scope.

(* how the source touches a process-wide container X *)
Inductive access :=
| AGetId     (* X[<app id>], <app id> in X, X.get(<app id>)            — read at an application id *)
| APutId     (* X[<app id>] = v, X.setdefault(<app id>, ...)            — store at an application id *)
| ADelId     (* X.pop(<app id>), del X[<app id>]                        — removal at an application id *)
| AScan      (* dict(X), iteration, len(X), X.items()/keys()/values()  — the designed discovery read *)
| AGetKey    (* read at a key that is not an application id *)
| APutKey    (* store at a key that is not an application id, append/add of an element *)
| ADelKey    (* removal at such a key, popitem(), remove/discard of an element *)
| AClear.    (* X.clear(), rebinding X — every entry goes, whoever owns it *)

Definition access_eqb (a b : access) : bool :=
  match a, b with
  | AGetId, AGetId | APutId, APutId | ADelId, ADelId | AScan, AScan
  | AGetKey, AGetKey | APutKey, APutKey | ADelKey, ADelKey | AClear, AClear => true
  | _, _ => false
  end.

Definition has (a : access) (accs : list access) : bool := existsb (access_eqb a) accs.

(* a key is the id of an application or anything else (content hash, invocation id, ...) *)
Inductive key := KId (a : str) | KOther (s : str).

Definition key_eqb (k1 k2 : key) : bool :=
  match k1, k2 with
  | KId a, KId b => str_eqb a b
  | KOther a, KOther b => str_eqb a b
  | _, _ => false
  end.

Definition cont := list (key * N).          (* one container: key -> value (values are opaque numbers) *)
Definition pstate := list (str * cont).     (* the process: container name -> content *)
Definition shared := list (str * list access).   (* the generated fact *)

Fixpoint cget (k : key) (c : cont) : option N :=
  match c with
  | [] => None
  | (k', v) :: c' => if key_eqb k k' then Some v else cget k c'
  end.

Definition cdel (k : key) (c : cont) : cont := filter (fun e => negb (key_eqb k (fst e))) c.
Definition cput (k : key) (v : N) (c : cont) : cont := (k, v) :: cdel k c.

Fixpoint sget (n : str) (s : pstate) : cont :=
  match s with
  | [] => []
  | (m, c) :: s' => if str_eqb n m then c else sget n s'
  end.

Definition sset (n : str) (c : cont) (s : pstate) : pstate :=
  (n, c) :: filter (fun e => negb (str_eqb n (fst e))) s.

Fixpoint accs_of (sh : shared) (n : str) : option (list access) :=
  match sh with
  | [] => None
  | (m, a) :: sh' => if str_eqb n m then Some a else accs_of sh' n
  end.

(* one access of application a to container c *)
Inductive pop :=
| PPutId (a c : str) (v : N)
| PDelId (a c : str)
| PPutKey (a c k : str) (v : N)
| PDelKey (a c k : str)
| PClear (a c : str)
| PRead (a c : str) (how : access).

Definition pop_app (o : pop) : str :=
  match o with PPutId a _ _ | PDelId a _ | PPutKey a _ _ _ | PDelKey a _ _ | PClear a _ | PRead a _ _ => a end.

Definition pop_cont (o : pop) : str :=
  match o with PPutId _ c _ | PDelId _ c | PPutKey _ c _ _ | PDelKey _ c _ | PClear _ c | PRead _ c _ => c end.

Definition pop_access (o : pop) : access :=
  match o with
  | PPutId _ _ _ => APutId | PDelId _ _ => ADelId | PPutKey _ _ _ _ => APutKey | PDelKey _ _ _ => ADelKey
  | PClear _ _ => AClear | PRead _ _ how => how
  end.

(* the source makes this kind of access to this container *)
Definition allowed (sh : shared) (o : pop) : bool :=
  match accs_of sh (pop_cont o) with
  | Some accs => has (pop_access o) accs
  | None => false
  end.

Definition pstep (s : pstate) (o : pop) : pstate :=
  let c := sget (pop_cont o) s in
  match o with
  | PPutId a n v => sset n (cput (KId a) v c) s
  | PDelId a n => sset n (cdel (KId a) c) s
  | PPutKey _ n k v => sset n (cput (KOther k) v c) s
  | PDelKey _ n k => sset n (cdel (KOther k) c) s
  | PClear _ n => sset n [] s
  | PRead _ _ _ => s
  end.

Definition prun (s : pstate) (ops : list pop) : pstate := fold_left pstep ops s.

Definition is_other (e : key * N) : bool := match fst e with KOther _ => true | KId _ => false end.

(* what application b can observe of one container: the entry under its own id and, where the source
   reads at keys that are not application ids, every such entry (b may ask for any of them).
   Whole-container reads (AScan: discover_app_infos) are the designed discovery channel; through them
   b's view is again its own entry. *)
Definition cview (b : str) (accs : list access) (c : cont) : option N * cont :=
  (cget (KId b) c, if has AGetKey accs then filter is_other c else []).

Definition pview (sh : shared) (b : str) (s : pstate) : list (option N * cont) :=
  map (fun e => cview b (snd e) (sget (fst e) s)) sh.

(* the discipline that keeps applications apart: entries are only ever stored and removed under the
   acting application's own id *)
Definition keyed_access (a : access) : bool :=
  match a with APutKey | ADelKey | AClear => false | _ => true end.

Definition keyed (accs : list access) : bool := forallb keyed_access accs.
Definition all_keyed (sh : shared) : bool := forallb (fun e => keyed (snd e)) sh.

(* C17 inside one process, full strength: whatever accesses (of the kinds the source makes) the other
   applications perform, in any number and order, what b observes stays the same *)
Definition proc_isolated (sh : shared) : Prop :=
  forall ops b s,
    (forall o, In o ops -> allowed sh o = true /\ pop_app o <> b) ->
    pview sh b (prun s ops) = pview sh b s.

(* Model/JsonEnv.v — C15: the tree layer of pynenc/serializer/json_serializer.py:
   _preprocess_for_json + DefaultJSONEncoder.default (Python value -> JSON tree) and
   _reconstruct_from_json (JSON tree -> Python value).  The text layer (json.dumps / json.loads)
   is an oracle.  Scalars (None, bool, int, float) are atoms; envelope payloads (exception args,
   enum value, to_json data) are plain JSON trees because the decoder hands them to the class
   constructor WITHOUT reconstructing them.  The message field of the exception envelopes is
   not modelled (the decoder ignores it whenever the class resolves).  The facts record (reserved
   keys, field names on the encoder and on the decoder side, order of the decoder's tests) is
   generated from the source.  Definitions only. *)
From Coq Require Import List NArith Bool.
Import ListNotations.
From PV Require Import Model.ArgsId Model.CDS.
Open Scope N_scope.

Inductive jv : Set :=
| JAtom (a : N) | JStr (s : str) | JList (l : list jv) | JDict (d : list (str * jv)).

(* builtin exception / client exception / JsonSerializable / Enum *)
Inductive ekind : Set := EErr | ECExc | EJs | EEnum.
Definition ekind_eqb (a b : ekind) : bool :=
  match a, b with EErr, EErr | ECExc, ECExc | EJs, EJs | EEnum, EEnum => true | _, _ => false end.
Definition all_kinds : list ekind := [EErr; ECExc; EJs; EEnum].
Definition is_err (k : ekind) : bool := ekind_eqb k EErr.

Inductive pv : Set :=
| PAtom (a : N) | PStr (s : str) | PList (l : list pv) | PDict (d : list (str * pv))
| PEnv (k : ekind) (c1 c2 : str) (payload : jv).
  (* EErr: c1 = type name, c2 unused (empty), payload = args list;  ECExc: module, qualname, args;
     EJs: module, qualname, to_json data;  EEnum: module, qualname, value *)

Record json_facts : Set := {
  enc_key : ekind -> str;  dec_key : ekind -> str;           (* ReservedKeys.X.value on each side *)
  enc_f1 : ekind -> str;   dec_f1 : ekind -> str;             (* type / module *)
  enc_f2 : ekind -> str;   dec_f2 : ekind -> str;             (* qualname *)
  enc_fp : ekind -> str;   dec_fp : ekind -> str;             (* args / data / value *)
  dec_order : list ekind                                      (* order of the decoder tests *)
}.

Fixpoint preprocess (F : json_facts) (v : pv) : jv :=
  match v with
  | PAtom a => JAtom a
  | PStr s => JStr s
  | PList l => JList (map (preprocess F) l)
  | PDict d => JDict (map (fun kv => (fst kv, preprocess F (snd kv))) d)
  | PEnv k c1 c2 p =>
      JDict [(enc_key F k,
              JDict ((enc_f1 F k, JStr c1) ::
                     (if is_err k then [] else [(enc_f2 F k, JStr c2)]) ++ [(enc_fp F k, p)]))]
  end.

(* data.get(KEY) is truthy: the value is a non-empty dict (other truthy values crash the decoder) *)
Fixpoint find_env (F : json_facts) (order : list ekind) (d : list (str * jv))
  : option (ekind * list (str * jv)) :=
  match order with
  | [] => None
  | k :: r =>
    match lookupS (dec_key F k) d with
    | Some (JDict (x :: e)) => Some (k, x :: e)
    | _ => find_env F r d
    end
  end.

Definition decode_env (F : json_facts) (k : ekind) (e : list (str * jv)) : option pv :=
  match lookupS (dec_f1 F k) e, (if is_err k then Some (JStr []) else lookupS (dec_f2 F k) e),
        lookupS (dec_fp F k) e with
  | Some (JStr c1), Some (JStr c2), Some p => Some (PEnv k c1 c2 p)
  | _, _, _ => None
  end.

Fixpoint reconstruct (F : json_facts) (j : jv) : pv :=
  match j with
  | JAtom a => PAtom a
  | JStr s => PStr s
  | JList l => PList (map (reconstruct F) l)
  | JDict d =>
    let generic := PDict (map (fun kv => (fst kv, reconstruct F (snd kv))) d) in
    match find_env F (dec_order F) d with
    | Some (k, e) => match decode_env F k e with Some v => v | None => generic end
    | None => generic
    end
  end.

Definition reserved (F : json_facts) (k : str) : bool :=
  existsb (fun e => str_eqb k (enc_key F e)) all_kinds.

(* the serializer's domain: no user dict carries a reserved key *)
Fixpoint wf (F : json_facts) (v : pv) : bool :=
  match v with
  | PAtom _ | PStr _ => true
  | PList l => forallb (wf F) l
  | PDict d => forallb (fun kv => negb (reserved F (fst kv)) && wf F (snd kv)) d
  | PEnv k _ c2 _ => if is_err k then match c2 with [] => true | _ => false end else true
  end.

Definition facts_ok (F : json_facts) : bool :=
  forallb (fun k => str_eqb (dec_key F k) (enc_key F k) && str_eqb (dec_f1 F k) (enc_f1 F k)
                    && str_eqb (dec_f2 F k) (enc_f2 F k) && str_eqb (dec_fp F k) (enc_fp F k)
                    && negb (str_eqb (enc_f1 F k) (enc_f2 F k)) && negb (str_eqb (enc_f1 F k) (enc_fp F k))
                    && negb (str_eqb (enc_f2 F k) (enc_fp F k))
                    && existsb (ekind_eqb k) (dec_order F)
                    && forallb (fun k' => ekind_eqb k k' || negb (str_eqb (enc_key F k) (enc_key F k'))) all_kinds)
          all_kinds.

(* flat prefix codes, used by the harness to read model values back (numbers only) *)
Definition str_code (s : str) : list N := N.of_nat (length s) :: s.

Fixpoint jv_code (j : jv) : list N :=
  match j with
  | JAtom a => [0; a]
  | JStr s => 1 :: str_code s
  | JList l => 2 :: N.of_nat (length l) :: flat_map jv_code l
  | JDict d => 3 :: N.of_nat (length d) :: flat_map (fun kv => str_code (fst kv) ++ jv_code (snd kv)) d
  end.

Definition kind_code (k : ekind) : N := match k with EErr => 0 | ECExc => 1 | EJs => 2 | EEnum => 3 end.

Fixpoint pv_code (v : pv) : list N :=
  match v with
  | PAtom a => [0; a]
  | PStr s => 1 :: str_code s
  | PList l => 2 :: N.of_nat (length l) :: flat_map pv_code l
  | PDict d => 3 :: N.of_nat (length d) :: flat_map (fun kv => str_code (fst kv) ++ pv_code (snd kv)) d
  | PEnv k c1 c2 p => 4 :: kind_code k :: str_code c1 ++ str_code c2 ++ jv_code p
  end.

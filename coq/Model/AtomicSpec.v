(* Model/AtomicSpec.v — C12: the two canonical spellings of calculate_time_slot (hand-written
   references the generated function is classified against) and the property predicates.
   Definitions only. *)
From Coq Require Import ZArith QArith List Bool.
From PV Require Import Model.AtomicArith gen.AtomicService_gen.
Import ListNotations.

(* end = start + size - margin      (pynenc as of this writing) *)
Definition slot_sum_form (A : Arith) (runner_position total_runners : Z)
    (service_interval_minutes spread_margin_minutes : T A) : T A * T A :=
  let service_interval := mul A service_interval_minutes (ofZ A 60) in
  let spread_margin := mul A spread_margin_minutes (ofZ A 60) in
  let time_slot_size := div A service_interval (ofZ A total_runners) in
  let runner_start_time := mul A (ofZ A runner_position) time_slot_size in
  let runner_end_time := sub A (add A runner_start_time time_slot_size) spread_margin in
  let runner_end_time := if leb A runner_end_time runner_start_time
                         then add A runner_start_time (div A time_slot_size (ofZ A 2)) else runner_end_time in
  (runner_start_time, runner_end_time).

(* end = (position + 1) * size - margin   (the end of a slot is computed by the very expression
   that computes the start of the next one, so rounding cannot make them cross) *)
Definition slot_next_start_form (A : Arith) (runner_position total_runners : Z)
    (service_interval_minutes spread_margin_minutes : T A) : T A * T A :=
  let service_interval := mul A service_interval_minutes (ofZ A 60) in
  let spread_margin := mul A spread_margin_minutes (ofZ A 60) in
  let time_slot_size := div A service_interval (ofZ A total_runners) in
  let runner_start_time := mul A (ofZ A runner_position) time_slot_size in
  let runner_end_time := sub A (mul A (ofZ A (runner_position + 1)%Z) time_slot_size) spread_margin in
  let runner_end_time := if leb A runner_end_time runner_start_time
                         then add A runner_start_time (div A time_slot_size (ofZ A 2)) else runner_end_time in
  (runner_start_time, runner_end_time).

(* what the translator's classification claims, as a proposition over the generated function *)
Definition end_form_claim (f : end_form) : Prop :=
  match f with
  | SumForm => forall A p n im mm, gen_calculate_time_slot A p n im mm = slot_sum_form A p n im mm
  | NextStartForm => forall A p n im mm, gen_calculate_time_slot A p n im mm = slot_next_start_form A p n im mm
  | OtherForm => True
  end.

Definition is_sum_form (f : end_form) : bool := match f with SumForm => true | _ => false end.
Definition is_next_start_form (f : end_form) : bool := match f with NextStartForm => true | _ => false end.

(* the authorised runners of a list at an instant *)
Definition authorised (A : Arith) (ids : list Z) (t im mm : T A) : list Z :=
  filter (fun r => gen_can_run_atomic_service A r ids t im mm) ids.

(* runner list 0..n-1 *)
Definition iota (n : nat) : list Z := map Z.of_nat (seq 0 n).

(* seconds *)
Definition secs (im : Q) : Q := im * 60.
Definition slot_size (n : Z) (im : Q) : Q := secs im / inject_Z n.

(* binary64 witness of two authorised runners: 9 runners, 5.0 min cycle, margin 0, t = 200.0 s *)
Definition b64_witness_both : bool :=
  let t := mkf 200 0 in let im := mkf 5 0 in let mm := mkf 0 0 in
  gen_can_run_atomic_service F64 5 (iota 9) t im mm && gen_can_run_atomic_service F64 6 (iota 9) t im mm.

(* the statement as executed, at full strength: at most one authorised runner, in doubles *)
Definition at_most_one_authorised_b64 : Prop := forall ids r1 r2 t im mm,
  PrimFloat.ltb PrimFloat.zero im = true -> PrimFloat.leb PrimFloat.zero mm = true ->
  PrimFloat.leb PrimFloat.zero t = true ->
  In r1 ids -> In r2 ids -> r1 <> r2 ->
  gen_can_run_atomic_service F64 r1 ids t im mm = true ->
  gen_can_run_atomic_service F64 r2 ids t im mm = true -> False.

(* margin in seconds as the code computes it; the half-slot fallback test of the next-start form *)
Definition b64_margin_secs (mm : PrimFloat.float) : PrimFloat.float := mul F64 mm (ofZ F64 60).
Definition b64_fallback_taken (i n : Z) (im mm : PrimFloat.float) : bool :=
  let size := div F64 (mul F64 im (ofZ F64 60)) (ofZ F64 n) in
  leb F64 (sub F64 (mul F64 (ofZ F64 (i + 1)%Z) size) (b64_margin_secs mm)) (mul F64 (ofZ F64 i) size).

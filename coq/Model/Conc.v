(* Model/Conc.v — C02.  Any number of actors (pollers, workers, recovery) requesting status changes
   on one shared orchestrator store.  With `atomic = true` a request is one step (BEGIN IMMEDIATE /
   per-invocation lock around read-validate-write); with `atomic = false` it is the two steps the
   code then performs: READ the record, later VALIDATE the snapshot and WRITE.  The flag comes from
   gen/Atomicity_gen.v.  `claims` is a ghost log: (invocation, version of the record that was read)
   for every successful entry into PENDING. *)
From Coq Require Import List Bool Arith.
Import ListNotations.
From PV Require Import Model.Status Model.Lifecycle.

Inductive astep : Set :=
| ATrans (a : nat) (i : inv) (to : status) (rid : option runner)   (* the request, or its READ half *)
| AWrite (a : nat).                                                 (* the VALIDATE+WRITE half *)

Definition preq : Set := (inv * srec * status * option runner)%type.

Record cw : Set := { csys : sys; cpend : list (nat * preq); claims : list (inv * nat) }.

Fixpoint take_req (a : nat) (l : list (nat * preq)) : option preq * list (nat * preq) :=
  match l with
  | [] => (None, [])
  | (b, r) :: rest =>
      if Nat.eqb a b then (Some r, rest)
      else let (x, rest') := take_req a rest in (x, (b, r) :: rest')
  end.

Definition is_pending (s : status) : bool := status_eqb s PENDING.

Definition commit (w : cw) (pend : list (nat * preq)) (i : inv) (r : srec) (to : status) (rid : option runner) : cw :=
  match doc_transition (Some r) to rid with
  | TErr _ => {| csys := csys w; cpend := pend; claims := claims w |}
  | TOk s' o' =>
      {| csys := {| recs := upsert i {| st := s'; owner := o'; ts := S (clock (csys w)) |} (recs (csys w));
                    clock := S (clock (csys w));
                    log := (i, s', rid) :: log (csys w) |};
         cpend := pend;
         claims := if is_pending to then (i, ts r) :: claims w else claims w |}
  end.

Definition conc_step (atomic : bool) (w : cw) (s : astep) : cw :=
  match s with
  | ATrans a i to rid =>
      match lookup i (recs (csys w)) with
      | None => w                                            (* KeyError *)
      | Some r =>
          if atomic then commit w (cpend w) i r to rid
          else {| csys := csys w; cpend := (a, (i, r, to, rid)) :: cpend w; claims := claims w |}
      end
  | AWrite a =>
      match take_req a (cpend w) with
      | (None, _) => w
      | (Some (i, r, to, rid), rest) => commit w rest i r to rid
      end
  end.

Definition conc_run (atomic : bool) (w : cw) (l : list astep) : cw := fold_left (conc_step atomic) l w.

(* start: any state the sequential lifecycle machine can reach (registrations, earlier changes) *)
Definition cw_of (ops0 : list op) : cw :=
  {| csys := exec doc_transition sys0 ops0; cpend := []; claims := [] |}.

(* the "executing" zone of the graph: a body runs between RUNNING and the worker's own exit from it *)
Definition in_zone (s : status) : bool :=
  match s with RUNNING | PAUSED | RESUMED => true | _ => false end.
Definition zone_exit (s : status) : bool :=
  match s with KILLED | RETRY | RUNNING_RECOVERY => true | _ => false end.

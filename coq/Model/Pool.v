(* Model/Pool.v — C14: worker pools of the process-based runners (definitions only).

   A pool is the parent's tracking dictionary (runner id -> process handle, insertion ordered,
   `child_runner_ids` in all three runners), the id counter standing for the fresh uuid4 ids, the
   number of invocations waiting in the broker, and the runner ids of the workers forgotten so far
   (most recent first).  A worker id is a RUNNER ID (numbered by first appearance), not a process:
   where the ids of new workers come from (`idsrc`: a fresh uuid4 for every spawn, or an id taken
   back from a forgotten worker) is a fact generated from the spawn code of each runner.

   The body of each runner's `runner_loop_iteration` is a list of pool operations (`lop`) that
   harness/translate/pool_loops.py regenerates from the source into gen/Pool_gen.v; the meaning
   of each operation (hand mirror of the helper it names) is fixed here and tied to the code by
   the differential run of harness/props/c14.py. *)
From Coq Require Import List Arith Bool.
Import ListNotations.

Record worker := mkW { wid : nat; walive : bool }.
Record pool := mkP { tracked : list worker; next : nat; queue : nat; freed : list nat }.

(* where the runner id of a newly spawned worker comes from *)
Inductive idsrc :=
| IdFresh      (* str(uuid.uuid4()) / new_child_context() without an id: never seen before   *)
| IdRecycled.  (* may be the id of a worker forgotten earlier (last forgotten first)           *)

(* resolved configuration: cap = configured number of workers, initial = spawned by _on_start *)
Record cfg := mkC { cap : nat; initial : nat; enforce : bool }.

(* MultiThreadRunner._on_start: max_processes = conf.max_processes or cpu_count(); min_processes spawned *)
Definition mtr_cfg (min_processes max_processes_conf cpu : nat) (enf : bool) : cfg :=
  mkC (if max_processes_conf =? 0 then cpu else max_processes_conf) min_processes enf.
(* PersistentProcessRunner._on_start: max(min_parallel_slots, conf.num_processes or os.cpu_count() or 1) *)
Definition ppr_cfg (min_parallel_slots num_processes_conf cpu : nat) : cfg :=
  let n := Nat.max min_parallel_slots
             (if num_processes_conf =? 0 then (if cpu =? 0 then 1 else cpu) else num_processes_conf) in
  mkC n n true.
(* ProcessRunner: max_parallel_slots = max(min_parallel_slots, cpu_count()); nothing spawned at start *)
Definition pr_cfg (min_parallel_slots cpu : nat) : cfg :=
  mkC (Nat.max min_parallel_slots cpu) 0 true.

(* ---- operations a loop iteration is made of ---- *)
Inductive lop :=
| LPrune            (* forget every tracked worker whose process is not alive            *)
| LSpawnTo          (* PPR: spawn (num_processes - tracked) workers when tracked < num    *)
| LScaleUp          (* MTR: _scale_up_processes                                          *)
| LSpawnFromQueue.  (* PR : one process per retrieved invocation, up to the free slots   *)

Definition lop_eqb (a b : lop) : bool :=
  match a, b with
  | LPrune, LPrune | LSpawnTo, LSpawnTo | LScaleUp, LScaleUp | LSpawnFromQueue, LSpawnFromQueue => true
  | _, _ => false
  end.
Fixpoint lops_eqb (a b : list lop) : bool :=
  match a, b with
  | [], [] => true
  | x :: a', y :: b' => lop_eqb x y && lops_eqb a' b'
  | _, _ => false
  end.

(* which tracked workers get_active_child_runner_ids returns *)
Inductive hbsel := HbAlive | HbAll | HbDead.

Definition live (p : pool) : list worker := filter walive (tracked p).
Definition nlive (p : pool) : nat := length (live p).
Definition ntracked (p : pool) : nat := length (tracked p).
Definition ids (l : list worker) : list nat := map wid l.
Definition no_dead (p : pool) : bool := forallb walive (tracked p).

Definition spawn1 (p : pool) : pool :=
  mkP (tracked p ++ [mkW (next p) true]) (S (next p)) (queue p) (freed p).
Fixpoint spawn_n (n : nat) (p : pool) : pool :=
  match n with 0 => p | S m => spawn_n m (spawn1 p) end.

Definition dead_of (p : pool) : list worker := filter (fun w => negb (walive w)) (tracked p).
Definition prune (p : pool) : pool := mkP (live p) (next p) (queue p) (rev (ids (dead_of p)) ++ freed p).

Definition spawn_to (c : cfg) (p : pool) : pool := spawn_n (cap c - ntracked p) p.

Definition scale_up (c : cfg) (p : pool) : pool :=
  let cur := ntracked p in
  if enforce c then spawn_n (cap c - cur) p
  else if (cur <? queue p) && (cur <? cap c)
       then spawn_n (Nat.min (queue p - cur) (cap c - cur)) p
       else p.

Definition spawn_from_queue (c : cfg) (p : pool) : pool :=
  let k := Nat.min (cap c - ntracked p) (queue p) in
  let p' := spawn_n k p in
  mkP (tracked p') (next p') (queue p - k) (freed p').

Definition do_op (c : cfg) (p : pool) (o : lop) : pool :=
  match o with
  | LPrune => prune p
  | LSpawnTo => spawn_to c p
  | LScaleUp => scale_up c p
  | LSpawnFromQueue => spawn_from_queue c p
  end.

(* one loop iteration = the operations of the generated list, in order *)
Definition iter (c : cfg) (ops : list lop) (p : pool) : pool := fold_left (do_op c) ops p.

Fixpoint iterate (k : nat) (f : pool -> pool) (p : pool) : pool :=
  match k with 0 => p | S m => f (iterate m f p) end.

(* ---- what happens between iterations ---- *)
Definition kill (dead : list nat) (p : pool) : pool :=
  mkP (map (fun w => if existsb (Nat.eqb (wid w)) dead then mkW (wid w) false else w) (tracked p))
      (next p) (queue p) (freed p).

Definition hb_pick (sel : hbsel) (w : worker) : bool :=
  match sel with HbAlive => walive w | HbAll => true | HbDead => negb (walive w) end.
(* ids handed to register_runner_heartbeats by _report_child_runner_heartbeats *)
Definition hb (sel : hbsel) (p : pool) : list nat := ids (filter (hb_pick sel) (tracked p)).

Inductive event :=
| EKill (dead : list nat)   (* these worker processes die (any subset, also unknown ids) *)
| EEnqueue (n : nat)        (* n invocations arrive in the broker                        *)
| EDrain                    (* the broker queue is emptied by somebody else              *)
| EIter                     (* runner_loop_iteration()                                   *)
| EBeat.                    (* _report_child_runner_heartbeats()                         *)

Definition apply_ev (c : cfg) (ops : list lop) (p : pool) (e : event) : pool :=
  match e with
  | EKill d => kill d p
  | EEnqueue n => mkP (tracked p) (next p) (queue p + n) (freed p)
  | EDrain => mkP (tracked p) (next p) 0 (freed p)
  | EIter => iter c ops p
  | EBeat => p
  end.

Definition run (c : cfg) (ops : list lop) (p : pool) (evs : list event) : pool :=
  fold_left (apply_ev c ops) evs p.

Definition start (c : cfg) : pool := spawn_n (initial c) (mkP [] 0 0 []).

(* heartbeat outputs along a run, in order *)
Fixpoint beats (c : cfg) (ops : list lop) (sel : hbsel) (p : pool) (evs : list event) : list (list nat) :=
  match evs with
  | [] => []
  | e :: r =>
      let p' := apply_ev c ops p e in
      match e with
      | EBeat => hb sel p :: beats c ops sel p' r
      | _ => beats c ops sel p' r
      end
  end.

(* ---- observation trace for the differential run: after every event
        [ [[id; alive]...] ; [queue] ; heartbeat ids (EBeat only) ] ---- *)
Definition obs_pool (p : pool) : list (list nat) :=
  map (fun w => [wid w; if walive w then 1 else 0]) (tracked p).

Fixpoint trace (c : cfg) (ops : list lop) (sel : hbsel) (p : pool) (evs : list event)
  : list (list (list nat) * nat * list nat) :=
  match evs with
  | [] => []
  | e :: r =>
      let p' := apply_ev c ops p e in
      (obs_pool p', queue p', match e with EBeat => hb sel p | _ => [] end) :: trace c ops sel p' r
  end.

(* what the pool has to offer after an iteration of the multi-thread runner *)
Definition mtr_demand (c : cfg) (p : pool) : nat :=
  if enforce c then cap c else Nat.min (queue p) (cap c).

(* ---- the same loop with the id source of the spawn code made explicit ----
   `spawn1G IdFresh` is `spawn1`; with `IdRecycled` a new worker takes the id of the most recently
   forgotten worker when there is one.  Everything below repeats the definitions above with the
   id source threaded through (Proofs/PoolProofs.v: for IdFresh the two coincide).  The theorems of
   Props/C14.v and the differential run use THESE, instantiated with the `*_id_src` facts generated
   from the spawn code of each runner. *)
Definition spawn1G (s : idsrc) (p : pool) : pool :=
  match s, freed p with
  | IdRecycled, id :: rest => mkP (tracked p ++ [mkW id true]) (next p) (queue p) rest
  | _, _ => spawn1 p
  end.
Fixpoint spawn_nG (s : idsrc) (n : nat) (p : pool) : pool :=
  match n with 0 => p | S m => spawn_nG s m (spawn1G s p) end.

Definition spawn_toG (s : idsrc) (c : cfg) (p : pool) : pool := spawn_nG s (cap c - ntracked p) p.

Definition scale_upG (s : idsrc) (c : cfg) (p : pool) : pool :=
  let cur := ntracked p in
  if enforce c then spawn_nG s (cap c - cur) p
  else if (cur <? queue p) && (cur <? cap c)
       then spawn_nG s (Nat.min (queue p - cur) (cap c - cur)) p
       else p.

Definition spawn_from_queueG (s : idsrc) (c : cfg) (p : pool) : pool :=
  let k := Nat.min (cap c - ntracked p) (queue p) in
  let p' := spawn_nG s k p in
  mkP (tracked p') (next p') (queue p - k) (freed p').

Definition do_opG (s : idsrc) (c : cfg) (p : pool) (o : lop) : pool :=
  match o with
  | LPrune => prune p
  | LSpawnTo => spawn_toG s c p
  | LScaleUp => scale_upG s c p
  | LSpawnFromQueue => spawn_from_queueG s c p
  end.

Definition iterG (s : idsrc) (c : cfg) (ops : list lop) (p : pool) : pool := fold_left (do_opG s c) ops p.

Definition apply_evG (s : idsrc) (c : cfg) (ops : list lop) (p : pool) (e : event) : pool :=
  match e with
  | EIter => iterG s c ops p
  | _ => apply_ev c ops p e
  end.

Definition runG (s : idsrc) (c : cfg) (ops : list lop) (p : pool) (evs : list event) : pool :=
  fold_left (apply_evG s c ops) evs p.

Fixpoint beatsG (s : idsrc) (c : cfg) (ops : list lop) (sel : hbsel) (p : pool) (evs : list event)
  : list (list nat) :=
  match evs with
  | [] => []
  | e :: r =>
      let p' := apply_evG s c ops p e in
      match e with
      | EBeat => hb sel p :: beatsG s c ops sel p' r
      | _ => beatsG s c ops sel p' r
      end
  end.

Fixpoint traceG (s : idsrc) (c : cfg) (ops : list lop) (sel : hbsel) (p : pool) (evs : list event)
  : list (list (list nat) * nat * list nat) :=
  match evs with
  | [] => []
  | e :: r =>
      let p' := apply_evG s c ops p e in
      (obs_pool p', queue p', match e with EBeat => hb sel p | _ => [] end) :: traceG s c ops sel p' r
  end.

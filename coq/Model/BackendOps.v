(* Model/BackendOps.v — C16.  Shared vocabulary of the two backend models:
   the operation alphabet (public operations of orchestrator / broker / state backend), answers,
   canonical forms for unordered answers, and the part of the state that has the SAME shape in the
   in-memory and in the SQLite implementation (dict <-> table with a primary key): heartbeats, queue,
   results, exceptions, workflow data, history, stored invocations, runner contexts.
   Definitions only. *)
From Coq Require Import List Bool Arith ZArith.
Import ListNotations.
From PV Require Import Model.Status Model.Blocking Model.Recovery.
Local Open Scope nat_scope.

(* ---------- universe, configuration, lifecycle step ---------- *)
(* what an invocation object carries with it: its task, its call, its serialized arguments *)
Record univ : Set := { task_of : nat -> nat; call_of : nat -> nat; args_of : nat -> list (nat * nat) }.
(* orchestrator_auto_final_invocation_purge_hours*3600, max_pending_seconds, runner_considered_dead_after_minutes*60 *)
Record conf : Set := { purge_after : Z; pending_limit : Z; dead_after : Z }.
(* status_record_transition (both backends call the same pure function; C01 proves it is the documented one) *)
Definition transf : Set := option srec -> status -> option runner -> tres.
Definition srec_of (r : rrec) : srec := {| st := rst r; owner := rown r; ts := 0 |}.

(* ---------- canonical form of an unordered answer: strictly sorted, duplicate free ---------- *)
Fixpoint sins (x : nat) (l : list nat) : list nat :=
  match l with
  | [] => [x]
  | y :: r => if x <? y then x :: l else if x =? y then l else y :: sins x r
  end.
Definition norm (l : list nat) : list nat := fold_right sins [] l.
Definition memb (x : nat) (l : list nat) : bool := existsb (Nat.eqb x) l.
Definition smemb (s : status) (l : list status) : bool := existsb (status_eqb s) l.

(* stable insertion sort of (timestamp, id) by timestamp, newest first *)
Fixpoint tins (e : Z * nat) (l : list (Z * nat)) : list (Z * nat) :=
  match l with
  | [] => [e]
  | f :: r => if (fst f <? fst e)%Z then e :: l else f :: tins e r
  end.
Definition tsort (l : list (Z * nat)) : list (Z * nat) := fold_right tins [] l.
Definition page (limit offset : nat) (l : list (Z * nat)) : list Z :=
  map fst (firstn limit (skipn offset (tsort l))).

(* ---------- association lists / pair sets on nat keys ---------- *)
Fixpoint aget {A : Type} (k : nat) (l : list (nat * A)) : option A :=
  match l with
  | [] => None
  | (j, v) :: r => if Nat.eqb k j then Some v else aget k r
  end.
Fixpoint aset {A : Type} (k : nat) (v : A) (l : list (nat * A)) : list (nat * A) :=
  match l with
  | [] => [(k, v)]
  | (j, w) :: r => if Nat.eqb k j then (k, v) :: r else (j, w) :: aset k v r
  end.
Definition adel {A : Type} (k : nat) (l : list (nat * A)) : list (nat * A) :=
  filter (fun e => negb (Nat.eqb (fst e) k)) l.

(* a dict of sets is the set of its (key, member) pairs *)
Definition pmem (k i : nat) (l : list (nat * nat)) : bool :=
  existsb (fun e => Nat.eqb (fst e) k && Nat.eqb (snd e) i) l.
Definition padd (k i : nat) (l : list (nat * nat)) : list (nat * nat) := if pmem k i l then l else l ++ [(k, i)].
Definition pdel (k i : nat) (l : list (nat * nat)) : list (nat * nat) :=
  filter (fun e => negb (Nat.eqb (fst e) k && Nat.eqb (snd e) i)) l.
Definition pget (k : nat) (l : list (nat * nat)) : list nat :=
  map snd (filter (fun e => Nat.eqb (fst e) k) l).
(* argument pairs (key, value) are encoded as one number by the models' users: key * 1000 + value *)
Definition kvcode (kv : nat * nat) : nat := fst kv * 1000 + snd kv.

(* ---------- the alphabet ---------- *)
Inductive op : Set :=
| Tick (d : nat)
| Reg (ids : list nat) (rid : option runner)       (* register_new_invocations *)
| SetSt (i : nat) (s : status) (rid : option runner) (* set_invocation_status *)
| IdxArgs (i : nat)                                 (* index_arguments_for_concurrency_control *)
| IncR (i : nat)                                    (* increment_invocation_retries *)
| Hb (rs : list nat) (flag : bool)                  (* register_runner_heartbeats *)
| AutoPurge
| Wait (w : nat) (xs : list nat)                    (* waiting_for_results *)
| Release (x : nat)                                 (* release_waiters *)
| Route (i : nat) | Retrieve | BPurge               (* broker *)
| SetRes (i v : nat) | SetExc (i v : nat) | SetWf (k v : nat) | SBPurge | OPurge
| QRec (i : nat) | QRetries (i : nat) | QTask (t : nat) | QCall (c : nat)
| QExisting (t : nat) (kv : list (nat * nat)) (sts : list status)
| QPage (t : option nat) (sts : list status) (limit offset : nat)
| QCount (t : option nat) (sts : list status)
| QFilter (ids : list nat) (sts : list status)
| QBlocking
| QPending | QRunning | QActive (flag : option bool)
| QPeek (n : nat) | QQCount
| QRes (i : nat) | QExc (i : nat) | QHist (i : nat) | QWf (k : nat) | QStored (i : nat) | QRctx (r : nat)
| QHRange (a b : Z)                                 (* iter_history_in_timerange, all batches together *)
| QIRange (a b : Z).                                (* iter_invocations_in_timerange, all batches together *)

(* answers.  error classes: 1 transition, 2 ownership, 3 KeyError, 4 InvocationNotFound *)
Inductive out : Set :=
| OOk | OErr (code : nat) | ONat (n : nat) | OOpt (o : option nat) | OIds (l : list nat) | OZs (l : list Z)
| ORec (st own : nat) (ts : Z) | ORows (l : list (list Z)).

Definition ocode (o : option runner) : nat := match o with None => 0 | Some r => r end.
Definition terr_code (e : terr) : nat := match e with ETransition => 1 | EOwnership => 2 end.

(* what the harness reads (nested lists of numbers) *)
Definition render (o : out) : list (list Z) :=
  match o with
  | OOk => [[0%Z]]
  | OErr c => [[1%Z; Z.of_nat c]]
  | ONat n => [[2%Z; Z.of_nat n]]
  | OOpt None => [[3%Z]]
  | OOpt (Some n) => [[3%Z; Z.of_nat n]]
  | OIds l => [4%Z] :: [map Z.of_nat l]
  | OZs l => [5%Z] :: [l]
  | ORec s o t => [[6%Z; Z.of_nat s; Z.of_nat o; t]]
  | ORows l => [7%Z] :: l
  end.

(* ---------- the part of the state with the same shape in both implementations ---------- *)
Record hbrow : Set := { h_id : nat; h_created : Z; h_last : Z; h_flag : bool }.
Record shared : Set := {
  now : Z;
  hbs : list hbrow;                      (* runner_* dicts / RUNNER_HEARTBEATS *)
  queue : list nat;                      (* deque / message_queue in arrival order *)
  results : list (nat * nat);
  excs : list (nat * nat);
  wfd : list (nat * nat);                (* (workflow, key) encoded as one number -> value *)
  hist : list (nat * (nat * nat * Z));   (* per invocation, in arrival order: status, owner, status timestamp *)
  stored : list nat;                     (* invocations known to the state backend *)
  rctx : list nat;                       (* runner contexts in the backend store *)
  rcache : list nat }.                   (* BaseStateBackend._runner_context_cache (survives purge, both backends) *)

Definition shared0 : shared :=
  {| now := 0; hbs := []; queue := []; results := []; excs := []; wfd := []; hist := []; stored := [];
     rctx := []; rcache := [] |}.

Definition set_now (s : shared) (t : Z) : shared :=
  {| now := t; hbs := hbs s; queue := queue s; results := results s; excs := excs s; wfd := wfd s; hist := hist s;
     stored := stored s; rctx := rctx s; rcache := rcache s |}.
Definition set_hbs (s : shared) (h : list hbrow) : shared :=
  {| now := now s; hbs := h; queue := queue s; results := results s; excs := excs s; wfd := wfd s; hist := hist s;
     stored := stored s; rctx := rctx s; rcache := rcache s |}.
Definition set_queue (s : shared) (q : list nat) : shared :=
  {| now := now s; hbs := hbs s; queue := q; results := results s; excs := excs s; wfd := wfd s; hist := hist s;
     stored := stored s; rctx := rctx s; rcache := rcache s |}.

Fixpoint hb_upsert (t : Z) (flag : bool) (r : nat) (l : list hbrow) : list hbrow :=
  match l with
  | [] => [{| h_id := r; h_created := t; h_last := t; h_flag := flag |}]
  | h :: rest => if Nat.eqb (h_id h) r
                 then {| h_id := r; h_created := h_created h; h_last := t; h_flag := flag |} :: rest
                 else h :: hb_upsert t flag r rest
  end.
Definition hbeats_of (l : list hbrow) : hbeats := map (fun h => (h_id h, h_last h)) l.

(* add_history / add_histories: store_runner_context (through the base class cache), then one entry *)
Definition note_runner (r : nat) (s : shared) : shared :=
  {| now := now s; hbs := hbs s; queue := queue s; results := results s; excs := excs s; wfd := wfd s; hist := hist s;
     stored := stored s;
     rctx := if memb r (rcache s) then rctx s else (if memb r (rctx s) then rctx s else rctx s ++ [r]);
     rcache := if memb r (rcache s) then rcache s else rcache s ++ [r] |}.
Definition add_hist (i : nat) (e : nat * nat * Z) (s : shared) : shared :=
  {| now := now s; hbs := hbs s; queue := queue s; results := results s; excs := excs s; wfd := wfd s;
     hist := hist s ++ [(i, e)]; stored := stored s; rctx := rctx s; rcache := rcache s |}.
Definition add_stored (ids : list nat) (s : shared) : shared :=
  {| now := now s; hbs := hbs s; queue := queue s; results := results s; excs := excs s; wfd := wfd s; hist := hist s;
     stored := fold_left (fun l i => if memb i l then l else l ++ [i]) ids (stored s);
     rctx := rctx s; rcache := rcache s |}.

(* register_new_invocations, the part outside the orchestrator's own store: upsert into the state backend,
   one REGISTERED history entry per invocation (written by the client's runner context), route all *)
Definition sh_register (ids : list nat) (rid : option runner) (s : shared) : shared :=
  let s1 := add_stored ids s in
  let s2 := note_runner (ocode rid) s1 in
  let s3 := fold_left (fun a i => add_hist i (status_code REGISTERED, ocode rid, now s) a) ids s2 in
  set_queue s3 (queue s3 ++ ids).

(* operations that only touch the shared part (both purges clear everything except the base class cache) *)
Definition sh_step (c : conf) (s : shared) (o : op) : option (shared * out) :=
  match o with
  | Tick d => Some (set_now s (now s + Z.of_nat d)%Z, OOk)
  | Hb rs flag => Some (set_hbs s (fold_left (fun l r => hb_upsert (now s) flag r l) rs (hbs s)), OOk)
  | Route i => Some (set_queue s (queue s ++ [i]), OOk)
  | Retrieve => match queue s with
                | [] => Some (s, OOpt None)
                | i :: q => Some (set_queue s q, OOpt (Some i))
                end
  | BPurge => Some (set_queue s [], OOk)
  | QPeek n => Some (s, OIds (firstn n (queue s)))
  | QQCount => Some (s, ONat (length (queue s)))
  | QActive fo =>
      let cutoff := (now s - dead_after c)%Z in
      let sel := filter (fun h => (cutoff <=? h_last h)%Z &&
                                  match fo with None => true | Some f => Bool.eqb (h_flag h) f end) (hbs s) in
      Some (s, ORows (map (fun h => [h_created h; Z.of_nat (h_id h); h_last h; if h_flag h then 1%Z else 0%Z]) sel))
  | SetRes i v => Some ({| now := now s; hbs := hbs s; queue := queue s; results := aset i v (results s); excs := excs s;
                           wfd := wfd s; hist := hist s; stored := stored s; rctx := rctx s; rcache := rcache s |}, OOk)
  | SetExc i v => Some ({| now := now s; hbs := hbs s; queue := queue s; results := results s; excs := aset i v (excs s);
                           wfd := wfd s; hist := hist s; stored := stored s; rctx := rctx s; rcache := rcache s |}, OOk)
  | SetWf k v => Some ({| now := now s; hbs := hbs s; queue := queue s; results := results s; excs := excs s;
                          wfd := aset k v (wfd s); hist := hist s; stored := stored s; rctx := rctx s; rcache := rcache s |}, OOk)
  | SBPurge => Some ({| now := now s; hbs := hbs s; queue := queue s; results := []; excs := [];
                        wfd := []; hist := []; stored := [];
                        rctx := []; rcache := rcache s |}, OOk)
  | QRes i => Some (s, match aget i (results s) with Some v => ONat v | None => OErr 3 end)
  | QExc i => Some (s, match aget i (excs s) with Some v => ONat v | None => OErr 3 end)
  | QWf k => Some (s, OOpt (aget k (wfd s)))
  | QHist i => Some (s, ORows (map (fun e => match snd e with (a, b, t) => [Z.of_nat a; Z.of_nat b; t] end)
                                   (filter (fun e => Nat.eqb (fst e) i) (hist s))))
  | QHRange a b =>
      Some (s, ORows (map (fun e => match snd e with (x, y, t) => [Z.of_nat (fst e); Z.of_nat x; Z.of_nat y; t] end)
                          (filter (fun e => match snd e with (_, _, t) => (a <=? t)%Z && (t <=? b)%Z end) (hist s))))
  | QIRange a b =>
      Some (s, OIds (norm (map fst (filter (fun e => match snd e with (_, _, t) => (a <=? t)%Z && (t <=? b)%Z end) (hist s)))))
  | QStored i => Some (s, if memb i (stored s) then OOk else OErr 4)
  | QRctx r => Some (s, if memb r (rctx s) then ONat 1 else ONat 0)
  | _ => None
  end.

(* Model/StatusImpl.v — mirror of status_record_transition (validate_transition,
   validate_ownership, compute_new_owner) of pynenc/invocation/status.py, written over the
   GENERATED table gen_def.  Tied to the Python functions by the exhaustive single-step
   correspondence of check C01 (and by the AST shape check of translate/status_table.py). *)
From Coq Require Import List Bool Arith.
From PV Require Import Model.Status Model.StatusDef gen.StatusTable_gen.

(* validate_transition(from_status, to_status) *)
Definition impl_validate_transition (from : option status) (to : status) : bool :=
  mem_status to (allowed (gen_def from)).

(* `not runner_id`: None (the empty string is outside the model's runner universe) *)
Definition rid_missing (rid : option runner) : bool :=
  match rid with None => true | Some _ => false end.

(* validate_ownership(current_record, new_status, runner_id): true = passes *)
Definition impl_validate_ownership (cur : option srec) (to : status) (rid : option runner) : bool :=
  match cur with
  | None => true
  | Some r =>
      let new_def := gen_def (Some to) in
      if overrides_ownership new_def then true
      else
        let cur_def := gen_def (Some (st r)) in
        if requires_ownership cur_def && negb (orunner_eqb rid (owner r)) then false
        else if acquires_ownership new_def && rid_missing rid then false
        else true
  end.

Definition impl_compute_new_owner (cur : option srec) (to : status) (rid : option runner)
  : option runner :=
  let new_def := gen_def (Some to) in
  if releases_ownership new_def then None
  else if acquires_ownership new_def then rid
  else match cur with Some r => owner r | None => None end.

Definition impl_transition (cur : option srec) (to : status) (rid : option runner) : tres :=
  let from := match cur with Some r => Some (st r) | None => None end in
  if negb (impl_validate_transition from to) then TErr ETransition
  else if negb (impl_validate_ownership cur to rid) then TErr EOwnership
  else TOk to (impl_compute_new_owner cur to rid).

(* Model/BackendGuard.v — C16.  The domain of the equivalence theorem, as a decidable predicate evaluated
   along the reference (relational) execution.  Each excluded class is a place where the in-memory
   backend, as transcribed in Model/BackendIndex.v, leaves the documented contract (Props/C16.v proves
   each of them refuted by a witness); `first_bad` tells the harness where a sequence leaves the domain
   and through which class.  Definitions only. *)
From Coq Require Import List Bool Arith ZArith.
Import ListNotations.
From PV Require Import Model.Status Model.Blocking Model.Recovery Model.BackendOps Model.BackendRel.
Local Open Scope nat_scope.

Definition registered (s : rel) (i : nat) : bool :=
  match find_row i (rows s) with Some _ => true | None => false end.
Definition is_final_row (s : rel) (i : nat) : bool :=
  match find_row i (rows s) with Some r => doc_final (rst (r_rec r)) | None => false end.
Fixpoint nodupb (l : list nat) : bool :=
  match l with [] => true | x :: r => negb (memb x r) && nodupb r end.

Definition ever_after (ever : list nat) (o : op) : list nat :=
  match o with Reg ids _ => ids ++ ever | _ => ever end.

Section G.
Variable u : univ.
Variable c : conf.
Variable trans : transf.

Definition due (s : rel) (r : row) : bool :=
  match r_purge r with Some p => (p <=? now (rsh s) - purge_after c)%Z | None => false end.

(* 0 = inside the domain; 1..6 = a class where the in-memory backend leaves the contract (refuted by witnesses);
   7 = auto_purge with something to purge: the models agree there too (correspondence), but the simulation proof
   does not cover the purge loop *)
Definition guard (ever : list nat) (s : rel) (o : op) : nat :=
  match o with
  | Reg ids _ => if nodupb ids && forallb (fun i => negb (memb i ever)) ids then 0 else 1   (* re-registration *)
  | IncR i => if registered s i then 0 else 2                                                (* unknown id *)
  | Wait w xs => if negb (memb w xs) && forallb (registered s) xs then 0 else 3              (* unknown awaited id *)
  | Release x => if is_final_row s x then 0 else 4                                           (* release of a live invocation *)
  | QFilter ids _ => if forallb (registered s) ids then 0 else 5                             (* unknown id *)
  | SBPurge => 6                                                                             (* state backend purge *)
  | AutoPurge => if existsb (due s) (rows s) then 7 else 0
  | _ => 0
  end.

Fixpoint all_ok (ever : list nat) (s : rel) (ops : list op) : bool :=
  match ops with
  | [] => true
  | o :: rest => Nat.eqb (guard ever s o) 0 && all_ok (ever_after ever o) (fst (rel_step u c trans s o)) rest
  end.

(* (position of the first operation outside the domain, its class), classes equal to `ign` not counted
   (ign = 7: where does the sequence first leave the CONTRACT-respecting part of the in-memory backend);
   (length, 0) when all are inside *)
Fixpoint first_bad (ign pos : nat) (ever : list nat) (s : rel) (ops : list op) : nat * nat :=
  match ops with
  | [] => (pos, 0)
  | o :: rest => let k := guard ever s o in
                 if Nat.eqb k 0 || Nat.eqb k ign
                 then first_bad ign (S pos) (ever_after ever o) (fst (rel_step u c trans s o)) rest
                 else (pos, k)
  end.
End G.

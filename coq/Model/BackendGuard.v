(* Model/BackendGuard.v — C16.  The domain of the equivalence theorem, as a decidable predicate evaluated
   along the reference (relational) execution.
   class 4 (and its other face, class 1) is the one place where the in-memory backend, as transcribed in
   Model/BackendIndex.v, still leaves the documented contract: release_waiters(x) also forgets what x itself
   waits for (Props/C16.v refutes it by a witness).  Classes 3 and 7 only bound the PROOF: no divergence is
   known there and the correspondence covers them.  `first_bad` tells the harness where a sequence leaves
   the domain and through which class.  Definitions only. *)
From Coq Require Import List Bool Arith ZArith.
Import ListNotations.
From PV Require Import Model.Status Model.Blocking Model.Recovery Model.BackendOps Model.BackendRel.
Local Open Scope nat_scope.

Definition registered (s : rel) (i : nat) : bool :=
  match find_row i (rows s) with Some _ => true | None => false end.
Definition is_final_row (s : rel) (i : nat) : bool :=
  match find_row i (rows s) with Some r => doc_final (rst (r_rec r)) | None => false end.
Fixpoint nodupb (l : list nat) : bool :=
  match l with [] => true | x :: r => negb (memb x r) && nodupb r end.

(* ghost: the ids registered since the orchestrator was last purged *)
Definition ever_after (ever : list nat) (o : op) : list nat :=
  match o with Reg ids _ => ids ++ ever | OPurge => [] | _ => ever end.

Section G.
Variable u : univ.
Variable c : conf.
Variable trans : transf.

Definition due (s : rel) (r : row) : bool :=
  match r_purge r with Some p => (p <=? now (rsh s) - purge_after c)%Z | None => false end.

(* 0 = inside the domain;
   1 = registering again an invocation that has been auto-purged (its stale own waits: class 4's other face);
   3 = an invocation waiting for itself (outside C09's wait-graph invariant proof);
   4 = release_waiters on an invocation that is not final (the remaining known finding);
   7 = auto_purge with something to purge (the models agree there - correspondence - but the simulation proof
       does not cover the purge loop) *)
Definition guard (ever : list nat) (s : rel) (o : op) : nat :=
  match o with
  | Reg ids _ => if forallb (fun i => registered s i || negb (memb i ever)) ids then 0 else 1
  | Wait w xs => if negb (memb w xs) then 0 else 3
  | Release x => if is_final_row s x then 0 else 4
  | AutoPurge => if existsb (due s) (rows s) then 7 else 0
  | _ => 0
  end.

Fixpoint all_ok (ever : list nat) (s : rel) (ops : list op) : bool :=
  match ops with
  | [] => true
  | o :: rest => Nat.eqb (guard ever s o) 0 && all_ok (ever_after ever o) (fst (rel_step u c trans s o)) rest
  end.

(* (position of the first operation outside the domain, its class), classes in `ign` not counted
   (ign = [3; 7]: where does the sequence first meet the remaining known finding); (length, 0) when none *)
Fixpoint first_bad (ign : list nat) (pos : nat) (ever : list nat) (s : rel) (ops : list op) : nat * nat :=
  match ops with
  | [] => (pos, 0)
  | o :: rest => let k := guard ever s o in
                 if Nat.eqb k 0 || memb k ign
                 then first_bad ign (S pos) (ever_after ever o) (fst (rel_step u c trans s o)) rest
                 else (pos, k)
  end.
End G.

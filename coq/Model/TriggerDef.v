(* Model/TriggerDef.v — the facts the C13 translator reads from the trigger sources
   (harness/translate/trigger.py -> gen/Trigger_gen.v).  Every model function of
   Model/Trigger.v and Model/Cron.v takes such a record; the property theorems are
   instantiated with the generated one. *)
From Coq Require Import ZArith Bool.

Record facts : Set := {
  (* base_trigger.py:trigger_loop_iteration *)
  f_claim_guards_launch : bool;  (* execute_task only inside `if self.claim_trigger_run(run_id):` *)
  f_clear_after_launch : bool;   (* clear_valid_conditions is the last statement, after the launch loop *)
  f_per_occurrence : bool;       (* OR / single-condition triggers: one run id AND one argument context per occurrence *)
  (* trigger_definitions.py:generate_trigger_run_ids *)
  f_or_runid_per_occurrence : bool;  (* OR: one id per valid condition from trigger id + that valid-condition id *)
  f_and_runid_joins_all : bool;      (* AND: one id from trigger id + the sorted valid-condition ids *)
  (* argument_providers.py:ContextTypeArgumentProvider.get_arguments *)
  f_args_first_match : bool;     (* first context of the requested type in the trigger context *)
  (* claim_trigger_run in both stores *)
  f_mem_claim_locked : bool;     (* read, test and write inside `with self._trigger_run_lock` *)
  f_sqlite_claim_immediate : bool; (* SELECT and INSERT inside one BEGIN IMMEDIATE transaction *)
  f_claim_expiry_s : Z;          (* default expiration_seconds *)
  (* store_last_cron_execution in both stores *)
  f_mem_cas_locked : bool;
  f_sqlite_cas_immediate : bool;
  f_mem_cas_rejects_none : bool;    (* expected None and a stored value present: refused *)
  f_sqlite_cas_rejects_none : bool;
  (* context ids *)
  f_exc_ctx_has_invocation : bool;  (* ExceptionContext.context_id mentions the invocation id *)
  f_status_ctx_inv_and_status : bool; (* StatusContext.context_id = invocation id + status *)
  (* cron.py defaults and comparison shapes *)
  f_cron_window_s : Z;
  f_cron_min_interval_s : Z;
  f_cron_tolerance_s : Z;
  f_cron_window_inclusive : bool;   (* 0 <= diff <= window *)
  f_cron_min_interval_strict : bool; (* refused when since_last < min_interval *)
  (* base_trigger.py:_should_trigger_cron_condition *)
  f_cron_first_poll_checked : bool; (* is_satisfied_by is also consulted when no last execution is stored *)
  f_cron_storage_read_always : bool; (* every poll that passes the cache short cut reads the stored last execution and
                                        hands exactly that value to the compare-and-swap (the runner-local cache is never
                                        trusted in its place) *)
  (* get_conditions_sourced_from_task in both stores *)
  f_mem_source_filter_exact : bool;    (* cond.context_type == context_type: a result / exception report never reaches *)
  f_sqlite_source_filter_exact : bool; (* the status conditions although their contexts subclass StatusContext *)
  (* get_valid_conditions in both stores *)
  f_mem_pending_read_complete : bool;    (* the loop iteration sees every pending valid condition *)
  f_sqlite_pending_read_complete : bool; (* (no WHERE / LIMIT / partial fetch) *)
  f_mem_pending_in_place : bool   (* MemTrigger never re-binds self._valid_conditions outside __init__: the dict object a
                                     reporter thread loaded stays the one the loop iteration reads *)
}.

(* Model/BackendIndex.v — C16.  The index model, transcribed attribute by attribute from
   MemOrchestrator / MemBlockingControl: a record dict plus incrementally maintained indexes
   (status_index, task_id_to_inv_id, call_id_to_inv_id, args_index, invocation_retries, the
   invocations_to_purge deque) and the three structures of the wait graph (Model/Blocking.v).
   A dict of sets is represented by the set of its (key, member) pairs.  Definitions only. *)
From Coq Require Import List Bool Arith ZArith.
Import ListNotations.
From PV Require Import Model.Status Model.Blocking Model.Recovery Model.BackendOps.
Local Open Scope nat_scope.

Record idx : Set := {
  recs : rstore;                    (* invocation_status_record *)
  retr : list (nat * nat);          (* invocation_retries *)
  sidx : list (nat * nat);          (* status_index: (status code, invocation) *)
  tidx : list (nat * nat);          (* task_id_to_inv_id *)
  cidx : list (nat * nat);          (* call_id_to_inv_id *)
  aidx : list (nat * nat);          (* args_index: (key/value code, invocation) *)
  pq : list (Z * nat);              (* invocations_to_purge (deque, left = head) *)
  graph : mbc;                      (* MemBlockingControl *)
  ish : shared }.
Definition idx0 : idx :=
  {| recs := []; retr := []; sidx := []; tidx := []; cidx := []; aidx := []; pq := []; graph := mbc0; ish := shared0 |}.

Fixpoint rset (i : nat) (r : rrec) (s : rstore) : rstore :=      (* dict[i] = r *)
  match s with
  | [] => [(i, r)]
  | (j, q) :: rest => if Nat.eqb i j then (i, r) :: rest else (j, q) :: rset i r rest
  end.
Definition rdel (i : nat) (s : rstore) : rstore := filter (fun e => negb (Nat.eqb (fst e) i)) s.

Definition iwith_sh (s : idx) (h : shared) : idx :=
  {| recs := recs s; retr := retr s; sidx := sidx s; tidx := tidx s; cidx := cidx s; aidx := aidx s; pq := pq s;
     graph := graph s; ish := h |}.

(* filter_by_statuses: union of the status sets *)
Definition by_statuses (sx : list (nat * nat)) (sts : list status) : list nat :=
  flat_map (fun s => pget (status_code s) sx) sts.
(* filter_by_key_arguments: ids present in the set of EVERY pair (empty when a pair has no set) *)
Definition by_keys (ax : list (nat * nat)) (kv : list (nat * nat)) : list nat :=
  match kv with
  | [] => []
  | p :: rest => filter (fun i => forallb (fun q => pmem (kvcode q) i ax) rest) (pget (kvcode p) ax)
  end.
Definition inter (a b : list nat) : list nat := filter (fun x => memb x b) a.

Section Step.
Variable u : univ.
Variable c : conf.
Variable trans : transf.

(* one iteration of the loop in _register_new_invocations: an already known invocation is left untouched *)
Definition idx_register_one (t : Z) (rid : option runner) (s : idx) (i : nat) : idx :=
  match rlookup i (recs s) with
  | Some _ => s                                                               (* if id in invocation_status_record: continue *)
  | None =>
    {| recs := rset i {| rst := REGISTERED; rown := rid; rts := t |} (recs s);
       retr := aset i 0 (retr s);
       sidx := padd (status_code REGISTERED) i (sidx s);
       tidx := padd (task_of u i) i (tidx s);
       cidx := padd (call_of u i) i (cidx s);
       aidx := aidx s; pq := pq s; graph := graph s; ish := ish s |}
  end.

(* clean_up_invocation; None = completed, Some e = raised *)
Definition idx_cleanup (s : idx) (i : nat) : idx * option nat :=
  let g := mem_release i (graph s) in                        (* self.release_waiters(invocation_id) *)
  if negb (memb i (stored (ish s)))                          (* state_backend.get_invocation raises: un-index by scanning *)
  then ({| recs := rdel i (recs s); retr := adel i (retr s);
           sidx := match rlookup i (recs s) with
                   | Some r => pdel (status_code (rst r)) i (sidx s)
                   | None => sidx s
                   end;
           tidx := filter (fun e => negb (Nat.eqb (snd e) i)) (tidx s);
           cidx := filter (fun e => negb (Nat.eqb (snd e) i)) (cidx s);
           aidx := filter (fun e => negb (Nat.eqb (snd e) i)) (aidx s);
           pq := pq s; graph := g; ish := ish s |}, None)
  else
    let ax := fold_left (fun a kv => pdel (kvcode kv) i a) (args_of u i) (aidx s) in
    match rlookup i (recs s) with
    | None => ({| recs := recs s; retr := retr s; sidx := sidx s; tidx := tidx s; cidx := cidx s; aidx := ax;
                  pq := pq s; graph := g; ish := ish s |}, Some 3)       (* self.invocation_status_record[id] *)
    | Some r =>
        ({| recs := rdel i (recs s); retr := adel i (retr s);
            sidx := pdel (status_code (rst r)) i (sidx s);
            tidx := pdel (task_of u i) i (tidx s);
            cidx := pdel (call_of u i) i (cidx s);
            aidx := ax; pq := pq s; graph := g; ish := ish s |}, None)
    end.

Definition set_pq (s : idx) (q : list (Z * nat)) : idx :=
  {| recs := recs s; retr := retr s; sidx := sidx s; tidx := tidx s; cidx := cidx s; aidx := aidx s; pq := q;
     graph := graph s; ish := ish s |}.

(* while queue and queue[0][0] <= end_time: popleft; clean_up *)
Fixpoint idx_purge_loop (cutoff : Z) (q : list (Z * nat)) (s : idx) : idx * out :=
  match q with
  | [] => (set_pq s [], OOk)
  | (t, i) :: rest =>
      if (t <=? cutoff)%Z
      then match idx_cleanup s i with
           | (s', None) => idx_purge_loop cutoff rest s'
           | (s', Some e) => (set_pq s' rest, OErr e)
           end
      else (set_pq s q, OOk)
  end.

Definition idx_cands (s : idx) (tk : option nat) (sts : list status) : list nat :=
  let base := match tk with Some t => pget t (tidx s) | None => map snd (tidx s) end in
  match sts with [] => base | _ => inter base (by_statuses (sidx s) sts) end.

Definition idx_step (s : idx) (o : op) : idx * out :=
  match sh_step c (ish s) o with
  | Some (h, a) => (iwith_sh s h, a)
  | None =>
    let t := now (ish s) in
    match o with
    | Reg ids rid =>
        let s1 := fold_left (idx_register_one t rid) ids s in
        (iwith_sh s1 (sh_register ids rid (ish s)), OOk)
    | SetSt i req rid =>
        match rlookup i (recs s) with
        | None => (s, OErr 3)
        | Some r =>
            match trans (Some (srec_of r)) req rid with
            | TErr e => (s, OErr (terr_code e))
            | TOk s' o' =>
                let fin := doc_final req in
                ({| recs := rset i {| rst := s'; rown := o'; rts := t |} (recs s);
                    retr := retr s;
                    sidx := padd (status_code s') i (pdel (status_code (rst r)) i (sidx s));
                    tidx := tidx s; cidx := cidx s; aidx := aidx s;
                    pq := if fin then pq s ++ [(t, i)] else pq s;
                    graph := if fin then mem_release i (graph s) else graph s;
                    ish := add_hist i (status_code s', ocode o', t) (note_runner (ocode rid) (ish s)) |},
                 if memb i (stored (ish s)) then OOk else OErr 4)   (* trigger.report_tasks_status loads the invocation *)
            end
        end
    | IdxArgs i =>
        ({| recs := recs s; retr := retr s; sidx := sidx s; tidx := tidx s; cidx := cidx s;
            aidx := fold_left (fun a kv => padd (kvcode kv) i a) (args_of u i) (aidx s);
            pq := pq s; graph := graph s; ish := ish s |}, OOk)
    | IncR i =>
        match aget i (retr s) with
        | None => (s, OOk)                                  (* unknown invocation: nothing to count *)
        | Some n =>
            ({| recs := recs s; retr := aset i (S n) (retr s);
                sidx := sidx s; tidx := tidx s; cidx := cidx s; aidx := aidx s; pq := pq s; graph := graph s; ish := ish s |}, OOk)
        end
    | AutoPurge => idx_purge_loop (t - purge_after c)%Z (pq s) s
    | Wait w xs =>
        match xs with
        | [] => (s, OOk)                                   (* BaseOrchestrator.waiting_for_results returns early *)
        | _ => ({| recs := recs s; retr := retr s; sidx := sidx s; tidx := tidx s; cidx := cidx s; aidx := aidx s;
                   pq := pq s; graph := mem_wait w xs (graph s); ish := ish s |}, OOk)
        end
    | Release x =>
        ({| recs := recs s; retr := retr s; sidx := sidx s; tidx := tidx s; cidx := cidx s; aidx := aidx s;
            pq := pq s; graph := mem_release x (graph s); ish := ish s |}, OOk)
    | OPurge =>
        ({| recs := []; retr := []; sidx := []; tidx := []; cidx := []; aidx := []; pq := []; graph := mbc0;
            ish := set_hbs (ish s) [] |}, OOk)
    | QRec i => (s, match rlookup i (recs s) with
                    | Some r => ORec (status_code (rst r)) (ocode (rown r)) (rts r)
                    | None => OErr 3
                    end)
    | QRetries i => (s, ONat (match aget i (retr s) with Some n => n | None => 0 end))
    | QTask tk => (s, OIds (norm (pget tk (tidx s))))
    | QCall ck => (s, OIds (norm (pget ck (cidx s))))
    | QExisting tk kv sts =>
        let tm := pget tk (tidx s) in
        (s, OIds (norm (match kv, sts with
                        | [], [] => tm
                        | [], _ => inter tm (by_statuses (sidx s) sts)
                        | _, [] => inter tm (by_keys (aidx s) kv)
                        | _, _ => inter (inter tm (by_keys (aidx s) kv)) (by_statuses (sidx s) sts)
                        end)))
    | QPage tk sts limit offset =>
        let ids := norm (idx_cands s tk sts) in
        (s, OZs (page limit offset (map (fun i => (match rlookup i (recs s) with Some r => rts r | None => t end, i)) ids)))
    | QCount tk sts => (s, ONat (length (norm (idx_cands s tk sts))))
    | QFilter ids sts =>
        match ids with
        | [] => (s, OIds [])
        | _ => (s, OIds (norm (filter (fun i => match rlookup i (recs s) with
                                                | Some r => smemb (rst r) sts
                                                | None => false              (* unknown ids do not match *)
                                                end) ids)))
        end
    | QBlocking =>
        (s, OIds (norm (filter (fun i => match rlookup i (recs s) with
                                         | Some r => doc_available (rst r)
                                         | None => false                     (* except KeyError: continue *)
                                         end) (ready (graph s)))))
    | QPending =>
        let cutoff := (t - pending_limit c)%Z in
        (s, OIds (norm (filter (fun i => match rlookup i (recs s) with
                                         | Some r => (rts r <=? cutoff)%Z
                                         | None => false
                                         end) (pget (status_code PENDING) (sidx s)))))
    | QRunning =>
        let act := active_set true (t - dead_after c)%Z (hbeats_of (hbs (ish s))) in
        (s, OIds (norm (filter (fun i => match rlookup i (recs s) with
                                         | Some r => match rown r with
                                                     | Some o => negb (existsb (Nat.eqb o) act)
                                                     | None => false
                                                     end
                                         | None => false
                                         end) (pget (status_code RUNNING) (sidx s)))))
    | _ => (s, OOk)
    end
  end.

Fixpoint idx_run (s : idx) (ops : list op) : list out :=
  match ops with
  | [] => []
  | o :: rest => let (s', a) := idx_step s o in a :: idx_run s' rest
  end.
Fixpoint idx_exec (s : idx) (ops : list op) : idx :=
  match ops with
  | [] => s
  | o :: rest => idx_exec (fst (idx_step s o)) rest
  end.
End Step.

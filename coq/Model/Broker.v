(* Model/Broker.v — C08.  The two brokers as operation machines, instrumented with ghost logs.
   MemBroker: deque (append / popleft).  SQLiteBroker: rows (rowid AUTOINCREMENT, msg, created_at),
   retrieve = delete the row that is first by (created_at, rowid) [the index order], inside one
   BEGIN IMMEDIATE transaction or — when the generated fact says the transaction is gone — as the two
   separate statements the code then performs.  Behavioural parameters come from gen/BrokerFacts_gen.v. *)
From Coq Require Import List Bool Arith.
Import ListNotations.

Definition msg := nat.

Inductive bop : Set :=
| BRoute (m : msg) | BRouteMany (l : list msg) | BRetrieve | BCount | BPurge.

Inductive bout : Set := BUnit | BMsg (m : option msg) | BNum (n : nat) | BRaise.

(* ---------------- in-memory broker ---------------- *)
Section Mem.
Variable append_right : bool.   (* route: deque.append (true) / appendleft (false) *)
Variable pop_left : bool.       (* retrieve: popleft (true) / pop (false) *)

Definition mem_push (q : list msg) (m : msg) : list msg :=
  if append_right then q ++ [m] else m :: q.

Definition mem_pop (q : list msg) : option (msg * list msg) :=
  if pop_left then match q with [] => None | m :: r => Some (m, r) end
  else match rev q with [] => None | m :: r => Some (m, rev r) end.

Definition mem_step (q : list msg) (o : bop) : list msg * bout :=
  match o with
  | BRoute m => (mem_push q m, BUnit)
  | BRouteMany l => (fold_left mem_push l q, BUnit)
  | BRetrieve => match mem_pop q with
                 | None => (q, BMsg None)
                 | Some (m, r) => (r, BMsg (Some m))
                 end
  | BCount => (q, BNum (length q))
  | BPurge => ([], BUnit)
  end.

Fixpoint mem_run (q : list msg) (ops : list bop) : list msg * list bout :=
  match ops with
  | [] => (q, [])
  | o :: rest => let (q1, out) := mem_step q o in
                 let (q2, outs) := mem_run q1 rest in (q2, out :: outs)
  end.
End Mem.

(* ---------------- SQLite broker ---------------- *)
Record srow : Set := { rid : nat; rmsg : msg; rat : nat }.
Record sq : Set := { rows : list srow; next : nat }.
Definition sq0 : sq := {| rows := []; next := 1 |}.

Section SQL.
Variable order_asc : bool.      (* ORDER BY created_at ASC (true) / DESC (false) *)

(* strict "comes before" in the order the SELECT uses (ties by rowid, the index order) *)
Definition before (a b : srow) : bool :=
  if order_asc
  then Nat.ltb (rat a) (rat b) || (Nat.eqb (rat a) (rat b) && Nat.ltb (rid a) (rid b))
  else Nat.ltb (rat b) (rat a) || (Nat.eqb (rat a) (rat b) && Nat.ltb (rid a) (rid b)).

Fixpoint first_row (l : list srow) : option srow :=
  match l with
  | [] => None
  | r :: rest => match first_row rest with
                 | None => Some r
                 | Some r' => if before r' r then Some r' else Some r
                 end
  end.

Definition delete_row (i : nat) (l : list srow) : list srow :=
  filter (fun r => negb (Nat.eqb (rid r) i)) l.

Definition sql_insert (s : sq) (t : nat) (m : msg) : sq :=
  {| rows := rows s ++ [{| rid := next s; rmsg := m; rat := t |}]; next := S (next s) |}.

(* one operation executed atomically at clock reading t *)
Definition sql_step (s : sq) (t : nat) (o : bop) : sq * bout :=
  match o with
  | BRoute m => (sql_insert s t m, BUnit)
  | BRouteMany l => (fold_left (fun s m => sql_insert s t m) l s, BUnit)
  | BRetrieve => match first_row (rows s) with
                 | None => (s, BMsg None)
                 | Some r => ({| rows := delete_row (rid r) (rows s); next := next s |}, BMsg (Some (rmsg r)))
                 end
  | BCount => (s, BNum (length (rows s)))
  | BPurge => ({| rows := []; next := next s |}, BUnit)
  end.
End SQL.

(* ---------------- interleaved semantics for concurrent retrievers / routers ----------------
   World: shared queue + per-actor pending SELECT result (only used when retrieve is not atomic)
   + ghost logs.  An actor step is either a whole operation (atomic) or, for a non-atomic retrieve,
   its SELECT half followed later by its DELETE half. *)
Inductive cstep : Set :=
| CRoute (a : nat) (m : msg)       (* actor a routes m *)
| CRetrieve (a : nat)              (* atomic retrieve, or the SELECT half *)
| CFinish (a : nat)                (* the DELETE half (no-op when nothing is pending) *)
| CTick (dt : nat).                (* the wall clock advances *)

Record cworld : Set := {
  cq : sq;
  cclock : nat;
  pending : list (nat * srow);              (* actor -> row it selected *)
  delivered : list (nat * msg);             (* ghost: (actor, message) in delivery order *)
  routed : list msg }.                      (* ghost: messages routed, in order *)

Definition cworld0 : cworld :=
  {| cq := sq0; cclock := 0; pending := []; delivered := []; routed := [] |}.

Fixpoint take_pending (a : nat) (l : list (nat * srow)) : option srow * list (nat * srow) :=
  match l with
  | [] => (None, [])
  | (b, r) :: rest =>
      if Nat.eqb a b then (Some r, rest)
      else let (x, rest') := take_pending a rest in (x, (b, r) :: rest')
  end.

Section Conc.
Variable order_asc : bool.
Variable atomic : bool.          (* BEGIN IMMEDIATE around SELECT + DELETE *)

Definition conc_step (w : cworld) (c : cstep) : cworld :=
  match c with
  | CRoute a m =>
      {| cq := sql_insert (cq w) (cclock w) m; cclock := cclock w;
         pending := pending w; delivered := delivered w; routed := routed w ++ [m] |}
  | CRetrieve a =>
      if atomic then
        match first_row order_asc (rows (cq w)) with
        | None => w
        | Some r => {| cq := {| rows := delete_row (rid r) (rows (cq w)); next := next (cq w) |};
                       cclock := cclock w; pending := pending w;
                       delivered := delivered w ++ [(a, rmsg r)]; routed := routed w |}
        end
      else
        match first_row order_asc (rows (cq w)) with
        | None => w
        | Some r => {| cq := cq w; cclock := cclock w; pending := (a, r) :: pending w;
                       delivered := delivered w; routed := routed w |}
        end
  | CFinish a =>
      match take_pending a (pending w) with
      | (None, _) => w
      | (Some r, rest) =>
          (* DELETE WHERE id = ? (deleting an already deleted row is a no-op) and return the id *)
          {| cq := {| rows := delete_row (rid r) (rows (cq w)); next := next (cq w) |};
             cclock := cclock w; pending := rest;
             delivered := delivered w ++ [(a, rmsg r)]; routed := routed w |}
      end
  | CTick dt =>
      {| cq := cq w; cclock := cclock w + dt; pending := pending w;
         delivered := delivered w; routed := routed w |}
  end.

Definition conc_run (w : cworld) (l : list cstep) : cworld := fold_left conc_step l w.
End Conc.

(* ---------------- in-memory retrieve at source-line granularity ----------------
   `if self._queue:` (check) then `self._queue.popleft()` (pop).  With guarded = true an empty pop
   yields None (try/except IndexError or a lock); otherwise it raises. *)
Inductive mstep : Set := MRoute (m : msg) | MCheck (a : nat) | MPop (a : nat).
Record mworld : Set := { mq : list msg; checked : list nat; mdeliv : list (nat * msg); mraised : nat;
                         mrouted : list msg }.
Definition mworld0 : mworld := {| mq := []; checked := []; mdeliv := []; mraised := 0; mrouted := [] |}.

Section MemConc.
Variable guarded : bool.
Definition mem_conc_step (w : mworld) (s : mstep) : mworld :=
  match s with
  | MRoute m => {| mq := mq w ++ [m]; checked := checked w; mdeliv := mdeliv w; mraised := mraised w;
                   mrouted := mrouted w ++ [m] |}
  | MCheck a => match mq w with
                | [] => w                                   (* returns None *)
                | _ => {| mq := mq w; checked := a :: checked w; mdeliv := mdeliv w; mraised := mraised w;
                          mrouted := mrouted w |}
                end
  | MPop a =>
      if existsb (Nat.eqb a) (checked w) then
        let checked' := remove Nat.eq_dec a (checked w) in
        match mq w with
        | [] => {| mq := []; checked := checked'; mdeliv := mdeliv w;
                   mraised := if guarded then mraised w else S (mraised w); mrouted := mrouted w |}
        | m :: r => {| mq := r; checked := checked'; mdeliv := mdeliv w ++ [(a, m)]; mraised := mraised w;
                       mrouted := mrouted w |}
        end
      else w
  end.
Definition mem_conc_run (w : mworld) (l : list mstep) : mworld := fold_left mem_conc_step l w.
End MemConc.

(* ---------------- ghost-instrumented sequential runs (since the last purge) ---------------- *)
Record mghost : Set := { gq : list msg; grouted : list msg; gdeliv : list msg }.
Definition mghost0 : mghost := {| gq := []; grouted := []; gdeliv := [] |}.

Section MemGhost.
Variable append_right pop_left : bool.
Definition mem_gstep (g : mghost) (o : bop) : mghost * bout :=
  let (q', out) := mem_step append_right pop_left (gq g) o in
  (match o, out with
   | BRoute m, _ => {| gq := q'; grouted := grouted g ++ [m]; gdeliv := gdeliv g |}
   | BRouteMany l, _ => {| gq := q'; grouted := grouted g ++ l; gdeliv := gdeliv g |}
   | BRetrieve, BMsg (Some m) => {| gq := q'; grouted := grouted g; gdeliv := gdeliv g ++ [m] |}
   | BPurge, _ => mghost0
   | _, _ => {| gq := q'; grouted := grouted g; gdeliv := gdeliv g |}
   end, out).
Fixpoint mem_grun (g : mghost) (ops : list bop) : mghost * list bout :=
  match ops with
  | [] => (g, [])
  | o :: rest => let (g1, out) := mem_gstep g o in
                 let (g2, outs) := mem_grun g1 rest in (g2, out :: outs)
  end.
End MemGhost.

(* SQLite run over (clock increment, operation) pairs: the clock never goes backwards *)
Section SqlRun.
Variable order_asc : bool.
Fixpoint sql_run (s : sq) (t : nat) (tops : list (nat * bop)) : sq * list bout :=
  match tops with
  | [] => (s, [])
  | (dt, o) :: rest => let (s1, out) := sql_step order_asc s (t + dt) o in
                       let (s2, outs) := sql_run s1 (t + dt) rest in (s2, out :: outs)
  end.
End SqlRun.

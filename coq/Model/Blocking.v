(* Model/Blocking.v — C09 part 1.  The wait graph.
   Reference: a set E of edges (waiter, waited); declaring a wait adds edges, finishing x deletes
   every edge INTO x.  SQLiteBlockingControl is exactly that (one table, INSERT OR IGNORE /
   DELETE WHERE waited_id = x / one SELECT).  MemBlockingControl keeps three incrementally
   maintained structures: waiting_for (a dict of sets = the edge set Ew, seen from the waiter),
   waited_by (= the edge set Eb, seen from the awaited) and the `_ready` set; they are modelled line
   by line (a dict of non-empty sets is the set of its pairs; `k in dict` is "some pair with key k"). *)
From Coq Require Import List Bool Arith.
Import ListNotations.

Definition inv := nat.
Definition edge : Set := (inv * inv)%type.          (* (waiter, waited) *)

Definition edge_eqb (a b : edge) : bool := Nat.eqb (fst a) (fst b) && Nat.eqb (snd a) (snd b).
Definition mem_edge (e : edge) (l : list edge) : bool := existsb (edge_eqb e) l.
Definition add_edge (e : edge) (l : list edge) : list edge := if mem_edge e l then l else l ++ [e].
Definition mem_inv (x : inv) (l : list inv) : bool := existsb (Nat.eqb x) l.
Definition add_inv (x : inv) (l : list inv) : list inv := if mem_inv x l then l else l ++ [x].
Definition del_inv (x : inv) (l : list inv) : list inv := filter (fun y => negb (Nat.eqb y x)) l.

Definition has_out (E : list edge) (x : inv) : bool := existsb (fun e => Nat.eqb (fst e) x) E.   (* x waits on something *)
Definition has_in (E : list edge) (x : inv) : bool := existsb (fun e => Nat.eqb (snd e) x) E.    (* something waits on x *)

(* ---------------- reference / SQLite ---------------- *)
Definition ref_wait (w : inv) (xs : list inv) (E : list edge) : list edge :=
  fold_left (fun E x => add_edge (w, x) E) xs E.
Definition ref_release (x : inv) (E : list edge) : list edge := filter (fun e => negb (Nat.eqb (snd e) x)) E.

(* SELECT DISTINCT waited WHERE waited NOT IN (SELECT waiter) AND status available *)
Definition ref_blocking (runnable : inv -> bool) (E : list edge) (x : inv) : bool :=
  has_in E x && negb (has_out E x) && runnable x.

(* ---------------- MemBlockingControl ---------------- *)
Record mbc : Set := { Ew : list edge;      (* waiting_for *)
                      Eb : list edge;      (* waited_by   *)
                      ready : list inv }.  (* _ready      *)
Definition mbc0 : mbc := {| Ew := []; Eb := []; ready := [] |}.

(* body of the loop in waiting_for_results *)
Definition mem_wait_one (w : inv) (m : mbc) (x : inv) : mbc :=
  let ew := add_edge (w, x) (Ew m) in                 (* self.waiting_for[waiter].add(waited) *)
  let eb := add_edge (w, x) (Eb m) in                 (* self.waited_by[waited].add(waiter)   *)
  {| Ew := ew; Eb := eb;
     ready := if has_out ew x then ready m else add_inv x (ready m) |}.   (* if waited not in waiting_for: ready.add *)

Definition mem_wait (w : inv) (xs : list inv) (m : mbc) : mbc :=
  let m' := fold_left (mem_wait_one w) xs m in
  {| Ew := Ew m'; Eb := Eb m'; ready := del_inv w (ready m') |}.          (* ready.discard(waiter) *)

(* body of the loop in release_waiters, for one waiter of x *)
Definition mem_release_one (x : inv) (eb : list edge) (st : list edge * list inv) (wt : inv) : list edge * list inv :=
  let (ew, r) := st in
  let ew' := filter (fun e => negb (edge_eqb e (wt, x))) ew in            (* waiting_for[waiter].discard(x) *)
  if has_out ew' wt then (ew', r)
  else (ew', if has_in eb wt then add_inv wt r else r).                   (* no longer waiting; if waited on: ready *)

Definition mem_release (x : inv) (m : mbc) : mbc :=
  let waiters := map fst (filter (fun e => Nat.eqb (snd e) x) (Eb m)) in
  let (ew, r) := fold_left (mem_release_one x (Eb m)) waiters (Ew m, ready m) in
  {| Ew := filter (fun e => negb (Nat.eqb (fst e) x)) ew;                 (* waiting_for.pop(x) *)
     Eb := filter (fun e => negb (Nat.eqb (snd e) x)) (Eb m);             (* waited_by.pop(x)   *)
     ready := del_inv x r |}.                                             (* ready.discard(x)   *)

Definition mem_blocking (runnable : inv -> bool) (m : mbc) (x : inv) : bool :=
  mem_inv x (ready m) && runnable x.

(* ---------------- histories ---------------- *)
Inductive bop : Set := BWait (w : inv) (xs : list inv) | BFinish (x : inv).

Record bstate : Set := { bmem : mbc; bref : list edge; finished : list inv }.
Definition bstate0 : bstate := {| bmem := mbc0; bref := []; finished := [] |}.

Definition bstep (s : bstate) (o : bop) : bstate :=
  match o with
  | BWait w xs => {| bmem := mem_wait w xs (bmem s); bref := ref_wait w xs (bref s); finished := finished s |}
  | BFinish x => {| bmem := mem_release x (bmem s); bref := ref_release x (bref s); finished := x :: finished s |}
  end.
Definition brun (s : bstate) (ops : list bop) : bstate := fold_left bstep ops s.

(* answers with a limit: the first `n` of the candidates (any candidate order) *)
Definition answer (cands : list inv) (ok : inv -> bool) (n : nat) : list inv := firstn n (filter ok cands).

(* Model/SanitizeDef.v — C17: vocabulary shared by the generated file (gen/Sanitize_gen.v) and the
   model.  Strings are lists of Unicode code points (N).  Definitions only. *)
From Coq Require Import List NArith Bool.
Import ListNotations.
Open Scope N_scope.

Definition str := list N.

(* how delete_tables_with_prefix selects the tables it empties *)
Inductive purge_kind :=
| PurgeLike         (* name LIKE prefix || '%'  (SQLite LIKE: '_' and '%' wildcards, ASCII case folding) *)
| PurgeStructural.  (* name = prefix ++ "_" ++ rest, compared exactly, rest without "__" *)

Definition in_range (c : N) (r : N * N) : bool := (fst r <=? c) && (c <=? snd r).
Definition in_ranges (rs : list (N * N)) (c : N) : bool := existsb (in_range c) rs.

(* the specification's character classes (hand-written, independent of the source) *)
Definition ident_ranges : list (N * N) := [(97, 122); (65, 90); (48, 57); (95, 95)].
Definition ident_char (c : N) : bool := in_ranges ident_ranges c.
Definition is_digit (c : N) : bool := (48 <=? c) && (c <=? 57).
Definition hex_ranges : list (N * N) := [(48, 57); (97, 102)].
Definition lower_hex (c : N) : bool := in_ranges hex_ranges c.
Definition underscore : N := 95.
Definition percent : N := 37.

(* an SQL identifier that needs no quoting: non-empty, [A-Za-z0-9_] only, not starting with a digit *)
Definition sql_identifier (s : str) : bool :=
  match s with
  | [] => false
  | c :: _ => negb (is_digit c) && forallb ident_char s
  end.

Fixpoint str_eqb (a b : str) : bool :=
  match a, b with
  | [], [] => true
  | x :: a', y :: b' => (x =? y) && str_eqb a' b'
  | _, _ => false
  end.

Fixpoint starts_with (p s : str) : bool :=
  match p with
  | [] => true
  | x :: p' => match s with [] => false | y :: s' => (x =? y) && starts_with p' s' end
  end.

(* does the string contain two consecutive underscores? *)
Fixpoint has_dunder (s : str) : bool :=
  match s with
  | a :: ((b :: _) as t) => ((a =? underscore) && (b =? underscore)) || has_dunder t
  | _ => false
  end.

Fixpoint ends_underscore (s : str) : bool :=
  match s with
  | [] => false
  | c :: t => match t with [] => c =? underscore | _ :: _ => ends_underscore t end
  end.

Definition head_ok (s : str) : bool :=
  match s with c :: _ => negb (is_digit c) | [] => false end.

(* ASCII case folding (SQLite compares identifiers and LIKE operands this way) *)
Definition fold_ascii (c : N) : N := if (65 <=? c) && (c <=? 90) then c + 32 else c.

Fixpoint starts_with_nocase (p s : str) : bool :=
  match p with
  | [] => true
  | x :: p' => match s with [] => false | y :: s' => (fold_ascii x =? fold_ascii y) && starts_with_nocase p' s' end
  end.

(* SQLite refuses to create objects whose name begins with "sqlite_" (any letter case) *)
Definition sqlite_word : str := [115; 113; 108; 105; 116; 101].            (* "sqlite" *)
Definition sqlite_reserved : str := sqlite_word ++ [underscore].           (* "sqlite_" *)
Definition reserved_name (s : str) : bool := starts_with_nocase sqlite_reserved s.

Definition starts_with_underscore (s : str) : bool :=
  match s with c :: _ => c =? underscore | [] => false end.

(* Model/BackendRel.v — C16.  The relational model = the reference model of the documented contract,
   transcribed from the SQL of SQLiteOrchestrator / SQLiteBlockingControl (one INVOCATIONS row per
   invocation, INVOCATION_ARGS rows, BLOCKING_EDGES rows; every query is a filter over the rows).
   Definitions only. *)
From Coq Require Import List Bool Arith ZArith.
Import ListNotations.
From PV Require Import Model.Status Model.Blocking Model.Recovery Model.BackendOps.
Local Open Scope nat_scope.

Record row : Set := { r_id : nat; r_rec : rrec; r_retry : nat; r_purge : option Z }.

Record rel : Set := {
  rows : list row;                  (* INVOCATIONS, primary key invocation_id *)
  rargs : list (nat * nat);         (* INVOCATION_ARGS: (invocation, key/value code) *)
  redges : list edge;               (* BLOCKING_EDGES (waiter, waited) *)
  rsh : shared }.
Definition rel0 : rel := {| rows := []; rargs := []; redges := []; rsh := shared0 |}.

Fixpoint find_row (i : nat) (l : list row) : option row :=
  match l with
  | [] => None
  | r :: rest => if Nat.eqb i (r_id r) then Some r else find_row i rest
  end.
Definition upd_row (i : nat) (f : row -> row) (l : list row) : list row :=
  map (fun r => if Nat.eqb (r_id r) i then f r else r) l.
Definition with_sh (s : rel) (h : shared) : rel := {| rows := rows s; rargs := rargs s; redges := redges s; rsh := h |}.

(* INSERT ... ON CONFLICT(invocation_id) DO NOTHING *)
Definition rel_insert (t : Z) (rid : option runner) (l : list row) (i : nat) : list row :=
  match find_row i l with
  | Some _ => l
  | None => l ++ [{| r_id := i; r_rec := {| rst := REGISTERED; rown := rid; rts := t |}; r_retry := 0; r_purge := None |}]
  end.

(* WHERE clauses *)
Definition task_ok (u : univ) (t : option nat) (r : row) : bool :=
  match t with None => true | Some t => Nat.eqb (task_of u (r_id r)) t end.
Definition sts_ok (sts : list status) (r : row) : bool :=
  match sts with [] => true | _ => smemb (rst (r_rec r)) sts end.
Definition args_ok (a : list (nat * nat)) (kv : list (nat * nat)) (r : row) : bool :=
  forallb (fun p => pmem (r_id r) (kvcode p) a) kv.
Definition store_of (l : list row) : rstore := map (fun r => (r_id r, r_rec r)) l.

Definition rel_blocking_cands (s : rel) : list nat :=
  filter (fun x => negb (has_out (redges s) x) &&
                   match find_row x (rows s) with
                   | Some r => doc_available (rst (r_rec r))
                   | None => false
                   end)
         (map snd (redges s)).

Section Step.
Variable u : univ.
Variable c : conf.
Variable trans : transf.

Definition rel_step (s : rel) (o : op) : rel * out :=
  match sh_step c (rsh s) o with
  | Some (h, a) => (with_sh s h, a)
  | None =>
    let t := now (rsh s) in
    match o with
    | Reg ids rid =>
        ({| rows := fold_left (rel_insert t rid) ids (rows s); rargs := rargs s; redges := redges s;
            rsh := sh_register ids rid (rsh s) |}, OOk)
    | SetSt i req rid =>
        match find_row i (rows s) with
        | None => (s, OErr 3)
        | Some r =>
            match trans (Some (srec_of (r_rec r))) req rid with
            | TErr e => (s, OErr (terr_code e))
            | TOk s' o' =>
                let fin := doc_final req in
                let nr := {| rst := s'; rown := o'; rts := t |} in
                ({| rows := upd_row i (fun r => {| r_id := r_id r; r_rec := nr; r_retry := r_retry r;
                                                   r_purge := if fin then Some t else r_purge r |}) (rows s);
                    rargs := rargs s;
                    redges := if fin then ref_release i (redges s) else redges s;
                    rsh := add_hist i (status_code s', ocode o', t) (note_runner (ocode rid) (rsh s)) |},
                 if memb i (stored (rsh s)) then OOk else OErr 4)   (* trigger.report_tasks_status loads the invocation *)
            end
        end
    | IdxArgs i =>
        ({| rows := rows s; rargs := fold_left (fun a kv => padd i (kvcode kv) a) (args_of u i) (rargs s);
            redges := redges s; rsh := rsh s |}, OOk)
    | IncR i =>
        ({| rows := upd_row i (fun r => {| r_id := r_id r; r_rec := r_rec r; r_retry := S (r_retry r); r_purge := r_purge r |}) (rows s);
            rargs := rargs s; redges := redges s; rsh := rsh s |}, OOk)
    | AutoPurge =>
        let cutoff := (t - purge_after c)%Z in
        let dead := fun i => existsb (fun r => Nat.eqb (r_id r) i &&
                                      match r_purge r with Some p => (p <=? cutoff)%Z | None => false end) (rows s) in
        ({| rows := filter (fun r => negb (dead (r_id r))) (rows s);
            rargs := filter (fun e => negb (dead (fst e))) (rargs s);
            redges := filter (fun e => negb (dead (snd e))) (redges s);
            rsh := rsh s |}, OOk)
    | Wait w xs => ({| rows := rows s; rargs := rargs s; redges := ref_wait w xs (redges s); rsh := rsh s |}, OOk)
    | Release x => ({| rows := rows s; rargs := rargs s; redges := ref_release x (redges s); rsh := rsh s |}, OOk)
    | OPurge => ({| rows := []; rargs := []; redges := []; rsh := set_hbs (rsh s) [] |}, OOk)
    | QRec i => (s, match find_row i (rows s) with
                    | Some r => ORec (status_code (rst (r_rec r))) (ocode (rown (r_rec r))) (rts (r_rec r))
                    | None => OErr 3
                    end)
    | QRetries i => (s, ONat (match find_row i (rows s) with Some r => r_retry r | None => 0 end))
    | QTask tk => (s, OIds (norm (map r_id (filter (task_ok u (Some tk)) (rows s)))))
    | QCall ck => (s, OIds (norm (map r_id (filter (fun r => Nat.eqb (call_of u (r_id r)) ck) (rows s)))))
    | QExisting tk kv sts =>
        (s, OIds (norm (map r_id (filter (fun r => task_ok u (Some tk) r && args_ok (rargs s) kv r && sts_ok sts r) (rows s)))))
    | QPage tk sts limit offset =>
        let ids := norm (map r_id (filter (fun r => task_ok u tk r && sts_ok sts r) (rows s))) in
        (s, OZs (page limit offset (map (fun i => (match find_row i (rows s) with Some r => rts (r_rec r) | None => t end, i)) ids)))
    | QCount tk sts => (s, ONat (length (norm (map r_id (filter (fun r => task_ok u tk r && sts_ok sts r) (rows s))))))
    | QFilter ids sts =>
        (s, OIds (norm (filter (fun i => match find_row i (rows s) with
                                         | Some r => smemb (rst (r_rec r)) sts
                                         | None => false
                                         end) ids)))
    | QBlocking => (s, OIds (norm (rel_blocking_cands s)))
    | QPending =>
        (s, OIds (norm (pending_scan true t (pending_limit c) (store_of (rows s)))))
    | QRunning =>
        (s, OIds (norm (sql_running_scan true true t (dead_after c) (hbeats_of (hbs (rsh s))) (store_of (rows s)))))
    | _ => (s, OOk)
    end
  end.

Fixpoint rel_run (s : rel) (ops : list op) : list out :=
  match ops with
  | [] => []
  | o :: rest => let (s', a) := rel_step s o in a :: rel_run s' rest
  end.
Fixpoint rel_exec (s : rel) (ops : list op) : rel :=
  match ops with
  | [] => s
  | o :: rest => rel_exec (fst (rel_step s o)) rest
  end.
End Step.

(* Model/History.v — C10.  Every successful status change produces one history entry carrying the
   record returned by the atomic transition (status, time of the change) and the requesting runner;
   entries are written by background writers that may run arbitrarily late and in any order.
   Built on the interleaved machine of Model/Conc.v (atomicity from gen/Atomicity_gen.v). *)
From Coq Require Import List Bool Arith.
Import ListNotations.
From PV Require Import Model.Status Model.Lifecycle Model.Conc.

(* (invocation, status, requesting runner, time of the change) *)
Definition hentry : Set := (inv * status * option runner * nat)%type.
Definition he_inv (e : hentry) : inv := fst (fst (fst e)).
Definition he_status (e : hentry) : status := snd (fst (fst e)).
Definition he_ts (e : hentry) : nat := snd e.

(* the change log stamped with the time of each change (most recent first): the clock is the
   number of changes so far *)
Fixpoint stamped (l : list (inv * status * option runner)) : list hentry :=
  match l with
  | [] => []
  | (i, s, r) :: rest => (i, s, r, length l) :: stamped rest
  end.

Record hw : Set := { hcw : cw; hpend : list hentry; hflushed : list hentry }.

Inductive hstep : Set :=
| HAct (s : astep)        (* an actor's request (or half of it) *)
| HFlush (k : nat).       (* a background writer stores the k-th pending entry *)

Fixpoint remove_nth {A : Type} (k : nat) (l : list A) : option A * list A :=
  match l, k with
  | [], _ => (None, [])
  | x :: rest, 0 => (Some x, rest)
  | x :: rest, S k' => let (y, rest') := remove_nth k' rest in (y, x :: rest')
  end.

Definition hist_step (atomic : bool) (w : hw) (s : hstep) : hw :=
  match s with
  | HAct a =>
      let c' := conc_step atomic (hcw w) a in
      let before := length (log (csys (hcw w))) in
      (* set_invocation_status: transition, then add_history(returned record, requester) *)
      {| hcw := c';
         hpend := if Nat.ltb before (length (log (csys c')))
                  then match stamped (log (csys c')) with e :: _ => e :: hpend w | [] => hpend w end
                  else hpend w;
         hflushed := hflushed w |}
  | HFlush k =>
      match remove_nth k (hpend w) with
      | (Some e, rest) => {| hcw := hcw w; hpend := rest; hflushed := e :: hflushed w |}
      | (None, _) => w
      end
  end.

Definition hist_run (atomic : bool) (w : hw) (l : list hstep) : hw := fold_left (hist_step atomic) l w.

(* start: registrations and earlier changes, their history already written *)
Definition hw_of (ops0 : list op) : hw :=
  {| hcw := cw_of ops0; hpend := []; hflushed := stamped (log (csys (cw_of ops0))) |}.

(* get_history(i), ordered by the time of the change (insertion sort, most recent first) *)
Fixpoint insert_desc (e : hentry) (l : list hentry) : list hentry :=
  match l with
  | [] => [e]
  | x :: rest => if Nat.leb (he_ts x) (he_ts e) then e :: l else x :: insert_desc e rest
  end.
Definition sort_desc (l : list hentry) : list hentry := fold_right insert_desc [] l.
Definition of_inv (i : inv) (l : list hentry) : list hentry := filter (fun e => Nat.eqb (he_inv e) i) l.
Definition get_history (w : hw) (i : inv) : list hentry := sort_desc (of_inv i (hflushed w)).

(* ---- the in-memory store of the writers: `self._history[i].append(e)` is ONE C-level call (append_atomic, from
   gen/HistoryFacts_gen.v).  When it is not (read the stored sequence, build a longer one, store it back) a writer is two
   steps: HFlush k takes the k-th pending entry together with a SNAPSHOT of what is stored for its invocation, HStore j stores
   entry :: snapshot as that invocation's history (other invocations' histories are separate dict values, untouched). *)
Record hw2 : Set := { hbase : hw; hinflight : list (hentry * list hentry) }.
Inductive hstep2 : Set := H1 (s : hstep) | HStore (j : nat).

Definition hist_step2 (atomic append_atomic : bool) (w : hw2) (s : hstep2) : hw2 :=
  if append_atomic then
    match s with
    | H1 s1 => {| hbase := hist_step atomic (hbase w) s1; hinflight := hinflight w |}
    | HStore _ => w
    end
  else
    match s with
    | H1 (HAct a) => {| hbase := hist_step atomic (hbase w) (HAct a); hinflight := hinflight w |}
    | H1 (HFlush k) =>
        match remove_nth k (hpend (hbase w)) with
        | (Some e, rest) =>
            {| hbase := {| hcw := hcw (hbase w); hpend := rest; hflushed := hflushed (hbase w) |};
               hinflight := hinflight w ++ [(e, of_inv (he_inv e) (hflushed (hbase w)))] |}
        | (None, _) => w
        end
    | HStore j =>
        match remove_nth j (hinflight w) with
        | (Some (e, snap), rest) =>
            {| hbase := {| hcw := hcw (hbase w); hpend := hpend (hbase w); hflushed := e :: snap ++ filter (fun x => negb (Nat.eqb (he_inv x) (he_inv e))) (hflushed (hbase w)) |};
               hinflight := rest |}
        | (None, _) => w
        end
    end.
Definition hist_run2 (atomic append_atomic : bool) (w : hw2) (l : list hstep2) : hw2 := fold_left (hist_step2 atomic append_atomic) l w.
Definition hw2_of (ops0 : list op) : hw2 := {| hbase := hw_of ops0; hinflight := [] |}.
Definition proj2steps (l : list hstep2) : list hstep := flat_map (fun s => match s with H1 s1 => [s1] | HStore _ => [] end) l.

(* Model/Workflow.v — C18: deterministic workflow operations (definitions only).

   Mirrors pynenc/workflow/workflow_deterministic.py (DeterministicExecutor), the scope of
   the executor given by workflow_context.py:WorkflowContext.deterministic + task.py:Task.wf,
   and the workflow-data store of the state backends (keyed by workflow id and data key).

   Values are SYMBOLIC: [VRand w n] stands for random.Random(md5("<w>:random:<n>")[:8]).random(),
   [VUuid w n] for UUID(md5("<w>:uuid:<n>")), [VTime b n] for (b-th clock reading) + n seconds,
   [VInv i] for the i-th invocation ever launched through the helper.  The hash functions are
   therefore an uninterpreted (free) oracle: every equality proved between symbolic values holds
   for every interpretation; provenance (which workflow a value was derived for) stays visible.

   Two further source facts are modelled through a side state that the theorems never look at:
   * c_replay_uncond: execute_task hands the recorded invocation back unconditionally.  When the
     replay branch is guarded (the source consults the state of the recorded invocation), an
     [EChild w call] event — the invocation recorded for (w, call) reaches a state the guard does not
     accept (it failed, was killed, ...) — makes the next identical call launch again.
   * c_gen_private: the value generators keep no state outside their own call.  When a generator
     goes through process-wide state (a class attribute / module global that is prepared and then
     read), a pre-emption between the two halves ([ESeed e k]: execution e has prepared the shared
     generator for its next k-operation and is pre-empted before drawing) lets another execution of
     the same process image overwrite it: the draw then returns what the generator was last
     prepared for ([VStale w n]: a further draw of a generator already drawn from). *)
From Coq Require Import List Arith Bool PeanoNat.
Import ListNotations.

(* where the DeterministicExecutor is kept:
   PerTaskObject    on the WorkflowContext that Task.wf caches per Task object;
   PerExecution     on the running invocation object, reset by every run of the body;
   PerInvocationKey in a container of the process (an attribute of the context, a module-level or
                    class-level dict, also a weak one) keyed by the invocation id or by the invocation
                    object, which hashes and compares by id: every attempt of that invocation in the
                    process image finds the entry while it is there (for a weak container: while an
                    object of an earlier attempt is still referenced, as a runner's thread table does) *)
Inductive scope := PerTaskObject | PerExecution | PerInvocationKey.

(* facts regenerated from the source on every run (gen/Workflow_gen.v : gen_cfg) *)
Record cfg := {
  c_scope : scope;          (* where the DeterministicExecutor (workflow identity + counters) lives *)
  c_seed_wf : bool;         (* seeds of random / uuid contain the workflow id *)
  c_task_key_call : bool;   (* execute_task record key contains the call identity *)
  c_seq_offset : nat;       (* generator sequence = recorded sequence + offset *)
  c_replay_uncond : bool;   (* execute_task returns the recorded invocation unconditionally *)
  c_gen_private : bool;     (* the value generators keep no state outside their own call *)
  c_exec_private : bool     (* execute_task keeps no state outside the workflow data (no process-wide
                               container of resolved invocations) *)
}.

Inductive opk := Rnd | Tim | Uid.
Inductive op := ODet (k : opk) | OExec (c : nat).

Inductive key := KOp (k : opk) (n : nat) | KCount (k : opk) | KBase | KTask (c : nat).
Inductive value :=
  | VRand (w n : nat) | VUuid (w n : nat) | VTime (b n : nat)
  | VBase (b : nat) | VInv (i : nat) | VCount (n : nat)
  | VStale (w n : nat).     (* a later draw of the shared generator state prepared for (w, n) *)

Definition opk_eqb (a b : opk) : bool :=
  match a, b with Rnd, Rnd | Tim, Tim | Uid, Uid => true | _, _ => false end.

Definition key_eqb (a b : key) : bool :=
  match a, b with
  | KOp k n, KOp k' n' => opk_eqb k k' && (n =? n')
  | KCount k, KCount k' => opk_eqb k k'
  | KBase, KBase => true
  | KTask c, KTask c' => c =? c'
  | _, _ => false
  end.

Definition skey := (nat * key)%type.        (* (workflow id, data key) *)
Definition skey_eqb (a b : skey) : bool := (fst a =? fst b) && key_eqb (snd a) (snd b).

Fixpoint slookup (k : skey) (s : list (skey * value)) : option value :=
  match s with
  | [] => None
  | (k', v) :: r => if skey_eqb k k' then Some v else slookup k r
  end.

Fixpoint nlookup {A} (k : nat) (l : list (nat * A)) : option A :=
  match l with
  | [] => None
  | (k', v) :: r => if k =? k' then Some v else nlookup k r
  end.

Definition pt_eqb (a b : nat * nat) : bool := (fst a =? fst b) && (snd a =? snd b).
Fixpoint ptlookup {A} (k : nat * nat) (l : list ((nat * nat) * A)) : option A :=
  match l with
  | [] => None
  | (k', v) :: r => if pt_eqb k k' then Some v else ptlookup k r
  end.

(* DeterministicExecutor: workflow identity + _operation_counters *)
Record executor := { x_wf : nat; x_r : nat; x_t : nat; x_u : nat }.
Definition new_x (w : nat) : executor := {| x_wf := w; x_r := 0; x_t := 0; x_u := 0 |}.
Definition cnt (k : opk) (x : executor) : nat :=
  match k with Rnd => x_r x | Tim => x_t x | Uid => x_u x end.
Definition bump (k : opk) (x : executor) : executor :=
  match k with
  | Rnd => {| x_wf := x_wf x; x_r := S (x_r x); x_t := x_t x; x_u := x_u x |}
  | Tim => {| x_wf := x_wf x; x_r := x_r x; x_t := S (x_t x); x_u := x_u x |}
  | Uid => {| x_wf := x_wf x; x_r := x_r x; x_t := x_t x; x_u := S (x_u x) |}
  end.

(* one execution (attempt) of a task body: process image, task object, workflow of the running
   invocation, and — under PerExecution — its own executor *)
Record exe := { e_proc : nat; e_task : nat; e_wf : nat; e_x : executor }.

Definition out := (nat * op * value)%type.          (* execution, operation, returned value *)

(* side state of the two refutable facts (never read when c_replay_uncond and c_gen_private hold) *)
Record side := {
  rejected : list nat;                         (* launched invocations a guarded replay does not accept *)
  gen_reg : list (nat * (value * bool));       (* process image -> shared generator: prepared for, not drawn yet *)
  seeded : list nat;                           (* executions pre-empted between preparing and drawing *)
  resolved : list ((nat * nat) * value)        (* (process image, call) -> invocation in a process-wide cache *)
}.
Definition side0 : side := {| rejected := []; gen_reg := []; seeded := []; resolved := [] |}.

Record world := {
  store : list (skey * value);                 (* workflow data, newest binding first *)
  clock : nat;                                 (* number of clock readings so far *)
  next_inv : nat;                              (* number of invocations launched so far *)
  caches : list ((nat * nat) * executor);      (* (process, task object) / (process, invocation) -> executor *)
  exes : list (nat * exe);
  launches : list (nat * nat * nat);           (* (workflow of the launching invocation, call, inv) *)
  outs : list out;                             (* chronological *)
  aux : side
}.

Definition w0 : world :=
  {| store := []; clock := 0; next_inv := 0; caches := []; exes := []; launches := []; outs := [];
     aux := side0 |}.

Inductive event :=
  | EBegin (e p t w : nat) | EOp (e : nat) (o : op)
  | EChild (w call : nat)          (* the invocation recorded for (w, call) ends in a state a guard rejects *)
  | ESeed (e : nat) (k : opk).     (* e prepares the shared generator for its next k and is pre-empted *)

Definition get_x (c : cfg) (W : world) (ex : exe) : executor :=
  match c_scope c with
  | PerExecution => e_x ex
  | PerTaskObject =>
      match ptlookup (e_proc ex, e_task ex) (caches W) with
      | Some x => x
      | None => new_x (e_wf ex)
      end
  | PerInvocationKey =>            (* the workflow id is the id of the invocation whose body runs *)
      match ptlookup (e_proc ex, e_wf ex) (caches W) with
      | Some x => x
      | None => new_x (e_wf ex)
      end
  end.

Definition set_e_x (ex : exe) (x : executor) : exe :=
  {| e_proc := e_proc ex; e_task := e_task ex; e_wf := e_wf ex; e_x := x |}.

(* the effect of one helper call, given the executor it runs on *)
Record eff := { f_store : list (skey * value); f_clock : nat; f_next : nat;
                f_launch : list (nat * nat * nat); f_val : value; f_x : executor }.

(* a recorded base time is always a VBase (get_base_time parses what it stored) *)
Definition base_of (v : value) : nat := match v with VBase b => b | _ => 0 end.

Definition seed_wf (c : cfg) (w : nat) : nat := if c_seed_wf c then w else 0.

(* [dr] is what the generated value goes through before it is recorded and returned: the identity
   for a private generator, the shared generator register otherwise (see [draw]) *)
Definition det_op_with (c : cfg) (W : world) (x : executor) (k : opk) (dr : value -> value) : eff :=
  let x' := bump k x in
  let n := cnt k x' in
  let xw := x_wf x in
  match slookup (xw, KOp k n) (store W) with
  | Some v => {| f_store := store W; f_clock := clock W; f_next := next_inv W;
                 f_launch := launches W; f_val := v; f_x := x' |}
  | None =>
      let g := n + c_seq_offset c in
      let '(st1, clk1, v0) :=
        match k with
        | Rnd => (store W, clock W, VRand (seed_wf c xw) g)
        | Uid => (store W, clock W, VUuid (seed_wf c xw) g)
        | Tim =>
            match slookup (xw, KBase) (store W) with
            | Some bv => (store W, clock W, VTime (base_of bv) g)
            | None => (((xw, KBase), VBase (clock W)) :: store W, S (clock W), VTime (clock W) g)
            end
        end in
      let v := dr v0 in
      let st2 := ((xw, KOp k n), v) :: st1 in
      let total := match slookup (xw, KCount k) st2 with Some (VCount t) => t | _ => 0 end in
      let st3 := ((xw, KCount k), VCount (Nat.max total n)) :: st2 in
      {| f_store := st3; f_clock := clk1; f_next := next_inv W; f_launch := launches W;
         f_val := v; f_x := x' |}
  end.

Definition det_op (c : cfg) (W : world) (x : executor) (k : opk) : eff :=
  det_op_with c W x k (fun v => v).

(* ---- shared generator state (only when c_gen_private is false) *)
Definition stale (v : value) : value :=
  match v with VRand w n | VUuid w n | VTime w n => VStale w n | _ => v end.

Definition is_seeded (W : world) (e : nat) : bool := existsb (Nat.eqb e) (seeded (aux W)).

(* what execution e (process image p) draws when its generator prepared v *)
Definition draw (c : cfg) (W : world) (e p : nat) (v : value) : value :=
  if c_gen_private c then v
  else if is_seeded W e then
    match nlookup p (gen_reg (aux W)) with
    | Some (s, true) => s
    | Some (s, false) => stale s
    | None => v
    end
  else v.

(* the value the generator of x's next k-operation prepares; None when the generator is not called
   (the operation is recorded) or has no base time yet *)
Definition own_gen (c : cfg) (W : world) (x : executor) (k : opk) : option value :=
  let n := S (cnt k x) in
  let xw := x_wf x in
  match slookup (xw, KOp k n) (store W) with
  | Some _ => None
  | None =>
      let g := n + c_seq_offset c in
      match k with
      | Rnd => Some (VRand (seed_wf c xw) g)
      | Uid => Some (VUuid (seed_wf c xw) g)
      | Tim => match slookup (xw, KBase) (store W) with
               | Some bv => Some (VTime (base_of bv) g)
               | None => None
               end
      end
  end.

Definition unseed (e : nat) (l : list nat) : list nat := filter (fun e' => negb (e' =? e)) l.

Definition side_after_det (c : cfg) (W : world) (e p : nat) (x : executor) (k : opk) (v : value) : side :=
  if c_gen_private c then aux W
  else
    let sd := aux W in
    match slookup (x_wf x, KOp k (S (cnt k x))) (store W) with
    | Some _ => {| rejected := rejected sd; gen_reg := gen_reg sd; seeded := unseed e (seeded sd);
                   resolved := resolved sd |}
    | None =>
        let s := if is_seeded W e
                 then match nlookup p (gen_reg sd) with Some (s, _) => s | None => v end
                 else v in
        {| rejected := rejected sd; gen_reg := (p, (s, false)) :: gen_reg sd;
           seeded := unseed e (seeded sd); resolved := resolved sd |}
    end.

Definition task_key (c : cfg) (call : nat) : key := KTask (if c_task_key_call c then call else 0).

(* does the replay branch of execute_task hand the recorded value back? *)
Definition replay_accepts (c : cfg) (W : world) (v : value) : bool :=
  c_replay_uncond c ||
  negb (match v with VInv i => existsb (Nat.eqb i) (rejected (aux W)) | _ => false end).

Definition exec_op (c : cfg) (W : world) (x : executor) (actual_wf call : nat) : eff :=
  let xw := x_wf x in
  let i := next_inv W in
  let launch :=
    {| f_store := ((xw, task_key c call), VInv i) :: store W; f_clock := clock W;
       f_next := S i; f_launch := (actual_wf, call, i) :: launches W; f_val := VInv i; f_x := x |} in
  match slookup (xw, task_key c call) (store W) with
  | Some v =>
      if replay_accepts c W v
      then {| f_store := store W; f_clock := clock W; f_next := next_inv W;
              f_launch := launches W; f_val := v; f_x := x |}
      else launch
  | None => launch
  end.

(* execute_task behind a process-wide cache of resolved invocations keyed by the call only (only when
   c_exec_private is false): a hit returns the cached invocation, nothing is looked up, launched or recorded *)
Definition exec_op_cached (c : cfg) (W : world) (x : executor) (p actual_wf call : nat) : eff :=
  match ptlookup (p, call) (resolved (aux W)) with
  | Some v => {| f_store := store W; f_clock := clock W; f_next := next_inv W;
                 f_launch := launches W; f_val := v; f_x := x |}
  | None => exec_op c W x actual_wf call
  end.

Definition side_after_exec (c : cfg) (W : world) (p call : nat) (v : value) : side :=
  if c_exec_private c then aux W
  else {| rejected := rejected (aux W); gen_reg := gen_reg (aux W); seeded := seeded (aux W);
          resolved := ((p, call), v) :: resolved (aux W) |}.

Definition put_x (c : cfg) (W : world) (e : nat) (ex : exe) (x : executor)
  : list ((nat * nat) * executor) * list (nat * exe) :=
  match c_scope c with
  | PerExecution => (caches W, (e, set_e_x ex x) :: exes W)
  | PerTaskObject => (((e_proc ex, e_task ex), x) :: caches W, exes W)
  | PerInvocationKey => (((e_proc ex, e_wf ex), x) :: caches W, exes W)
  end.

Definition set_aux (W : world) (sd : side) : world :=
  {| store := store W; clock := clock W; next_inv := next_inv W; caches := caches W;
     exes := exes W; launches := launches W; outs := outs W; aux := sd |}.

Definition step (c : cfg) (W : world) (ev : event) : world :=
  match ev with
  | EBegin e p t w =>
      match nlookup e (exes W) with
      | Some _ => W
      | None =>
          {| store := store W; clock := clock W; next_inv := next_inv W; caches := caches W;
             exes := (e, {| e_proc := p; e_task := t; e_wf := w; e_x := new_x w |}) :: exes W;
             launches := launches W; outs := outs W; aux := aux W |}
      end
  | EOp e o =>
      match nlookup e (exes W) with
      | None => W
      | Some ex =>
          let x := get_x c W ex in
          let f := match o with
                   | ODet k => det_op_with c W x k (draw c W e (e_proc ex))
                   | OExec call => if c_exec_private c then exec_op c W x (e_wf ex) call
                                   else exec_op_cached c W x (e_proc ex) (e_wf ex) call
                   end in
          let sd := match o with
                    | ODet k => side_after_det c W e (e_proc ex) x k (f_val f)
                    | OExec call => side_after_exec c W (e_proc ex) call (f_val f)
                    end in
          let '(ca, es) := put_x c W e ex (f_x f) in
          {| store := f_store f; clock := f_clock f; next_inv := f_next f; caches := ca;
             exes := es; launches := f_launch f; outs := outs W ++ [(e, o, f_val f)]; aux := sd |}
      end
  | EChild w call =>
      match slookup (w, task_key c call) (store W) with
      | Some (VInv i) =>
          set_aux W {| rejected := i :: rejected (aux W); gen_reg := gen_reg (aux W);
                       seeded := seeded (aux W); resolved := resolved (aux W) |}
      | _ => W
      end
  | ESeed e k =>
      if c_gen_private c then W
      else
        match nlookup e (exes W) with
        | None => W
        | Some ex =>
            match own_gen c W (get_x c W ex) k with
            | None => W
            | Some s =>
                set_aux W {| rejected := rejected (aux W);
                             gen_reg := (e_proc ex, (s, true)) :: gen_reg (aux W);
                             seeded := e :: seeded (aux W); resolved := resolved (aux W) |}
            end
        end
  end.

Definition run (c : cfg) (evs : list event) : world := fold_left (step c) evs w0.

(* ---------------------------------------------------------------- observations *)
Definition op_is (k : opk) (o : op) : bool :=
  match o with ODet k' => opk_eqb k k' | OExec _ => false end.

(* the values of kind k returned to execution e, in request order *)
Fixpoint vals (e : nat) (k : opk) (l : list out) : list value :=
  match l with
  | [] => []
  | (e', o, v) :: r => if (e' =? e) && op_is k o then v :: vals e k r else vals e k r
  end.

Definition wf_of (W : world) (e : nat) : option nat :=
  match nlookup e (exes W) with Some ex => Some (e_wf ex) | None => None end.

(* ---------------------------------------------------------------- rendering (for Eval) *)
Definition opk_code (k : opk) : nat := match k with Rnd => 0 | Tim => 1 | Uid => 2 end.
Definition value_code (v : value) : list nat :=
  match v with
  | VRand w n => [0; w; n] | VUuid w n => [1; w; n] | VTime b n => [2; b; n]
  | VBase b => [3; b; 0] | VInv i => [4; i; 0] | VCount n => [5; n; 0]
  | VStale w n => [6; w; n]
  end.
Definition key_code (k : key) : list nat :=
  match k with
  | KOp k n => [0; opk_code k; n] | KCount k => [1; opk_code k; 0] | KBase => [2; 0; 0]
  | KTask c => [3; c; 0]
  end.
Definition op_code (o : op) : list nat :=
  match o with ODet k => [opk_code k; 0] | OExec c => [3; c] end.

Fixpoint compact (s : list (skey * value)) : list (skey * value) :=
  match s with
  | [] => []
  | (k, v) :: r => (k, v) :: filter (fun kv => negb (skey_eqb k (fst kv))) (compact r)
  end.

Definition render (W : world) : list (list (list nat)) :=
  [ map (fun '(e, o, v) => e :: op_code o ++ value_code v) (outs W);
    map (fun '((w, k), v) => w :: key_code k ++ value_code v) (compact (store W));
    map (fun '(w, c, i) => [w; c; i]) (rev (launches W)) ].

Definition with_scope (c : cfg) (s : scope) : cfg :=
  {| c_scope := s; c_seed_wf := c_seed_wf c; c_task_key_call := c_task_key_call c;
     c_seq_offset := c_seq_offset c; c_replay_uncond := c_replay_uncond c;
     c_gen_private := c_gen_private c; c_exec_private := c_exec_private c |}.

(* the configuration with a guarded replay branch in execute_task / with a shared value generator *)
Definition with_guarded_replay (c : cfg) : cfg :=
  {| c_scope := c_scope c; c_seed_wf := c_seed_wf c; c_task_key_call := c_task_key_call c;
     c_seq_offset := c_seq_offset c; c_replay_uncond := false; c_gen_private := c_gen_private c;
     c_exec_private := c_exec_private c |}.
Definition with_shared_generator (c : cfg) : cfg :=
  {| c_scope := c_scope c; c_seed_wf := c_seed_wf c; c_task_key_call := c_task_key_call c;
     c_seq_offset := c_seq_offset c; c_replay_uncond := c_replay_uncond c; c_gen_private := false;
     c_exec_private := c_exec_private c |}.
Definition with_shared_subtask_cache (c : cfg) : cfg :=
  {| c_scope := c_scope c; c_seed_wf := c_seed_wf c; c_task_key_call := c_task_key_call c;
     c_seq_offset := c_seq_offset c; c_replay_uncond := c_replay_uncond c;
     c_gen_private := c_gen_private c; c_exec_private := false |}.

(* ---------------------------------------------------------------- the property, at full strength *)
(* "the n-th deterministic random number, timestamp or UUID requested by a task is the same every
   time that task body is executed again for the same workflow" — any executions e1 e2 of one
   workflow, whatever their process image, task object, position in the history or interleaving *)
Definition nth_value_stable_stmt (c : cfg) : Prop :=
  forall evs e1 e2 w k n v1 v2,
    wf_of (run c evs) e1 = Some w -> wf_of (run c evs) e2 = Some w ->
    nth_error (vals e1 k (outs (run c evs))) n = Some v1 ->
    nth_error (vals e2 k (outs (run c evs))) n = Some v2 ->
    v1 = v2.

Definition launch_key (l : nat * nat * nat) : nat * nat := (fst (fst l), snd (fst l)).

(* "a sub-task launched through the workflow helper is launched once per workflow and identical
   call, later executions getting the recorded invocation back" *)
Definition sub_task_once_stmt (c : cfg) : Prop :=
  forall evs,
    NoDup (map launch_key (launches (run c evs))) /\
    (forall e w call v, wf_of (run c evs) e = Some w -> In (e, OExec call, v) (outs (run c evs)) ->
       exists i, v = VInv i /\ In (w, call, i) (launches (run c evs))) /\
    (forall e1 e2 w call v1 v2,
       wf_of (run c evs) e1 = Some w -> wf_of (run c evs) e2 = Some w ->
       In (e1, OExec call, v1) (outs (run c evs)) -> In (e2, OExec call, v2) (outs (run c evs)) ->
       v1 = v2).

(* "values and records of different workflows never mix": values returned to executions of
   different workflows are different (symbolic) values, and a helper call of an execution leaves
   the workflow data of every other workflow untouched *)
Definition no_mix_stmt (c : cfg) : Prop :=
  forall evs,
    (forall e1 e2 w1 w2 o1 o2 v1 v2,
       wf_of (run c evs) e1 = Some w1 -> wf_of (run c evs) e2 = Some w2 -> w1 <> w2 ->
       In (e1, o1, v1) (outs (run c evs)) -> In (e2, o2, v2) (outs (run c evs)) -> v1 <> v2) /\
    (forall e o w w' key,
       wf_of (run c evs) e = Some w -> w' <> w ->
       slookup (w', key) (store (step c (run c evs) (EOp e o))) = slookup (w', key) (store (run c evs))).

Definition C18_statement (c : cfg) : Prop :=
  nth_value_stable_stmt c /\ sub_task_once_stmt c /\ no_mix_stmt c.

(* provenance of a value with respect to a workflow *)
Definition owned (W : world) (w : nat) (v : value) : Prop :=
  match v with
  | VRand w' _ | VUuid w' _ => w' = w
  | VTime b _ => slookup (w, KBase) (store W) = Some (VBase b)
  | VInv i => exists call, In (w, call, i) (launches W)
  | VBase _ | VCount _ | VStale _ _ => False
  end.

(* Model/Like.v — C17: SQLite's LIKE operator (no ESCAPE clause) on code-point strings: '%' matches
   any sequence, '_' any single character, every other character matches case-insensitively for
   ASCII letters only; and the two table-selection rules of delete_tables_with_prefix.
   Definitions only. *)
From Coq Require Import List NArith Bool.
Import ListNotations.
From PV Require Import Model.SanitizeDef.
Open Scope N_scope.

Fixpoint like (p : str) : str -> bool :=
  match p with
  | [] => fun s => match s with [] => true | _ :: _ => false end
  | c :: p' =>
      if c =? percent then
        fix star (s : str) : bool :=
          like p' s || match s with [] => false | _ :: s' => star s' end
      else if c =? underscore then
        fun s => match s with [] => false | _ :: s' => like p' s' end
      else
        fun s => match s with [] => false | d :: s' => (fold_ascii c =? fold_ascii d) && like p' s' end
  end.

(* "s starts with p" where '_' in p is a one-character wildcard and ASCII case is ignored *)
Fixpoint wmatch (p s : str) : bool :=
  match p with
  | [] => true
  | c :: p' =>
      match s with
      | [] => false
      | d :: s' => ((c =? underscore) || (fold_ascii c =? fold_ascii d)) && wmatch p' s'
      end
  end.

(* _owns_table(prefix, name) of the proposed repair:
   name.startswith(prefix + "_") and "__" not in name[len(prefix):] *)
Definition owns_table (pfx name : str) : bool :=
  starts_with (pfx ++ [underscore]) name && negb (has_dunder (skipn (length pfx) name)).

(* which tables delete_tables_with_prefix(db, pfx) empties *)
Definition purge_selects (k : purge_kind) (pfx name : str) : bool :=
  match k with
  | PurgeLike => like (pfx ++ [percent]) name
  | PurgeStructural => like (pfx ++ [percent]) name && owns_table pfx name
  end.

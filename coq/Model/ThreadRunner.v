(* Model/ThreadRunner.v — C09 part 2 (and the basis of C11).
   One ThreadRunner with `slots` execution slots running a finite forest of nested calls.
   Invocation ids are natural numbers; `prog i` is the body of invocation i as a list of actions
   (the implicit last action is "return").  Transcribed from thread_runner.py /
   base_orchestrator.get_invocations_to_run / dist_invocation.result:
     loop iteration = reclaim finished threads (they also leave the waiting set), free slots =
       slots - |alive threads that are not in the waiting set| (when `waiting_frees_slot`, a fact
       generated from _reclaim_available_slots), claim that many invocations — first those that
       someone is waiting on and that are not waiting themselves (when `blocking_first`), then the
       queue head(s) — and start a thread for each;
     a task thread = RUNNING, then its actions: Call c (register + queue c), Wait cs (if every c is
       final: go on; else declare the edges, join the waiting set, and spin until they are final),
       finally return (final status, waiters released, thread ends). *)
From Coq Require Import List Bool Arith.
Import ListNotations.

Definition inv := nat.

Inductive action : Set := Call (c : inv) | Wait (cs : list inv).

Inductive istate : Set :=
| NotCreated
| Registered                       (* REGISTERED and in the queue *)
| Pending                          (* claimed, thread started, body not yet entered *)
| Running (pc : nat) (declared : bool) (inw : bool)
     (* executing action pc; declared = the current Wait's edges are declared; inw = member of the runner's
        waiting set (sticky: the set only shrinks when the thread ends) *)
| Final.

Record rstate : Set := {
  ist : list istate;               (* state of invocation i at position i *)
  queue : list inv }.

Section Runner.
Variable prog : inv -> list action.
Variable slots : nat.
Variable waiting_frees_slot : bool.    (* generated fact *)
Variable blocking_first : bool.        (* generated fact *)

Definition st_of (s : rstate) (i : inv) : istate := nth i (ist s) NotCreated.

Fixpoint set_nth (i : nat) (x : istate) (l : list istate) : list istate :=
  match l, i with
  | [], _ => []
  | _ :: rest, 0 => x :: rest
  | y :: rest, S i' => y :: set_nth i' x rest
  end.

Definition upd (s : rstate) (i : inv) (x : istate) : rstate := {| ist := set_nth i x (ist s); queue := queue s |}.

Definition is_final (x : istate) : bool := match x with Final => true | _ => false end.
Definition has_thread (x : istate) : bool := match x with Pending | Running _ _ _ => true | _ => false end.
Definition occupies_slot (x : istate) : bool :=
  match x with
  | Pending => true
  | Running _ _ w => if waiting_frees_slot then negb w else true
  | _ => false
  end.

Definition count (p : istate -> bool) (s : rstate) : nat := length (filter p (ist s)).
Definition free_slots (s : rstate) : nat := slots - count occupies_slot s.

(* someone alive has declared it waits on x, and x itself is not waiting: the wait graph restricted
   to this runner's threads (a waiting thread's current action is Wait cs with x in cs) *)
Definition waits_on (s : rstate) (w x : inv) : bool :=
  match st_of s w with
  | Running pc true _ => match nth_error (prog w) pc with
                       | Some (Wait cs) => existsb (Nat.eqb x) cs
                       | _ => false
                       end
  | _ => false
  end.
Definition blocking (s : rstate) (x : inv) : bool :=
  match st_of s x with
  | Registered => existsb (fun w => waits_on s w x) (seq 0 (length (ist s)))
  | _ => false
  end.

(* claim up to n: blocking ones first (in id order), then queue heads; claimed ids leave the queue *)
Fixpoint claim_list (n : nat) (cands : list inv) (s : rstate) : rstate * nat :=
  match n, cands with
  | 0, _ => (s, 0)
  | _, [] => (s, n)
  | S n', x :: rest =>
      match st_of s x with
      | Registered => claim_list n' rest {| ist := set_nth x Pending (ist s);
                                            queue := filter (fun y => negb (Nat.eqb y x)) (queue s) |}
      | _ => claim_list n rest s
      end
  end.

(* candidates: the blocking ones first, then the queue (an id met twice is skipped the second time: it is
   no longer REGISTERED) *)
Definition loop_iter (s : rstate) : rstate :=
  let n := free_slots s in
  let bl := if blocking_first then filter (blocking s) (seq 0 (length (ist s))) else [] in
  fst (claim_list n (bl ++ queue s) s).

Definition all_final (s : rstate) (cs : list inv) : bool := forallb (fun c => is_final (st_of s c)) cs.

(* one step of the thread of invocation i *)
Definition thread_step (s : rstate) (i : inv) : rstate :=
  match st_of s i with
  | Pending => upd s i (Running 0 false false)
  | Running pc d w =>
      match nth_error (prog i) pc with
      | None => upd s i Final                                                   (* return *)
      | Some (Call c) =>
          match st_of s c with
          | NotCreated => {| ist := set_nth i (Running (S pc) false w) (set_nth c Registered (ist s));
                             queue := queue s ++ [c] |}
          | _ => upd s i (Running (S pc) false w)                               (* ill-formed program: ignored *)
          end
      | Some (Wait cs) =>
          if all_final s cs then upd s i (Running (S pc) false w)
          else if d then s                                                      (* spin *)
          else upd s i (Running pc true true)                                   (* declare + join the waiting set *)
      end
  | _ => s
  end.

Inductive rstep : Set := SLoop | SThread (i : inv).

Definition step (s : rstate) (a : rstep) : rstate :=
  match a with SLoop => loop_iter s | SThread i => thread_step s i end.

Definition run (s : rstate) (l : list rstep) : rstate := fold_left step l s.

(* potential: strictly decreased by every productive step, untouched by the others *)
Definition phi_inv (i : inv) (x : istate) : nat :=
  let L := length (prog i) in
  match x with
  | NotCreated => 2 * L + 5
  | Registered => 2 * L + 4
  | Pending => 2 * L + 3
  | Running pc d _ => 2 * (L - pc) + (if d then 1 else 2)
  | Final => 0
  end.
Fixpoint phi_from (i : nat) (l : list istate) : nat :=
  match l with
  | [] => 0
  | x :: rest => phi_inv i x + phi_from (S i) rest
  end.
Definition phi (s : rstate) : nat := phi_from 0 (ist s).

(* the start: n invocations, the roots (given) registered and queued *)
Definition init (n : nat) (roots : list inv) : rstate :=
  {| ist := fold_left (fun l r => set_nth r Registered l) roots (repeat NotCreated n); queue := roots |}.
End Runner.

(* Model/StatusDef.v — shape of one entry of pynenc/invocation/status.py:_CONFIG.
   The table itself is generated (gen/StatusTable_gen.v). *)
From Coq Require Import List Bool.
From PV Require Import Model.Status.

Record sdef : Set := {
  allowed : list status;
  is_final : bool;
  available_for_run : bool;
  requires_ownership : bool;
  acquires_ownership : bool;
  releases_ownership : bool;
  overrides_ownership : bool }.

Definition mem_status (s : status) (l : list status) : bool := existsb (status_eqb s) l.

(* Model/Trigger.v — the trigger component: pending valid conditions keyed (condition id,
   context id), trigger definitions, run claims with expiry, the launched tasks, and
   BaseTrigger.trigger_loop_iteration as a function of the facts read from the source
   (Model/TriggerDef.v).  Mirrors pynenc/trigger/base_trigger.py, trigger_definitions.py,
   trigger_context.py, mem_trigger.py / sqlite_trigger.py, arguments/argument_providers.py.
   Run ids are modelled structurally (trigger id, set of valid-condition keys): SHA-256 of the
   joined ids is assumed to be injective on them (trusted base).  Definitions only. *)
From Coq Require Import List Bool Arith ZArith.
Import ListNotations.
From PV Require Import Model.TriggerDef.

Definition cid := nat.
(* a pending valid condition: condition id, context id (ValidCondition.valid_condition_id) *)
Definition vc : Set := (cid * list nat)%type.

Definition vc_eq_dec : forall a b : vc, {a = b} + {a <> b}.
Proof. decide equality; [apply (list_eq_dec Nat.eq_dec) | apply Nat.eq_dec]. Defined.

Definition inb (v : vc) (l : list vc) : bool := if in_dec vc_eq_dec v l then true else false.

(* ---- occurrences and the context ids the code derives from them ---- *)
(* kind 0 event (src = event uid) ; 1 status (src = invocation, aux = status) ; 2 result (src =
   invocation) ; 3 exception (src = invocation, aux = exception type) ; 4 cron (src = poll time).
   o_n is the serial number of the occurrence (not visible to the code). *)
Record occ : Set := { o_kind : nat; o_src : nat; o_aux : nat; o_n : nat }.

Definition ctx_id (F : facts) (o : occ) : list nat :=
  match o_kind o with
  | 1 => [1; o_src o; o_aux o]
  | 3 => if f_exc_ctx_has_invocation F then [3; o_src o; o_aux o] else [3; o_aux o]
  | k => [k; o_src o]
  end.

(* the kind of context a condition accepts is encoded in its id: c mod 5 *)
Definition kind_of (c : cid) : nat := Nat.modulo c 5.

(* ---- trigger definitions ---- *)
Inductive logic : Set := LAnd | LOr.

Record tdef : Set := {
  t_id : nat;
  t_conds : list cid;
  t_logic : logic;
  t_static : bool;          (* StaticArgumentProvider *)
  t_prov : list nat         (* context kinds of the ContextTypeArgumentProviders, in priority order *)
}.

Inductive args : Set := ANone | AStatic | ACtx (v : vc) | AErr.

Definition first_of_kind (k : nat) (ctx : list vc) : option vc :=
  find (fun v => Nat.eqb (kind_of (fst v)) k) ctx.

Fixpoint prov_args (ks : list nat) (ctx : list vc) : args :=
  match ks with
  | [] => AErr
  | k :: r => match first_of_kind k ctx with Some v => ACtx v | None => prov_args r ctx end
  end.

Definition get_args (t : tdef) (ctx : list vc) : args :=
  if t_static t then AStatic
  else match t_prov t with [] => ANone | ks => prov_args ks ctx end.

(* TriggerContext of a trigger: the pending valid conditions whose condition it lists, in store order *)
Definition depends (t : tdef) (v : vc) : bool := existsb (Nat.eqb (fst v)) (t_conds t).
Definition ctx_of (t : tdef) (snap : list vc) : list vc := filter (depends t) snap.
Definition has_cond (ctx : list vc) (c : cid) : bool := existsb (fun v => Nat.eqb (fst v) c) ctx.

Definition should_trigger (t : tdef) (ctx : list vc) : bool :=
  match t_conds t with
  | [] => false
  | _ => match t_logic t with
         | LAnd => forallb (has_cond ctx) (t_conds t)
         | LOr => existsb (has_cond ctx) (t_conds t)
         end
  end.

(* ---- run ids, claims, launches ---- *)
Definition runid : Set := (nat * list vc)%type.
Definition incl_b (a b : list vc) : bool := forallb (fun v => inb v b) a.
Definition runid_eqb (r1 r2 : runid) : bool :=
  Nat.eqb (fst r1) (fst r2) && incl_b (snd r1) (snd r2) && incl_b (snd r2) (snd r1).

Record launch : Set := { l_t : nat; l_run : list vc; l_args : args }.

Record state : Set := {
  pending : list vc;
  claims : list (runid * Z);     (* run id -> expiry (seconds) ; newest first *)
  launched : list launch;
  now : Z
}.

Definition state0 : state := {| pending := []; claims := []; launched := []; now := 0 |}.

Definition live (cl : list (runid * Z)) (r : runid) (nw : Z) : bool :=
  existsb (fun e => runid_eqb (fst e) r && (nw <? snd e)%Z) cl.

(* per-occurrence launching applies to OR triggers and (when the source does it) to triggers on
   a single condition *)
Definition single_cond (t : tdef) : bool := Nat.eqb (length (t_conds t)) 1.

(* (valid conditions hashed into the run id, trigger context handed to the argument provider) *)
Definition plans (F : facts) (t : tdef) (ctx : list vc) : list (list vc * list vc) :=
  match t_logic t with
  | LOr => map (fun v => ([v], if f_per_occurrence F then [v] else ctx)) ctx
  | LAnd => if f_per_occurrence F && single_cond t
            then map (fun v => ([v], [v])) ctx
            else [(ctx, ctx)]
  end.

Definition mk_launch (t : tdef) (p : list vc * list vc) : launch :=
  {| l_t := t_id t; l_run := fst p; l_args := get_args t (snd p) |}.

Definition do_plan (F : facts) (t : tdef) (s : state) (p : list vc * list vc) : state :=
  let r := (t_id t, fst p) in
  if f_claim_guards_launch F && live (claims s) r (now s) then s
  else {| pending := pending s;
          claims := (r, (now s + f_claim_expiry_s F)%Z) :: claims s;
          launched := launched s ++ [mk_launch t p];
          now := now s |}.

Definition run_trigger (F : facts) (snap : list vc) (s : state) (t : tdef) : state :=
  let ctx := ctx_of t snap in
  if should_trigger t ctx then fold_left (do_plan F t) (plans F t ctx) s else s.

(* a valid condition is cleared when at least one trigger depends on it and every trigger that
   depends on it was satisfied in this iteration *)
Definition cleared (trigs : list tdef) (snap : list vc) (v : vc) : bool :=
  match filter (fun t => depends t v) trigs with
  | [] => false
  | deps => forallb (fun t => should_trigger t (ctx_of t snap)) deps
  end.

Definition iteration (F : facts) (trigs : list tdef) (s : state) : state :=
  let snap := pending s in
  let s1 := fold_left (run_trigger F snap) trigs s in
  {| pending := filter (fun v => negb (cleared trigs snap v)) (pending s1);
     claims := claims s1; launched := launched s1; now := now s1 |}.

(* the same iteration when get_valid_conditions may return only a prefix of the pending valid conditions
   (`complete` = the generated fact of the store, `limit` = the size of the prefix otherwise): triggers are evaluated on
   what was read, and only valid conditions that were read can be cleared *)
Definition visible (complete : bool) (limit : nat) (p : list vc) : list vc :=
  if complete then p else firstn limit p.

Definition iteration_lim (F : facts) (complete : bool) (limit : nat) (trigs : list tdef) (s : state) : state :=
  let snap := visible complete limit (pending s) in
  let s1 := fold_left (run_trigger F snap) trigs s in
  {| pending := filter (fun v => negb (inb v snap && cleared trigs snap v)) (pending s1);
     claims := claims s1; launched := launched s1; now := now s1 |}.

(* which conditions sourced from the reporting task an occurrence report is evaluated against
   (get_conditions_sourced_from_task): its own kind; without the exact context-type filter a result (2) or exception
   (3) report also reaches the status conditions (1), whose context class theirs derive from *)
Definition reaches (exact : bool) (c : cid) (o : occ) : bool :=
  Nat.eqb (kind_of c) (o_kind o)
  || (negb exact && Nat.eqb (kind_of c) 1 && (Nat.eqb (o_kind o) 2 || Nat.eqb (o_kind o) 3)).

(* in-memory store, two threads: a reporter loaded the pending dict object, a loop iteration of another thread cleared
   the processed valid conditions `cl`, then the reporter stores `v` through the object it loaded.  Cleared in place
   the store sees the write; when clear re-binds the attribute to a new dict the write lands in the discarded one. *)
Definition drop_all (cl p : list vc) : list vc := filter (fun w => negb (inb w cl)) p.
Definition record_after_clear (in_place : bool) (p cl : list vc) (v : vc) : list vc :=
  if in_place then drop_all cl p ++ [v] else drop_all cl p.

(* record_valid_condition: keyed store; re-recording keeps the position in the in-memory dict,
   moves the row to the end under SQLite's INSERT OR REPLACE *)
Definition record_vc (to_end : bool) (v : vc) (s : state) : state :=
  {| pending := if inb v (pending s)
                then (if to_end then remove vc_eq_dec v (pending s) ++ [v] else pending s)
                else pending s ++ [v];
     claims := claims s; launched := launched s; now := now s |}.

Inductive op : Set :=
| ORecord (c : cid) (o : occ)
| OIter
| OAdvance (dt : Z).

Definition step (F : facts) (to_end : bool) (trigs : list tdef) (s : state) (o : op) : state :=
  match o with
  | ORecord c oc => record_vc to_end (c, ctx_id F oc) s
  | OIter => iteration F trigs s
  | OAdvance dt => {| pending := pending s; claims := claims s; launched := launched s; now := (now s + dt)%Z |}
  end.

Definition run (F : facts) (to_end : bool) (trigs : list tdef) (ops : list op) : state :=
  fold_left (step F to_end trigs) ops state0.

(* rendering for the harness: nested lists of numbers *)
Definition render_vc (v : vc) : list nat := fst v :: snd v.
Definition render_launch (l : launch) : list nat :=
  l_t l :: match l_args l with
           | ANone => [0] | AStatic => [1] | ACtx v => 2 :: render_vc v | AErr => [3]
           end.
Definition render (s : state) : list (list nat) * list (list nat) :=
  (map render_launch (launched s), map render_vc (pending s)).

(* ---------------------------------------------------------------------------------------
   Concurrent trigger loops: each loop walks its list of run ids; claim_trigger_run is either
   one atomic step (lock / BEGIN IMMEDIATE) or a read step followed by a write step. *)
Inductive pc : Set := Idle | Checked (r : nat).
Record actor : Set := { todo : list nat; apc : pc }.
Record cworld : Set := { cw_claims : list nat; cw_launches : list nat; cw_actors : list actor }.

Fixpoint set_nth {A} (i : nat) (x : A) (l : list A) : list A :=
  match l, i with
  | [], _ => []
  | _ :: r, O => x :: r
  | y :: r, S j => y :: set_nth j x r
  end.

Definition nat_inb (r : nat) (l : list nat) : bool := existsb (Nat.eqb r) l.

Definition cstep (atomic : bool) (w : cworld) (i : nat) : cworld :=
  match nth_error (cw_actors w) i with
  | None => w
  | Some a =>
    match apc a with
    | Checked r =>        (* the write half of a non-atomic claim, then the launch *)
        {| cw_claims := r :: cw_claims w; cw_launches := r :: cw_launches w;
           cw_actors := set_nth i {| todo := todo a; apc := Idle |} (cw_actors w) |}
    | Idle =>
      match todo a with
      | [] => w
      | r :: rest =>
        if nat_inb r (cw_claims w) then
          {| cw_claims := cw_claims w; cw_launches := cw_launches w;
             cw_actors := set_nth i {| todo := rest; apc := Idle |} (cw_actors w) |}
        else if atomic then
          {| cw_claims := r :: cw_claims w; cw_launches := r :: cw_launches w;
             cw_actors := set_nth i {| todo := rest; apc := Idle |} (cw_actors w) |}
        else
          {| cw_claims := cw_claims w; cw_launches := cw_launches w;
             cw_actors := set_nth i {| todo := rest; apc := Checked r |} (cw_actors w) |}
      end
    end
  end.

Definition crun (atomic : bool) (w : cworld) (sched : list nat) : cworld := fold_left (cstep atomic) sched w.
Definition cworld0 (plans : list (list nat)) : cworld :=
  {| cw_claims := []; cw_launches := []; cw_actors := map (fun p => {| todo := p; apc := Idle |}) plans |}.

(* ---------------------------------------------------------------------------------------
   Concurrent cron polls: the stored last execution is a version (0 = never executed, each
   successful store creates a new value); a loop reads it, then compare-and-swaps. *)
Record cas_actor : Set := { seen : option nat; done : bool }.
Record casworld : Set := { cv : nat; cv_fired : list nat (* versions the successful loops had read *);
                           cv_actors : list cas_actor; cv_mid : list (nat * nat) (* actor, version read inside a split CAS *) }.

Definition cas_ok (rejects_none : bool) (expected current : nat) : bool :=
  match expected with
  | O => if rejects_none then Nat.eqb current 0 else true
  | _ => Nat.eqb current expected
  end.

Fixpoint lookup_mid (i : nat) (l : list (nat * nat)) : option nat :=
  match l with [] => None | (j, v) :: r => if Nat.eqb i j then Some v else lookup_mid i r end.
Definition drop_mid (i : nat) (l : list (nat * nat)) := filter (fun e => negb (Nat.eqb i (fst e))) l.

Definition casstep (atomic rejects_none : bool) (w : casworld) (i : nat) : casworld :=
  match nth_error (cv_actors w) i with
  | None => w
  | Some a =>
    if done a then w else
    match seen a with
    | None => {| cv := cv w; cv_fired := cv_fired w; cv_mid := cv_mid w;
                 cv_actors := set_nth i {| seen := Some (cv w); done := false |} (cv_actors w) |}
    | Some e =>
      let finish cur :=
        if cas_ok rejects_none e cur
        then {| cv := S (cv w); cv_fired := e :: cv_fired w; cv_mid := drop_mid i (cv_mid w);
                cv_actors := set_nth i {| seen := Some e; done := true |} (cv_actors w) |}
        else {| cv := cv w; cv_fired := cv_fired w; cv_mid := drop_mid i (cv_mid w);
                cv_actors := set_nth i {| seen := Some e; done := true |} (cv_actors w) |} in
      if atomic then finish (cv w)
      else match lookup_mid i (cv_mid w) with
           | None => {| cv := cv w; cv_fired := cv_fired w; cv_mid := (i, cv w) :: cv_mid w;
                        cv_actors := cv_actors w |}
           | Some cur => finish cur
           end
    end
  end.

Definition casrun (atomic rejects_none : bool) (w : casworld) (sched : list nat) : casworld :=
  fold_left (casstep atomic rejects_none) sched w.
Definition casworld0 (n : nat) (v0 : nat) : casworld :=
  {| cv := v0; cv_fired := []; cv_actors := repeat {| seen := None; done := false |} n; cv_mid := [] |}.

(* Model/Cron.v — CronCondition._is_satisfied_by and the sequential poll loop
   (BaseTrigger._should_trigger_cron_condition / check_time_based_triggers) over an abstract
   schedule.  Time is Z micro-seconds since the epoch; the schedule is a decidable predicate on
   minute indices (croniter is the oracle: `match` = "the minute of the timestamp is scheduled",
   `get_prev` = start of the latest scheduled minute before it, `get_next` = start of the first
   scheduled minute after).  Definitions only. *)
From Coq Require Import List Bool ZArith.
Import ListNotations.
From PV Require Import Model.TriggerDef.
Local Open Scope Z_scope.

Definition US : Z := 1000000.
Definition MIN_US : Z := 60 * US.
Definition minute_of (t : Z) : Z := t / MIN_US.

Record cron_conf : Set := { cw_window_s : Z; cw_min_interval_s : Z; cw_tolerance_s : Z; cw_strict : bool }.

Definition default_conf (F : facts) : cron_conf :=
  {| cw_window_s := f_cron_window_s F; cw_min_interval_s := f_cron_min_interval_s F;
     cw_tolerance_s := f_cron_tolerance_s F; cw_strict := false |}.

Section Cron.
Variable sched : Z -> bool.
Variable F : facts.

(* latest scheduled minute among m, m-1, ..., m-fuel+1 *)
Fixpoint prev_sched (fuel : nat) (m : Z) : option Z :=
  match fuel with
  | O => None
  | S f => if sched m then Some m else prev_sched f (m - 1)
  end.

(* the scheduled minute a poll at ts is attributed to, and the time difference the code computes
   (0 when the minute of ts is itself scheduled) *)
Definition attributed (c : cron_conf) (ts : Z) : option (Z * Z) :=
  let m0 := minute_of ts in
  if sched m0 then Some (m0, 0)
  else match prev_sched (S (Z.to_nat (cw_window_s c / 60))) (m0 - 1) with
       | Some p => Some (p, ts - p * MIN_US)
       | None => None
       end.

Definition window_ok (c : cron_conf) (d : Z) : bool :=
  (0 <=? d) && (if f_cron_window_inclusive F then d <=? cw_window_s c * US else d <? cw_window_s c * US).

Definition interval_ok (c : cron_conf) (ts l : Z) : bool :=
  if f_cron_min_interval_strict F then negb (ts - l <? cw_min_interval_s c * US)
  else negb (ts - l <=? cw_min_interval_s c * US).

Definition cron_sat (c : cron_conf) (ts : Z) (last : option Z) : bool :=
  match attributed c ts with
  | None => false
  | Some (p, d) =>
      window_ok c d
      && (negb (cw_strict c) || (d <=? cw_tolerance_s c * US))
      && match last with
         | None => true
         | Some l => interval_ok c ts l && (l <? p * MIN_US)
         end
  end.

(* one poll of one loop, sequentially (compare-and-swap succeeds): new last execution, fired? *)
Definition poll (c : cron_conf) (last : option Z) (ts : Z) : option Z * bool :=
  if cron_sat c ts last then (Some ts, true) else (last, false).

Fixpoint polls (c : cron_conf) (last : option Z) (tss : list Z) : option Z * list bool :=
  match tss with
  | [] => (last, [])
  | ts :: r => let (l1, b) := poll c last ts in
               let (l2, bs) := polls c l1 r in (l2, b :: bs)
  end.

(* the same through BaseTrigger._should_trigger_cron_condition: with nothing stored yet the schedule is
   consulted only if the source does so *)
Definition store_sat (c : cron_conf) (ts : Z) (last : option Z) : bool :=
  match last with
  | None => if f_cron_first_poll_checked F then cron_sat c ts None else true
  | Some _ => cron_sat c ts last
  end.

Fixpoint store_polls (c : cron_conf) (last : option Z) (tss : list Z) : list bool :=
  match tss with
  | [] => []
  | ts :: r => if store_sat c ts last then true :: store_polls c (Some ts) r
               else false :: store_polls c last r
  end.

(* several runners, each with its own cache of the last execution (BaseTrigger._last_cron_execution_cache), poll one
   store one after the other.  runner_poll = _should_trigger_cron_condition of one runner: (stored value, its cache)
   -> (stored value, its cache, fired).  The compare-and-swap expects the value the runner went on with. *)
Definition opt_eqb (a b : option Z) : bool :=
  match a, b with None, None => true | Some x, Some y => x =? y | _, _ => false end.

Definition runner_poll (c : cron_conf) (st cache : option Z) (ts : Z) : option Z * option Z * bool :=
  if match cache with Some l => negb (cron_sat c ts (Some l)) | None => false end
  then (st, cache, false)                          (* the cache short cut: the store is not consulted *)
  else
    let seen := if f_cron_storage_read_always F then st
                else match cache with Some l => Some l | None => st end in
    let cache1 := match seen with Some l => Some l | None => cache end in
    if store_sat c ts seen then
      if opt_eqb seen st then (Some ts, Some ts, true)
      else (st, match st with Some l => Some l | None => cache1 end, false)   (* "another process beat us to it" *)
    else (st, cache1, false).

Fixpoint upd {A} (i : nat) (x : A) (l : list A) : list A :=
  match l, i with
  | [], _ => []
  | _ :: r, O => x :: r
  | y :: r, S j => y :: upd j x r
  end.

Fixpoint mr_polls (c : cron_conf) (st : option Z) (caches : list (option Z)) (ps : list (nat * Z)) : list bool :=
  match ps with
  | [] => []
  | (r, ts) :: rest =>
      match runner_poll c st (nth r caches None) ts with
      | (st1, c1, b) => b :: mr_polls c st1 (upd r c1 caches) rest
      end
  end.

(* a runner's cache never runs ahead of the store *)
Definition cache_le (st cache : option Z) : Prop :=
  match cache with
  | None => True
  | Some l => match st with Some l' => l <= l' | None => False end
  end.

(* ghost: the scheduled minutes the fired polls were attributed to, oldest first *)
Fixpoint fired_minutes (c : cron_conf) (last : option Z) (tss : list Z) : list Z :=
  match tss with
  | [] => []
  | ts :: r =>
      if cron_sat c ts last
      then match attributed c ts with
           | Some (p, _) => p :: fired_minutes c (Some ts) r
           | None => fired_minutes c (Some ts) r
           end
      else fired_minutes c last r
  end.
End Cron.

(* executable instance used by the harness: the schedule is the list of scheduled minute indices
   computed by the brute-force evaluator *)
Definition sched_of (ms : list Z) (m : Z) : bool := existsb (Z.eqb m) ms.
Definition b2n (b : bool) : nat := if b then 1%nat else 0%nat.

(* Model/Status.v — the documented invocation lifecycle, transcribed BY HAND from
   docs/usage_guide/invocation_status.md and the edge list of
   docs/_static/invocation_state_machine.svg.  Nothing in this file is derived from
   pynenc/invocation/status.py: it is the specification the generated table
   (gen/StatusTable_gen.v) is compared against.  Definitions only; lemmas live in
   Proofs/StatusProofs.v so that the model still evaluates when a proof breaks. *)
From Coq Require Import List Bool Arith.
Import ListNotations.

Inductive status : Set :=
| REGISTERED | CONCURRENCY_CONTROLLED | CONCURRENCY_CONTROLLED_FINAL | REROUTED
| PENDING | PENDING_RECOVERY | RUNNING | RUNNING_RECOVERY | PAUSED | RESUMED
| KILLED | SUCCESS | FAILED | RETRY.

Definition status_eq_dec (a b : status) : {a = b} + {a <> b}.
Proof. decide equality. Defined.

Definition status_eqb (a b : status) : bool :=
  if status_eq_dec a b then true else false.

Definition all_statuses : list status :=
  [REGISTERED; CONCURRENCY_CONTROLLED; CONCURRENCY_CONTROLLED_FINAL; REROUTED;
   PENDING; PENDING_RECOVERY; RUNNING; RUNNING_RECOVERY; PAUSED; RESUMED;
   KILLED; SUCCESS; FAILED; RETRY].

(* numbering used by the harness (index in all_statuses) *)
Definition status_code (s : status) : nat :=
  match s with
  | REGISTERED => 0 | CONCURRENCY_CONTROLLED => 1 | CONCURRENCY_CONTROLLED_FINAL => 2
  | REROUTED => 3 | PENDING => 4 | PENDING_RECOVERY => 5 | RUNNING => 6
  | RUNNING_RECOVERY => 7 | PAUSED => 8 | RESUMED => 9 | KILLED => 10
  | SUCCESS => 11 | FAILED => 12 | RETRY => 13
  end.

Definition status_of_code (n : nat) : status := nth n all_statuses REGISTERED.

(* ---- the documented graph: the 27 edges of the SVG (START->REGISTERED is `doc_initial`) *)
Definition doc_edges : list (status * status) :=
  [ (CONCURRENCY_CONTROLLED, REROUTED); (KILLED, REROUTED);
    (PAUSED, KILLED); (PAUSED, RESUMED);
    (PENDING, KILLED); (PENDING, PENDING_RECOVERY); (PENDING, REROUTED); (PENDING, RUNNING);
    (PENDING_RECOVERY, REROUTED);
    (REGISTERED, CONCURRENCY_CONTROLLED); (REGISTERED, CONCURRENCY_CONTROLLED_FINAL);
    (REGISTERED, PENDING);
    (REROUTED, CONCURRENCY_CONTROLLED); (REROUTED, PENDING);
    (RESUMED, FAILED); (RESUMED, KILLED); (RESUMED, PAUSED); (RESUMED, RETRY); (RESUMED, SUCCESS);
    (RETRY, PENDING);
    (RUNNING, FAILED); (RUNNING, KILLED); (RUNNING, PAUSED); (RUNNING, RETRY);
    (RUNNING, RUNNING_RECOVERY); (RUNNING, SUCCESS);
    (RUNNING_RECOVERY, REROUTED) ].

Definition doc_initial : status := REGISTERED.

Definition doc_edge (a b : status) : bool :=
  existsb (fun e => status_eqb (fst e) a && status_eqb (snd e) b) doc_edges.

(* ---- the documented categories *)
Definition doc_final (s : status) : bool :=
  match s with SUCCESS | FAILED | CONCURRENCY_CONTROLLED_FINAL => true | _ => false end.
Definition doc_available (s : status) : bool :=
  match s with REGISTERED | REROUTED | RETRY => true | _ => false end.
Definition doc_owned (s : status) : bool :=
  match s with PENDING | RUNNING | PAUSED | RESUMED => true | _ => false end.
Definition doc_recovery (s : status) : bool :=
  match s with PENDING_RECOVERY | RUNNING_RECOVERY => true | _ => false end.
(* "When a runner picks up an invocation (-> PENDING) it acquires ownership" *)
Definition doc_acquires (s : status) : bool :=
  match s with PENDING => true | _ => false end.

(* ---- status records and single-step semantics *)
Definition runner := nat.
Record srec : Set := { st : status; owner : option runner; ts : nat }.

Inductive terr : Set := ETransition | EOwnership.
Inductive tres : Set := TOk (new_status : status) (new_owner : option runner) | TErr (e : terr).

Definition orunner_eqb (a b : option runner) : bool :=
  match a, b with
  | None, None => true
  | Some x, Some y => Nat.eqb x y
  | _, _ => false
  end.

(* The documented single step.  [cur = None] is the START pseudo-state. *)
Definition doc_transition (cur : option srec) (req : status) (rid : option runner) : tres :=
  match cur with
  | None =>
      if status_eqb req doc_initial then TOk req None else TErr ETransition
  | Some r =>
      if negb (doc_edge (st r) req) then TErr ETransition
      else if doc_recovery req then TOk req None
      else if doc_owned (st r) && negb (orunner_eqb rid (owner r)) then TErr EOwnership
      else if doc_acquires req then
             match rid with
             | None => TErr EOwnership
             | Some _ => TOk req rid
             end
      else if doc_owned req then TOk req (owner r)
      else TOk req None
  end.

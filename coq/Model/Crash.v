(* Model/Crash.v — C03.  What happens to ONE accepted invocation when a process dies.
   Two processes act on it: V (the victim: a runner that polls, works, stops, and runs recovery
   tasks; it may die hard at any point) and S (a survivor that does the same things and never dies).
   Every multi-step lifecycle operation is a PROGRAM: the list of backend effects the code performs,
   in the order generated from the source (gen/CrashProgs_gen.v).  A crash of V abandons V's current
   program between two effects.  Queue membership is a count (a poll pops some queued message).
   Time is abstracted: the pending-recovery scan may select any PENDING invocation (it eventually
   will), the running-recovery scan selects RUNNING invocations whose owner is dead. *)
From Coq Require Import List Bool Arith NArith PArith FMapPositive.
Import ListNotations.
From PV Require Import Base.HashSet Model.Status.

Definition V : runner := 1.
Definition S_ : runner := 2.
Definition X : runner := 3.      (* a runner that died long ago (its heartbeat is stale from the start) *)

Inductive eff : Set :=
| EPop                         (* broker.retrieve_invocation *)
| ETrans (to : status)         (* set_invocation_status(to) by the acting process; a refusal ends the program *)
| EPush                        (* broker.route_invocation *)
| EBody                        (* the task body runs to its end *)
| EOther.                      (* an effect on other state (result / exception store, retry counter, index) *)

Inductive role : Set :=
| RClaimRun | RClaimRetry | RClaimFail | RClaimCC | RClaimCCFinal | RClaimSkip | RPollRaises
| RKill | RRecPending | RRecRunning.

(* the ghost record of where V died: the program it was running and how many of its effects were done *)
Record cstate : Set := {
  cst : status; cown : option runner; cq : nat;
  vrole : option role; vrest : list eff; vdone : nat; valive : bool;
  vkill : list eff;          (* V's stop path (_kill_and_reroute) runs beside its worker thread *)
  srole : option role; srest : list eff;
  body_done : bool;
  crashed_in : option (role * nat);
  lost : bool }.   (* ghost: a poll consumed a message and then raised (blocked invocation, no edge to the concurrency status) *)

Section Progs.
(* generated effect sequences *)
Variable p_retry : list eff.       (* BaseOrchestrator.set_invocation_retry *)
Variable p_reroute : list eff.     (* one iteration of reroute_invocations *)
Variable p_kill_head : list eff.   (* _kill_and_reroute before it calls reroute_invocations *)
Variable p_finish_ok : list eff.   (* set_invocation_result *)
Variable p_finish_err : list eff.  (* set_invocation_exception *)
Variable pop_before_claim : bool.  (* get_additional_invocations_to_run pops the message before it writes any status *)
Variable recovery_continues : bool. (* a recovery run that loses the race for ANOTHER invocation still reroutes the ones it has marked *)
Variable poll_exhausted : bool.    (* every runner runs the poll generator to its end (the reroute of what a poll deferred comes after its last yield) *)

(* the message is popped when the poll role starts (pop, then the status read that decides the role); when the source
   pops only after claiming, the pop is the second effect instead *)
Definition claim_prefix : list eff := if pop_before_claim then [ETrans PENDING] else [ETrans PENDING; EPop].

Definition prog_of (r : role) : list eff :=
  match r with
  | RClaimRun => claim_prefix ++ [ETrans RUNNING; EBody] ++ p_finish_ok
  | RClaimRetry => claim_prefix ++ [ETrans RUNNING; EBody] ++ p_retry
  | RClaimFail => claim_prefix ++ [ETrans RUNNING; EBody] ++ p_finish_err
  | RClaimCC => [ETrans CONCURRENCY_CONTROLLED] ++ (if poll_exhausted then p_reroute else [])
  | RClaimCCFinal => [ETrans CONCURRENCY_CONTROLLED_FINAL]
  | RClaimSkip => []
  | RPollRaises => []
  | RKill => p_kill_head ++ p_reroute
  | RRecPending => [ETrans PENDING_RECOVERY] ++ (if recovery_continues then p_reroute else [])
  | RRecRunning => [ETrans RUNNING_RECOVERY] ++ (if recovery_continues then p_reroute else [])
  end.

(* may process `a` start role r now? *)
Definition guard (s : cstate) (a : runner) (r : role) : bool :=
  match r with
  | RClaimRun | RClaimRetry | RClaimFail =>
      negb (Nat.eqb (cq s) 0) && doc_available (cst s)
  | RClaimCC => negb (Nat.eqb (cq s) 0) && doc_available (cst s) && doc_edge (cst s) CONCURRENCY_CONTROLLED
  | RClaimCCFinal => negb (Nat.eqb (cq s) 0) && doc_available (cst s) && doc_edge (cst s) CONCURRENCY_CONTROLLED_FINAL
  | RPollRaises =>   (* blocked, but the status has no edge to the concurrency status the task option asks for: the poll raises *)
      negb (Nat.eqb (cq s) 0) && doc_available (cst s) &&
      (negb (doc_edge (cst s) CONCURRENCY_CONTROLLED) || negb (doc_edge (cst s) CONCURRENCY_CONTROLLED_FINAL))
  | RClaimSkip => negb (Nat.eqb (cq s) 0) && negb (doc_available (cst s))
  | RKill => orunner_eqb (cown s) (Some a) && (status_eqb (cst s) PENDING || status_eqb (cst s) RUNNING)
  | RRecPending => status_eqb (cst s) PENDING
  | RRecRunning => status_eqb (cst s) RUNNING &&
                   (orunner_eqb (cown s) (Some X) || (orunner_eqb (cown s) (Some V) && negb (valive s)))
  end.

Definition apply_eff (s : cstate) (a : runner) (e : eff) : option (status * option runner * nat * bool) :=
  (* new (status, owner, queue count, body_done), or None when the effect is refused / impossible *)
  match e with
  | EPop => match cq s with 0 => None | S k => Some (cst s, cown s, k, body_done s) end
  | EPush => Some (cst s, cown s, S (cq s), body_done s)
  | EBody => Some (cst s, cown s, cq s, true)
  | EOther => Some (cst s, cown s, cq s, body_done s)
  | ETrans to =>
      match doc_transition (Some {| st := cst s; owner := cown s; ts := 0 |}) to (Some a) with
      | TOk s' o' => Some (s', o', cq s, body_done s)
      | TErr _ => None
      end
  end.

Definition pops_at_start (r : role) : bool :=
  match r with
  | RClaimRun | RClaimRetry | RClaimFail => pop_before_claim
  | RClaimCC | RClaimCCFinal | RClaimSkip | RPollRaises => true
  | _ => false
  end.
Definition is_cc (r : option role) : bool := match r with Some (RClaimCC | RClaimCCFinal) => true | _ => false end.
Definition prog_of_o (r : option role) : list eff := match r with Some x => prog_of x | None => [] end.
Definition orole_is (r : option role) (x : role) : bool :=
  match r, x with Some RPollRaises, RPollRaises => true | _, _ => false end.

Inductive clabel : Set :=
| LVStart (r : role) | LVStep | LVKillStart | LVKillStep | LSStart (r : role) | LSStep | LCrash.

Definition cstep (s : cstate) (l : clabel) : cstate :=
  match l with
  | LVStart r =>
      if valive s && match vrest s with [] => true | _ => false end && guard s V r
      then {| cst := cst s; cown := cown s; cq := if pops_at_start r then pred (cq s) else cq s;
              vrole := Some r; vrest := prog_of r; vdone := if pops_at_start r then 1 else 0; valive := true; vkill := vkill s;
              srole := srole s; srest := srest s; body_done := body_done s; crashed_in := crashed_in s;
              lost := if orole_is (Some r) RPollRaises then true else lost s |}
      else s
  | LVStep =>
      if valive s then
        match vrest s with
        | [] => s
        | e :: rest =>
            match apply_eff s V e with
            | Some (st', o', q', b') =>
                {| cst := st'; cown := o'; cq := q'; vrole := vrole s; vrest := rest; vdone := S (vdone s); valive := true; vkill := vkill s;
                   srole := srole s; srest := srest s; body_done := b'; crashed_in := crashed_in s;
                   lost := if orole_is (vrole s) RPollRaises then true else lost s |}
            | None =>
                {| cst := cst s; cown := cown s; cq := cq s; vrole := vrole s; vrest := []; vdone := vdone s; valive := true; vkill := vkill s;
                   srole := srole s; srest := srest s; body_done := body_done s; crashed_in := crashed_in s;
                   lost := if is_cc (vrole s) then true else lost s |}
            end
        end
      else s
  | LVKillStart =>
      if valive s && match vkill s with [] => true | _ => false end && guard s V RKill
      then {| cst := cst s; cown := cown s; cq := cq s; vrole := vrole s; vrest := vrest s; vdone := vdone s; valive := true;
              vkill := prog_of RKill;
              srole := srole s; srest := srest s; body_done := body_done s; crashed_in := crashed_in s; lost := lost s |}
      else s
  | LVKillStep =>
      if valive s then
        match vkill s with
        | [] => s
        | e :: rest =>
            match apply_eff s V e with
            | Some (st', o', q', b') =>
                {| cst := st'; cown := o'; cq := q'; vrole := vrole s; vrest := vrest s; vdone := vdone s; valive := true;
                   vkill := rest;
                   srole := srole s; srest := srest s; body_done := b'; crashed_in := crashed_in s; lost := lost s |}
            | None =>
                {| cst := cst s; cown := cown s; cq := cq s; vrole := vrole s; vrest := vrest s; vdone := vdone s; valive := true;
                   vkill := [];
                   srole := srole s; srest := srest s; body_done := body_done s; crashed_in := crashed_in s; lost := lost s |}
            end
        end
      else s
  | LSStart r =>
      if match srest s with [] => true | _ => false end && guard s S_ r
      then {| cst := cst s; cown := cown s; cq := if pops_at_start r then pred (cq s) else cq s;
              vrole := vrole s; vrest := vrest s; vdone := vdone s; valive := valive s; vkill := vkill s;
              srole := Some r; srest := prog_of r; body_done := body_done s; crashed_in := crashed_in s;
              lost := if orole_is (Some r) RPollRaises then true else lost s |}
      else s
  | LSStep =>
      match srest s with
      | [] => s
      | e :: rest =>
          match apply_eff s S_ e with
          | Some (st', o', q', b') =>
              {| cst := st'; cown := o'; cq := q'; vrole := vrole s; vrest := vrest s; vdone := vdone s; valive := valive s; vkill := vkill s;
                 srole := srole s; srest := rest; body_done := b'; crashed_in := crashed_in s;
                 lost := if orole_is (srole s) RPollRaises then true else lost s |}
          | None =>
              {| cst := cst s; cown := cown s; cq := cq s; vrole := vrole s; vrest := vrest s; vdone := vdone s; valive := valive s; vkill := vkill s;
                 srole := srole s; srest := []; body_done := body_done s; crashed_in := crashed_in s;
                 lost := if is_cc (srole s) then true else lost s |}
          end
      end
  | LCrash =>
      if valive s then
        {| cst := cst s; cown := cown s; cq := cq s; vrole := vrole s; vrest := []; vdone := vdone s; valive := false; vkill := [];
           srole := srole s; srest := srest s; body_done := body_done s;
           crashed_in :=
             (* where V died: inside its stop path if that had already done something, else inside its main program *)
             let kdone := length (prog_of RKill) - length (vkill s) in
             match vkill s, vrole s, vrest s with
             | _ :: _, _, _ => if Nat.ltb 0 kdone then Some (RKill, kdone)
                               else match vrole s, vrest s with
                                    | Some r, _ :: _ => Some (r, vdone s)
                                    | _, _ => Some (RKill, 0)
                                    end
             | [], Some r, _ :: _ => Some (r, vdone s)
             | _, _, _ => None
             end;
           lost := lost s |}
      else s
  end.
End Progs.

(* the accepted invocation: REGISTERED, queued once, nobody acting *)
Definition cinit : cstate :=
  {| cst := REGISTERED; cown := None; cq := 1; vrole := None; vrest := []; vdone := 0; valive := true; vkill := [];
     srole := None; srest := []; body_done := false; crashed_in := None; lost := false |}.

(* an invocation that was RUNNING under a runner that died long ago (work for the running-recovery task) *)
Definition cinit_x : cstate :=
  {| cst := RUNNING; cown := Some X; cq := 0; vrole := None; vrest := []; vdone := 0; valive := true; vkill := [];
     srole := None; srest := []; body_done := false; crashed_in := None; lost := false |}.

Definition all_roles : list role :=
  [RClaimRun; RClaimRetry; RClaimFail; RClaimCC; RClaimCCFinal; RClaimSkip; RPollRaises; RKill; RRecPending; RRecRunning].
Definition all_clabels : list clabel :=
  map LVStart all_roles ++ [LVStep; LVKillStart; LVKillStep] ++ map LSStart all_roles ++ [LSStep; LCrash].
Definition live_labels : list clabel :=           (* everything but a crash *)
  map LVStart all_roles ++ [LVStep; LVKillStart; LVKillStep] ++ map LSStart all_roles ++ [LSStep].

(* ---- equality, reachability (forward), co-reachability of "finished" (backward), as computations ---- *)
Definition eff_eqb (a b : eff) : bool :=
  match a, b with
  | EPop, EPop | EPush, EPush | EBody, EBody | EOther, EOther => true
  | ETrans x, ETrans y => status_eqb x y
  | _, _ => false
  end.
Fixpoint effs_eqb (a b : list eff) : bool :=
  match a, b with
  | [], [] => true
  | x :: a', y :: b' => eff_eqb x y && effs_eqb a' b'
  | _, _ => false
  end.
Definition role_eqb (a b : role) : bool :=
  match a, b with
  | RClaimRun, RClaimRun | RClaimRetry, RClaimRetry | RClaimFail, RClaimFail | RClaimCC, RClaimCC
  | RClaimCCFinal, RClaimCCFinal | RClaimSkip, RClaimSkip | RPollRaises, RPollRaises | RKill, RKill | RRecPending, RRecPending
  | RRecRunning, RRecRunning => true
  | _, _ => false
  end.
Definition orole_eqb (a b : option role) : bool :=
  match a, b with Some x, Some y => role_eqb x y | None, None => true | _, _ => false end.
Definition ocrash_eqb (a b : option (role * nat)) : bool :=
  match a, b with
  | Some (r, n), Some (r', n') => role_eqb r r' && Nat.eqb n n'
  | None, None => true
  | _, _ => false
  end.
Definition cstate_eqb (a b : cstate) : bool :=
  status_eqb (cst a) (cst b) && orunner_eqb (cown a) (cown b) && Nat.eqb (cq a) (cq b) &&
  orole_eqb (vrole a) (vrole b) && effs_eqb (vrest a) (vrest b) && Nat.eqb (vdone a) (vdone b) && Bool.eqb (valive a) (valive b) &&
  effs_eqb (vkill a) (vkill b) &&
  orole_eqb (srole a) (srole b) && effs_eqb (srest a) (srest b) && Bool.eqb (body_done a) (body_done b) &&
  ocrash_eqb (crashed_in a) (crashed_in b) && Bool.eqb (lost a) (lost b).
Definition cmem (s : cstate) (l : list cstate) : bool := existsb (cstate_eqb s) l.

(* ---- fast finite-state computations (bucketed sets; membership inside a bucket is real equality) ---- *)
Definition role_code (r : role) : N :=
  match r with RClaimRun => 1 | RClaimRetry => 2 | RClaimFail => 3 | RClaimCC => 4 | RClaimCCFinal => 5 | RClaimSkip => 6
             | RKill => 7 | RRecPending => 8 | RRecRunning => 9 | RPollRaises => 10 end%N.
Definition ckey (s : cstate) : positive :=
  let f (acc : N) (x : N) := (acc * 16 + x)%N in
  N.succ_pos
    (fold_left f
       [N.of_nat (status_code (cst s)); match cown s with None => 0 | Some x => N.of_nat x end; N.of_nat (cq s);
        match vrole s with None => 0 | Some r => role_code r end; N.of_nat (length (vrest s)); N.of_nat (vdone s);
        if valive s then 1 else 0; N.of_nat (length (vkill s)); match srole s with None => 0 | Some r => role_code r end; N.of_nat (length (srest s));
        if body_done s then 1 else 0;
        match crashed_in s with None => 0 | Some (r, k) => role_code r * 16 + N.of_nat k end;
        if lost s then 1 else 0]%N 0%N).

Definition cset := hset cstate.
Definition cmemh (x : cstate) (m : cset) : bool := hmem cstate cstate_eqb ckey x m.
Definition caddh (x : cstate) (m : cset) : cset := hadd cstate ckey x m.
Definition cindex (l : list cstate) : cset := index_of cstate ckey l.

Section Explore.
Variable step : cstate -> clabel -> cstate.

(* forward exploration (only its RESULT is used: the result is re-checked for closure) *)
Fixpoint cexplore (fuel : nat) (todo seen : list cstate) (m : cset) : list cstate * bool :=
  match fuel with
  | 0 => (seen, match todo with [] => true | _ => false end)
  | S f =>
      match todo with
      | [] => (seen, true)
      | s :: rest =>
          let '(new, m') := fold_left (fun (acc : list cstate * cset) l =>
                                         let x := step s l in
                                         if cmemh x (snd acc) then acc else (fst acc ++ [x], caddh x (snd acc)))
                                      all_clabels ([], m) in
          cexplore f (rest ++ new) (seen ++ new) m'
      end
  end.

Definition cclosed (R : list cstate) : bool :=
  let m := cindex R in forallb (fun s => forallb (fun l => cmemh (step s l) m) all_clabels) R.

(* "finished": a final status, and the body ran to its end at least once (CONCURRENCY_CONTROLLED_FINAL is final by design
   without a run) *)
Definition finished (s : cstate) : bool :=
  doc_final (cst s) && (body_done s || status_eqb (cst s) CONCURRENCY_CONTROLLED_FINAL).

(* backward closure inside R, as an ORDERED list: finished states first, then round by round the states that
   have a live (non-crash) step into the part found so far *)
Fixpoint good_iter (fuel : nat) (R good : list cstate) (gm : cset) : list cstate :=
  match fuel with
  | 0 => good
  | S f =>
      let add := filter (fun s => negb (cmemh s gm) && existsb (fun l => cmemh (step s l) gm) live_labels) R in
      match add with
      | [] => good
      | _ => good_iter f R (good ++ add) (fold_left (fun m x => caddh x m) add gm)
      end
  end.
Definition good_of (R : list cstate) : list cstate :=
  let fin := filter finished R in good_iter (length R) R fin (cindex fin).

(* every member is finished or has a live step into an EARLIER member *)
Fixpoint ranked_from (prefix : cset) (rest : list cstate) : bool :=
  match rest with
  | [] => true
  | s :: rest' => (finished s || existsb (fun l => cmemh (step s l) prefix) live_labels) && ranked_from (caddh s prefix) rest'
  end.
Definition ranked (good : list cstate) : bool := ranked_from (PositiveMap.empty (list cstate)) good.

(* outside `good`: not finished, and every live step stays outside *)
Definition bad_closed (R good : list cstate) : bool :=
  let gm := cindex good in
  forallb (fun s => cmemh s gm || (negb (finished s) && forallb (fun l => negb (cmemh (step s l) gm)) live_labels)) R.
End Explore.

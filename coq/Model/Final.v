(* Model/Final.v — C05.  Workers finishing invocations, zombie executions, external status
   changes and readers, interleaved.  A worker's finishing sequence is generated from the order of
   calls in BaseOrchestrator.set_invocation_result / set_invocation_exception
   (gen/FinalFacts_gen.v): store first then publish the final status, or the other way round. *)
From Coq Require Import List Bool Arith.
Import ListNotations.
From PV Require Import Model.Status Model.Lifecycle.

Inductive outcome : Set := Ok (v : nat) | Err (e : nat).

Inductive wstep : Set := SRunning | SBody | SStore | SPublish.

Record worker : Set := { winv : inv; wrun : runner; wout : outcome; wrest : list wstep }.

Definition finish_prog (store_first : bool) : list wstep :=
  if store_first then [SStore; SPublish] else [SPublish; SStore].

Section Facts.
Variable result_first exc_first : bool.

Definition store_first_for (o : outcome) : bool :=
  match o with Ok _ => result_first | Err _ => exc_first end.

Definition full_prog (o : outcome) : list wstep := SRunning :: SBody :: finish_prog (store_first_for o).

Definition spawn (i : inv) (r : runner) (o : outcome) : worker :=
  {| winv := i; wrun := r; wout := o; wrest := full_prog o |}.

Record observation : Set := { oinv : inv; ostatus : option status; ores : option nat; oexc : option nat }.

Record fworld : Set := {
  fsys : sys;                              (* status records *)
  fres : list (inv * nat);                 (* stored results (last write wins) *)
  fexc : list (inv * nat);                 (* stored exceptions *)
  fworkers : list worker;
  fcompleted : list (inv * outcome);       (* ghost: bodies that ran to completion *)
  fobs : list observation }.

Fixpoint alookup (i : inv) (l : list (inv * nat)) : option nat :=
  match l with
  | [] => None
  | (j, v) :: rest => if Nat.eqb i j then Some v else alookup i rest
  end.

Inductive fstep : Set :=
| FAdv (k : nat)                                         (* worker k performs its next step *)
| FExt (i : inv) (to : status) (rid : option runner)     (* any other actor's status change (not SUCCESS/FAILED) *)
| FSpawn (i : inv) (r : runner) (o : outcome)            (* a runner starts a worker (zombies included) *)
| FRead (i : inv).                                       (* a reader looks at status + stores *)

Fixpoint set_nth (k : nat) (w : worker) (l : list worker) : list worker :=
  match l, k with
  | [], _ => []
  | _ :: rest, 0 => w :: rest
  | x :: rest, S k' => x :: set_nth k' w rest
  end.

Definition with_rest (w : worker) (rest : list wstep) : worker :=
  {| winv := winv w; wrun := wrun w; wout := wout w; wrest := rest |}.

Definition final_of (o : outcome) : status := match o with Ok _ => SUCCESS | Err _ => FAILED end.

Definition try_set (s : sys) (i : inv) (to : status) (rid : option runner) : sys * bool :=
  match step doc_transition s (OSet i to rid) with
  | (s', OutOk) => (s', true)
  | (s', _) => (s', false)
  end.

Definition adv (w : fworld) (k : nat) : fworld :=
  match nth_error (fworkers w) k with
  | None => w
  | Some wk =>
      match wrest wk with
      | [] => w
      | SRunning :: rest =>
          let (s', ok) := try_set (fsys w) (winv wk) RUNNING (Some (wrun wk)) in
          {| fsys := s'; fres := fres w; fexc := fexc w;
             fworkers := set_nth k (with_rest wk (if ok then rest else [])) (fworkers w);
             fcompleted := fcompleted w; fobs := fobs w |}
      | SBody :: rest =>
          {| fsys := fsys w; fres := fres w; fexc := fexc w;
             fworkers := set_nth k (with_rest wk rest) (fworkers w);
             fcompleted := (winv wk, wout wk) :: fcompleted w; fobs := fobs w |}
      | SStore :: rest =>
          {| fsys := fsys w;
             fres := match wout wk with Ok v => (winv wk, v) :: fres w | Err _ => fres w end;
             fexc := match wout wk with Err e => (winv wk, e) :: fexc w | Ok _ => fexc w end;
             fworkers := set_nth k (with_rest wk rest) (fworkers w);
             fcompleted := fcompleted w; fobs := fobs w |}
      | SPublish :: rest =>
          let (s', ok) := try_set (fsys w) (winv wk) (final_of (wout wk)) (Some (wrun wk)) in
          {| fsys := s'; fres := fres w; fexc := fexc w;
             fworkers := set_nth k (with_rest wk (if ok then rest else [])) (fworkers w);
             fcompleted := fcompleted w; fobs := fobs w |}
      end
  end.

Definition is_result_status (s : status) : bool :=
  match s with SUCCESS | FAILED => true | _ => false end.

Definition fstep_run (w : fworld) (s : fstep) : fworld :=
  match s with
  | FAdv k => adv w k
  | FExt i to rid =>
      if is_result_status to then w
      else {| fsys := fst (step doc_transition (fsys w) (OSet i to rid)); fres := fres w; fexc := fexc w;
              fworkers := fworkers w; fcompleted := fcompleted w; fobs := fobs w |}
  | FSpawn i r o =>
      {| fsys := fsys w; fres := fres w; fexc := fexc w; fworkers := fworkers w ++ [spawn i r o];
         fcompleted := fcompleted w; fobs := fobs w |}
  | FRead i =>
      {| fsys := fsys w; fres := fres w; fexc := fexc w; fworkers := fworkers w; fcompleted := fcompleted w;
         fobs := {| oinv := i; ostatus := option_map st (lookup i (recs (fsys w)));
                    ores := alookup i (fres w); oexc := alookup i (fexc w) |} :: fobs w |}
  end.

Definition frun (w : fworld) (l : list fstep) : fworld := fold_left fstep_run l w.
End Facts.

Definition fworld_of (ops0 : list op) : fworld :=
  {| fsys := exec doc_transition sys0 ops0; fres := []; fexc := []; fworkers := []; fcompleted := []; fobs := [] |}.

(* what the reader is entitled to: SUCCESS comes with the value of a completed body, FAILED with the
   exception of a completed body *)
Definition obs_ok (completed : list (inv * outcome)) (o : observation) : Prop :=
  match ostatus o with
  | Some SUCCESS => exists v, ores o = Some v /\ In (oinv o, Ok v) completed
  | Some FAILED => exists e, oexc o = Some e /\ In (oinv o, Err e) completed
  | _ => True
  end.

(* get_final_result *)
Inductive fresult : Set := FValue (v : nat) | FRaise (e : nat) | FNotFinal | FMissing.
Definition get_final_result (checks_final : bool) (o : observation) : fresult :=
  match ostatus o with
  | None => FMissing
  | Some s =>
      if checks_final && negb (doc_final s) then FNotFinal
      else if status_eqb s FAILED then match oexc o with Some e => FRaise e | None => FMissing end
      else match ores o with Some v => FValue v | None => FMissing end
  end.

(* ---- the two outcome stores are independent (generated fact `outcome_stores_independent`: storing a result touches only the
   result store, storing an exception only the exception store).  When they are not — "an invocation has a single outcome:
   storing one kind deletes the other" — a worker's store step also wipes the other store's entry for its invocation. *)
Definition drop_inv (i : inv) (l : list (inv * nat)) : list (inv * nat) := filter (fun p => negb (Nat.eqb (fst p) i)) l.

Definition wipe_other (w w' : fworld) (s : fstep) : fworld :=
  match s with
  | FAdv k =>
      match nth_error (fworkers w) k with
      | Some wk =>
          match wrest wk with
          | SStore :: _ =>
              {| fsys := fsys w';
                 fres := match wout wk with Err _ => drop_inv (winv wk) (fres w') | Ok _ => fres w' end;
                 fexc := match wout wk with Ok _ => drop_inv (winv wk) (fexc w') | Err _ => fexc w' end;
                 fworkers := fworkers w'; fcompleted := fcompleted w'; fobs := fobs w' |}
          | _ => w'
          end
      | None => w'
      end
  | _ => w'
  end.

Definition fstep_run2 (result_first exc_first independent : bool) (w : fworld) (s : fstep) : fworld :=
  let w' := fstep_run result_first exc_first w s in
  if independent then w' else wipe_other w w' s.
Definition frun2 (result_first exc_first independent : bool) (w : fworld) (l : list fstep) : fworld :=
  fold_left (fstep_run2 result_first exc_first independent) l w.

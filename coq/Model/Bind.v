(* Model/Bind.v — C15: pynenc/arguments.py:Arguments.from_call =
   inspect.signature(func).bind of the positional and keyword arguments, then apply_defaults, for
   positional-or-keyword and keyword-only parameters.  Names and values are tokens (N).
   bind_cfg is instantiated by gen/Roundtrip_gen.v.  Definitions only. *)
From Coq Require Import List NArith Bool.
Import ListNotations.
Open Scope N_scope.

Record param : Set := { pname : N; kwonly : bool; pdefault : option N }.
Record bind_cfg : Set := { apply_defaults : bool }.

Fixpoint lookupN (k : N) (l : list (N * N)) : option N :=
  match l with
  | [] => None
  | (k', v) :: r => if k =? k' then Some v else lookupN k r
  end.

Definition memN (k : N) (l : list N) : bool := existsb (N.eqb k) l.

Fixpoint nodupN (l : list N) : bool :=
  match l with [] => true | x :: r => negb (memN x r) && nodupN r end.

Definition consr (kv : N * N) (r : option (list (N * N))) : option (list (N * N)) :=
  match r with Some l => Some (kv :: l) | None => None end.

(* parameters in declaration order; positionals consumed first, then keywords, then defaults *)
Fixpoint bind_go (c : bind_cfg) (sig : list param) (pos : list N) (kws : list (N * N))
  : option (list (N * N)) :=
  match sig with
  | [] => match pos with [] => Some [] | _ :: _ => None end          (* too many positional *)
  | p :: sig' =>
    match pos with
    | v :: pos' =>
        if kwonly p then None                                         (* too many positional *)
        else match lookupN (pname p) kws with
             | Some _ => None                                         (* multiple values *)
             | None => consr (pname p, v) (bind_go c sig' pos' kws)
             end
    | [] =>
        match lookupN (pname p) kws with
        | Some v => consr (pname p, v) (bind_go c sig' [] kws)
        | None =>
          match pdefault p with
          | Some d => if apply_defaults c then consr (pname p, d) (bind_go c sig' [] kws)
                      else bind_go c sig' [] kws
          | None => None                                              (* missing argument *)
          end
        end
    end
  end.

(* unexpected keyword -> error; a Python call cannot repeat a keyword *)
Definition bind (c : bind_cfg) (sig : list param) (pos : list N) (kws : list (N * N))
  : option (list (N * N)) :=
  if forallb (fun kv => memN (fst kv) (map pname sig)) kws && nodupN (map fst kws)
  then bind_go c sig pos kws else None.

(* Specification of "a spelling of the call whose full argument list is args": a prefix of
   the positional-or-keyword parameters is written positionally; every other parameter is
   written by keyword (anywhere in the keyword dict) or omitted when its value is its default. *)
Inductive spelled : list param -> list N -> list N -> list (N * N) -> Prop :=
| sp_nil : forall kws, spelled [] [] [] kws
| sp_pos : forall p sig v args pos kws,
    kwonly p = false -> lookupN (pname p) kws = None ->
    spelled sig args pos kws -> spelled (p :: sig) (v :: args) (v :: pos) kws
| sp_kw : forall p sig v args kws,
    lookupN (pname p) kws = Some v ->
    spelled sig args [] kws -> spelled (p :: sig) (v :: args) [] kws
| sp_default : forall p sig v args kws,
    lookupN (pname p) kws = None -> pdefault p = Some v ->
    spelled sig args [] kws -> spelled (p :: sig) (v :: args) [] kws.

Definition kws_ok (sig : list param) (kws : list (N * N)) : Prop :=
  forallb (fun kv => memN (fst kv) (map pname sig)) kws && nodupN (map fst kws) = true.

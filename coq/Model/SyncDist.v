(* Model/SyncDist.v — C19: a small task language and two interpreters.

   A program is a tree of task bodies.  One execution of a body (attempt k, counted per invocation)
   first looks up its scripted action for that attempt (raise before doing anything / run normally /
   run and raise at the end), then executes its statements in order and returns base + the values of
   the statements.  Statements: call a sub-task and read its result; call a sub-task and never read the
   result; parallelize a group of sub-tasks and sum the results; call a direct task (plain value);
   call a direct task with parallel_func/aggregate_func.

   run_sync  mirrors ConcurrentInvocation (pynenc/invocation/conc_invocation.py): an invocation is
             executed when (and only when) its .result is read; the retry loop is the recursion inside
             `result` with the in-object counter _num_retries.
   run_dist  mirrors DistributedInvocation.run + BaseOrchestrator.set_invocation_retry + a runner: every
             launched invocation is executed; a retriable failure publishes RETRY, bumps the orchestrator
             counter and re-queues; the reader gets the stored value, or the stored exception after it
             went through the state backend's exception serialiser (`tr`, an oracle).
   Both retry loops are the SAME function `loop` instantiated with the comparison / increment / re-queue
   facts GENERATED from the two source files (gen/SyncDist_gen.v), so an edit of either retry test
   changes the term the theorems talk about.

   Bodies are pure, so the result of an invocation does not depend on scheduling; the order of the
   execution log is a convention (only the per-node counts are compared with the implementation). *)
From Coq Require Import List Bool Arith.
Import ListNotations.
From PV Require Import gen.SyncDist_gen.

(* exception = (kind, argument token); kind 0 = RetryError, 1 = ValueError, 2 = KeyError, 3 = RuntimeError;
   argument token 0 = no arguments, n = ("e", n) *)
Record exn : Set := mkExn { ekind : nat; earg : nat }.

Inductive action : Set := AOk | ABefore (e : exn) | AAfter (e : exn).

Record header : Set := mkH {
  nid : nat;                 (* node id (what the execution log records) *)
  maxr : nat;                (* task option max_retries *)
  rfor : list nat;           (* task option retry_for, as exception kinds ([] = option absent) *)
  base : nat;                (* the value the body computes from its own arguments *)
  script : list action;      (* action of execution 1, 2, ... of one invocation *)
  dflt : action              (* action of every later execution *)
}.

Inductive prog : Set := Node (h : header) (b : stmts)
with stmts : Set := SNil | SCons (s : stmt) (r : stmts)
with stmt : Set :=
  | SCall (p : prog)         (* v = t(args).result *)
  | SFire (p : prog)         (* t(args)            -- result never requested *)
  | SGroup (g : progs)       (* v = sum(t.parallelize([...]).results) *)
  | SDirect (p : prog)       (* v = direct_t(args) *)
  | SDirectPar (g : progs)   (* v = direct_t_with_parallel_func(args) *)
with progs : Set := PNil | PCons (p : prog) (g : progs).

Inductive outcome : Set := Val (v : nat) | Exc (e : exn) | Hang.

(* what running an invocation to its end yields: outcome, body executions (node ids, all invocations
   it caused included), num_retries of the invocation, number of executions of its own body *)
Record res : Set := mkR { out : outcome; log : list nat; retries : nat; execs : nat }.

Definition type_error : exn := mkExn 9 0.

Definition retriable (h : header) (e : exn) : bool := gen_retriable (rfor h) (ekind e).

Definition addv (v : nat) (o : outcome) : outcome :=
  match o with Val w => Val (v + w) | _ => o end.

Section Loop.
  Variable exhausted : nat -> nat -> bool.   (* the max-retries test: counter, max_retries *)
  Variable incr : nat.                       (* what one retry adds to the counter *)
  Variable requeue : bool.                   (* the retried invocation is scheduled again *)
  Variable h : header.
  Variable child : outcome * list nat.       (* the statements of the body: outcome and executions *)

  (* the k-th execution (k = 1, 2, ...) of the body of one invocation *)
  Definition attempt (k : nat) : outcome * list nat :=
    match nth (k - 1) (script h) (dflt h) with
    | ABefore e => (Exc e, [nid h])
    | AOk => (addv (base h) (fst child), nid h :: snd child)
    | AAfter e => (match fst child with Val _ => Exc e | o => o end, nid h :: snd child)
    end.

  (* k = executions so far, r = retry counter *)
  Fixpoint loop (fuel k r : nat) : res :=
    match fuel with
    | 0 => mkR Hang [] r k
    | S f =>
        let a := attempt (S k) in
        match fst a with
        | Exc e =>
            if retriable h e then
              if exhausted r (maxr h) then mkR (Exc e) (snd a) r (S k)
              else if requeue then
                let x := loop f (S k) (r + incr) in
                mkR (out x) (snd a ++ log x) (retries x) (execs x)
              else mkR Hang (snd a) (r + incr) (S k)
            else mkR (Exc e) (snd a) r (S k)
        | o => mkR o (snd a) r (S k)
        end
    end.
End Loop.

Definition fuel_of (h : header) : nat := maxr h + 3.

Definition pid (p : prog) : nat := match p with Node h _ => nid h end.

(* Two members of ONE group that carry the same node id stand for the same argument set (the harness gives
   equal ids only to equal specs, i.e. to calls with the same call_id).  task.py distribute_calls, in the
   dev_mode_force_sync_tasks branch, makes every element of the parallelized list its own fresh invocation
   (generated fact gen_sync_group_own_invocations); were it to hand the group the invocation of an earlier
   element with the same arguments instead, that element's body would not run again (a ConcurrentInvocation
   caches its result): `shared_sync seen p` = member p re-uses the invocation of an earlier member. *)
Definition shared_sync (seen : list nat) (p : prog) : bool :=
  negb gen_sync_group_own_invocations && existsb (Nat.eqb (pid p)) seen.

(* ------------------------------------------------------------------ sync development mode *)
Fixpoint sync_prog (p : prog) : res :=
  match p with
  | Node h b => loop gen_sync_exhausted gen_sync_incr true h (sync_stmts b) (fuel_of h) 0 0
  end
with sync_stmts (b : stmts) : outcome * list nat :=
  match b with
  | SNil => (Val 0, [])
  | SCons s r =>
      let a := sync_stmt s in
      match fst a with
      | Val v => let c := sync_stmts r in (addv v (fst c), snd a ++ snd c)
      | o => (o, snd a)
      end
  end
with sync_stmt (s : stmt) : outcome * list nat :=
  match s with
  | SCall p => let x := sync_prog p in (out x, log x)
  | SFire p => (Val 0, [])                       (* never read => never executed *)
  | SGroup g => sync_group [] g
  | SDirect p =>
      if gen_direct_returns_result then let x := sync_prog p in (out x, log x)
      else (Exc type_error, [])
  | SDirectPar g =>
      if gen_direct_par_aggregates then sync_group [] g else (Exc type_error, [])
  end
with sync_group (seen : list nat) (g : progs) {struct g} : outcome * list nat :=
  (* the lazy `results` generator; seen = ids of the earlier members of this group *)
  match g with
  | PNil => (Val 0, [])
  | PCons p r =>
      let x := sync_prog p in
      let lg := if shared_sync seen p then [] else log x in   (* a shared invocation does not run again *)
      match out x with
      | Val v => let c := sync_group (pid p :: seen) r in (addv v (fst c), lg ++ snd c)
      | o => (o, lg)
      end
  end.

Definition run_sync (p : prog) : res := sync_prog p.

(* ------------------------------------------------------------------ distributed *)
Section Dist.
  Variable tr : exn -> exn.      (* oracle: exception serialise + deserialise of the state backend *)

  Definition read (o : outcome) : outcome :=
    match o with Exc e => Exc (tr e) | _ => o end.

  Fixpoint dist_prog (p : prog) : res :=
    match p with
    | Node h b =>
        loop gen_dist_exhausted gen_dist_incr gen_dist_requeues h (dist_stmts b) (fuel_of h) 0 0
    end
  with dist_stmts (b : stmts) : outcome * list nat :=
    match b with
    | SNil => (Val 0, [])
    | SCons s r =>
        let a := dist_stmt s in
        match fst a with
        | Val v => let c := dist_stmts r in (addv v (fst c), snd a ++ snd c)
        | o => (o, snd a)
        end
    end
  with dist_stmt (s : stmt) : outcome * list nat :=
    match s with
    | SCall p => let x := dist_prog p in (read (out x), log x)
    | SFire p => (Val 0, log (dist_prog p))        (* launched => executed by the runner *)
    | SGroup g => dist_group g
    | SDirect p =>
        let x := dist_prog p in
        (if gen_direct_returns_result then read (out x) else Exc type_error, log x)
    | SDirectPar g =>
        let c := dist_group g in
        (if gen_direct_par_aggregates then fst c else Exc type_error, snd c)
    end
  with dist_group (g : progs) : outcome * list nat :=  (* every member runs; first failure in order *)
    match g with
    | PNil => (Val 0, [])
    | PCons p r =>
        let x := dist_prog p in
        let c := dist_group r in
        (match read (out x) with Val v => addv v (fst c) | o => o end, log x ++ snd c)
    end.

  Definition run_dist (p : prog) : res :=
    let x := dist_prog p in mkR (read (out x)) (log x) (retries x) (execs x).
End Dist.

(* ------------------------------------------------------------------ the guard of the equivalence:
   every launched invocation's result is requested — no fire-and-forget call, and in a group no
   member after one that fails (the lazy generator stops there).  Repeated members (equal ids) are NOT
   excluded: each element of a group is its own invocation in both modes. *)
Definition succeeds (p : prog) : bool :=
  match out (sync_prog p) with Val _ => true | _ => false end.

Definition is_pnil (g : progs) : bool := match g with PNil => true | _ => false end.

Fixpoint req_prog (p : prog) : bool :=
  match p with Node _ b => req_stmts b end
with req_stmts (b : stmts) : bool :=
  match b with SNil => true | SCons s r => req_stmt s && req_stmts r end
with req_stmt (s : stmt) : bool :=
  match s with
  | SCall p => req_prog p
  | SFire _ => false
  | SGroup g => req_group g
  | SDirect p => req_prog p
  | SDirectPar g => req_group g
  end
with req_group (g : progs) : bool :=
  match g with
  | PNil => true
  | PCons p r => req_prog p && (succeeds p || is_pnil r) && req_group r
  end.

Definition count (i : nat) (l : list nat) : nat := length (filter (Nat.eqb i) l).

(* ------------------------------------------------------------------ the retry race
   BaseOrchestrator.set_invocation_retry publishes RETRY (a status the runner may pick up: the blocking path
   serves a waiting parent at once) and only then increments the counter, unless the generated fact says the
   increment comes first.  Under the schedule "re-run before the increment lands" the max-retries test of the
   next execution reads the counter without the retry being published. *)
Definition lagging_view (n : nat) : nat := if gen_retry_incr_before_publish then n else pred n.

Definition dist_leaf_racy (h : header) : res :=
  loop (fun n m => gen_dist_exhausted (lagging_view n) m) gen_dist_incr gen_dist_requeues
       h (Val 0, []) (fuel_of h) 0 0.

(* ------------------------------------------------------------------ options and parallelized lists
   The interpreters take a task's declared header at face value and let the distributed group run EVERY member
   with exactly its own arguments.  Three facts of the source carry that, each generated from the code:
   * a direct task is registered with the options its decorator was given: gen_direct_option (declared, app-level)
     is what Pynenc.direct_task hands to self.task after filtering its option dict;
   * distribute_batch_calls routes gen_batch_count n b batches of b calls, batch k starting at k*b: `routed`
     is the number of the n calls that reach the orchestrator;
   * prepare_arguments merges each call's parameters over a fresh copy of common_args. *)
Definition direct_header (app : nat) (h : header) : header :=
  mkH (nid h) (gen_direct_option (maxr h) app) (rfor h) (base h) (script h) (dflt h).

Definition routed (n b : nat) : nat := Nat.min n (gen_batch_count n b * b).

(* keyword arguments as (key, value) lists; update = per-call parameters over the base *)
Fixpoint kw_set (k v : nat) (d : list (nat * nat)) : list (nat * nat) :=
  match d with
  | [] => [(k, v)]
  | (k', v') :: r => if Nat.eqb k k' then (k, v) :: r else (k', v') :: kw_set k v r
  end.
Definition kw_update (d p : list (nat * nat)) : list (nat * nat) :=
  fold_left (fun acc kv => kw_set (fst kv) (snd kv) acc) p d.
(* what the calls of one parallelized list receive: fresh copy per call, or one dict updated in place *)
Fixpoint merged_calls (fresh : bool) (cur common : list (nat * nat)) (calls : list (list (nat * nat)))
  : list (list (nat * nat)) :=
  match calls with
  | [] => []
  | p :: r => let m := kw_update (if fresh then common else cur) p in m :: merged_calls fresh m common r
  end.
Definition received_kwargs (common : list (nat * nat)) (calls : list (list (nat * nat))) :=
  merged_calls gen_common_args_fresh_per_call common common calls.

(* ------------------------------------------------------------------ helpers for the harness *)
(* serialiser oracle instance measured on the implementation: kinds whose arguments are dropped *)
Definition tr_drop (kinds : list nat) (e : exn) : exn :=
  if existsb (Nat.eqb (ekind e)) kinds then mkExn (ekind e) 0 else e.

Definition render_out (o : outcome) : list nat :=
  match o with Val v => [0; v; 0] | Exc e => [1; ekind e; earg e] | Hang => [2; 0; 0] end.

Definition render (x : res) : list (list nat) :=
  [render_out (out x); log x; [retries x; execs x]].

Definition leaf (i m : nat) (rf : list nat) (sc : list action) (d : action) : prog :=
  Node (mkH i m rf 1 sc d) SNil.

(* Model/AtomicArith.v — C12: the arithmetic interface the generated slot functions
   (gen/AtomicService_gen.v, translated from pynenc/orchestrator/atomic_service.py) are written
   against, and its two instances:
     QA  : exact rationals (the algorithm as intended);
     F64 : IEEE-754 binary64 through Coq's primitive floats, same operation order as Python
           (the algorithm as executed; bit-exact, incl. Python's float `%` for non-negative
           operands, which is computed here exactly on mantissa/exponent pairs).
   Definitions only. *)
From Coq Require Import ZArith QArith Qround List Bool.
From Coq Require PrimFloat Uint63 FloatOps SpecFloat.
Import ListNotations.

Record Arith : Type := {
  T : Type;
  add : T -> T -> T;
  sub : T -> T -> T;
  mul : T -> T -> T;
  div : T -> T -> T;
  fmod : T -> T -> T;        (* Python `x % y` for x >= 0, y > 0 *)
  ofZ : Z -> T;              (* Python int -> float conversion (exact below 2^53) *)
  leb : T -> T -> bool;
  ltb : T -> T -> bool }.

(* ---------------------------------------------------------------- exact rationals *)
Definition qmod (x y : Q) : Q := x - y * inject_Z (Qfloor (x / y)).

Definition QA : Arith := {|
  T := Q; add := Qplus; sub := Qminus; mul := Qmult; div := Qdiv; fmod := qmod;
  ofZ := inject_Z; leb := Qle_bool; ltb := fun x y => negb (Qle_bool y x) |}.

(* ---------------------------------------------------------------- binary64 *)
Definition mkf (m e : Z) : PrimFloat.float :=
  FloatOps.Z.ldexp (PrimFloat.of_uint63 (Uint63.of_Z m)) e.

(* C fmod on positive finite doubles is exact: the remainder of the two dyadic rationals,
   computed on integers and converted back (it has at most 53 significant bits). *)
Definition fmod_pos (x y : PrimFloat.float) : PrimFloat.float :=
  match FloatOps.Prim2SF x, FloatOps.Prim2SF y with
  | SpecFloat.S754_finite false mx ex, SpecFloat.S754_finite false my ey =>
      if (ex >=? ey)%Z then mkf ((Zpos mx * 2 ^ (ex - ey)) mod Zpos my) ey
      else mkf (Zpos mx mod (Zpos my * 2 ^ (ey - ex))) ex
  | SpecFloat.S754_zero false, SpecFloat.S754_finite false _ _ => x
  | _, _ => PrimFloat.nan
  end.

Definition F64 : Arith := {|
  T := PrimFloat.float; add := PrimFloat.add; sub := PrimFloat.sub; mul := PrimFloat.mul;
  div := PrimFloat.div; fmod := fmod_pos;
  ofZ := fun z => PrimFloat.of_uint63 (Uint63.of_Z z);
  leb := PrimFloat.leb; ltb := PrimFloat.ltb |}.

(* rendering of a double for the harness: [sign; mantissa; exponent] (value = m * 2^e) *)
Definition render (f : PrimFloat.float) : list Z :=
  match FloatOps.Prim2SF f with
  | SpecFloat.S754_finite s m e => [if s then 1 else 0; Zpos m; e]
  | SpecFloat.S754_zero s => [if s then 1 else 0; 0; 0]
  | SpecFloat.S754_infinity s => [if s then 1 else 0; -1; 0]
  | SpecFloat.S754_nan => [2; 0; 0]
  end%Z.

(* ---------------------------------------------------------------- the active-runner list *)
(* runner ids are integers; the list is the one returned by get_active_runners (ordered by
   creation time).  Mirror of calculate_runner_position: index of the FIRST entry with that id. *)
Fixpoint position_from (k : Z) (rid : Z) (ids : list Z) : option Z :=
  match ids with
  | [] => None
  | x :: rest => if (x =? rid)%Z then Some k else position_from (k + 1)%Z rid rest
  end.
Definition position (rid : Z) (ids : list Z) : option Z := position_from 0%Z rid ids.

Definition is_empty {X} (l : list X) : bool := match l with [] => true | _ => false end.
Definition len {X} (l : list X) : Z := Z.of_nat (length l).

(* which expression the source uses for the end of a slot (decided by the translator on the
   normalised AST; `Proofs/AtomicServiceProofs.v` re-checks the claim by conversion) *)
Inductive end_form : Set := SumForm | NextStartForm | OtherForm.

(* Model/CrashSpec.v — C03: the statement-level vocabulary over the crash machine of Model/Crash.v:
   the crash windows, what counts as explained, the check that is run once on the computed sets,
   reachability and "can still finish". *)
From Coq Require Import List Bool Arith PArith FMapPositive.
Import ListNotations.
From PV Require Import Base.HashSet Model.Status Model.Crash.

(* the crash windows: (program of the victim, number of its effects already performed) *)
Definition windows : list (role * nat) :=
  [ (RClaimRun, 1); (RClaimRetry, 1); (RClaimFail, 1); (RClaimCC, 1); (RClaimCCFinal, 1);   (* message popped, status not yet written *)
    (RClaimCC, 2);                                    (* CONCURRENCY_CONTROLLED written, not yet REROUTED *)
    (RClaimCC, 3);                                    (* REROUTED written, not yet re-queued *)
    (RClaimRetry, 6);                                 (* RETRY written, not yet re-queued *)
    (RKill, 1); (RKill, 2);                           (* KILLED written / REROUTED written, not yet re-queued *)
    (RRecPending, 1); (RRecPending, 2);               (* PENDING_RECOVERY written / REROUTED written, not yet re-queued *)
    (RRecRunning, 1); (RRecRunning, 2) ].             (* RUNNING_RECOVERY written / REROUTED written, not yet re-queued *)

Definition raising (r : option role) (rest : list eff) (s : cstate) : bool :=
  is_cc r && match rest with ETrans t :: _ => negb (doc_edge (cst s) t) | _ => false end.
Definition about_to_raise (s : cstate) : bool :=
  (valive s && raising (vrole s) (vrest s) s) || raising (srole s) (srest s) s.
Definition in_window (s : cstate) : bool :=
  match crashed_in s with
  | Some (r, k) => existsb (fun w => role_eqb (fst w) r && Nat.eqb (snd w) k) windows
  | None => false
  end.
Definition explained (s : cstate) : bool := lost s || about_to_raise s || in_window s.
Definition unexplained_by (s : cstate) (w : role * nat) : bool :=
  negb (lost s) && negb (about_to_raise s) && ocrash_eqb (crashed_in s) (Some w).

Definition inits : list cstate := [cinit; cinit_x].

Section Steps.
Variable step : cstate -> clabel -> cstate.

Definition check_all_on (R G : list cstate) : bool :=
  let gm := cindex G in
  let rm := cindex R in
  cmemh cinit rm && cmemh cinit_x rm &&
  cclosed step R && ranked step G && bad_closed step R G &&
  forallb (fun s => cmemh s gm || explained s) R &&
  forallb (fun w => existsb (fun s => negb (cmemh s gm) && unexplained_by s w) R) windows.

Definition crun (s : cstate) (ls : list clabel) : cstate := fold_left step ls s.
Definition reach (x : cstate) : Prop := exists s0 ls, In s0 inits /\ x = crun s0 ls.
Definition can_finish (s : cstate) : Prop :=
  exists ls, Forall (fun l => In l live_labels) ls /\ finished (crun s ls) = true.
End Steps.

(* Model/CDS.v — C15: pynenc/client_data_store/base_client_data_store.py (serialize, resolve,
   _maybe_store, _generate_key, _resolve_reference, _cache_deserialized) over the dict / table
   store of Mem/SQLiteClientDataStore.  Python objects live in a heap (address -> value) so
   that the process-local LRU of DESERIALISED OBJECTS can alias them; the facts record
   (comparison operators, prefix, what the LRU holds, whether _maybe_store writes the backend row
   unconditionally or skips keys remembered in a process-local set, whether purge() forgets that
   set) is generated from the source (gen/Roundtrip_gen.v), the conf record is the run-time
   configuration.  The backend (store) is shared between store instances; the LRU and the
   remembered-key set are local to one instance: OResCold is the resolution by ANOTHER instance
   (a worker: empty LRU, same backend), OPurge the purge() of this instance, OPurgeExt a purge of
   the backend by another instance.  Definitions only. *)
From Coq Require Import List NArith Bool.
Import ListNotations.
From PV Require Import Model.ArgsId.
Open Scope N_scope.

Inductive cmp_lo : Set := CLt | CLe.        (* size <  min  /  size <= min  -> inline *)
Inductive cmp_hi : Set := CGt | CGe.        (* size >  max  /  size >= max  -> inline *)

Record cds_facts : Set := {
  inline_cmp : cmp_lo;
  over_cmp : cmp_hi;
  lru_holds_object : bool;    (* true: the LRU keeps the Python object itself; false: the serialized text *)
  ref_passthrough : bool;     (* a str that already is a reference is returned as it is *)
  ref_prefix : str;           (* ReservedKeys.CLIENT_DATA *)
  ref_sep : str;              (* the colon between prefix and digest *)
  store_skip_known : bool;    (* true: _maybe_store skips the backend write for a key found in a process-local
                                 "already stored" set; false: every externalisation writes the row *)
  purge_clears_known : bool   (* purge() of the instance also forgets that set (irrelevant when it does not exist) *)
}.

Record cds_conf : Set := { disabled : bool; min_size : N; max_size : N; lru_cap : N }.

Inductive cached : Set := CObj (a : N) | CText (s : str).

Fixpoint starts_with (p s : str) : bool :=
  match p, s with
  | [], _ => true
  | _ :: _, [] => false
  | x :: p', y :: s' => (x =? y) && starts_with p' s'
  end.

Definition lo (c : cmp_lo) (size m : N) : bool := match c with CLt => size <? m | CLe => size <=? m end.
Definition hi (c : cmp_hi) (size m : N) : bool := match c with CGt => m <? size | CGe => m <=? size end.

(* _maybe_store: true = stored externally *)
Definition route (f : cds_facts) (c : cds_conf) (size : N) : bool :=
  if lo (inline_cmp f) size (min_size c) then false
  else if (0 <? max_size c) && hi (over_cmp f) size (max_size c) then false
  else true.

Fixpoint lookupS {A : Type} (k : str) (l : list (str * A)) : option A :=
  match l with
  | [] => None
  | (k', v) :: r => if str_eqb k k' then Some v else lookupS k r
  end.

Fixpoint upsertS {A : Type} (k : str) (v : A) (l : list (str * A)) : list (str * A) :=
  match l with
  | [] => [(k, v)]
  | (k', v') :: r => if str_eqb k k' then (k, v) :: r else (k', v') :: upsertS k v r
  end.

Fixpoint removeS {A : Type} (k : str) (l : list (str * A)) : list (str * A) :=
  match l with
  | [] => []
  | (k', v') :: r => if str_eqb k k' then removeS k r else (k', v') :: removeS k r
  end.

Fixpoint memS (k : str) (l : list str) : bool :=
  match l with [] => false | k' :: r => str_eqb k k' || memS k r end.

Fixpoint lookupA {A : Type} (k : N) (l : list (N * A)) : option A :=
  match l with
  | [] => None
  | (k', v) :: r => if k =? k' then Some v else lookupA k r
  end.

(* OrderedDict, oldest first.  _cache_deserialized: evict the oldest when len >= capacity,
   then cache[key] = x (an existing key keeps its position). *)
Definition lru_put {A : Type} (cap : N) (k : str) (x : A) (l : list (str * A)) : list (str * A) :=
  let l1 := if cap <=? N.of_nat (length l) then tl l else l in
  match lookupS k l1 with
  | Some _ => upsertS k x l1
  | None => l1 ++ [(k, x)]
  end.

Definition lru_touch {A : Type} (k : str) (x : A) (l : list (str * A)) : list (str * A) :=
  removeS k l ++ [(k, x)].                         (* move_to_end *)

Section CDS.
  Variable V : Type.
  Variable ser : V -> str.                 (* app.serializer.serialize *)
  Variable deser : str -> V.               (* app.serializer.deserialize *)
  Variable as_ref : V -> option str.       (* Some s: the object is the str s and s is a reference *)
  Variable H : str -> str.                 (* hex SHA-256 of the UTF-8 text *)

  Record cds_st : Type := {
    store : list (str * str);              (* reference key -> serialized content *)
    lru : list (str * cached);
    heap : list (N * V);                   (* live Python objects *)
    next : N;
    known : list str }.                    (* keys this instance remembers having written (only used when store_skip_known) *)

  Definition st0 : cds_st := {| store := []; lru := []; heap := []; next := 0; known := [] |}.

  Definition mkkey (f : cds_facts) (s : str) : str := ref_prefix f ++ ref_sep f ++ H s.
  Definition is_ref (f : cds_facts) (d : str) : bool := starts_with (ref_prefix f) d.
  Definition slen (s : str) : N := N.of_nat (length s).

  Definition alloc (st : cds_st) (v : V) : cds_st * N :=
    ({| store := store st; lru := lru st; heap := (next st, v) :: heap st; next := next st + 1; known := known st |}, next st).

  Definition entry (f : cds_facts) (a : N) (s : str) : cached :=
    if lru_holds_object f then CObj a else CText s.

  (* serialize(obj, disable_cache) for a client object with value v (allocated at a fresh address) *)
  Definition serialize (f : cds_facts) (c : cds_conf) (st : cds_st) (v : V) (dis : bool) : cds_st * str :=
    let (st1, a) := alloc st v in
    if disabled c || dis then (st1, ser v)
    else match (if ref_passthrough f then as_ref v else None) with
    | Some s => (st1, s)
    | None =>
      let s := ser v in
      if route f c (slen s) then
        let k := mkkey f s in
        ({| store := if store_skip_known f && memS k (known st1) then store st1 else upsertS k s (store st1);
            lru := lru_put (lru_cap c) k (entry f a s) (lru st1);
            heap := heap st1; next := next st1;
            known := if store_skip_known f then k :: known st1 else known st1 |}, k)
      else (st1, s)
    end.

  (* resolve(data): the address of the object handed to the caller (None = KeyError) *)
  Definition resolve (f : cds_facts) (c : cds_conf) (st : cds_st) (d : str) : cds_st * option N :=
    if is_ref f d then
      match lookupS d (lru st) with
      | Some (CObj a) =>
          ({| store := store st; lru := lru_touch d (CObj a) (lru st); heap := heap st; next := next st; known := known st |}, Some a)
      | Some (CText s) =>
          let (st1, a) := alloc st (deser s) in
          ({| store := store st1; lru := lru_touch d (CText s) (lru st1); heap := heap st1; next := next st1; known := known st1 |}, Some a)
      | None =>
        match lookupS d (store st) with
        | None => (st, None)
        | Some s =>
          let (st1, a) := alloc st (deser s) in
          ({| store := store st1; lru := lru_put (lru_cap c) d (entry f a s) (lru st1);
              heap := heap st1; next := next st1; known := known st1 |}, Some a)
        end
      end
    else let (st1, a) := alloc st (deser d) in (st1, Some a).

  (* resolve(data) on ANOTHER store instance over the same backend (a worker process, a fresh app on the
     same database): its LRU is empty, only the backend row counts; this instance's LRU is untouched *)
  Definition resolve_cold (f : cds_facts) (st : cds_st) (d : str) : cds_st * option N :=
    if is_ref f d then
      match lookupS d (store st) with
      | None => (st, None)
      | Some s => let (st1, a) := alloc st (deser s) in (st1, Some a)
      end
    else let (st1, a) := alloc st (deser d) in (st1, Some a).

  (* purge() of this instance: LRU and backend are emptied; the remembered keys only if the source says so *)
  Definition purge_own (f : cds_facts) (st : cds_st) : cds_st :=
    {| store := []; lru := []; heap := heap st; next := next st;
       known := if purge_clears_known f then [] else known st |}.

  (* purge() of another instance on the same backend: only the shared rows disappear *)
  Definition purge_ext (st : cds_st) : cds_st :=
    {| store := []; lru := lru st; heap := heap st; next := next st; known := known st |}.

  (* operations: serialize a value, resolve a text, mutate a live object in place, resolve on another
     instance, purge by this instance, purge by another instance *)
  Inductive op : Type := OSer (v : V) (dis : bool) | ORes (d : str) | OMut (a : N) (v : V)
                       | OResCold (d : str) | OPurge | OPurgeExt.
  Inductive out : Type := OutText (s : str) | OutObj (a : N) | OutErr | OutUnit.

  Fixpoint set_heap (a : N) (v : V) (h : list (N * V)) : list (N * V) :=
    match h with
    | [] => []
    | (a', v') :: r => if a =? a' then (a, v) :: r else (a', v') :: set_heap a v r
    end.

  Definition step (f : cds_facts) (c : cds_conf) (st : cds_st) (o : op) : cds_st * out :=
    match o with
    | OSer v dis => let (st', d) := serialize f c st v dis in (st', OutText d)
    | ORes d => match resolve f c st d with (st', Some a) => (st', OutObj a) | (st', None) => (st', OutErr) end
    | OMut a v => ({| store := store st; lru := lru st; heap := set_heap a v (heap st); next := next st; known := known st |}, OutUnit)
    | OResCold d => match resolve_cold f st d with (st', Some a) => (st', OutObj a) | (st', None) => (st', OutErr) end
    | OPurge => (purge_own f st, OutUnit)
    | OPurgeExt => (purge_ext st, OutUnit)
    end.

  Fixpoint run (f : cds_facts) (c : cds_conf) (st : cds_st) (ops : list op) : cds_st :=
    match ops with [] => st | o :: r => run f c (fst (step f c st o)) r end.

  (* observations for the harness: the text returned / the address and CURRENT value of the object
     handed out / KeyError / nothing *)
  Definition obs_of (st' : cds_st) (o : out) : list N :=
    match o with
    | OutText s => 0 :: s
    | OutObj a => 1 :: a :: match lookupA a (heap st') with Some v => ser v | None => [] end
    | OutErr => [2]
    | OutUnit => [3]
    end.

  Fixpoint run_obs (f : cds_facts) (c : cds_conf) (st : cds_st) (ops : list op) : list (list N) * cds_st :=
    match ops with
    | [] => ([], st)
    | o :: r =>
      let (st', ou) := step f c st o in
      let (l, stf) := run_obs f c st' r in (obs_of st' ou :: l, stf)
    end.

  Definition is_mut (o : op) : bool := match o with OMut _ _ => true | _ => false end.
  Definition is_purge (o : op) : bool := match o with OPurge | OPurgeExt => true | _ => false end.
  Definition op_text (o : op) : list str := match o with OSer v _ => [ser v] | _ => [] end.
End CDS.

Arguments store {V}. Arguments lru {V}. Arguments heap {V}. Arguments next {V}. Arguments known {V}.
Arguments OSer {V}. Arguments ORes {V}. Arguments OMut {V}. Arguments OResCold {V}. Arguments OPurge {V}. Arguments OPurgeExt {V}.

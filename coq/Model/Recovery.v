(* Model/Recovery.v — C04.  The two recovery scans (in-memory index version and SQL version) and the
   recovery run of pynenc/core_tasks.py (scan; mark each selected invocation *_RECOVERY; then
   REROUTED + queue push for every marked one), over the lifecycle step of Model/Status.v.
   Comparison operators, the treatment of never-heartbeated owners and the handling of a lost race
   are parameters that come from gen/RecoveryFacts_gen.v. *)
From Coq Require Import List Bool Arith ZArith.
Import ListNotations.
From PV Require Import Model.Status.
Open Scope Z_scope.

Definition inv := nat.
Record rrec : Set := { rst : status; rown : option runner; rts : Z }.    (* time in microseconds *)
Definition rstore := list (inv * rrec).                                   (* one entry per invocation *)
Definition hbeats := list (runner * Z).                                   (* last heartbeat per runner *)

Definition cmp_le (inclusive : bool) (a b : Z) : bool := if inclusive then a <=? b else a <? b.

(* ---- PENDING scan: status = PENDING and entered <= now - limit (both backends: same predicate) *)
Definition pending_sel (le_inclusive : bool) (cutoff : Z) (r : rrec) : bool :=
  status_eqb (rst r) PENDING && cmp_le le_inclusive (rts r) cutoff.

Definition pending_scan (le_inclusive : bool) (now limit : Z) (s : rstore) : list inv :=
  map fst (filter (fun e => pending_sel le_inclusive (now - limit) (snd e)) s).

(* ---- RUNNING scan ---- *)
Definition hb_fresh (ge_inclusive : bool) (cutoff hb : Z) : bool := cmp_le ge_inclusive cutoff hb.

(* in-memory: active set first, then owner not in it *)
Definition active_set (ge_inclusive : bool) (cutoff : Z) (h : hbeats) : list runner :=
  map fst (filter (fun e => hb_fresh ge_inclusive cutoff (snd e)) h).

Definition mem_running_sel (ge_inclusive : bool) (cutoff : Z) (h : hbeats) (r : rrec) : bool :=
  status_eqb (rst r) RUNNING &&
  match rown r with
  | None => false
  | Some o => negb (existsb (Nat.eqb o) (active_set ge_inclusive cutoff h))
  end.

(* SQL: LEFT JOIN heartbeats ON owner = runner_id WHERE status = RUNNING AND owner IS NOT NULL
        AND (r.runner_id IS NULL OR r.last_heartbeat < cutoff)   [runner_id is a primary key] *)
Fixpoint hb_lookup (o : runner) (h : hbeats) : option Z :=
  match h with
  | [] => None
  | (r, t) :: rest => if Nat.eqb o r then Some t else hb_lookup o rest
  end.

Definition sql_running_sel (ge_inclusive never_hb_selected : bool) (cutoff : Z) (h : hbeats) (r : rrec) : bool :=
  status_eqb (rst r) RUNNING &&
  match rown r with
  | None => false
  | Some o => match hb_lookup o h with
              | None => never_hb_selected
              | Some t => negb (hb_fresh ge_inclusive cutoff t)
              end
  end.

Definition mem_running_scan (ge : bool) (now timeout : Z) (h : hbeats) (s : rstore) : list inv :=
  map fst (filter (fun e => mem_running_sel ge (now - timeout) h (snd e)) s).
Definition sql_running_scan (ge nh : bool) (now timeout : Z) (h : hbeats) (s : rstore) : list inv :=
  map fst (filter (fun e => sql_running_sel ge nh (now - timeout) h (snd e)) s).

(* ---- store access ---- *)
Fixpoint rlookup (i : inv) (s : rstore) : option rrec :=
  match s with
  | [] => None
  | (j, r) :: rest => if Nat.eqb i j then Some r else rlookup i rest
  end.
Fixpoint rupdate (i : inv) (r : rrec) (s : rstore) : rstore :=
  match s with
  | [] => []
  | (j, q) :: rest => if Nat.eqb i j then (j, r) :: rest else (j, q) :: rupdate i r rest
  end.

(* the documented single step on recovery records (ownership etc. from Model/Status.v) *)
Definition rstep (now : Z) (i : inv) (to : status) (rid : option runner) (s : rstore) : option rstore :=
  match rlookup i s with
  | None => None
  | Some r =>
      match doc_transition (Some {| st := rst r; owner := rown r; ts := 0 |}) to rid with
      | TOk s' o' => Some (rupdate i {| rst := s'; rown := o'; rts := now |} s)
      | TErr _ => None
      end
  end.

(* ---- the recovery run ----
   mark phase: for id in scanned ids: [add to set]; set_invocation_status(id, *_RECOVERY).
   tolerant = true : a refused transition is skipped (the id is not rerouted);
   tolerant = false: a refused transition aborts the whole run (nothing is rerouted at all).
   reroute phase: for id in marked: set_invocation_status(id, REROUTED); broker.route(id). *)
Record rsys : Set := { rrecs : rstore; rqueue : list inv }.

Fixpoint mark_phase (tolerant : bool) (now : Z) (via : status) (me : option runner)
         (ids : list inv) (s : rstore) : rstore * list inv * bool (* aborted? *) :=
  match ids with
  | [] => (s, [], false)
  | i :: rest =>
      match rstep now i via me s with
      | Some s1 => let '(s2, marked, ab) := mark_phase tolerant now via me rest s1 in (s2, i :: marked, ab)
      | None => if tolerant then mark_phase tolerant now via me rest s else (s, [], true)
      end
  end.

Fixpoint reroute_phase (now : Z) (me : option runner) (marked : list inv) (w : rsys) : rsys :=
  match marked with
  | [] => w
  | i :: rest =>
      match rstep now i REROUTED me (rrecs w) with
      | Some s1 => reroute_phase now me rest {| rrecs := s1; rqueue := rqueue w ++ [i] |}
      | None => w          (* an exception here aborts the rest (not reachable after a successful mark) *)
      end
  end.

(* `ids` = what the scan returned (possibly computed on an older state: the race with live owners) *)
Definition recover_run (tolerant : bool) (now : Z) (via : status) (me : option runner)
           (ids : list inv) (w : rsys) : rsys :=
  let '(s1, marked, aborted) := mark_phase tolerant now via me ids (rrecs w) in
  if aborted then {| rrecs := s1; rqueue := rqueue w |}
  else reroute_phase now me marked {| rrecs := s1; rqueue := rqueue w |}.

Definition count_in (i : inv) (l : list inv) : nat := length (filter (Nat.eqb i) l).

(* ---- liveness evidence of child workers.  The parent runner reports the heartbeats of its live children from its main loop;
   `every_iteration` (generated from BaseRunner.run) says whether that happens on every iteration or only behind the
   atomic-service gate.  The age of a live child's last heartbeat at any instant is bounded by the time between two reports. *)
From Coq Require Import ZArith.
Definition child_hb_max_age (every_iteration : bool) (loop_period gate_interval : Z) : Z :=
  if every_iteration then loop_period else Z.max loop_period gate_interval.

(* Proofs/JsonEnvProofs.v — reconstruct (preprocess v) = v on the serializer's domain. *)
From Coq Require Import List NArith Bool Lia.
Import ListNotations.
From PV Require Import Model.ArgsId Model.CDS Model.JsonEnv Proofs.ArgsIdProofs Proofs.CDSProofs.
Open Scope N_scope.

Section PvInd.
  Variable P : pv -> Prop.
  Hypothesis Hatom : forall a, P (PAtom a).
  Hypothesis Hstr : forall s, P (PStr s).
  Hypothesis Hlist : forall l, Forall P l -> P (PList l).
  Hypothesis Hdict : forall d, Forall (fun kv => P (snd kv)) d -> P (PDict d).
  Hypothesis Henv : forall k c1 c2 p, P (PEnv k c1 c2 p).

  Fixpoint pv_ind' (v : pv) : P v :=
    match v with
    | PAtom a => Hatom a
    | PStr s => Hstr s
    | PList l => Hlist l ((fix go (l : list pv) : Forall P l :=
                             match l with [] => Forall_nil _ | x :: r => Forall_cons x (pv_ind' x) (go r) end) l)
    | PDict d => Hdict d ((fix go (d : list (str * pv)) : Forall (fun kv => P (snd kv)) d :=
                             match d with
                             | [] => Forall_nil _
                             | (k, x) :: r => Forall_cons (k, x) (pv_ind' x) (go r)
                             end) d)
    | PEnv k c1 c2 p => Henv k c1 c2 p
    end.
End PvInd.

Lemma str_eqb_sym : forall a b, str_eqb a b = str_eqb b a.
Proof.
  intros a b. destruct (str_eqb a b) eqn:E.
  - apply str_eqb_eq in E. subst. symmetry. apply str_eqb_refl.
  - symmetry. apply str_eqb_neq. apply str_eqb_neq in E. congruence.
Qed.

Lemma in_all_kinds : forall k, In k all_kinds.
Proof. intros []; cbn; tauto. Qed.

Lemma ekind_eqb_eq : forall a b, ekind_eqb a b = true <-> a = b.
Proof. intros [] []; cbn; split; congruence. Qed.

Section Roundtrip.
  Variable F : json_facts.
  Hypothesis Hok : facts_ok F = true.

  Lemma ok_kind : forall k,
    dec_key F k = enc_key F k /\ dec_f1 F k = enc_f1 F k /\ dec_f2 F k = enc_f2 F k /\ dec_fp F k = enc_fp F k /\
    enc_f1 F k <> enc_f2 F k /\ enc_f1 F k <> enc_fp F k /\ enc_f2 F k <> enc_fp F k /\
    In k (dec_order F) /\ (forall k', k <> k' -> enc_key F k <> enc_key F k').
  Proof.
    intros k. unfold facts_ok in Hok. rewrite forallb_forall in Hok. specialize (Hok k (in_all_kinds k)).
    repeat rewrite andb_true_iff in Hok.
    destruct Hok as [[[[[[[[Ha Hb] Hc] Hd] He] Hf] Hg] Hh] Hi].
    apply str_eqb_eq in Ha, Hb, Hc, Hd.
    apply negb_true_iff in He, Hf, Hg. apply str_eqb_neq in He, Hf, Hg.
    repeat split; auto.
    - apply existsb_exists in Hh. destruct Hh as (k' & Hin & Hk). apply ekind_eqb_eq in Hk. subst. exact Hin.
    - intros k' Hne. rewrite forallb_forall in Hi. specialize (Hi k' (in_all_kinds k')).
      apply orb_true_iff in Hi. destruct Hi as [Hi|Hi].
      + apply ekind_eqb_eq in Hi. contradiction.
      + apply negb_true_iff in Hi. apply str_eqb_neq in Hi. exact Hi.
  Qed.

  Lemma find_env_single : forall k x e order, In k order ->
    find_env F order [(enc_key F k, JDict (x :: e))] = Some (k, x :: e).
  Proof.
    intros k x e order. induction order as [|k' r IH]; intros Hin; [destruct Hin|].
    cbn [find_env lookupS].
    destruct (ok_kind k') as (Hdk & _ & _ & _ & _ & _ & _ & _ & Hdist).
    rewrite Hdk.
    destruct (str_eqb (enc_key F k') (enc_key F k)) eqn:E.
    - apply str_eqb_eq in E.
      assert (k' = k).
      { destruct (ekind_eqb k' k) eqn:Ek; [apply ekind_eqb_eq; exact Ek|].
        exfalso. apply (Hdist k); [|exact E]. intros ->. destruct k; discriminate. }
      subst k'. reflexivity.
    - apply IH. destruct Hin as [->|Hin]; [|exact Hin]. rewrite str_eqb_refl in E. discriminate.
  Qed.

  Lemma decode_env_fields : forall k c1 c2 p, (is_err k = true -> c2 = []) ->
    decode_env F k ((enc_f1 F k, JStr c1) :: (if is_err k then [] else [(enc_f2 F k, JStr c2)]) ++ [(enc_fp F k, p)])
    = Some (PEnv k c1 c2 p).
  Proof.
    intros k c1 c2 p Hc2. unfold decode_env.
    destruct (ok_kind k) as (_ & H1 & H2 & Hp & N12 & N1p & N2p & _ & _).
    rewrite H1, H2, Hp.
    apply str_eqb_neq in N12, N1p, N2p.
    destruct (is_err k) eqn:Ee; cbn [app lookupS].
    - rewrite str_eqb_refl. rewrite (str_eqb_sym (enc_fp F k)), N1p, str_eqb_refl. rewrite Hc2 by reflexivity. reflexivity.
    - rewrite str_eqb_refl. rewrite (str_eqb_sym (enc_f2 F k)), N12, str_eqb_refl.
      rewrite (str_eqb_sym (enc_fp F k) (enc_f1 F k)), N1p, (str_eqb_sym (enc_fp F k) (enc_f2 F k)), N2p, str_eqb_refl.
      reflexivity.
  Qed.

  Lemma lookupS_map_none : forall (A B : Type) (g : A -> B) key (d : list (str * A)),
    (forall kv, In kv d -> str_eqb key (fst kv) = false) ->
    lookupS key (map (fun kv => (fst kv, g (snd kv))) d) = None.
  Proof.
    intros A B g key d. induction d as [|[k x] d IH]; intros Hall; cbn; [reflexivity|].
    pose proof (Hall (k, x) (or_introl eq_refl)) as Hk. cbn [fst] in Hk. rewrite Hk. apply IH. intros kv Hin. apply Hall. right. exact Hin.
  Qed.

  Lemma find_env_user_dict : forall (g : pv -> jv) d order,
    (forall kv, In kv d -> reserved F (fst kv) = false) ->
    find_env F order (map (fun kv => (fst kv, g (snd kv))) d) = None.
  Proof.
    intros g d order Hres. induction order as [|k r IH]; [reflexivity|]. cbn [find_env].
    rewrite lookupS_map_none; [exact IH|].
    intros kv Hin. specialize (Hres kv Hin). unfold reserved in Hres.
    destruct (ok_kind k) as (Hdk & _). rewrite Hdk.
    destruct (str_eqb (enc_key F k) (fst kv)) eqn:E; [|reflexivity].
    exfalso. rewrite str_eqb_sym in E.
    assert (Hex : existsb (fun e => str_eqb (fst kv) (enc_key F e)) all_kinds = true).
    { apply existsb_exists. exists k. split; [apply in_all_kinds|exact E]. }
    congruence.
  Qed.

  Theorem envelope_roundtrip : forall v, wf F v = true -> reconstruct F (preprocess F v) = v.
  Proof.
    induction v as [a|s|l IH|d IH|k c1 c2 p] using pv_ind'; intros Hwf.
    - reflexivity.
    - reflexivity.
    - cbn [preprocess reconstruct]. f_equal. cbn [wf] in Hwf. rewrite map_map.
      induction l as [|x l IHl]; [reflexivity|]. cbn in Hwf. apply andb_true_iff in Hwf. destruct Hwf as [Hx Hl].
      inversion IH as [|? ? Px Pl]; subst. cbn. f_equal; [apply Px; exact Hx|apply IHl; assumption].
    - cbn [preprocess reconstruct]. cbn [wf] in Hwf.
      rewrite find_env_user_dict.
      + f_equal. rewrite map_map. cbn [fst snd].
        induction d as [|[k x] d IHd]; [reflexivity|]. cbn in Hwf. apply andb_true_iff in Hwf. destruct Hwf as [Hx Hd].
        apply andb_true_iff in Hx. destruct Hx as [_ Hx].
        inversion IH as [|? ? Px Pd]; subst. cbn. f_equal; [f_equal; apply Px; exact Hx|apply IHd; assumption].
      + intros kv Hin. rewrite forallb_forall in Hwf. specialize (Hwf kv Hin).
        apply andb_true_iff in Hwf. destruct Hwf as [Hr _]. apply negb_true_iff in Hr. exact Hr.
    - cbn [preprocess reconstruct].
      destruct (ok_kind k) as (_ & _ & _ & _ & _ & _ & _ & Hin & _).
      rewrite find_env_single by exact Hin.
      rewrite decode_env_fields; [reflexivity|].
      intros He. cbn [wf] in Hwf. rewrite He in Hwf. destruct c2; [reflexivity|discriminate].
  Qed.
End Roundtrip.

(* the guard is necessary: a user dict carrying a reserved key comes back as something else *)
Lemma reserved_key_refuted : forall F, facts_ok F = true ->
  exists v, reconstruct F (preprocess F v) <> v.
Proof.
  intros F Hok.
  exists (PDict [(enc_key F EEnum, PDict [(enc_f1 F EEnum, PStr [109]); (enc_f2 F EEnum, PStr [113]); (enc_fp F EEnum, PAtom 1)])]).
  pose proof (envelope_roundtrip F Hok (PEnv EEnum [109] [113] (JAtom 1)) eq_refl) as HR.
  cbn [preprocess is_err ekind_eqb app map fst snd] in *.
  rewrite HR. discriminate.
Qed.

(* Proofs/CronProofs.v — lemmas about Model/Cron.v (C13, cron clauses). *)
From Coq Require Import List Bool ZArith Lia Sorted.
Import ListNotations.
From PV Require Import Model.TriggerDef Model.Cron.
Local Open Scope Z_scope.

Lemma MIN_US_pos : 0 < MIN_US.
Proof. unfold MIN_US, US. lia. Qed.

Lemma minute_start_le : forall ts, minute_of ts * MIN_US <= ts.
Proof. intros ts. unfold minute_of. rewrite Z.mul_comm. apply Z.mul_div_le. exact MIN_US_pos. Qed.

Lemma minute_end_gt : forall ts, ts - minute_of ts * MIN_US < MIN_US.
Proof.
  intros ts. unfold minute_of. pose proof (Z.mod_pos_bound ts MIN_US MIN_US_pos) as Hb.
  rewrite Z.mod_eq in Hb by (pose proof MIN_US_pos; lia). lia.
Qed.

Section CronP.
Variable sched : Z -> bool.
Variable F : facts.

Lemma prev_sched_sound : forall fuel m p, prev_sched sched fuel m = Some p -> sched p = true /\ p <= m.
Proof.
  induction fuel as [|f IH]; intros m p H; cbn [prev_sched] in H; [discriminate|].
  destruct (sched m) eqn:E.
  - inversion H; subst. split; [exact E|lia].
  - apply IH in H. destruct H as [Hs Hle]. split; [exact Hs|lia].
Qed.

(* the minute a poll is attributed to is scheduled, has started, and the difference is either 0 (the
   poll lies inside that minute) or the real distance to its start (at least one minute) *)
Lemma attributed_sound : forall c ts p d, attributed sched c ts = Some (p, d) ->
  sched p = true /\ p * MIN_US <= ts /\
  ((p = minute_of ts /\ d = 0) \/ (p < minute_of ts /\ d = ts - p * MIN_US)).
Proof.
  intros c ts p d H. unfold attributed in H.
  destruct (sched (minute_of ts)) eqn:E.
  - inversion H; subst. split; [exact E|]. split; [apply minute_start_le|left; split; reflexivity].
  - destruct (prev_sched sched (S (Z.to_nat (cw_window_s c / 60))) (minute_of ts - 1)) as [q|] eqn:Ep; [|discriminate].
    inversion H; subst. apply prev_sched_sound in Ep. destruct Ep as [Hs Hle].
    split; [exact Hs|]. pose proof (minute_start_le ts) as Hm. pose proof MIN_US_pos as Hpos.
    split; [nia|]. right. split; [lia|reflexivity].
Qed.

Definition facts_ok : Prop := f_cron_window_inclusive F = true /\ f_cron_min_interval_strict F = true.

(* a poll that fires lies inside a scheduled minute or within the window after its start *)
Theorem sat_inside_window : forall c ts last, facts_ok -> cron_sat sched F c ts last = true ->
  exists p, sched p = true /\ p * MIN_US <= ts /\
            (p = minute_of ts \/ ts - p * MIN_US <= cw_window_s c * US).
Proof.
  intros c ts last [Hi _] H. unfold cron_sat in H.
  destruct (attributed sched c ts) as [[p d]|] eqn:Ea; [|discriminate].
  apply attributed_sound in Ea. destruct Ea as [Hs [Hle Hd]].
  exists p. split; [exact Hs|]. split; [exact Hle|].
  destruct Hd as [[Hp _]|[_ Hd]]; [left; exact Hp|right].
  apply andb_prop in H. destruct H as [H _]. apply andb_prop in H. destruct H as [H _].
  unfold window_ok in H. rewrite Hi in H. apply andb_prop in H. destruct H as [_ H].
  apply Z.leb_le in H. lia.
Qed.

(* with a window of at least one minute the statement holds as written *)
Theorem sat_inside_window_ge_minute : forall c ts last, facts_ok -> 60 <= cw_window_s c ->
  cron_sat sched F c ts last = true ->
  exists p, sched p = true /\ 0 <= ts - p * MIN_US <= cw_window_s c * US.
Proof.
  intros c ts last Hok Hw H. destruct (sat_inside_window c ts last Hok H) as [p [Hs [Hle Hd]]].
  exists p. split; [exact Hs|]. split; [lia|].
  destruct Hd as [->|Hd]; [|exact Hd].
  pose proof (minute_end_gt ts). unfold MIN_US in *. unfold US in *. lia.
Qed.

(* a poll attributed to a scheduled minute inside the window, with the previous firing old enough and
   before that minute, fires *)
Theorem in_window_fires : forall c ts last p d, facts_ok ->
  attributed sched c ts = Some (p, d) -> 0 <= d <= cw_window_s c * US ->
  (cw_strict c = true -> d <= cw_tolerance_s c * US) ->
  (forall l, last = Some l -> cw_min_interval_s c * US <= ts - l /\ l < p * MIN_US) ->
  cron_sat sched F c ts last = true.
Proof.
  intros c ts last p d [Hi Hm] Ha Hd Hstrict Hlast. unfold cron_sat. rewrite Ha.
  unfold window_ok. rewrite Hi.
  assert (E1 : (0 <=? d) = true) by (apply Z.leb_le; lia).
  assert (E2 : (d <=? cw_window_s c * US) = true) by (apply Z.leb_le; lia).
  rewrite E1, E2. cbn [andb].
  assert (E3 : negb (cw_strict c) || (d <=? cw_tolerance_s c * US) = true).
  { destruct (cw_strict c); cbn [negb orb]; [|reflexivity]. apply Z.leb_le. apply Hstrict. reflexivity. }
  rewrite E3. cbn [andb].
  destruct last as [l|]; [|reflexivity].
  destruct (Hlast l eq_refl) as [H1 H2]. unfold interval_ok. rewrite Hm.
  assert (E4 : (ts - l <? cw_min_interval_s c * US) = false) by (apply Z.ltb_ge; lia).
  assert (E5 : (l <? p * MIN_US) = true) by (apply Z.ltb_lt; lia).
  rewrite E4, E5. reflexivity.
Qed.

(* a later stored execution never enables a poll that an earlier one refused: the local cache of
   _should_trigger_cron_condition only short-circuits *)
Lemma sat_antitone_last : forall c ts l1 l2, facts_ok -> l1 <= l2 ->
  cron_sat sched F c ts (Some l2) = true -> cron_sat sched F c ts (Some l1) = true.
Proof.
  intros c ts l1 l2 [_ Hm] Hle H. unfold cron_sat in *.
  destruct (attributed sched c ts) as [[p d]|]; [|discriminate].
  apply andb_prop in H. destruct H as [H0 H]. rewrite H0. cbn [andb].
  apply andb_prop in H. destruct H as [H1 H2]. unfold interval_ok in *. rewrite Hm in *.
  apply negb_true_iff in H1. apply Z.ltb_ge in H1. apply Z.ltb_lt in H2.
  assert (E4 : (ts - l1 <? cw_min_interval_s c * US) = false) by (apply Z.ltb_ge; lia).
  assert (E5 : (l1 <? p * MIN_US) = true) by (apply Z.ltb_lt; lia).
  rewrite E4, E5. reflexivity.
Qed.

(* every scheduled minute yields at most one occurrence, for every poll sequence *)
Lemma fired_minutes_sorted : forall c tss last,
  (forall q, In q (fired_minutes sched F c last tss) -> match last with Some l => l < q * MIN_US | None => True end)
  /\ StronglySorted Z.lt (fired_minutes sched F c last tss).
Proof.
  intros c tss. induction tss as [|ts r IH]; intros last; cbn [fired_minutes].
  - split; [intros q []|constructor].
  - destruct (cron_sat sched F c ts last) eqn:Es.
    + destruct (IH (Some ts)) as [Hlow Hsorted].
      unfold cron_sat in Es. destruct (attributed sched c ts) as [[p d]|] eqn:Ea; [|discriminate].
      pose proof (attributed_sound c ts p d Ea) as [_ [Hple _]].
      assert (Hlast : match last with Some l => l < p * MIN_US | None => True end).
      { destruct last as [l|]; [|exact I].
        apply andb_prop in Es. destruct Es as [_ Es]. apply andb_prop in Es. destruct Es as [_ Es].
        apply Z.ltb_lt in Es. exact Es. }
      split.
      * intros q [<-|Hq]; [exact Hlast|]. specialize (Hlow q Hq).
        destruct last as [l|]; [lia|exact I].
      * constructor; [exact Hsorted|]. apply Forall_forall. intros q Hq.
        specialize (Hlow q Hq). pose proof MIN_US_pos. nia.
    + apply IH.
Qed.

Theorem minute_fires_at_most_once : forall c tss last, NoDup (fired_minutes sched F c last tss).
Proof.
  intros c tss last. destruct (fired_minutes_sorted c tss last) as [_ Hs].
  induction Hs as [|a l Hs IH Hall]; constructor; [|exact IH].
  intro Hin. rewrite Forall_forall in Hall. specialize (Hall a Hin). lia.
Qed.

Lemma polls_fired_length : forall c tss last, length (snd (polls sched F c last tss)) = length tss.
Proof.
  intros c tss. induction tss as [|ts r IH]; intros last; cbn [polls]; [reflexivity|].
  unfold poll. destruct (cron_sat sched F c ts last);
    [destruct (polls sched F c (Some ts) r) eqn:E|destruct (polls sched F c last r) eqn:E];
    cbn [snd length]; f_equal.
  - specialize (IH (Some ts)). rewrite E in IH. exact IH.
  - specialize (IH last). rewrite E in IH. exact IH.
Qed.
End CronP.

(* the first poll of a condition that never fired becomes an occurrence whatever the schedule, unless the
   source consults the schedule in that case too *)
Lemma first_poll_unconditional_refuted : forall F, f_cron_first_poll_checked F = false ->
  forall c ts, store_sat (fun _ => false) F c ts None = true /\ cron_sat (fun _ => false) F c ts None = false.
Proof.
  intros F H c ts. unfold store_sat. rewrite H. split; [reflexivity|].
  unfold cron_sat, attributed.
  assert (Hp : forall fuel m, prev_sched (fun _ => false) fuel m = None).
  { induction fuel as [|f IH]; intros m; cbn [prev_sched]; [reflexivity|apply IH]. }
  rewrite Hp. reflexivity.
Qed.

Lemma first_poll_checked_agrees : forall sched F c ts last, f_cron_first_poll_checked F = true ->
  store_sat sched F c ts last = cron_sat sched F c ts last.
Proof. intros sched F c ts last H. unfold store_sat. destruct last; [reflexivity|]. rewrite H. reflexivity. Qed.

(* inside the scheduled minute the window is not consulted *)
Lemma window_ignored_inside_minute_refuted : forall F, f_cron_window_inclusive F = true ->
  let c := {| cw_window_s := 10; cw_min_interval_s := 5; cw_tolerance_s := 5; cw_strict := true |} in
  cron_sat (fun m => Z.eqb m 0) F c (51 * US) None = true.
Proof. intros F H. unfold cron_sat, attributed, window_ok. cbn. rewrite H. reflexivity. Qed.

(* ------------------------------------------------------------------ several runners with their own caches *)
Section Runners.
Variable sched : Z -> bool.
Variable F : facts.

Lemma opt_eqb_refl : forall a, opt_eqb a a = true.
Proof. intros [x|]; cbn [opt_eqb]; [apply Z.eqb_refl|reflexivity]. Qed.

(* a poll that fires is later than the last execution it was evaluated against *)
Lemma sat_last_lt : forall c ts l, cron_sat sched F c ts (Some l) = true -> l < ts.
Proof.
  intros c ts l H. unfold cron_sat in H.
  destruct (attributed sched c ts) as [[p d]|] eqn:Ea; [|discriminate].
  apply attributed_sound in Ea. destruct Ea as [_ [Hle _]].
  apply andb_prop in H. destruct H as [_ H]. apply andb_prop in H. destruct H as [_ H].
  apply Z.ltb_lt in H. lia.
Qed.

Lemma runner_poll_fixed : forall c st cache ts,
  f_cron_storage_read_always F = true -> facts_ok F -> cache_le st cache ->
  match runner_poll sched F c st cache ts with
  | (st1, c1, b) => b = store_sat sched F c ts st /\ st1 = (if b then Some ts else st) /\ cache_le st1 c1
  end.
Proof.
  intros c st cache ts Hra Hok Hle. unfold runner_poll. rewrite Hra.
  destruct cache as [l|].
  - destruct st as [l'|]; [|destruct Hle]. cbn [cache_le] in Hle.
    destruct (cron_sat sched F c ts (Some l)) eqn:E; cbn [negb].
    + destruct (store_sat sched F c ts (Some l')) eqn:Es.
      * rewrite opt_eqb_refl. split; [reflexivity|]. split; [reflexivity|]. cbn [cache_le]. lia.
      * split; [reflexivity|]. split; [reflexivity|]. cbn [cache_le]. lia.
    + split.
      * cbn [store_sat]. destruct (cron_sat sched F c ts (Some l')) eqn:E2; [|reflexivity].
        pose proof (sat_antitone_last sched F c ts l l' Hok Hle E2) as E3. rewrite E3 in E. discriminate.
      * split; [reflexivity|]. cbn [cache_le]. exact Hle.
  - destruct (store_sat sched F c ts st) eqn:Es.
    + rewrite opt_eqb_refl. split; [reflexivity|]. split; [reflexivity|]. cbn [cache_le]. lia.
    + split; [reflexivity|]. split; [reflexivity|]. destruct st as [l'|]; cbn [cache_le]; [lia|exact I].
Qed.

Lemma Forall_upd : forall {A} (P : A -> Prop) i x l, Forall P l -> P x -> Forall P (upd i x l).
Proof.
  intros A P i x l H Hx. revert i. induction H as [|y r Hy Hr IH]; intros i; destruct i as [|j]; cbn [upd];
    constructor; try assumption. apply IH.
Qed.

Lemma Forall_nth_default : forall {A} (P : A -> Prop) i d l, Forall P l -> P d -> P (nth i l d).
Proof.
  intros A P i d l H Hd. revert i. induction H as [|y r Hy Hr IH]; intros i; destruct i; cbn [nth]; try assumption. apply IH.
Qed.

(* with the store read on every poll the runner caches are invisible: any assignment of the polls to runners gives
   the outcomes of one runner polling alone *)
Theorem mr_polls_fixed : forall c,
  f_cron_storage_read_always F = true -> facts_ok F ->
  forall ps st caches, Forall (cache_le st) caches ->
  mr_polls sched F c st caches ps = store_polls sched F c st (map snd ps).
Proof.
  intros c Hra Hok ps. induction ps as [|[r ts] rest IH]; intros st caches Hall; cbn [mr_polls store_polls map snd]; [reflexivity|].
  pose proof (runner_poll_fixed c st (nth r caches None) ts Hra Hok
                (Forall_nth_default (cache_le st) r None caches Hall I)) as Hp.
  destruct (runner_poll sched F c st (nth r caches None) ts) as [[st1 c1] b].
  destruct Hp as [Hb [Hst Hc1]]. rewrite <- Hb.
  assert (Hall1 : Forall (cache_le st1) (upd r c1 caches)).
  { apply Forall_upd; [|exact Hc1]. rewrite Forall_forall in *. intros cj Hj. specialize (Hall cj Hj).
    destruct b; subst st1; [|exact Hall].
    destruct cj as [l|]; [|exact I]. cbn [cache_le] in *. destruct st as [l'|]; [|destruct Hall].
    symmetry in Hb. cbn [store_sat] in Hb. apply sat_last_lt in Hb. lia. }
  destruct b; subst st1; f_equal; apply IH; exact Hall1.
Qed.
End Runners.

(* when a runner goes on with its cached value instead, a tick is lost: every minute scheduled, runner 0 fires the
   first tick, runner 1 the second; runner 0's cache is stale at the third, its compare-and-swap fails, nothing fires *)
Lemma stale_cache_loses_tick_refuted : forall F, f_cron_storage_read_always F = false ->
  f_cron_window_inclusive F = true -> f_cron_min_interval_strict F = true -> f_cron_first_poll_checked F = true ->
  let c := {| cw_window_s := 60; cw_min_interval_s := 50; cw_tolerance_s := 30; cw_strict := false |} in
  mr_polls (fun _ => true) F c None [None; None] [(0%nat, 10 * US); (1%nat, 70 * US); (0%nat, 130 * US)] = [true; true; false]
  /\ store_polls (fun _ => true) F c None [10 * US; 70 * US; 130 * US] = [true; true; true].
Proof.
  intros F H1 H2 H3 H4. destruct F. cbn in H1, H2, H3, H4. subst. split; vm_compute; reflexivity.
Qed.

(* Proofs/BackendProofs.v — C16.  Simulation between the index model and the relational model. *)
From Coq Require Import List Bool Arith ZArith Lia Sorting.Sorted.
Import ListNotations.
From PV Require Import Model.Status Model.Blocking Model.Recovery Model.BackendOps Model.BackendRel
  Model.BackendIndex Model.BackendGuard Proofs.StatusProofs Proofs.BlockingProofs Proofs.RecoveryProofs.
Local Open Scope nat_scope.

(* ------------------------------------------------------------------ canonical forms *)
Lemma sins_in : forall x y l, In y (sins x l) <-> y = x \/ In y l.
Proof.
  intros x y l. induction l as [|z l IH]; cbn [sins In].
  - intuition congruence.
  - destruct (x <? z) eqn:E1; [cbn [In]; intuition congruence|]. destruct (x =? z) eqn:E2.
    + apply Nat.eqb_eq in E2. subst. cbn [In]. intuition congruence.
    + cbn [In]. rewrite IH. intuition congruence.
Qed.

Lemma norm_in : forall x l, In x (norm l) <-> In x l.
Proof.
  intros x l. induction l as [|y l IH]; cbn; [tauto|]. rewrite sins_in, IH. intuition congruence.
Qed.

Lemma sins_sorted : forall x l, StronglySorted lt l -> StronglySorted lt (sins x l).
Proof.
  intros x l H. induction H as [|z l Hs IH Hf]; cbn [sins].
  - constructor; constructor.
  - destruct (x <? z) eqn:E1.
    + apply Nat.ltb_lt in E1. constructor; [constructor; assumption|].
      constructor; [assumption|]. eapply Forall_impl; [|exact Hf]. intros a Ha. lia.
    + destruct (x =? z) eqn:E2; [constructor; assumption|].
      apply Nat.ltb_ge in E1. apply Nat.eqb_neq in E2. constructor; [assumption|].
      apply Forall_forall. intros a Ha. apply sins_in in Ha. destruct Ha as [->|Ha]; [lia|].
      rewrite Forall_forall in Hf. now apply Hf.
Qed.

Lemma norm_sorted : forall l, StronglySorted lt (norm l).
Proof. induction l as [|x l IH]; cbn; [constructor|now apply sins_sorted]. Qed.

Lemma sorted_ext : forall a b, StronglySorted lt a -> StronglySorted lt b ->
  (forall x, In x a <-> In x b) -> a = b.
Proof.
  induction a as [|x a IH]; intros b Ha Hb H.
  - destruct b as [|y b]; [reflexivity|]. exfalso. apply (H y). now left.
  - destruct b as [|y b]; [exfalso; apply (H x); now left|].
    inversion Ha as [|? ? Ha' Hfa]; subst. inversion Hb as [|? ? Hb' Hfb]; subst.
    rewrite Forall_forall in Hfa, Hfb.
    assert (x = y) as ->.
    { destruct (proj1 (H x) (or_introl eq_refl)) as [E|E]; [auto|].
      destruct (proj2 (H y) (or_introl eq_refl)) as [E'|E']; [auto|].
      apply Hfb in E. apply Hfa in E'. lia. }
    f_equal. apply IH; [assumption|assumption|]. intros z. split; intros Hz.
    + destruct (proj1 (H z) (or_intror Hz)) as [E|E]; [|assumption]. subst. apply Hfa in Hz. lia.
    + destruct (proj2 (H z) (or_intror Hz)) as [E|E]; [|assumption]. subst. apply Hfb in Hz. lia.
Qed.

Lemma norm_ext : forall a b, (forall x, In x a <-> In x b) -> norm a = norm b.
Proof.
  intros a b H. apply sorted_ext; [apply norm_sorted|apply norm_sorted|].
  intros x. rewrite !norm_in. apply H.
Qed.

Lemma memb_in : forall x l, memb x l = true <-> In x l.
Proof.
  intros x l. unfold memb. rewrite existsb_exists. split.
  - intros [y [Hy E]]. apply Nat.eqb_eq in E. now subst.
  - intros H. exists x. split; [assumption|apply Nat.eqb_refl].
Qed.

Lemma smemb_in : forall s l, smemb s l = true <-> In s l.
Proof.
  intros s l. unfold smemb. rewrite existsb_exists. split.
  - intros [y [Hy E]]. apply status_eqb_eq in E. now subst.
  - intros H. exists s. split; [assumption|now apply status_eqb_eq].
Qed.

Lemma status_code_inj : forall a b, status_code a = status_code b -> a = b.
Proof. intros a b; destruct a, b; cbn; intros H; try reflexivity; discriminate H. Qed.

Lemma final_not_available : forall s, doc_final s = true -> doc_available s = false.
Proof. intros []; cbn; intros H; try reflexivity; discriminate H. Qed.

(* ------------------------------------------------------------------ pair sets and association lists *)
Lemma pmem_in : forall k i l, pmem k i l = true <-> In (k, i) l.
Proof.
  intros k i l. unfold pmem. rewrite existsb_exists. split.
  - intros [[a b] [Hin E]]. cbn in E. apply andb_true_iff in E. destruct E as [E1 E2].
    apply Nat.eqb_eq in E1, E2. now subst.
  - intros H. exists (k, i). split; [assumption|]. cbn. now rewrite !Nat.eqb_refl.
Qed.

Lemma in_padd : forall k i k' i' l, In (k', i') (padd k i l) <-> In (k', i') l \/ (k' = k /\ i' = i).
Proof.
  intros k i k' i' l. unfold padd. destruct (pmem k i l) eqn:E.
  - apply pmem_in in E. split; [auto|]. intros [H|[-> ->]]; assumption.
  - rewrite in_app_iff. cbn. split.
    + intros [H|[H|[]]]; [now left|right]. inversion H. auto.
    + intros [H|[-> ->]]; [now left|right; now left].
Qed.

Lemma in_pdel : forall k i k' i' l, In (k', i') (pdel k i l) <-> In (k', i') l /\ ~ (k' = k /\ i' = i).
Proof.
  intros k i k' i' l. unfold pdel. rewrite filter_In. cbn. split.
  - intros [H E]. split; [assumption|]. intros [-> ->]. rewrite !Nat.eqb_refl in E. discriminate.
  - intros [H N]. split; [assumption|]. destruct (k' =? k) eqn:E1; [|reflexivity].
    destruct (i' =? i) eqn:E2; [|reflexivity]. apply Nat.eqb_eq in E1, E2. exfalso. auto.
Qed.

Lemma in_pget : forall k i l, In i (pget k l) <-> In (k, i) l.
Proof.
  intros k i l. unfold pget. rewrite in_map_iff. split.
  - intros [[a b] [E H]]. cbn in E. subst. apply filter_In in H. destruct H as [H E]. cbn in E.
    apply Nat.eqb_eq in E. now subst.
  - intros H. exists (k, i). split; [reflexivity|]. apply filter_In. split; [assumption|cbn; apply Nat.eqb_refl].
Qed.

Lemma aget_aset : forall (A : Type) k j (v : A) l, aget j (aset k v l) = if Nat.eqb j k then Some v else aget j l.
Proof.
  intros A k j v l. induction l as [|[a w] l IH]; cbn.
  - destruct (j =? k); reflexivity.
  - destruct (k =? a) eqn:E1; cbn.
    + apply Nat.eqb_eq in E1. subst. destruct (j =? a); reflexivity.
    + rewrite IH. destruct (j =? a) eqn:E2; [|reflexivity].
      apply Nat.eqb_eq in E2. subst. apply Nat.eqb_neq in E1.
      destruct (a =? k) eqn:E3; [apply Nat.eqb_eq in E3; congruence|reflexivity].
Qed.

Lemma rlookup_rset : forall i j r s, rlookup j (rset i r s) = if Nat.eqb j i then Some r else rlookup j s.
Proof.
  intros i j r s. induction s as [|[a w] s IH]; cbn.
  - destruct (j =? i); reflexivity.
  - destruct (i =? a) eqn:E1; cbn.
    + apply Nat.eqb_eq in E1. subst. destruct (j =? a); reflexivity.
    + rewrite IH. destruct (j =? a) eqn:E2; [|reflexivity].
      apply Nat.eqb_eq in E2. subst. apply Nat.eqb_neq in E1.
      destruct (a =? i) eqn:E3; [apply Nat.eqb_eq in E3; congruence|reflexivity].
Qed.

(* ------------------------------------------------------------------ rows *)
Lemma find_row_in : forall i l r, find_row i l = Some r -> In r l /\ r_id r = i.
Proof.
  intros i l r. induction l as [|q l IH]; cbn; [discriminate|].
  destruct (i =? r_id q) eqn:E.
  - intros H. inversion H; subst. apply Nat.eqb_eq in E. auto.
  - intros H. apply IH in H. tauto.
Qed.

Lemma find_row_app : forall i l1 l2, find_row i (l1 ++ l2) = match find_row i l1 with Some r => Some r | None => find_row i l2 end.
Proof.
  intros i l1 l2. induction l1 as [|q l1 IH]; cbn; [reflexivity|]. destruct (i =? r_id q); [reflexivity|exact IH].
Qed.

Lemma find_row_insert : forall t rid l i j,
  find_row j (rel_insert t rid l i) =
  match find_row j l with
  | Some r => Some r
  | None => if Nat.eqb j i then Some {| r_id := i; r_rec := {| rst := REGISTERED; rown := rid; rts := t |}; r_retry := 0; r_purge := None |} else None
  end.
Proof.
  intros t rid l i j. unfold rel_insert. destruct (find_row i l) eqn:E.
  - destruct (find_row j l) eqn:E2; [reflexivity|]. destruct (j =? i) eqn:E3; [|reflexivity].
    apply Nat.eqb_eq in E3. subst. congruence.
  - rewrite find_row_app. destruct (find_row j l); [reflexivity|]. cbn. reflexivity.
Qed.

Lemma find_row_upd : forall i f l j, (forall r, r_id (f r) = r_id r) ->
  find_row j (upd_row i f l) = match find_row j l with
                               | Some r => Some (if Nat.eqb (r_id r) i then f r else r)
                               | None => None
                               end.
Proof.
  intros i f l j Hf. induction l as [|q l IH]; cbn; [reflexivity|].
  destruct (r_id q =? i) eqn:E1.
  - rewrite Hf. destruct (j =? r_id q) eqn:E2; [now rewrite E1|exact IH].
  - destruct (j =? r_id q) eqn:E2; [now rewrite E1|exact IH].
Qed.

Lemma find_row_upd_none : forall i f l j, (forall r, r_id (f r) = r_id r) ->
  (find_row j (upd_row i f l) = None <-> find_row j l = None).
Proof.
  intros i f l j Hf. rewrite (find_row_upd i f l j Hf). destruct (find_row j l); split; intros H; congruence.
Qed.

Lemma in_rows_iff : forall l, (forall r, In r l -> find_row (r_id r) l = Some r) ->
  forall j P, In j (map r_id (filter P l)) <-> exists r, find_row j l = Some r /\ P r = true.
Proof.
  intros l Hid j P. rewrite in_map_iff. split.
  - intros [r [E H]]. apply filter_In in H. destruct H as [H Hp]. exists r. subst. split; [now apply Hid|assumption].
  - intros [r [E Hp]]. apply find_row_in in E. destruct E as [E1 E2]. exists r. split; [assumption|].
    apply filter_In. split; assumption.
Qed.

Lemma existsb_false : forall (A : Type) (f : A -> bool) l, existsb f l = false -> forall x, In x l -> f x = false.
Proof.
  intros A f l H x Hx. destruct (f x) eqn:E; [|reflexivity].
  assert (existsb f l = true) as Ht by (apply existsb_exists; exists x; auto). congruence.
Qed.

Lemma filter_all : forall (A : Type) (f : A -> bool) l, (forall x, In x l -> f x = true) -> filter f l = l.
Proof.
  intros A f l. induction l as [|x l IH]; intros H; cbn; [reflexivity|].
  rewrite (H x (or_introl eq_refl)). f_equal. apply IH. intros y Hy. apply H. now right.
Qed.

Lemma inter_in : forall x a b, In x (inter a b) <-> In x a /\ In x b.
Proof. intros x a b. unfold inter. rewrite filter_In, memb_in. tauto. Qed.

Lemma by_statuses_in : forall j sx sts, In j (by_statuses sx sts) <-> exists s, In s sts /\ In (status_code s, j) sx.
Proof.
  intros j sx sts. unfold by_statuses. rewrite in_flat_map. split; intros [s [H1 H2]]; exists s; split; auto.
  - now apply in_pget.
  - now apply in_pget.
Qed.

Lemma by_keys_in : forall j ax kv, In j (by_keys ax kv) <-> kv <> [] /\ forall q, In q kv -> In (kvcode q, j) ax.
Proof.
  intros j ax kv. destruct kv as [|p rest]; cbn [by_keys].
  - split; [intros []|intros [H _]; congruence].
  - rewrite filter_In, in_pget, forallb_forall. split.
    + intros [H1 H2]. split; [discriminate|]. intros q [->|Hq]; [assumption|]. apply pmem_in. now apply H2.
    + intros [_ H]. split; [apply H; now left|]. intros q Hq. apply pmem_in. apply H. now right.
Qed.

Lemma hb_upsert_ids : forall t f r l x, In x (map h_id (hb_upsert t f r l)) <-> x = r \/ In x (map h_id l).
Proof.
  intros t f r l x. induction l as [|h l IH]; cbn [hb_upsert map In h_id].
  - intuition congruence.
  - destruct (h_id h =? r) eqn:E; cbn [map In h_id].
    + apply Nat.eqb_eq in E. intuition congruence.
    + rewrite IH. intuition congruence.
Qed.

Lemma hb_upsert_nodup : forall t f r l, NoDup (map h_id l) -> NoDup (map h_id (hb_upsert t f r l)).
Proof.
  intros t f r l. induction l as [|h l IH]; intros H; cbn [hb_upsert map h_id].
  - constructor; [intros []|constructor].
  - inversion H as [|? ? Hn Hl]; subst. destruct (h_id h =? r) eqn:E; cbn [map h_id].
    + apply Nat.eqb_eq in E. subst. constructor; assumption.
    + constructor; [|now apply IH]. intros Hc. apply hb_upsert_ids in Hc. destruct Hc as [Hc|Hc]; [|auto].
      apply Nat.eqb_neq in E. congruence.
Qed.

Lemma hb_fold_nodup : forall t f rs l, NoDup (map h_id l) -> NoDup (map h_id (fold_left (fun l r => hb_upsert t f r l) rs l)).
Proof. intros t f rs. induction rs as [|r rs IH]; intros l H; cbn; [assumption|]. apply IH. now apply hb_upsert_nodup. Qed.

Lemma hbeats_ids : forall l, map fst (hbeats_of l) = map h_id l.
Proof. intros l. unfold hbeats_of. rewrite map_map. reflexivity. Qed.

Lemma sh_step_hb : forall c s o h a, sh_step c s o = Some (h, a) ->
  NoDup (map h_id (hbs s)) -> NoDup (map h_id (hbs h)).
Proof.
  intros c s o h a H Hn. destruct o; cbn in H; try discriminate; try (inversion H; subst; cbn; assumption).
  - inversion H; subst. cbn. now apply hb_fold_nodup.
  - destruct (queue s); inversion H; subst; cbn; assumption.
Qed.

Lemma fold_add_hist_hbs : forall ids f s, hbs (fold_left (fun a i => add_hist i (f i) a) ids s) = hbs s.
Proof. induction ids as [|i ids IH]; intros f s; cbn [fold_left]; [reflexivity|]. rewrite IH. reflexivity. Qed.

Lemma sh_register_hbs : forall ids rid s, hbs (sh_register ids rid s) = hbs s.
Proof.
  intros ids rid s. unfold sh_register. cbn [set_queue hbs].
  rewrite (fold_add_hist_hbs ids (fun _ => (status_code REGISTERED, ocode rid, now s))). reflexivity.
Qed.

(* ------------------------------------------------------------------ the simulation relation *)
Ltac proj := cbn [recs retr sidx tidx cidx aidx pq graph ish rows rargs redges rsh bmem bref finished
                  iwith_sh with_sh set_pq] in *.

Section Sim.
Variable u : univ.
Variable c : conf.
Variable trans : transf.
Hypothesis trans_req : forall r req rid s' o', trans (Some r) req rid = TOk s' o' -> s' = req.
Hypothesis trans_final : forall r req rid s' o', doc_final (st r) = true -> trans (Some r) req rid <> TOk s' o'.

Definition row_final (S : rel) (i : nat) : Prop :=
  match find_row i (rows S) with Some r => doc_final (rst (r_rec r)) = true | None => True end.

(* index_invariant: every index is the image of the record table; the table is the relational one *)
Record Sim (ever fin : list nat) (I : idx) (S : rel) : Prop := {
  s_sh : ish I = rsh S;
  s_rec : forall i, rlookup i (recs I) = option_map r_rec (find_row i (rows S));
  s_retr : forall i, aget i (retr I) = option_map r_retry (find_row i (rows S));
  s_sidx : forall k i, In (k, i) (sidx I) <-> exists r, find_row i (rows S) = Some r /\ status_code (rst (r_rec r)) = k;
  s_tidx : forall k i, In (k, i) (tidx I) <-> k = task_of u i /\ find_row i (rows S) <> None;
  s_cidx : forall k i, In (k, i) (cidx I) <-> k = call_of u i /\ find_row i (rows S) <> None;
  s_aidx : forall k i, In (k, i) (aidx I) <-> In (i, k) (rargs S);
  s_pq : forall t i, In (t, i) (pq I) ->
         exists r, find_row i (rows S) = Some r /\ r_purge r = Some t /\ doc_final (rst (r_rec r)) = true;
  s_rowid : forall r, In r (rows S) -> find_row (r_id r) (rows S) = Some r;
  s_ever : forall i, find_row i (rows S) <> None -> In i ever;
  s_graph : BInv {| bmem := graph I; bref := redges S; finished := fin |};
  s_fin : forall x, In x fin -> In x ever /\ row_final S x;
  s_hb : NoDup (map h_id (hbs (rsh S))) }.

Lemma Sim_init : Sim [] [] idx0 rel0.
Proof.
  constructor; cbn; try reflexivity; try (intros; split; intros; firstorder congruence); try (intros; contradiction).
  - apply BInv_init.
  - constructor.
Qed.

Lemma Sim_with_sh : forall ever fin I S h, Sim ever fin I S -> NoDup (map h_id (hbs h)) ->
  Sim ever fin (iwith_sh I h) (with_sh S h).
Proof. intros ever fin I S h [] Hn. constructor; proj; auto. Qed.

Lemma Sim_ever_ext : forall e1 e2 fin I S, (forall x, In x e1 -> In x e2) -> Sim e1 fin I S -> Sim e2 fin I S.
Proof.
  intros e1 e2 fin I S He []. constructor; auto.
  intros x Hx. destruct (s_fin0 x Hx). split; auto.
Qed.

Lemma Sim_eta_ext : forall ever fin I S, Sim ever fin I S ->
  Sim ever fin I {| rows := rows S; rargs := rargs S; redges := redges S; rsh := rsh S |}.
Proof. intros ever fin I S H. destruct S; exact H. Qed.

(* ---- membership in the index-side candidate sets, in terms of the rows *)
Lemma tidx_row : forall ever fin I S tk j, Sim ever fin I S ->
  (In (tk, j) (tidx I) <-> exists r, find_row j (rows S) = Some r /\ task_ok u (Some tk) r = true).
Proof.
  intros ever fin I S tk j H. rewrite (s_tidx _ _ _ _ H). cbn [task_ok]. split.
  - intros [-> Hn]. destruct (find_row j (rows S)) as [r|] eqn:E; [|congruence]. exists r. split; [reflexivity|].
    apply find_row_in in E. destruct E as [_ ->]. apply Nat.eqb_refl.
  - intros [r [E Ht]]. pose proof (find_row_in _ _ _ E) as [_ Hid]. rewrite Hid in Ht. apply Nat.eqb_eq in Ht.
    split; [auto|congruence].
Qed.

Lemma sidx_row : forall ever fin I S sts j, Sim ever fin I S ->
  ((exists s, In s sts /\ In (status_code s, j) (sidx I)) <->
   exists r, find_row j (rows S) = Some r /\ smemb (rst (r_rec r)) sts = true).
Proof.
  intros ever fin I S sts j H. split.
  - intros [s [Hs Hi]]. apply (s_sidx _ _ _ _ H) in Hi. destruct Hi as [r [E Hc]]. exists r. split; [assumption|].
    apply status_code_inj in Hc. subst. now apply smemb_in.
  - intros [r [E Hm]]. apply smemb_in in Hm. exists (rst (r_rec r)). split; [assumption|].
    apply (s_sidx _ _ _ _ H). exists r. auto.
Qed.

Lemma aidx_row : forall ever fin I S kv j r, Sim ever fin I S -> r_id r = j ->
  ((forall q, In q kv -> In (kvcode q, j) (aidx I)) <-> args_ok (rargs S) kv r = true).
Proof.
  intros ever fin I S kv j r H Hid. unfold args_ok. rewrite forallb_forall. subst. split.
  - intros Hq p Hp. apply pmem_in. apply (s_aidx _ _ _ _ H). now apply Hq.
  - intros Hq p Hp. apply (s_aidx _ _ _ _ H). apply pmem_in. now apply Hq.
Qed.

Lemma sts_ok_spec : forall sts r, sts_ok sts r = true <-> sts = [] \/ smemb (rst (r_rec r)) sts = true.
Proof.
  intros sts r. destruct sts as [|s sts]; cbn [sts_ok]; [split; auto|].
  split; [auto|]. intros [H|H]; [discriminate|assumption].
Qed.

Lemma cands_in : forall ever fin I S tk sts j, Sim ever fin I S ->
  (In j (idx_cands I tk sts) <-> exists r, find_row j (rows S) = Some r /\ (task_ok u tk r && sts_ok sts r) = true).
Proof.
  intros ever fin I S tk sts j H.
  assert (In j (match tk with Some t => pget t (tidx I) | None => map snd (tidx I) end) <->
          exists r, find_row j (rows S) = Some r /\ task_ok u tk r = true) as Hb.
  { destruct tk as [t|].
    - rewrite in_pget. apply (tidx_row _ _ _ _ _ _ H).
    - cbn [task_ok]. rewrite in_map_iff. split.
      + intros [[k i] [E Hin]]. cbn in E. subst. apply (s_tidx _ _ _ _ H) in Hin. destruct Hin as [_ Hn].
        destruct (find_row j (rows S)) as [r|]; [exists r; auto|congruence].
      + intros [r [E _]]. exists (task_of u j, j). split; [reflexivity|]. apply (s_tidx _ _ _ _ H). split; [reflexivity|congruence]. }
  unfold idx_cands. destruct sts as [|s0 sts'].
  - rewrite Hb. split; intros [r [E Ht]]; exists r; (split; [assumption|]); cbn [sts_ok] in *; rewrite ?andb_true_r in *; assumption.
  - rewrite inter_in, Hb, by_statuses_in, (sidx_row _ _ _ _ (s0 :: sts') j H). split.
    + intros [[r [E Ht]] [r' [E' Hs]]]. rewrite E in E'. inversion E'; subst. exists r'. split; [assumption|].
      rewrite Ht. cbn [sts_ok andb]. assumption.
    + intros [r [E Hc]]. apply andb_true_iff in Hc. destruct Hc as [Ht Hs]. split; exists r; split; auto.
Qed.

Lemma existing_in : forall ever fin I S tk kv sts j, Sim ever fin I S ->
  (In j (match kv, sts with
         | [], [] => pget tk (tidx I)
         | [], _ => inter (pget tk (tidx I)) (by_statuses (sidx I) sts)
         | _, [] => inter (pget tk (tidx I)) (by_keys (aidx I) kv)
         | _, _ => inter (inter (pget tk (tidx I)) (by_keys (aidx I) kv)) (by_statuses (sidx I) sts)
         end) <->
   exists r, find_row j (rows S) = Some r /\ (task_ok u (Some tk) r && args_ok (rargs S) kv r && sts_ok sts r) = true).
Proof.
  intros ever fin I S tk kv sts j H.
  assert (forall r, find_row j (rows S) = Some r -> r_id r = j) as Hid by (intros r E; now apply find_row_in in E).
  destruct kv as [|p kv']; destruct sts as [|s0 sts'];
    rewrite ?inter_in, ?in_pget, ?by_keys_in, ?by_statuses_in, ?(sidx_row _ _ _ _ (s0 :: sts') j H), (tidx_row _ _ _ _ tk j H).
  - split; intros [r [E Ht]]; exists r; (split; [assumption|]).
    + rewrite Ht. reflexivity.
    + apply andb_true_iff in Ht. destruct Ht as [Ht _]. apply andb_true_iff in Ht. tauto.
  - split.
    + intros [[r [E Ht]] [r' [E' Hs]]]. rewrite E in E'. inversion E'; subst. exists r'. split; [assumption|].
      rewrite Ht. cbn [args_ok forallb sts_ok andb]. assumption.
    + intros [r [E Hc]]. apply andb_true_iff in Hc. destruct Hc as [Hc Hs]. apply andb_true_iff in Hc. destruct Hc as [Ht _].
      split; exists r; auto.
  - split.
    + intros [[r [E Ht]] [_ Hq]]. exists r. split; [assumption|]. rewrite Ht.
      rewrite (proj1 (aidx_row _ _ _ _ (p :: kv') j r H (Hid r E)) Hq). reflexivity.
    + intros [r [E Hc]]. apply andb_true_iff in Hc. destruct Hc as [Hc _]. apply andb_true_iff in Hc. destruct Hc as [Ht Ha].
      split; [exists r; auto|]. split; [discriminate|]. now apply (aidx_row _ _ _ _ (p :: kv') j r H (Hid r E)).
  - split.
    + intros [[[r [E Ht]] [_ Hq]] [r' [E' Hs]]]. rewrite E in E'. inversion E'; subst. exists r'. split; [assumption|]. rewrite Ht.
      rewrite (proj1 (aidx_row _ _ _ _ (p :: kv') j r' H (Hid r' E)) Hq). cbn [sts_ok andb]. assumption.
    + intros [r [E Hc]]. apply andb_true_iff in Hc. destruct Hc as [Hc Hs]. apply andb_true_iff in Hc. destruct Hc as [Ht Ha].
      split; [split|]; [exists r; auto| |exists r; auto].
      split; [discriminate|]. now apply (aidx_row _ _ _ _ (p :: kv') j r H (Hid r E)).
Qed.

(* ---- the ready set of the in-memory graph answers the reference query (C09's invariant, reused) *)
Lemma blocking_agree : forall ever fin I S, Sim ever fin I S ->
  idx_step u c trans I QBlocking = (I, snd (rel_step u c trans S QBlocking)).
Proof.
  intros ever fin I S H. unfold idx_step, rel_step. cbn [sh_step snd].
  destruct (s_graph _ _ _ _ H) as [H1 H2 H3 H4]. proj.
  f_equal. f_equal. apply norm_ext. intros x. unfold rel_blocking_cands. rewrite !filter_In, (s_rec _ _ _ _ H).
  remember (match find_row x (rows S) with Some r => doc_available (rst (r_rec r)) | None => false end) as runnable eqn:Er.
  assert (match option_map r_rec (find_row x (rows S)) with Some r => doc_available (rst r) | None => false end = runnable) as ->
    by (subst runnable; destruct (find_row x (rows S)); reflexivity).
  destruct runnable; [|rewrite andb_false_r; split; intros [_ Hc]; discriminate].
  rewrite andb_true_r.
  assert (~ In x fin) as Hnf.
  { intros Hf. destruct (s_fin _ _ _ _ H x Hf) as [_ Hrf]. unfold row_final in Hrf.
    destruct (find_row x (rows S)) as [r|]; [|discriminate Er]. rewrite (final_not_available _ Hrf) in Er. discriminate Er. }
  assert (has_out (Ew (graph I)) x = has_out (redges S) x) as Ho.
  { destruct (has_out (redges S) x) eqn:E.
    - apply has_out_spec in E. destruct E as [q Hq]. apply has_out_spec. destruct (H3 x q Hq) as [Hi|Hf]; [eauto|contradiction].
    - apply bool_false_iff. intros Hc. apply has_out_spec in Hc. destruct Hc as [q Hq].
      apply bool_false_iff in E. apply E. apply has_out_spec. exists q. now apply H2. }
  split.
  - intros [Hx _]. apply (H4 x) in Hx; [|discriminate]. destruct Hx as [Ha Hb]. rewrite H1 in Ha. rewrite Ho in Hb.
    apply has_in_spec in Ha. destruct Ha as [w Hw]. split; [|now rewrite Hb].
    apply in_map_iff. exists (w, x). auto.
  - intros [Hx Hb]. split; [|reflexivity]. apply (H4 x); [discriminate|]. rewrite H1, Ho.
    apply in_map_iff in Hx. destruct Hx as [[w x'] [E Hin]]. cbn in E. subst. split.
    + apply has_in_spec. eauto.
    + destruct (has_out (redges S) x); [discriminate|reflexivity].
Qed.

Lemma pending_agree : forall ever fin I S, Sim ever fin I S ->
  snd (idx_step u c trans I QPending) = snd (rel_step u c trans S QPending).
Proof.
  intros ever fin I S H. unfold idx_step, rel_step. cbn [sh_step snd]. rewrite (s_sh _ _ _ _ H).
  f_equal. apply norm_ext. intros j. unfold pending_scan. rewrite filter_In, in_pget, (s_sidx _ _ _ _ H), (s_rec _ _ _ _ H).
  rewrite in_map_iff. split.
  - intros [[r [E Hc]] Ht]. rewrite E in Ht. cbn in Ht. exists (j, r_rec r). split; [reflexivity|].
    apply filter_In. split.
    + unfold store_of. apply in_map_iff. exists r. pose proof (find_row_in _ _ _ E) as [Hin Hid]. rewrite Hid. auto.
    + cbn. unfold pending_sel, cmp_le. apply status_code_inj in Hc. rewrite Hc. cbn. assumption.
  - intros [[j' rr] [E Hf]]. cbn in E. subst. apply filter_In in Hf. destruct Hf as [Hin Hs].
    unfold store_of in Hin. apply in_map_iff in Hin. destruct Hin as [r [E Hr]]. inversion E; subst.
    pose proof (s_rowid _ _ _ _ H r Hr) as Ef. cbn in Hs. unfold pending_sel, cmp_le in Hs.
    apply andb_true_iff in Hs. destruct Hs as [Hs Ht]. apply status_eqb_eq in Hs. split.
    + exists r. split; [assumption|]. now rewrite Hs.
    + rewrite Ef. cbn. assumption.
Qed.

Lemma running_agree : forall ever fin I S, Sim ever fin I S ->
  snd (idx_step u c trans I QRunning) = snd (rel_step u c trans S QRunning).
Proof.
  intros ever fin I S H. unfold idx_step, rel_step. cbn [sh_step snd]. rewrite (s_sh _ _ _ _ H).
  f_equal. apply norm_ext. intros j. unfold sql_running_scan.
  rewrite filter_In, in_pget, (s_sidx _ _ _ _ H), (s_rec _ _ _ _ H), in_map_iff.
  assert (NoDup (map fst (hbeats_of (hbs (rsh S))))) as Hnd by (rewrite hbeats_ids; apply (s_hb _ _ _ _ H)).
  split.
  - intros [[r [E Hc]] Ht]. rewrite E in Ht. cbn in Ht. exists (j, r_rec r). split; [reflexivity|].
    apply filter_In. split.
    + unfold store_of. apply in_map_iff. exists r. pose proof (find_row_in _ _ _ E) as [Hin Hid]. rewrite Hid. auto.
    + cbn. rewrite <- (running_sel_agree _ _ _ Hnd). unfold mem_running_sel. apply status_code_inj in Hc. rewrite Hc. cbn.
      destruct (rown (r_rec r)); [assumption|discriminate].
  - intros [[j' rr] [E Hf]]. cbn in E. subst. apply filter_In in Hf. destruct Hf as [Hin Hs].
    unfold store_of in Hin. apply in_map_iff in Hin. destruct Hin as [r [E Hr]]. inversion E; subst.
    pose proof (s_rowid _ _ _ _ H r Hr) as Ef. cbn in Hs. rewrite <- (running_sel_agree _ _ _ Hnd) in Hs.
    unfold mem_running_sel in Hs. apply andb_true_iff in Hs. destruct Hs as [Hs Ht]. apply status_eqb_eq in Hs. split.
    + exists r. split; [assumption|]. now rewrite Hs.
    + rewrite Ef. cbn. destruct (rown (r_rec r)); [assumption|discriminate].
Qed.

(* every query gets the same answer and leaves both states alone *)
Definition is_query (o : op) : bool :=
  match o with
  | QRec _ | QRetries _ | QTask _ | QCall _ | QExisting _ _ _ | QPage _ _ _ _ | QCount _ _ | QFilter _ _
  | QBlocking | QPending | QRunning => true
  | _ => false
  end.

Lemma sim_query : forall ever fin I S o, Sim ever fin I S -> is_query o = true ->
  idx_step u c trans I o = (I, snd (rel_step u c trans S o)) /\ fst (rel_step u c trans S o) = S.
Proof.
  intros ever fin I S o H Hq. destruct o; try discriminate Hq; clear Hq.
  - (* QRec *) unfold idx_step, rel_step. cbn [sh_step fst snd]. rewrite (s_rec _ _ _ _ H).
    destruct (find_row i (rows S)); auto.
  - (* QRetries *) unfold idx_step, rel_step. cbn [sh_step fst snd]. rewrite (s_retr _ _ _ _ H).
    destruct (find_row i (rows S)); auto.
  - (* QTask *) unfold idx_step, rel_step. cbn [sh_step fst snd]. split; [|reflexivity]. do 2 f_equal. apply norm_ext. intros j.
    rewrite in_pget, (tidx_row _ _ _ _ t j H). symmetry. apply in_rows_iff. apply (s_rowid _ _ _ _ H).
  - (* QCall *) unfold idx_step, rel_step. cbn [sh_step fst snd]. split; [|reflexivity]. do 2 f_equal. apply norm_ext. intros j.
    rewrite in_pget, (s_cidx _ _ _ _ H), (in_rows_iff _ (s_rowid _ _ _ _ H)). split.
    + intros [-> Hn]. destruct (find_row j (rows S)) as [r|] eqn:E; [|congruence]. exists r. split; [reflexivity|].
      apply find_row_in in E. destruct E as [_ ->]. apply Nat.eqb_refl.
    + intros [r [E Ht]]. pose proof (find_row_in _ _ _ E) as [_ Hid]. rewrite Hid in Ht. apply Nat.eqb_eq in Ht.
      split; [auto|congruence].
  - (* QExisting *) unfold idx_step, rel_step. cbn [sh_step fst snd]. split; [|reflexivity]. do 2 f_equal. apply norm_ext. intros j.
    rewrite (existing_in _ _ _ _ t kv sts j H). symmetry. apply in_rows_iff. apply (s_rowid _ _ _ _ H).
  - (* QPage *) unfold idx_step, rel_step. cbn [sh_step fst snd]. split; [|reflexivity]. rewrite (s_sh _ _ _ _ H).
    assert (norm (idx_cands I t sts) = norm (map r_id (filter (fun r => task_ok u t r && sts_ok sts r) (rows S)))) as ->.
    { apply norm_ext. intros j. rewrite (cands_in _ _ _ _ t sts j H). symmetry. apply in_rows_iff. apply (s_rowid _ _ _ _ H). }
    do 3 f_equal. apply map_ext. intros j. rewrite (s_rec _ _ _ _ H). destruct (find_row j (rows S)); reflexivity.
  - (* QCount *) unfold idx_step, rel_step. cbn [sh_step fst snd]. split; [|reflexivity]. do 3 f_equal.
    apply norm_ext. intros j. rewrite (cands_in _ _ _ _ t sts j H). symmetry. apply in_rows_iff. apply (s_rowid _ _ _ _ H).
  - (* QFilter *) unfold idx_step, rel_step. cbn [sh_step fst snd]. split; [|reflexivity].
    destruct ids as [|i0 ids']; [reflexivity|].
    do 3 f_equal. apply filter_ext. intros j. rewrite (s_rec _ _ _ _ H). destruct (find_row j (rows S)); reflexivity.
  - (* QBlocking *) split; [|reflexivity]. apply (blocking_agree _ _ _ _ H).
  - (* QPending *) split; [|reflexivity]. pose proof (pending_agree _ _ _ _ H) as E.
    unfold idx_step in *. cbn [sh_step snd] in *. f_equal. exact E.
  - (* QRunning *) split; [|reflexivity]. pose proof (running_agree _ _ _ _ H) as E.
    unfold idx_step in *. cbn [sh_step snd] in *. f_equal. exact E.
Qed.

(* ------------------------------------------------------------------ state-changing operations *)
Lemma sim_shared : forall ever fin I S o h a, Sim ever fin I S ->
  sh_step c (rsh S) o = Some (h, a) ->
  idx_step u c trans I o = (iwith_sh I h, a) /\ rel_step u c trans S o = (with_sh S h, a) /\
  Sim ever fin (iwith_sh I h) (with_sh S h).
Proof.
  intros ever fin I S o h a H E. unfold idx_step, rel_step.
  rewrite (s_sh _ _ _ _ H), E. split; [reflexivity|split; [reflexivity|]].
  apply Sim_with_sh; [assumption|]. eapply sh_step_hb; [exact E|apply (s_hb _ _ _ _ H)].
Qed.

Lemma reg_one : forall ever fin I S t rid i, Sim ever fin I S ->
  (find_row i (rows S) <> None \/ ~ In i ever) ->
  Sim (i :: ever) fin (idx_register_one u t rid I i)
      {| rows := rel_insert t rid (rows S) i; rargs := rargs S; redges := redges S; rsh := rsh S |}.
Proof.
  intros ever fin I S t rid i H Hcase.
  destruct (find_row i (rows S)) as [r0|] eqn:Hn.
  { (* already registered: both sides leave everything as it is *)
    unfold idx_register_one, rel_insert. rewrite (s_rec _ _ _ _ H), Hn. cbn [option_map].
    apply Sim_eta_ext. apply (Sim_ever_ext ever); [intros x Hx; now right|assumption]. }
  assert (~ In i ever) as Hfresh by (destruct Hcase as [Hc|Hc]; [congruence|assumption]).
  assert (rlookup i (recs I) = None) as Hri by (rewrite (s_rec _ _ _ _ H), Hn; reflexivity).
  destruct H as [Hsh Hrec Hretr Hsidx Htidx Hcidx Haidx Hpq Hrowid Hever Hgraph Hfin Hhb].
  unfold idx_register_one. rewrite Hri. constructor; proj.
  - assumption.
  - intros j. rewrite rlookup_rset, find_row_insert. destruct (j =? i) eqn:E.
    + apply Nat.eqb_eq in E; subst. rewrite Hn. reflexivity.
    + rewrite Hrec. destruct (find_row j (rows S)); reflexivity.
  - intros j. rewrite aget_aset, find_row_insert. destruct (j =? i) eqn:E.
    + apply Nat.eqb_eq in E; subst. rewrite Hn. reflexivity.
    + rewrite Hretr. destruct (find_row j (rows S)); reflexivity.
  - intros k j. rewrite in_padd, Hsidx, find_row_insert. split.
    + intros [[r [E Hc]]|[-> ->]].
      * exists r. rewrite E. auto.
      * rewrite Hn, Nat.eqb_refl. eexists. split; reflexivity.
    + intros [r [E Hc]]. destruct (find_row j (rows S)) as [q|] eqn:Eq.
      * inversion E; subst. left. exists r. auto.
      * destruct (j =? i) eqn:Ej; [|discriminate]. apply Nat.eqb_eq in Ej. inversion E; subst. right. cbn. auto.
  - intros k j. rewrite in_padd, Htidx, find_row_insert. split.
    + intros [[-> Hx]|[-> ->]].
      * split; [reflexivity|]. destruct (find_row j (rows S)); [discriminate|congruence].
      * split; [reflexivity|]. rewrite Hn, Nat.eqb_refl. discriminate.
    + intros [-> Hx]. destruct (find_row j (rows S)) eqn:Eq.
      * left. split; [reflexivity|congruence].
      * destruct (j =? i) eqn:Ej; [|congruence]. apply Nat.eqb_eq in Ej. subst. right. auto.
  - intros k j. rewrite in_padd, Hcidx, find_row_insert. split.
    + intros [[-> Hx]|[-> ->]].
      * split; [reflexivity|]. destruct (find_row j (rows S)); [discriminate|congruence].
      * split; [reflexivity|]. rewrite Hn, Nat.eqb_refl. discriminate.
    + intros [-> Hx]. destruct (find_row j (rows S)) eqn:Eq.
      * left. split; [reflexivity|congruence].
      * destruct (j =? i) eqn:Ej; [|congruence]. apply Nat.eqb_eq in Ej. subst. right. auto.
  - assumption.
  - intros t0 j Hin. destruct (Hpq _ _ Hin) as [r [E Hr]]. exists r. rewrite find_row_insert, E. auto.
  - intros r Hr. unfold rel_insert in *. rewrite Hn in *. apply in_app_iff in Hr. rewrite find_row_app.
    destruct Hr as [Hr|[<-|[]]].
    + rewrite (Hrowid r Hr). reflexivity.
    + cbn [r_id]. rewrite Hn. cbn. rewrite Nat.eqb_refl. reflexivity.
  - intros j Hj. rewrite find_row_insert in Hj. destruct (find_row j (rows S)) eqn:Eq.
    + right. apply Hever. congruence.
    + destruct (j =? i) eqn:Ej; [|congruence]. apply Nat.eqb_eq in Ej. subst. now left.
  - assumption.
  - intros x Hx. destruct (Hfin x Hx) as [He Hf]. split; [now right|]. unfold row_final in *. proj.
    rewrite find_row_insert. destruct (find_row x (rows S)) eqn:Eq; [assumption|].
    destruct (x =? i) eqn:Ex; [|trivial]. apply Nat.eqb_eq in Ex. subst. contradiction.
  - assumption.
Qed.

Lemma find_row_insert_keeps : forall t rid l i j, find_row j l <> None -> find_row j (rel_insert t rid l i) <> None.
Proof. intros t rid l i j H. rewrite find_row_insert. destruct (find_row j l); [discriminate|congruence]. Qed.

Lemma reg_fold : forall t rid ids ever fin I S, Sim ever fin I S ->
  (forall i, In i ids -> find_row i (rows S) <> None \/ ~ In i ever) ->
  Sim (ids ++ ever) fin (fold_left (idx_register_one u t rid) ids I)
      {| rows := fold_left (rel_insert t rid) ids (rows S); rargs := rargs S; redges := redges S; rsh := rsh S |}.
Proof.
  intros t rid ids. induction ids as [|i ids IH]; intros ever fin I S H Hcase.
  - cbn. destruct S; cbn; assumption.
  - cbn [fold_left].
    eapply Sim_ever_ext;
      [|apply (IH (i :: ever) fin (idx_register_one u t rid I i)
                  {| rows := rel_insert t rid (rows S) i; rargs := rargs S; redges := redges S; rsh := rsh S |})].
    + intros x Hx. apply in_app_iff in Hx. cbn. rewrite in_app_iff. cbn in Hx. tauto.
    + apply reg_one; [assumption|]. apply Hcase. now left.
    + intros j Hj. proj. destruct (Hcase j (or_intror Hj)) as [Hr|Hne].
      * left. now apply find_row_insert_keeps.
      * destruct (Nat.eq_dec j i) as [->|Hji].
        -- left. rewrite find_row_insert. destruct (find_row i (rows S)); [discriminate|]. rewrite Nat.eqb_refl. discriminate.
        -- right. intros [Hc|Hc]; [congruence|contradiction].
Qed.

Lemma sim_reg : forall ever fin I S ids rid, Sim ever fin I S -> guard c ever S (Reg ids rid) = 0 ->
  snd (idx_step u c trans I (Reg ids rid)) = snd (rel_step u c trans S (Reg ids rid)) /\
  Sim (ids ++ ever) fin (fst (idx_step u c trans I (Reg ids rid))) (fst (rel_step u c trans S (Reg ids rid))).
Proof.
  intros ever fin I S ids rid H Hg. cbn [guard] in Hg.
  destruct (forallb (fun i => registered S i || negb (memb i ever)) ids) eqn:E; [|discriminate].
  rewrite forallb_forall in E.
  unfold idx_step, rel_step. cbn [sh_step fst snd]. split; [reflexivity|].
  rewrite (s_sh _ _ _ _ H).
  assert (forall i, In i ids -> find_row i (rows S) <> None \/ ~ In i ever) as Hcase.
  { intros i Hi. specialize (E i Hi). apply orb_true_iff in E. destruct E as [E|E].
    - left. unfold registered in E. destruct (find_row i (rows S)); [discriminate|discriminate].
    - right. intros Hc. apply memb_in in Hc. rewrite Hc in E. discriminate. }
  pose proof (reg_fold (now (rsh S)) rid ids ever fin I S H Hcase) as Hf.
  apply (Sim_with_sh _ _ _ _ (sh_register ids rid (rsh S))) in Hf.
  - exact Hf.
  - rewrite sh_register_hbs. apply (s_hb _ _ _ _ H).
Qed.

Lemma sim_setst : forall ever fin I S i req rid, Sim ever fin I S ->
  snd (idx_step u c trans I (SetSt i req rid)) = snd (rel_step u c trans S (SetSt i req rid)) /\
  exists fin', Sim ever fin' (fst (idx_step u c trans I (SetSt i req rid))) (fst (rel_step u c trans S (SetSt i req rid))).
Proof.
  intros ever fin I S i req rid H. unfold idx_step, rel_step. cbn [sh_step].
  rewrite (s_rec _ _ _ _ H). destruct (find_row i (rows S)) as [r|] eqn:Ef; cbn [option_map].
  2:{ cbn [fst snd]. split; [reflexivity|]. exists fin. assumption. }
  destruct (trans (Some (srec_of (r_rec r))) req rid) as [s' o'|e] eqn:Et.
  2:{ cbn [fst snd]. split; [reflexivity|]. exists fin. assumption. }
  cbn [fst snd]. rewrite (s_sh _ _ _ _ H). split; [reflexivity|].
  pose proof (trans_req _ _ _ _ _ Et) as Hreq. subst s'.
  assert (doc_final (rst (r_rec r)) = false) as Hlive.
  { destruct (doc_final (rst (r_rec r))) eqn:E; [|reflexivity]. exfalso.
    apply (trans_final (srec_of (r_rec r)) req rid req o'); [exact E|exact Et]. }
  pose proof (find_row_in _ _ _ Ef) as [Hrin Hrid].
  set (t := now (rsh S)).
  set (f := fun r0 : row => {| r_id := r_id r0; r_rec := {| rst := req; rown := o'; rts := t |}; r_retry := r_retry r0;
                              r_purge := if doc_final req then Some t else r_purge r0 |}).
  assert (forall r0, r_id (f r0) = r_id r0) as Hf by reflexivity.
  assert (forall j, j <> i -> find_row j (upd_row i f (rows S)) = find_row j (rows S)) as Hother.
  { intros j Hj. rewrite (find_row_upd i f _ j Hf). destruct (find_row j (rows S)) as [q|] eqn:Eq; [|reflexivity].
    apply find_row_in in Eq. destruct Eq as [_ Eq]. rewrite Eq. apply Nat.eqb_neq in Hj. now rewrite Hj. }
  assert (find_row i (upd_row i f (rows S)) = Some (f r)) as Hsame.
  { rewrite (find_row_upd i f _ i Hf), Ef, Hrid, Nat.eqb_refl. reflexivity. }
  exists (if doc_final req then i :: fin else fin).
  destruct H as [Hsh Hrec Hretr Hsidx Htidx Hcidx Haidx Hpq Hrowid Hever Hgraph Hfin Hhb].
  constructor; proj.
  - reflexivity.
  - intros j. rewrite rlookup_rset. destruct (j =? i) eqn:E.
    + apply Nat.eqb_eq in E. subst j. rewrite Hsame. reflexivity.
    + apply Nat.eqb_neq in E. rewrite (Hother j E). apply Hrec.
  - intros j. rewrite Hretr. destruct (Nat.eq_dec j i) as [->|E].
    + rewrite Hsame, Ef. reflexivity.
    + rewrite (Hother j E). reflexivity.
  - intros k j. rewrite in_padd, in_pdel, Hsidx. destruct (Nat.eq_dec j i) as [->|E].
    + rewrite Hsame, Ef. split.
      * intros [[[q [Eq Hc]] Hne]|[-> _]].
        -- inversion Eq; subst q. exfalso. apply Hne. auto.
        -- exists (f r). auto.
      * intros [q [Eq Hc]]. inversion Eq; subst q. right. cbn in Hc. auto.
    + rewrite (Hother j E). split.
      * intros [[Hq _]|[_ Hc]]; [assumption|contradiction].
      * intros Hq. left. split; [assumption|]. intros [_ Hc]. contradiction.
  - intros k j. rewrite Htidx. destruct (Nat.eq_dec j i) as [->|E].
    + rewrite Hsame, Ef. split; intros [Hk _]; (split; [assumption|discriminate]).
    + rewrite (Hother j E). reflexivity.
  - intros k j. rewrite Hcidx. destruct (Nat.eq_dec j i) as [->|E].
    + rewrite Hsame, Ef. split; intros [Hk _]; (split; [assumption|discriminate]).
    + rewrite (Hother j E). reflexivity.
  - assumption.
  - intros t0 j Hin.
    assert (In (t0, j) (pq I) -> exists r0, find_row j (upd_row i f (rows S)) = Some r0 /\ r_purge r0 = Some t0 /\
                                            doc_final (rst (r_rec r0)) = true) as Hold.
    { intros Hi. destruct (Hpq _ _ Hi) as [q [Eq [Hp Hfq]]]. destruct (Nat.eq_dec j i) as [->|E].
      - rewrite Ef in Eq. inversion Eq; subst q. congruence.
      - exists q. rewrite (Hother j E). auto. }
    destruct (doc_final req) eqn:Efr; [|now apply Hold].
    apply in_app_iff in Hin. destruct Hin as [Hin|[Hin|[]]]; [now apply Hold|].
    inversion Hin; subst t0 j. exists (f r). split; [assumption|]. unfold f. cbn. rewrite Efr. auto.
  - intros q Hq. unfold upd_row in Hq. apply in_map_iff in Hq. destruct Hq as [q0 [Eq Hq0]].
    pose proof (Hrowid q0 Hq0) as E0. destruct (r_id q0 =? i) eqn:Ei.
    + apply Nat.eqb_eq in Ei. subst q. rewrite Hf, Ei. rewrite Ei, Ef in E0. inversion E0; subst q0. assumption.
    + subst q. apply Nat.eqb_neq in Ei. rewrite (Hother _ Ei). assumption.
  - intros j Hj. apply Hever. intros Hc. apply Hj. apply (find_row_upd_none i f _ j Hf). assumption.
  - destruct (doc_final req).
    + apply (bstep_inv {| bmem := graph I; bref := redges S; finished := fin |} (BFinish i)); [exact Logic.I|assumption].
    + assumption.
  - intros x Hx.
    assert (In x fin -> In x ever /\ row_final {| rows := upd_row i f (rows S); rargs := rargs S;
                                                   redges := (if doc_final req then ref_release i (redges S) else redges S);
                                                   rsh := add_hist i (status_code req, ocode o', t) (note_runner (ocode rid) (rsh S)) |} x) as Hold.
    { intros Hi. destruct (Hfin x Hi) as [He Hrf]. split; [assumption|]. unfold row_final in *. proj.
      destruct (Nat.eq_dec x i) as [->|E].
      - rewrite Ef in Hrf. congruence.
      - rewrite (Hother x E). assumption. }
    destruct (doc_final req) eqn:Efr; [|now apply Hold].
    destruct Hx as [<-|Hx]; [|now apply Hold]. split.
    + apply Hever. congruence.
    + unfold row_final. proj. rewrite Hsame. cbn. assumption.
  - cbn. assumption.
Qed.

Lemma args_fold_sync : forall i l a b, (forall k j, In (k, j) a <-> In (j, k) b) ->
  forall k j, In (k, j) (fold_left (fun a kv => padd (kvcode kv) i a) l a) <->
              In (j, k) (fold_left (fun a kv => padd i (kvcode kv) a) l b).
Proof.
  intros i l. induction l as [|kv l IH]; intros a b H k j; cbn [fold_left]; [apply H|].
  apply IH. intros k' j'. rewrite !in_padd, H. tauto.
Qed.

Lemma sim_idxargs : forall ever fin I S i, Sim ever fin I S ->
  Sim ever fin (fst (idx_step u c trans I (IdxArgs i))) (fst (rel_step u c trans S (IdxArgs i))).
Proof.
  intros ever fin I S i H. unfold idx_step, rel_step. cbn [sh_step fst].
  destruct H as [Hsh Hrec Hretr Hsidx Htidx Hcidx Haidx Hpq Hrowid Hever Hgraph Hfin Hhb].
  constructor; proj; try assumption.
  now apply args_fold_sync.
Qed.

Lemma upd_row_absent : forall i f l, find_row i l = None -> upd_row i f l = l.
Proof.
  intros i f l. induction l as [|q l IH]; cbn; intros H; [reflexivity|].
  destruct (i =? r_id q) eqn:E; [discriminate|]. rewrite Nat.eqb_sym, E. f_equal. now apply IH.
Qed.

Lemma sim_incr : forall ever fin I S i, Sim ever fin I S ->
  snd (idx_step u c trans I (IncR i)) = snd (rel_step u c trans S (IncR i)) /\
  Sim ever fin (fst (idx_step u c trans I (IncR i))) (fst (rel_step u c trans S (IncR i))).
Proof.
  intros ever fin I S i H. unfold idx_step, rel_step. cbn [sh_step].
  rewrite (s_retr _ _ _ _ H). destruct (find_row i (rows S)) as [r|] eqn:Ef; cbn [option_map fst snd].
  2:{ split; [reflexivity|]. rewrite (upd_row_absent _ _ _ Ef). now apply Sim_eta_ext. }
  split; [reflexivity|].
  pose proof (find_row_in _ _ _ Ef) as [Hrin Hrid].
  set (f := fun r0 : row => {| r_id := r_id r0; r_rec := r_rec r0; r_retry := Datatypes.S (r_retry r0); r_purge := r_purge r0 |}).
  assert (forall r0, r_id (f r0) = r_id r0) as Hf by reflexivity.
  assert (forall j, j <> i -> find_row j (upd_row i f (rows S)) = find_row j (rows S)) as Hother.
  { intros j Hj. rewrite (find_row_upd i f _ j Hf). destruct (find_row j (rows S)) as [q|] eqn:Eq; [|reflexivity].
    apply find_row_in in Eq. destruct Eq as [_ Eq]. rewrite Eq. apply Nat.eqb_neq in Hj. now rewrite Hj. }
  assert (find_row i (upd_row i f (rows S)) = Some (f r)) as Hsame.
  { rewrite (find_row_upd i f _ i Hf), Ef, Hrid, Nat.eqb_refl. reflexivity. }
  assert (forall j, option_map r_rec (find_row j (upd_row i f (rows S))) = option_map r_rec (find_row j (rows S))) as Hrecs.
  { intros j. destruct (Nat.eq_dec j i) as [->|E]; [rewrite Hsame, Ef; reflexivity|now rewrite (Hother j E)]. }
  assert (forall j, find_row j (upd_row i f (rows S)) <> None <-> find_row j (rows S) <> None) as Hnn.
  { intros j. pose proof (find_row_upd_none i f (rows S) j Hf). tauto. }
  destruct H as [Hsh Hrec Hretr Hsidx Htidx Hcidx Haidx Hpq Hrowid Hever Hgraph Hfin Hhb].
  constructor; proj; try assumption.
  - intros j. rewrite Hrecs. apply Hrec.
  - intros j. rewrite aget_aset. destruct (j =? i) eqn:E.
    + apply Nat.eqb_eq in E. subst j. rewrite Hsame. reflexivity.
    + apply Nat.eqb_neq in E. rewrite (Hother j E). apply Hretr.
  - intros k j. rewrite Hsidx. destruct (Nat.eq_dec j i) as [->|E].
    + rewrite Hsame, Ef. split; intros [q [Eq Hc]]; inversion Eq; subst q; eexists; split; try reflexivity; exact Hc.
    + rewrite (Hother j E). reflexivity.
  - intros k j. rewrite Htidx, Hnn. reflexivity.
  - intros k j. rewrite Hcidx, Hnn. reflexivity.
  - intros t0 j Hin. destruct (Hpq _ _ Hin) as [q [Eq [Hp Hfq]]]. destruct (Nat.eq_dec j i) as [->|E].
    + rewrite Ef in Eq. inversion Eq; subst q. exists (f r). auto.
    + exists q. rewrite (Hother j E). auto.
  - intros q Hq. unfold upd_row in Hq. apply in_map_iff in Hq. destruct Hq as [q0 [Eq Hq0]].
    pose proof (Hrowid q0 Hq0) as E0. destruct (r_id q0 =? i) eqn:Ei.
    + apply Nat.eqb_eq in Ei. subst q. rewrite Hf, Ei. rewrite Ei, Ef in E0. inversion E0; subst q0. assumption.
    + subst q. apply Nat.eqb_neq in Ei. rewrite (Hother _ Ei). assumption.
  - intros j Hj. apply Hever. now apply Hnn.
  - intros x Hx. destruct (Hfin x Hx) as [He Hrf]. split; [assumption|]. unfold row_final in *. proj.
    destruct (Nat.eq_dec x i) as [->|E].
    + rewrite Hsame. rewrite Ef in Hrf. assumption.
    + rewrite (Hother x E). assumption.
Qed.

Lemma Sim_eta : forall ever fin I S, Sim ever fin I S ->
  Sim ever fin I {| rows := rows S; rargs := rargs S; redges := redges S; rsh := rsh S |}.
Proof. intros ever fin I S H. destruct S; exact H. Qed.

Lemma sim_wait : forall ever fin I S w xs, Sim ever fin I S -> guard c ever S (Wait w xs) = 0 ->
  Sim ever fin (fst (idx_step u c trans I (Wait w xs))) (fst (rel_step u c trans S (Wait w xs))).
Proof.
  intros ever fin I S w xs H Hg. cbn [guard] in Hg.
  destruct (negb (memb w xs)) eqn:E1; [|discriminate]. clear Hg.
  unfold idx_step, rel_step. cbn [sh_step fst].
  destruct xs as [|x0 xs']; [cbn [fst ref_wait fold_left]; now apply Sim_eta|].
  cbn [fst].
  destruct H as [Hsh Hrec Hretr Hsidx Htidx Hcidx Haidx Hpq Hrowid Hever Hgraph Hfin Hhb].
  constructor; proj; try assumption.
  apply (bstep_inv {| bmem := graph I; bref := redges S; finished := fin |} (BWait w (x0 :: xs'))); [|assumption].
  split; [discriminate|]. intros Hc. apply memb_in in Hc. rewrite Hc in E1. discriminate.
Qed.

Lemma sim_release : forall ever fin I S x, Sim ever fin I S -> guard c ever S (Release x) = 0 ->
  Sim ever (x :: fin) (fst (idx_step u c trans I (Release x))) (fst (rel_step u c trans S (Release x))).
Proof.
  intros ever fin I S x H Hg. cbn [guard] in Hg. unfold is_final_row in Hg.
  destruct (find_row x (rows S)) as [r|] eqn:Ef; [|discriminate].
  destruct (doc_final (rst (r_rec r))) eqn:Efin; [|discriminate]. clear Hg.
  unfold idx_step, rel_step. cbn [sh_step fst].
  destruct H as [Hsh Hrec Hretr Hsidx Htidx Hcidx Haidx Hpq Hrowid Hever Hgraph Hfin Hhb].
  constructor; proj; try assumption.
  - apply (bstep_inv {| bmem := graph I; bref := redges S; finished := fin |} (BFinish x)); [exact Logic.I|assumption].
  - intros y [<-|Hy].
    + split; [apply Hever; congruence|]. unfold row_final. proj. rewrite Ef. assumption.
    + destruct (Hfin y Hy) as [He Hrf]. split; [assumption|]. exact Hrf.
Qed.

Lemma sim_opurge : forall ever fin I S, Sim ever fin I S ->
  Sim [] [] (fst (idx_step u c trans I OPurge)) (fst (rel_step u c trans S OPurge)).
Proof.
  intros ever fin I S H. unfold idx_step, rel_step. cbn [sh_step fst].
  constructor; proj; cbn [rlookup aget find_row option_map In].
  - rewrite (s_sh _ _ _ _ H). reflexivity.
  - reflexivity.
  - reflexivity.
  - intros k i. split; [intros []|intros [r [E _]]; discriminate].
  - intros k i. split; [intros []|intros [_ E]; congruence].
  - intros k i. split; [intros []|intros [_ E]; congruence].
  - intros k i. split; intros [].
  - intros t i [].
  - intros r [].
  - intros i E. congruence.
  - apply BInv_init.
  - intros x [].
  - cbn. constructor.
Qed.

Lemma sim_autopurge_idle : forall ever fin I S, Sim ever fin I S -> guard c ever S AutoPurge = 0 ->
  snd (idx_step u c trans I AutoPurge) = snd (rel_step u c trans S AutoPurge) /\
  Sim ever fin (fst (idx_step u c trans I AutoPurge)) (fst (rel_step u c trans S AutoPurge)).
Proof.
  intros ever fin I S H Hg. cbn [guard] in Hg.
  destruct (existsb (due c S) (rows S)) eqn:Ed; [discriminate|]. clear Hg.
  pose proof (existsb_false _ _ _ Ed) as Hnd.
  unfold idx_step, rel_step. cbn [sh_step].
  (* the relational side deletes nothing *)
  assert (forall i, existsb (fun r => Nat.eqb (r_id r) i &&
                       match r_purge r with Some p => (p <=? now (rsh S) - purge_after c)%Z | None => false end) (rows S) = false) as Hdead.
  { intros i. apply not_true_is_false. intros E. apply existsb_exists in E. destruct E as [r [Hr E]].
    apply andb_true_iff in E. destruct E as [_ E]. specialize (Hnd r Hr). unfold due in Hnd. congruence. }
  assert (fst (rel_step u c trans S AutoPurge) = {| rows := rows S; rargs := rargs S; redges := redges S; rsh := rsh S |}) as Hrel.
  { unfold rel_step. cbn [sh_step fst]. f_equal; apply filter_all; intros x _; rewrite Hdead; reflexivity. }
  unfold rel_step in Hrel. cbn [sh_step] in Hrel. cbn [fst snd] in *. rewrite Hrel.
  (* the index side stops at the head of the deque *)
  rewrite (s_sh _ _ _ _ H).
  destruct (pq I) as [|[t0 i0] rest] eqn:Epq; cbn [idx_purge_loop].
  - cbn [fst snd]. split; [reflexivity|]. apply Sim_eta.
    destruct H as [Hsh Hrec Hretr Hsidx Htidx Hcidx Haidx Hpq Hrowid Hever Hgraph Hfin Hhb].
    constructor; proj; try assumption. intros t i [].
  - assert (In (t0, i0) (pq I)) as Hin by (rewrite Epq; now left).
    destruct (s_pq _ _ _ _ H _ _ Hin) as [r [Ef [Hp _]]]. apply find_row_in in Ef. destruct Ef as [Hr _].
    specialize (Hnd r Hr). unfold due in Hnd. rewrite Hp in Hnd. rewrite Hnd.
    cbn [fst snd]. split; [reflexivity|]. apply Sim_eta.
    destruct H as [Hsh Hrec Hretr Hsidx Htidx Hcidx Haidx Hpq Hrowid Hever Hgraph Hfin Hhb].
    constructor; proj; try assumption. rewrite <- Epq. assumption.
Qed.

(* ------------------------------------------------------------------ one step, any operation *)
Lemma sim_shared' : forall ever fin I S o, Sim ever fin I S ->
  sh_step c (rsh S) o <> None ->
  snd (idx_step u c trans I o) = snd (rel_step u c trans S o) /\
  Sim ever fin (fst (idx_step u c trans I o)) (fst (rel_step u c trans S o)).
Proof.
  intros ever fin I S o H Hs. destruct (sh_step c (rsh S) o) as [[h a]|] eqn:E; [|congruence].
  destruct (sim_shared _ _ _ _ o h a H E) as [E1 [E2 E3]]. rewrite E1, E2. split; [reflexivity|exact E3].
Qed.

Ltac shared_case H :=
  let E1 := fresh "E1" in let E3 := fresh "E3" in
  match goal with
  | |- snd (idx_step _ _ _ _ ?o) = _ /\ _ =>
      destruct (sim_shared' _ _ _ _ o H) as [E1 E3];
      [cbn [sh_step]; try destruct (queue _); discriminate|split; [exact E1|eexists; exact E3]]
  end.

Lemma sim_step : forall ever fin I S o, Sim ever fin I S -> guard c ever S o = 0 ->
  snd (idx_step u c trans I o) = snd (rel_step u c trans S o) /\
  exists fin', Sim (ever_after ever o) fin' (fst (idx_step u c trans I o)) (fst (rel_step u c trans S o)).
Proof.
  intros ever fin I S o H Hg.
  destruct o as [d|ids rid|i s rid|i|i|rs flag| |w xs|x|i| | |i v|i v|k v| | |i|i|t|ck|t kv sts|t sts limit offset|t sts|ids sts| | | |flag|n| |i|i|i|k|i|r|a b|a b].
  all: try (shared_case H).
  all: try (match goal with
            | |- snd (idx_step _ _ _ _ ?o) = _ /\ _ =>
                let Eq1 := fresh "Eq1" in let Eq2 := fresh "Eq2" in
                destruct (sim_query _ _ _ _ o H eq_refl) as [Eq1 Eq2]; rewrite Eq1, Eq2; cbn [fst snd ever_after];
                split; [reflexivity|exists fin; exact H]
            end).
  - (* Reg *) destruct (sim_reg _ _ _ _ ids rid H Hg) as [E1 E2]. split; [exact E1|]. exists fin. exact E2.
  - (* SetSt *) cbn [ever_after]. apply (sim_setst _ _ _ _ i s rid H).
  - (* IdxArgs *) split; [reflexivity|]. exists fin. apply (sim_idxargs _ _ _ _ i H).
  - (* IncR *) destruct (sim_incr _ _ _ _ i H) as [E1 E2]. split; [exact E1|]. exists fin. exact E2.
  - (* AutoPurge *) destruct (sim_autopurge_idle _ _ _ _ H Hg) as [E1 E2]. split; [exact E1|]. exists fin. exact E2.
  - (* Wait *) split; [unfold idx_step, rel_step; cbn [sh_step]; destruct xs; reflexivity|].
    exists fin. apply (sim_wait _ _ _ _ w xs H Hg).
  - (* Release *) split; [reflexivity|]. exists (x :: fin). apply (sim_release _ _ _ _ x H Hg).
  - (* OPurge *) split; [reflexivity|]. exists []. apply (sim_opurge _ _ _ _ H).
Qed.

Fixpoint ever_run (ever : list nat) (S : rel) (ops : list op) : list nat :=
  match ops with
  | [] => ever
  | o :: rest => ever_run (ever_after ever o) (fst (rel_step u c trans S o)) rest
  end.

Lemma sim_run : forall ops ever fin I S, Sim ever fin I S -> all_ok u c trans ever S ops = true ->
  idx_run u c trans I ops = rel_run u c trans S ops /\
  exists ever' fin', Sim ever' fin' (idx_exec u c trans I ops) (rel_exec u c trans S ops).
Proof.
  induction ops as [|o ops IH]; intros ever fin I S H Hok.
  - cbn. split; [reflexivity|]. exists ever, fin. assumption.
  - cbn [all_ok] in Hok. apply andb_true_iff in Hok. destruct Hok as [Hg Hok]. apply Nat.eqb_eq in Hg.
    destruct (sim_step _ _ _ _ o H Hg) as [Ea [fin' Hs]].
    cbn [idx_run rel_run idx_exec rel_exec].
    destruct (idx_step u c trans I o) as [I' a] eqn:E1. destruct (rel_step u c trans S o) as [S' b] eqn:E2.
    cbn [fst snd] in *. subst b.
    destruct (IH _ _ _ _ Hs Hok) as [Er Hinv]. split; [now rewrite Er|exact Hinv].
Qed.
End Sim.

(* ------------------------------------------------------------------ instantiated with the documented lifecycle step *)
Lemma doc_trans_req : forall r req rid s' o', doc_transition (Some r) req rid = TOk s' o' -> s' = req.
Proof. intros r req rid s' o' H. apply doc_success_follows_edge in H. tauto. Qed.

Lemma doc_trans_final : forall r req rid s' o', doc_final (st r) = true -> doc_transition (Some r) req rid <> TOk s' o'.
Proof. intros r req rid s' o' Hf. rewrite (doc_finals_absorbing r req rid Hf). discriminate. Qed.

Theorem index_refines_relational_l : forall u c ops,
  all_ok u c doc_transition [] rel0 ops = true ->
  idx_run u c doc_transition idx0 ops = rel_run u c doc_transition rel0 ops.
Proof.
  intros u c ops Hok.
  apply (sim_run u c doc_transition doc_trans_req doc_trans_final ops [] [] idx0 rel0 (Sim_init u c) Hok).
Qed.

Theorem index_invariant_l : forall u c ops,
  all_ok u c doc_transition [] rel0 ops = true ->
  exists ever fin, Sim u ever fin (idx_exec u c doc_transition idx0 ops) (rel_exec u c doc_transition rel0 ops).
Proof.
  intros u c ops Hok.
  apply (sim_run u c doc_transition doc_trans_req doc_trans_final ops [] [] idx0 rel0 (Sim_init u c) Hok).
Qed.

(* ------------------------------------------------------------------ outside the domain: the remaining finding *)
Definition U0 : univ :=
  {| task_of := fun i => nth i [0; 0; 0; 1; 0; 1] 9;
     call_of := fun i => nth i [0; 1; 0; 2; 3; 4] 9;
     args_of := fun i => nth i [[(0, 1); (1, 1)]; [(0, 1); (1, 2)]; [(0, 1); (1, 1)]; [(2, 1)]; [(0, 2); (1, 1)]; [(2, 2)]] [] |}.
Definition C0 : conf := {| purge_after := 225; pending_limit := 320; dead_after := 960 |}.

Definition diverges (ops : list op) : Prop :=
  idx_run U0 C0 doc_transition idx0 ops <> rel_run U0 C0 doc_transition rel0 ops.

(* release_waiters(x) on a live x also forgets what x itself waits for ... *)
Definition w_release_live : list op := [Reg [0; 1; 2] (Some 9); Wait 0 [1]; Release 0; Wait 2 [0]; QBlocking].
(* ... and the same defect through the ordinary life cycle: x finishes while waiting, is auto-purged, is
   registered again and awaited *)
Definition w_reregister_purged : list op :=
  [Reg [0; 1; 2] (Some 9); Wait 0 [1]; SetSt 0 CONCURRENCY_CONTROLLED_FINAL None; Tick 225; AutoPurge;
   Reg [0] (Some 9); Wait 2 [0]; QBlocking].

Lemma release_live_diverges : diverges w_release_live. Proof. vm_compute. intros H. discriminate H. Qed.
Lemma reregister_purged_diverges : diverges w_reregister_purged. Proof. vm_compute. intros H. discriminate H. Qed.

Lemma witness_classes :
  map (fun w => snd (first_bad U0 C0 doc_transition [3; 7] 0 [] rel0 w)) [w_release_live; w_reregister_purged] = [4; 1].
Proof. vm_compute. reflexivity. Qed.

(* the statement at full strength, and its refutation for the models as transcribed from the current code *)
Definition backends_equivalent_full : Prop :=
  forall u c ops, idx_run u c doc_transition idx0 ops = rel_run u c doc_transition rel0 ops.

Lemma backends_equivalent_full_refuted_l : ~ backends_equivalent_full.
Proof. intros H. apply release_live_diverges. apply H. Qed.

(* non-vacuity: a sequence inside the domain that exercises registration, the lifecycle up to a final status,
   the argument index, the wait graph, both recovery scans, pagination and an (idle) auto purge *)
Definition w_inside : list op :=
  [Reg [0; 1; 3] (Some 9); IdxArgs 0; IdxArgs 1; Wait 0 [1]; QBlocking; SetSt 1 PENDING (Some 1); Hb [1] false;
   Tick 320; QPending; SetSt 1 RUNNING (Some 1); Tick 961; QRunning; IncR 1; SetSt 1 SUCCESS (Some 1); QBlocking;
   QExisting 0 [(0, 1)] [REGISTERED; SUCCESS]; QPage None [] 2 1; QCount (Some 0) [SUCCESS]; QFilter [0; 1; 3] [SUCCESS];
   AutoPurge; QRec 1; QRetries 1; Retrieve; QHist 1;
   (* inputs of the repaired classes: re-registration, unknown ids, state-backend purge *)
   Reg [1; 0] (Some 9); QRec 1; QRetries 1; IncR 5; QRetries 5; Wait 3 [5]; QBlocking; QFilter [0; 5] [REGISTERED];
   SetWf 0 1; SBPurge; QWf 0; QRctx 1].

Lemma inside_example :
  all_ok U0 C0 doc_transition [] rel0 w_inside = true /\
  map render (rel_run U0 C0 doc_transition rel0 w_inside) =
  map render (idx_run U0 C0 doc_transition idx0 w_inside) /\
  nth 8 (rel_run U0 C0 doc_transition rel0 w_inside) OOk = OIds [1] /\
  nth 11 (rel_run U0 C0 doc_transition rel0 w_inside) OOk = OIds [1] /\
  nth 4 (rel_run U0 C0 doc_transition rel0 w_inside) OOk = OIds [1] /\
  nth 14 (rel_run U0 C0 doc_transition rel0 w_inside) OOk = OIds [] /\
  nth 26 (rel_run U0 C0 doc_transition rel0 w_inside) OOk = ONat 1 /\
  nth 28 (rel_run U0 C0 doc_transition rel0 w_inside) OOk = ONat 0 /\
  nth 34 (rel_run U0 C0 doc_transition rel0 w_inside) OOk = OOpt None.
Proof. vm_compute. repeat split; reflexivity. Qed.

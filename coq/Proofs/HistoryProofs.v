(* Proofs/HistoryProofs.v — lemmas behind Props/C10.v *)
From Coq Require Import List Bool Arith Lia Sorted Permutation.
Import ListNotations.
From PV Require Import Model.Status Model.Lifecycle Model.Conc Model.History
  Proofs.StatusProofs Proofs.ConcProofs.

(* ---- stamped logs ---- *)
Lemma stamped_ts_bound : forall l e, In e (stamped l) -> 1 <= he_ts e <= length l.
Proof.
  induction l as [|[[i s] r] rest IH]; intros e H; [contradiction|].
  cbn [stamped] in H. destruct H as [<-|H].
  - unfold he_ts; cbn; lia.
  - specialize (IH e H). cbn [length]. lia.
Qed.

Definition desc (a b : hentry) : Prop := he_ts b < he_ts a.

Lemma stamped_sorted : forall l, StronglySorted desc (stamped l).
Proof.
  induction l as [|[[i s] r] rest IH]; [constructor|].
  cbn [stamped]. constructor; [exact IH|].
  apply Forall_forall. intros e He. pose proof (stamped_ts_bound rest e He).
  unfold desc, he_ts at 2. cbn. lia.
Qed.

Lemma sorted_filter : forall f l, StronglySorted desc l -> StronglySorted desc (filter f l).
Proof.
  intros f l; induction l as [|x l IH]; intros H; cbn; [constructor|].
  inversion H as [|? ? Hs Hf]; subst. destruct (f x); [|auto].
  constructor; [auto|]. rewrite Forall_forall in *. intros y Hy. apply filter_In in Hy. apply Hf. tauto.
Qed.

(* ---- insertion sort ---- *)
Lemma insert_perm : forall e l, Permutation (e :: l) (insert_desc e l).
Proof.
  intros e l; induction l as [|x l IH]; cbn; [reflexivity|].
  destruct (Nat.leb (he_ts x) (he_ts e)); [reflexivity|].
  rewrite perm_swap. now constructor.
Qed.

Lemma sort_perm : forall l, Permutation l (sort_desc l).
Proof.
  induction l as [|x l IH]; cbn; [constructor|].
  rewrite <- insert_perm. now constructor.
Qed.

Definition ge_desc (a b : hentry) : Prop := he_ts b <= he_ts a.

Lemma insert_sorted : forall e l, StronglySorted ge_desc l -> StronglySorted ge_desc (insert_desc e l).
Proof.
  intros e l; induction l as [|x l IH]; intros H; cbn.
  - constructor; constructor.
  - inversion H as [|? ? Hs Hf]; subst.
    destruct (Nat.leb_spec (he_ts x) (he_ts e)).
    + constructor; [assumption|]. constructor; [unfold ge_desc; lia|].
      eapply Forall_impl; [|exact Hf]. unfold ge_desc; intros; lia.
    + constructor; [auto|].
      assert (Permutation (e :: l) (insert_desc e l)) as Hp by apply insert_perm.
      apply Forall_forall. intros y Hy. apply (Permutation_in _ (Permutation_sym Hp)) in Hy.
      destruct Hy as [<-|Hy]; [unfold ge_desc; lia|]. rewrite Forall_forall in Hf. now apply Hf.
Qed.

Lemma sort_sorted : forall l, StronglySorted ge_desc (sort_desc l).
Proof. induction l as [|x l IH]; cbn; [constructor|]. now apply insert_sorted. Qed.

(* two sorted lists with pairwise distinct keys that are permutations of each other are equal *)
Lemma sorted_perm_unique : forall l1 l2,
  StronglySorted desc l1 -> StronglySorted ge_desc l2 -> Permutation l1 l2 -> l1 = l2.
Proof.
  induction l1 as [|a l1 IH]; intros l2 H1 H2 Hp.
  - apply Permutation_nil in Hp. now subst.
  - destruct l2 as [|b l2]; [apply Permutation_sym, Permutation_nil in Hp; discriminate|].
    inversion H1 as [|? ? Hs1 Hf1]; subst. inversion H2 as [|? ? Hs2 Hf2]; subst.
    rewrite Forall_forall in Hf1, Hf2.
    assert (a = b) as ->.
    { assert (In b (a :: l1)) as Hb by (eapply Permutation_in; [apply Permutation_sym; exact Hp|now left]).
      assert (In a (b :: l2)) as Ha by (eapply Permutation_in; [exact Hp|now left]).
      destruct Hb as [|Hb]; [assumption|]. destruct Ha as [|Ha]; [congruence|].
      specialize (Hf1 b Hb). specialize (Hf2 a Ha). unfold desc, ge_desc in *. lia. }
    f_equal. apply IH; try assumption. eapply Permutation_cons_inv; exact Hp.
Qed.

(* ---- the history machine ---- *)
Definition HInv (w : hw) : Prop :=
  Permutation (hpend w ++ hflushed w) (stamped (log (csys (hcw w)))).

Lemma remove_nth_perm : forall (A : Type) k (l : list A) x rest,
  remove_nth k l = (Some x, rest) -> Permutation l (x :: rest).
Proof.
  intros A k; induction k as [|k IH]; intros l x rest H; destruct l as [|y l]; cbn in H; try discriminate.
  - inversion H; subst. reflexivity.
  - destruct (remove_nth k l) as [z r'] eqn:E. inversion H; subst.
    rewrite (IH l x r' E). apply perm_swap.
Qed.

(* a step of the interleaved machine either leaves the log alone or conses one entry *)
Lemma conc_step_log : forall atomic c a,
  log (csys (conc_step atomic c a)) = log (csys c) \/
  exists e, log (csys (conc_step atomic c a)) = e :: log (csys c).
Proof.
  intros atomic c a. destruct a as [x i to rid|x]; cbn.
  - destruct (lookup i (recs (csys c))) as [r|]; [|now left].
    destruct atomic; [|now left]. unfold commit. destruct (doc_transition (Some r) to rid); cbn; [right; eauto|now left].
  - destruct (take_req x (cpend c)) as [[[[[i r] to] rid]|] rest]; [|now left].
    unfold commit. destruct (doc_transition (Some r) to rid); cbn; [right; eauto|now left].
Qed.

Lemma hist_step_inv : forall atomic w s, HInv w -> HInv (hist_step atomic w s).
Proof.
  intros atomic w s H. unfold HInv in *. destruct s as [a|k]; unfold hist_step; cbn [hcw hpend hflushed].
  - destruct (conc_step_log atomic (hcw w) a) as [He|[e He]]; rewrite He.
    + rewrite Nat.ltb_irrefl. exact H.
    + cbn [length]. assert (Nat.ltb (length (log (csys (hcw w)))) (S (length (log (csys (hcw w))))) = true) as ->
        by (apply Nat.ltb_lt; lia).
      destruct e as [[i s0] r0]. cbn [stamped]. cbn [app]. now constructor.
  - destruct (remove_nth k (hpend w)) as [[e|] rest] eqn:E; [|exact H]. cbn [hcw hpend hflushed].
    rewrite <- H. apply remove_nth_perm in E. rewrite E. cbn.
    rewrite Permutation_middle. reflexivity.
Qed.

Lemma hist_run_inv : forall atomic l w, HInv w -> HInv (hist_run atomic w l).
Proof.
  intros atomic l; induction l as [|s l IH]; intros w H; cbn; [exact H|]. apply IH. now apply hist_step_inv.
Qed.

Lemma HInv_init : forall ops0, HInv (hw_of ops0).
Proof. intros ops0. unfold HInv, hw_of. cbn. reflexivity. Qed.

Lemma filter_perm : forall (f : hentry -> bool) l1 l2, Permutation l1 l2 -> Permutation (filter f l1) (filter f l2).
Proof.
  intros f l1 l2 H; induction H; cbn.
  - constructor.
  - destruct (f x); [now constructor|assumption].
  - destruct (f x), (f y); try reflexivity; try (now constructor).
  - etransitivity; eassumption.
Qed.

(* once every pending write has been flushed, get_history(i) IS the change log of i, in the order
   of the changes *)
Lemma history_is_log : forall atomic ops0 l i,
  let w := hist_run atomic (hw_of ops0) l in
  hpend w = [] -> get_history w i = of_inv i (stamped (log (csys (hcw w)))).
Proof.
  intros atomic ops0 l i w Hp.
  pose proof (hist_run_inv atomic l _ (HInv_init ops0)) as H. fold w in H. unfold HInv in H.
  rewrite Hp in H. cbn in H.
  unfold get_history. symmetry. apply sorted_perm_unique.
  - apply sorted_filter. apply stamped_sorted.
  - apply sort_sorted.
  - etransitivity; [apply filter_perm; symmetry; exact H|]. apply sort_perm.
Qed.

(* statuses of the stamped log of i = hist i log (Lifecycle) *)
Lemma of_inv_statuses : forall i l, map he_status (of_inv i (stamped l)) = hist i l.
Proof.
  intros i l; induction l as [|[[j s] r] rest IH]; [reflexivity|].
  cbn [stamped]. unfold of_inv. cbn [filter]. unfold he_inv at 1. cbn [fst snd].
  cbn [hist]. rewrite (Nat.eqb_sym j i). destruct (Nat.eqb i j); cbn; [f_equal|]; exact IH.
Qed.

(* atomic transitions: the machine's system component satisfies the C01/C02 invariant *)
Lemma hist_run_csys : forall atomic l w,
  exists steps, hcw (hist_run atomic w l) = conc_run atomic (hcw w) steps.
Proof.
  intros atomic l; induction l as [|s l IH]; intros w; cbn.
  - exists []. reflexivity.
  - destruct (IH (hist_step atomic w s)) as [steps Hs]. destruct s as [a|k]; cbn in *.
    + exists (a :: steps). exact Hs.
    + destruct (remove_nth k (hpend w)) as [[e|] rest]; cbn in Hs; exists steps; exact Hs.
Qed.

Lemma history_path : forall ops0 l i,
  let w := hist_run true (hw_of ops0) l in
  hpend w = [] ->
  match lookup i (recs (csys (hcw w))) with
  | None => get_history w i = []
  | Some r => exists rest, map he_status (get_history w i) = st r :: rest /\ rpath (st r :: rest)
  end.
Proof.
  intros ops0 l i w Hp. pose proof (history_is_log true ops0 l i Hp) as Hl. fold w in Hl. rewrite Hl.
  rewrite of_inv_statuses.
  destruct (hist_run_csys true l (hw_of ops0)) as [steps Hs]. fold w in Hs. rewrite Hs.
  change (hcw (hw_of ops0)) with (cw_of ops0).
  pose proof (conc_exclusive ops0 steps) as [Hh _]. cbn in Hh.
  specialize (Hh i).
  destruct (lookup i (recs (csys (conc_run true (cw_of ops0) steps)))) as [r|].
  - exact Hh.
  - assert (hist i (log (csys (conc_run true (cw_of ops0) steps))) = []) as He by exact Hh.
    clear Hh. revert He. generalize (log (csys (conc_run true (cw_of ops0) steps))).
    intros lg He. rewrite <- of_inv_statuses in He. destruct (of_inv i (stamped lg)); [reflexivity|discriminate].
Qed.

(* no duplicates, no foreign entries *)
Lemma history_nodup : forall atomic ops0 l i,
  let w := hist_run atomic (hw_of ops0) l in
  hpend w = [] -> StronglySorted desc (get_history w i) /\ Forall (fun e => he_inv e = i) (get_history w i).
Proof.
  intros atomic ops0 l i w Hp. pose proof (history_is_log atomic ops0 l i Hp) as Hl. fold w in Hl. rewrite Hl. split.
  - apply sorted_filter, stamped_sorted.
  - apply Forall_forall. intros e He. apply filter_In in He. now apply Nat.eqb_eq.
Qed.

(* without atomic transitions the history shows a claim twice *)
Lemma split_history_duplicate :
  exists l, let w := hist_run false (hw_of [ORegister 0 None]) l in
            hpend w = [] /\ map he_status (get_history w 0) = [PENDING; PENDING; REGISTERED].
Proof.
  exists [HAct (ATrans 1 0 PENDING (Some 1)); HAct (ATrans 2 0 PENDING (Some 2)); HAct (AWrite 1); HAct (AWrite 2);
          HFlush 0; HFlush 0].
  vm_compute. split; reflexivity.
Qed.

(* ---- atomic append: the two-step writer machine is the one-step machine ---- *)
Lemma run2_atomic_append : forall atomic l w,
  hbase (hist_run2 atomic true w l) = hist_run atomic (hbase w) (proj2steps l) /\
  hinflight (hist_run2 atomic true w l) = hinflight w.
Proof.
  intros atomic l. induction l as [|s l IH]; intros w; [split; reflexivity|].
  unfold hist_run2. cbn [fold_left]. fold (hist_run2 atomic true (hist_step2 atomic true w s) l).
  destruct (IH (hist_step2 atomic true w s)) as [H1' H2']. rewrite H1', H2'.
  destruct s as [s1|j]; cbn [hist_step2 hbase hinflight proj2steps flat_map app]; split; reflexivity.
Qed.

Lemma history_is_log_mem : forall ops0 l i,
  let w := hist_run2 true true (hw2_of ops0) l in
  hpend (hbase w) = [] -> hinflight w = [] ->
  get_history (hbase w) i = of_inv i (stamped (log (csys (hcw (hbase w))))).
Proof.
  intros ops0 l i w Hp _. unfold w in *. destruct (run2_atomic_append true l (hw2_of ops0)) as [Hb _].
  rewrite Hb in *. cbn [hbase hw2_of] in *. now apply history_is_log.
Qed.

(* a writer that reads, extends and stores back loses the entry of a writer that overlaps it *)
Lemma nonatomic_append_loses_entry :
  exists l, let w := hist_run2 true false (hw2_of [ORegister 0 None]) l in
            hpend (hbase w) = [] /\ hinflight w = [] /\
            map he_status (of_inv 0 (stamped (log (csys (hcw (hbase w)))))) = [RUNNING; PENDING; REGISTERED] /\
            map he_status (get_history (hbase w) 0) = [RUNNING; REGISTERED].
Proof.
  exists [H1 (HAct (ATrans 1 0 PENDING (Some 1))); H1 (HAct (ATrans 1 0 RUNNING (Some 1)));
          H1 (HFlush 0); H1 (HFlush 0); HStore 1; HStore 0].
  vm_compute. repeat split; reflexivity.
Qed.

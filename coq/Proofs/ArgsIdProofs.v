(* Proofs/ArgsIdProofs.v — lemmas behind Props/C15.v (call identity part). *)
From Coq Require Import List NArith Bool Lia Permutation.
Import ListNotations.
From PV Require Import Model.ArgsId.
Open Scope N_scope.

(* ---------- JSON string quoting is a prefix code ---------- *)

Lemma lt32_cases : forall c, c < 32 ->
  In c [0;1;2;3;4;5;6;7;8;9;10;11;12;13;14;15;16;17;18;19;20;21;22;23;24;25;26;27;28;29;30;31].
Proof.
  intros c Hc.
  assert (Hin : In c (map N.of_nat (seq 0 32))).
  { rewrite <- (N2Nat.id c). apply in_map. apply in_seq. lia. }
  exact Hin.
Qed.

Lemma unesc_esc : forall c x, unesc_head (esc c ++ x) = Some (c, x).
Proof.
  intros c x.
  destruct (c <? 32) eqn:Hlt.
  - apply N.ltb_lt in Hlt. apply lt32_cases in Hlt.
    cbn [In] in Hlt.
    repeat (destruct Hlt as [Hc | Hlt]; [subst c; reflexivity|]).
    contradiction.
  - unfold esc.
    destruct (c =? 34) eqn:E34; [apply N.eqb_eq in E34; subst c; reflexivity|].
    destruct (c =? 92) eqn:E92; [apply N.eqb_eq in E92; subst c; reflexivity|].
    destruct (c =? 10) eqn:E10; [apply N.eqb_eq in E10; subst c; discriminate|].
    destruct (c =? 13) eqn:E13; [apply N.eqb_eq in E13; subst c; discriminate|].
    destruct (c =? 9) eqn:E9; [apply N.eqb_eq in E9; subst c; discriminate|].
    destruct (c =? 8) eqn:E8; [apply N.eqb_eq in E8; subst c; discriminate|].
    destruct (c =? 12) eqn:E12; [apply N.eqb_eq in E12; subst c; discriminate|].
    rewrite Hlt. cbn [app unesc_head]. rewrite E34, E92. reflexivity.
Qed.

Lemma esc_prefix_free : forall c1 c2 x y, esc c1 ++ x = esc c2 ++ y -> c1 = c2 /\ x = y.
Proof.
  intros c1 c2 x y Heq.
  pose proof (unesc_esc c1 x) as H1. rewrite Heq, unesc_esc in H1.
  inversion H1; auto.
Qed.

Lemma body_inj : forall s1 s2 r1 r2,
  flat_map esc s1 ++ 34 :: r1 = flat_map esc s2 ++ 34 :: r2 -> s1 = s2 /\ r1 = r2.
Proof.
  induction s1 as [|c1 s1 IH]; intros [|c2 s2] r1 r2 Heq; cbn [flat_map app] in Heq.
  - inversion Heq; auto.
  - exfalso. rewrite <- app_assoc in Heq.
    pose proof (unesc_esc c2 (flat_map esc s2 ++ 34 :: r2)) as H1.
    rewrite <- Heq in H1. discriminate H1.
  - exfalso. rewrite <- app_assoc in Heq.
    pose proof (unesc_esc c1 (flat_map esc s1 ++ 34 :: r1)) as H1.
    rewrite Heq in H1. discriminate H1.
  - rewrite <- !app_assoc in Heq.
    apply esc_prefix_free in Heq. destruct Heq as [-> Heq].
    apply IH in Heq. destruct Heq as [-> ->]. auto.
Qed.

(* json.dumps of a string is self-delimiting: what follows it is recovered too *)
Lemma jquote_inj_app : forall s1 s2 r1 r2,
  jquote s1 ++ r1 = jquote s2 ++ r2 -> s1 = s2 /\ r1 = r2.
Proof.
  intros s1 s2 r1 r2 Heq. unfold jquote in Heq.
  cbn [app] in Heq. inversion Heq as [Heq'].
  rewrite <- !app_assoc in Heq'. cbn [app] in Heq'.
  apply body_inj in Heq'. exact Heq'.
Qed.

Lemma jquote_inj : forall s1 s2, jquote s1 = jquote s2 -> s1 = s2.
Proof.
  intros s1 s2 Heq.
  assert (Heq' : jquote s1 ++ [] = jquote s2 ++ []) by (rewrite !app_nil_r; exact Heq).
  apply jquote_inj_app in Heq'. tauto.
Qed.

(* ---------- the order used by sorted() ---------- *)

Lemma str_cmp_eq : forall a b, str_cmp a b = Eq -> a = b.
Proof.
  induction a as [|x a IH]; intros [|y b] Hc; cbn in Hc; try discriminate; [reflexivity|].
  destruct (x ?= y) eqn:E; try discriminate.
  apply N.compare_eq in E. subst y. f_equal. apply IH. exact Hc.
Qed.

Lemma str_cmp_refl : forall a, str_cmp a a = Eq.
Proof. induction a as [|x a IH]; cbn; [reflexivity|]. rewrite N.compare_refl. exact IH. Qed.

Lemma str_cmp_antisym : forall a b, str_cmp b a = CompOpp (str_cmp a b).
Proof.
  induction a as [|x a IH]; intros [|y b]; cbn; try reflexivity.
  rewrite (N.compare_antisym x y). destruct (x ?= y); cbn; auto.
Qed.

Lemma str_cmp_lt_trans : forall a b c, str_cmp a b = Lt -> str_cmp b c = Lt -> str_cmp a c = Lt.
Proof.
  induction a as [|x a IH]; intros [|y b] [|z c] H1 H2; cbn in *; try discriminate; try reflexivity.
  destruct (x ?= y) eqn:Exy; try discriminate;
  destruct (y ?= z) eqn:Eyz; try discriminate.
  - apply N.compare_eq in Exy, Eyz. subst. rewrite N.compare_refl. eapply IH; eauto.
  - apply N.compare_eq in Exy. subst. rewrite Eyz. reflexivity.
  - apply N.compare_eq in Eyz. subst. rewrite Exy. reflexivity.
  - rewrite N.compare_lt_iff in *. assert (Hxz : x < z) by lia.
    apply N.compare_lt_iff in Hxz. rewrite Hxz. reflexivity.
Qed.

Lemma str_leb_total : forall a b, str_leb a b = false -> str_leb b a = true.
Proof.
  unfold str_leb. intros a b. rewrite (str_cmp_antisym a b).
  destruct (str_cmp a b); cbn; congruence.
Qed.

Lemma str_leb_antisym : forall a b, str_leb a b = true -> str_leb b a = true -> a = b.
Proof.
  unfold str_leb. intros a b. rewrite (str_cmp_antisym a b).
  destruct (str_cmp a b) eqn:E; cbn; try congruence.
  intros _ _. apply str_cmp_eq. exact E.
Qed.

Lemma str_leb_trans : forall a b c, str_leb a b = true -> str_leb b c = true -> str_leb a c = true.
Proof.
  unfold str_leb. intros a b c.
  destruct (str_cmp a b) eqn:E1; try congruence; destruct (str_cmp b c) eqn:E2; try congruence; intros _ _.
  - apply str_cmp_eq in E1, E2. subst. rewrite str_cmp_refl. reflexivity.
  - apply str_cmp_eq in E1. subst. rewrite E2. reflexivity.
  - apply str_cmp_eq in E2. subst. rewrite E1. reflexivity.
  - rewrite (str_cmp_lt_trans _ _ _ E1 E2). reflexivity.
Qed.

(* ---------- sorting by key does not depend on the insertion order of the dict ---------- *)

Lemma insert_comm : forall a b l, fst a <> fst b ->
  insert_kv a (insert_kv b l) = insert_kv b (insert_kv a l).
Proof.
  intros a b l Hne. induction l as [|y l IH].
  - cbn. destruct (str_leb (fst a) (fst b)) eqn:Eab; destruct (str_leb (fst b) (fst a)) eqn:Eba; try reflexivity.
    + exfalso. apply Hne. apply str_leb_antisym; assumption.
    + apply str_leb_total in Eab. congruence.
  - cbn [insert_kv].
    destruct (str_leb (fst b) (fst y)) eqn:Eby; destruct (str_leb (fst a) (fst y)) eqn:Eay; cbn [insert_kv fst].
    + rewrite Eay, Eby.
      destruct (str_leb (fst a) (fst b)) eqn:Eab; destruct (str_leb (fst b) (fst a)) eqn:Eba; try reflexivity.
      * exfalso. apply Hne. apply str_leb_antisym; assumption.
      * apply str_leb_total in Eab. congruence.
    + rewrite Eay, Eby.
      destruct (str_leb (fst a) (fst b)) eqn:Eab; [|reflexivity].
      rewrite (str_leb_trans _ _ _ Eab Eby) in Eay. discriminate.
    + rewrite Eay, Eby.
      destruct (str_leb (fst b) (fst a)) eqn:Eba; [|reflexivity].
      rewrite (str_leb_trans _ _ _ Eba Eay) in Eby. discriminate.
    + rewrite Eay, Eby. f_equal. exact IH.
Qed.

Lemma sort_kv_perm : forall l1 l2, Permutation l1 l2 -> NoDup (map fst l1) -> sort_kv l1 = sort_kv l2.
Proof.
  intros l1 l2 HP. induction HP as [|x l l' HP IH|x y l|l l' l'' HP1 IH1 HP2 IH2]; intros Hnd.
  - reflexivity.
  - cbn. f_equal. apply IH. inversion Hnd; assumption.
  - cbn. apply insert_comm. cbn in Hnd. inversion Hnd as [|? ? Hnin _]. cbn in Hnin. intros Heq. apply Hnin. left. symmetry. exact Heq.
  - rewrite IH1 by assumption. apply IH2.
    eapply Permutation_NoDup; [apply Permutation_map; exact HP1|assumption].
Qed.

Lemma insert_kv_perm : forall x l, Permutation (x :: l) (insert_kv x l).
Proof.
  intros x l. induction l as [|y l IH]; cbn; [apply Permutation_refl|].
  destruct (str_leb (fst x) (fst y)); [apply Permutation_refl|].
  eapply perm_trans; [apply perm_swap|]. apply perm_skip. exact IH.
Qed.

Lemma sort_kv_is_perm : forall l, Permutation l (sort_kv l).
Proof.
  induction l as [|x l IH]; cbn; [constructor|].
  eapply perm_trans; [apply perm_skip; exact IH|apply insert_kv_perm].
Qed.

Lemma sort_kv_eq_iff_perm : forall l1 l2, NoDup (map fst l1) ->
  (sort_kv l1 = sort_kv l2 <-> Permutation l1 l2).
Proof.
  intros l1 l2 Hnd. split.
  - intros Heq. eapply perm_trans; [apply sort_kv_is_perm|]. rewrite Heq. apply Permutation_sym, sort_kv_is_perm.
  - intros HP. apply sort_kv_perm; assumption.
Qed.

(* ---------- the encoding ---------- *)

Section Encoding.
  Variable c : enc_cfg.
  Hypothesis Hqk : quote_key c = true.
  Hypothesis Hqv : quote_val c = true.

  Lemma enc_item_eq : forall k v, enc_item c (k, v) = jquote k ++ kv_sep c ++ jquote v ++ item_sep c.
  Proof. intros k v. unfold enc_item. rewrite Hqk, Hqv. reflexivity. Qed.

  Lemma items_inj : forall l1 l2, flat_map (enc_item c) l1 = flat_map (enc_item c) l2 -> l1 = l2.
  Proof.
    induction l1 as [|[k1 v1] l1 IH]; intros [|[k2 v2] l2] Heq; cbn [flat_map] in Heq.
    - reflexivity.
    - exfalso. rewrite enc_item_eq in Heq. cbn in Heq. discriminate.
    - exfalso. rewrite enc_item_eq in Heq. cbn in Heq. discriminate.
    - rewrite !enc_item_eq in Heq.
      rewrite <- !app_assoc in Heq.
      apply jquote_inj_app in Heq. destruct Heq as [-> Heq].
      apply app_inv_head in Heq.
      apply jquote_inj_app in Heq. destruct Heq as [-> Heq].
      apply app_inv_head in Heq.
      f_equal. apply IH. exact Heq.
  Qed.

  Lemma item_nonempty : forall kv r, enc_item c kv ++ r <> [].
  Proof. intros [k v] r. rewrite enc_item_eq. cbn. discriminate. Qed.

  Hypothesis Hsort : sort_keys c = true.

  (* the text fed to the hash is an injective function of the argument MAP ... *)
  Lemma encode_injective : forall m1 m2, NoDup (map fst m1) ->
    encode c m1 = encode c m2 -> Permutation m1 m2.
  Proof.
    intros m1 m2 Hnd Heq. unfold encode in Heq. rewrite Hsort in Heq.
    apply items_inj in Heq. apply sort_kv_eq_iff_perm; assumption.
  Qed.

  (* ... and does not depend on the order in which the arguments were written *)
  Lemma encode_order_independent : forall m1 m2, NoDup (map fst m1) ->
    Permutation m1 m2 -> encode c m1 = encode c m2.
  Proof.
    intros m1 m2 Hnd HP. unfold encode. rewrite Hsort. f_equal. apply sort_kv_perm; assumption.
  Qed.

  Lemma perm_nil_iff : forall (m1 m2 : amap), Permutation m1 m2 -> (m1 = [] <-> m2 = []).
  Proof.
    intros m1 m2 HP. split; intros ->.
    - apply Permutation_nil. exact HP.
    - apply Permutation_nil. apply Permutation_sym. exact HP.
  Qed.

  Variable H : str -> str.
  (* oracle laws: a digest is never the literal used for the empty map; no collision between
     the two texts compared *)
  Definition no_collision (m1 m2 : amap) : Prop :=
    H (encode c m1) = H (encode c m2) -> encode c m1 = encode c m2.
  Hypothesis H_not_empty_id : forall x, H x <> empty_id c.

  Lemma args_id_iff : forall m1 m2, NoDup (map fst m1) -> no_collision m1 m2 ->
    (args_id c H m1 = args_id c H m2 <-> Permutation m1 m2).
  Proof.
    intros m1 m2 Hnd Hnc. split.
    - intros Heq. destruct m1 as [|a m1]; destruct m2 as [|b m2]; cbn [args_id] in Heq.
      + constructor.
      + exfalso. symmetry in Heq. exact (H_not_empty_id _ Heq).
      + exfalso. exact (H_not_empty_id _ Heq).
      + apply encode_injective; [assumption|]. apply Hnc. exact Heq.
    - intros HP. pose proof (perm_nil_iff _ _ HP) as Hnil.
      destruct m1 as [|a m1]; destruct m2 as [|b m2].
      + reflexivity.
      + exfalso. destruct Hnil as [Hn _]. specialize (Hn eq_refl). discriminate.
      + exfalso. destruct Hnil as [_ Hn]. specialize (Hn eq_refl). discriminate.
      + cbn [args_id]. f_equal. apply encode_order_independent; assumption.
  Qed.

  Lemma call_id_iff : forall t1 t2 m1 m2, NoDup (map fst m1) -> no_collision m1 m2 ->
    (call_id c H t1 m1 = call_id c H t2 m2 <-> t1 = t2 /\ Permutation m1 m2).
  Proof.
    intros t1 t2 m1 m2 Hnd Hnc. unfold call_id. split.
    - intros Heq. inversion Heq as [[Ht Ha]]. split; [reflexivity|].
      apply (args_id_iff m1 m2 Hnd Hnc). exact Ha.
    - intros [-> HP]. f_equal. apply (args_id_iff m1 m2 Hnd Hnc). exact HP.
  Qed.
End Encoding.

(* the guards are necessary: without quoting, separators inside a value forge a second item *)
Lemma unquoted_not_injective : forall c, quote_key c = false -> quote_val c = false -> sort_keys c = true ->
  kv_sep c = [61] -> item_sep c = [59] ->
  exists m1 m2, NoDup (map fst m1) /\ NoDup (map fst m2) /\ encode c m1 = encode c m2 /\ ~ Permutation m1 m2.
Proof.
  intros c Hk Hv Hs Hkv Hit.
  exists [([97], [49; 59; 98; 61; 50])], [([97], [49]); ([98], [50])].
  repeat split.
  - repeat constructor; cbn; tauto.
  - repeat constructor; cbn; intuition discriminate.
  - unfold encode, enc_item. rewrite Hs, Hk, Hv, Hkv, Hit. reflexivity.
  - intros HP. apply Permutation_length in HP. discriminate.
Qed.

(* ---------- composite keys ---------- *)

Lemma rsplit_last_app : forall sep a b, ~ In sep b -> rsplit_last sep (a ++ sep :: b) = Some (a, b).
Proof.
  intros sep a b Hnin.
  assert (Hb : rsplit_last sep b = None).
  { induction b as [|x b IH]; [reflexivity|]. cbn.
    rewrite IH by (intros Hin; apply Hnin; right; exact Hin).
    destruct (x =? sep) eqn:E; [|reflexivity]. apply N.eqb_eq in E. exfalso. apply Hnin. left. exact E. }
  induction a as [|x a IH]; cbn.
  - rewrite Hb. rewrite N.eqb_refl. reflexivity.
  - rewrite IH. reflexivity.
Qed.

Lemma rsplit_last_sound : forall sep s a b, rsplit_last sep s = Some (a, b) -> s = a ++ sep :: b /\ ~ In sep b.
Proof.
  intros sep s. induction s as [|x s IH]; intros a b Hr; cbn in Hr; [discriminate|].
  destruct (rsplit_last sep s) as [[a' b']|] eqn:E.
  - inversion Hr; subst. destruct (IH a' b eq_refl) as [-> Hn]. split; [reflexivity|exact Hn].
  - destruct (x =? sep) eqn:Ex; [|discriminate]. inversion Hr; subst. apply N.eqb_eq in Ex. subst x.
    split; [reflexivity|].
    clear Hr IH. induction b as [|y b IHb]; [intros []|].
    cbn in E. destruct (rsplit_last sep b) as [[? ?]|] eqn:E2; [discriminate|].
    destruct (y =? sep) eqn:Ey; [discriminate|]. apply N.eqb_neq in Ey.
    intros [Hin|Hin]; [congruence|]. apply IHb; [reflexivity|exact Hin].
Qed.

Lemma task_key_roundtrip : forall k m f, m <> [] -> f <> [] -> ~ In (task_sep k) f ->
  task_from_key k (task_key k (m, f)) = Some (m, f).
Proof.
  intros k m f Hm Hf Hnin. unfold task_from_key, task_key. cbn [fst snd app].
  rewrite rsplit_last_app by assumption.
  destruct m; [congruence|]. destruct f; [congruence|]. rewrite andb_false_r. reflexivity.
Qed.

Lemma call_key_roundtrip : forall k m f a, m <> [] -> f <> [] -> ~ In (task_sep k) f -> ~ In (call_sep k) a ->
  call_from_key k (call_key k ((m, f), a)) = Some ((m, f), a).
Proof.
  intros k m f a Hm Hf Hnf Hna. unfold call_from_key, call_key. cbn [fst snd].
  cbn [app]. rewrite rsplit_last_app by assumption.
  rewrite task_key_roundtrip by assumption. reflexivity.
Qed.

(* keys are injective under the same guards (two different calls never share a stored key) *)
Lemma call_key_injective : forall k c1 c2,
  fst (fst c1) <> [] -> snd (fst c1) <> [] -> ~ In (task_sep k) (snd (fst c1)) -> ~ In (call_sep k) (snd c1) ->
  fst (fst c2) <> [] -> snd (fst c2) <> [] -> ~ In (task_sep k) (snd (fst c2)) -> ~ In (call_sep k) (snd c2) ->
  call_key k c1 = call_key k c2 -> c1 = c2.
Proof.
  intros k [[m1 f1] a1] [[m2 f2] a2]; cbn [fst snd]; intros Ha Hb Hc Hd He Hf Hg Hh Heq.
  pose proof (call_key_roundtrip k m1 f1 a1 Ha Hb Hc Hd) as R1.
  pose proof (call_key_roundtrip k m2 f2 a2 He Hf Hg Hh) as R2.
  rewrite Heq in R1. rewrite R1 in R2. inversion R2. reflexivity.
Qed.

(* the guard on the function name is necessary: a dot in it moves the module boundary *)
Lemma task_key_dot_refuted : forall k, task_sep k = 46 -> task_rejects_empty k = true ->
  exists m f, m <> [] /\ f <> [] /\ task_from_key k (task_key k (m, f)) <> Some (m, f).
Proof.
  intros k Hs Hr. exists [109], [97; 46; 98]. repeat split; try discriminate.
  unfold task_from_key, task_key. rewrite Hs, Hr. vm_compute. discriminate.
Qed.

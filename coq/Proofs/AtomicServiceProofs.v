(* Proofs/AtomicServiceProofs.v — C12.  Lemmas about the functions generated from
   pynenc/orchestrator/atomic_service.py (gen/AtomicService_gen.v):
   - over exact rationals (instance QA): at most one authorised runner, margin separation,
     a non-empty window in every cycle — written against a characterisation of the generated slot
     (slot_Q_spec) that is proved semantically, so any spelling of the same arithmetic passes;
   - independent of the arithmetic: single runner always, unknown runner never, empty list never;
   - binary64 (instance F64): the concrete double-authorisation witness of the sum form. *)
From Coq Require Import ZArith QArith Qround List Bool Lia Lra Lqa.
From PV Require Import Model.AtomicArith gen.AtomicService_gen Model.AtomicSpec.
Import ListNotations.
Open Scope Q_scope.

(* ------------------------------------------------------------------ small facts *)
Lemma Qle_bool_false : forall x y, Qle_bool x y = false <-> y < x.
Proof.
  intros x y; split; intro H.
  - apply Qnot_le_lt. intro C. apply Qle_bool_iff in C. congruence.
  - destruct (Qle_bool x y) eqn:E; auto. apply Qle_bool_iff in E. lra.
Qed.

Lemma Qfloor_unique : forall q k, inject_Z k <= q -> q < inject_Z (k + 1) -> Qfloor q = k.
Proof.
  intros q k Hlo Hhi.
  pose proof (Qfloor_le q) as H1. pose proof (Qlt_floor q) as H2.
  assert (A1 : inject_Z (Qfloor q) < inject_Z (k + 1)) by lra.
  assert (A2 : inject_Z k < inject_Z (Qfloor q + 1)) by lra.
  rewrite <- Zlt_Qlt in A1, A2. lia.
Qed.

Lemma qmod_shift : forall k x y, 0 < y -> 0 <= x -> x < y -> qmod (inject_Z k * y + x) y == x.
Proof.
  intros k x y Hy Hx0 Hxy. unfold qmod.
  assert (Hq : (inject_Z k * y + x) / y == inject_Z k + x / y) by (field; lra).
  assert (Hlo : 0 <= x / y) by (apply Qle_shift_div_l; lra).
  assert (Hhi : x / y < 1) by (apply Qlt_shift_div_r; lra).
  assert (Hf : Qfloor ((inject_Z k * y + x) / y) = k).
  { apply Qfloor_unique; rewrite Hq; rewrite ?inject_Z_plus; change (inject_Z 1) with 1; lra. }
  rewrite Hf. ring.
Qed.

Lemma qmod_range : forall t y, 0 < y -> 0 <= qmod t y /\ qmod t y < y.
Proof.
  intros t y Hy. unfold qmod.
  pose proof (Qfloor_le (t / y)) as H1. pose proof (Qlt_floor (t / y)) as H2.
  rewrite inject_Z_plus in H2. change (inject_Z 1) with 1 in H2.
  set (f := inject_Z (Qfloor (t / y))) in *.
  assert (Ht : t == (t / y) * y) by (field; lra).
  split.
  - assert (f * y <= (t / y) * y) by (apply Qmult_le_compat_r; lra). lra.
  - assert ((t / y) * y < (f + 1) * y) by (apply Qmult_lt_compat_r; lra). lra.
Qed.

Lemma scale_mono : forall i j s, (i <= j)%Z -> 0 <= s -> inject_Z i * s <= inject_Z j * s.
Proof.
  intros i j s Hij Hs. apply Qmult_le_compat_r; [|exact Hs]. rewrite <- Zle_Qle. exact Hij.
Qed.

Lemma slot_size_pos : forall n im, (0 < n)%Z -> 0 < im -> 0 < slot_size n im.
Proof.
  intros n im Hn Him. unfold slot_size, secs. apply Qlt_shift_div_l.
  - change 0 with (inject_Z 0). rewrite <- Zlt_Qlt. exact Hn.
  - lra.
Qed.

Lemma slot_size_total : forall n im, (0 < n)%Z -> inject_Z n * slot_size n im == secs im.
Proof.
  intros n im Hn. unfold slot_size. field.
  intro C. assert (H0 : inject_Z 0 < inject_Z n) by (rewrite <- Zlt_Qlt; exact Hn).
  change (inject_Z 0) with 0 in H0. lra.
Qed.

(* ------------------------------------------------------------------ the position lookup *)
Lemma position_from_spec : forall ids k r i,
  position_from k r ids = Some i ->
  (k <= i < k + len ids)%Z /\ nth_error ids (Z.to_nat (i - k)) = Some r.
Proof.
  unfold len. induction ids as [|x rest IH]; intros k r i H; cbn [position_from] in H; [discriminate|].
  destruct (x =? r)%Z eqn:E.
  - inversion H; subst i. apply Z.eqb_eq in E; subst x.
    rewrite Z.sub_diag. cbn [length Z.to_nat nth_error]. split; [lia | reflexivity].
  - apply IH in H. destruct H as [Hr Hn]. cbn [length]. split; [lia|].
    replace (Z.to_nat (i - k)) with (S (Z.to_nat (i - (k + 1)))) by lia. exact Hn.
Qed.

Lemma position_from_in : forall ids k r, In r ids -> exists i, position_from k r ids = Some i.
Proof.
  induction ids as [|x rest IH]; intros k r Hin; [destruct Hin|].
  cbn [position_from]. destruct (x =? r)%Z eqn:E; [eauto|].
  destruct Hin as [Hx|Hin]; [subst x; rewrite Z.eqb_refl in E; discriminate|]. apply IH; exact Hin.
Qed.

Lemma position_from_notin : forall ids k r, ~ In r ids -> position_from k r ids = None.
Proof.
  induction ids as [|x rest IH]; intros k r Hn; [reflexivity|].
  cbn [position_from]. destruct (x =? r)%Z eqn:E.
  - apply Z.eqb_eq in E. exfalso. apply Hn. left; exact E.
  - apply IH. intro C. apply Hn. right; exact C.
Qed.

Lemma position_range : forall ids r i, position r ids = Some i -> (0 <= i < len ids)%Z.
Proof. intros ids r i H. apply position_from_spec in H. lia. Qed.

Lemma position_inj : forall ids r1 r2 i, position r1 ids = Some i -> position r2 ids = Some i -> r1 = r2.
Proof.
  intros ids r1 r2 i H1 H2. apply position_from_spec in H1, H2.
  destruct H1 as [_ H1]. destruct H2 as [_ H2]. congruence.
Qed.

Lemma position_iota : forall n i, (i < n)%nat -> position (Z.of_nat i) (iota n) = Some (Z.of_nat i).
Proof.
  intros n i Hi. unfold position, iota.
  assert (G : forall m k, (i < k + m)%nat -> (k <= i)%nat ->
              position_from (Z.of_nat k) (Z.of_nat i) (map Z.of_nat (seq k m)) = Some (Z.of_nat i)).
  { induction m as [|m IH]; intros k H1 H2; [lia|].
    cbn [seq map position_from]. destruct (Z.of_nat k =? Z.of_nat i)%Z eqn:E.
    - apply Z.eqb_eq in E. rewrite E. reflexivity.
    - apply Z.eqb_neq in E. replace (Z.of_nat k + 1)%Z with (Z.of_nat (S k)) by lia.
      apply IH; lia. }
  apply (G n 0%nat); lia.
Qed.

(* ------------------------------------------------------------------ the generated slot, exactly *)
(* start = i * size;  end = (i+1) * size - margin  when the margin fits (margin < size),
   else start + size/2.  Proved by computation on the generated term + linear arithmetic, so it
   holds for `start + size - margin` and for `(i+1) * size - margin` alike. *)
Lemma slot_Q_spec : forall i n im mm,
  (0 < n)%Z -> 0 < im -> 0 <= mm ->
  fst (gen_calculate_time_slot QA i n im mm) == inject_Z i * slot_size n im /\
  ((mm * 60 < slot_size n im /\
    snd (gen_calculate_time_slot QA i n im mm) == inject_Z (i + 1) * slot_size n im - mm * 60) \/
   (slot_size n im <= mm * 60 /\
    snd (gen_calculate_time_slot QA i n im mm) == inject_Z i * slot_size n im + slot_size n im * (1 # 2))).
Proof.
  intros i n im mm Hn Him Hmm.
  unfold slot_size, secs.
  cbv [gen_calculate_time_slot QA T add sub mul div ofZ leb ltb fst snd].
  change (inject_Z 60) with 60. change (inject_Z 2) with 2.
  rewrite ?inject_Z_plus. change (inject_Z 1) with 1.
  (* every division becomes a product with an inverse; 1/n is an opaque atom, so the remaining
     goals are linear over the monomials i*im*(1/n), im*(1/n), mm — whatever the spelling *)
  unfold Qdiv. change (/ 2) with (1 # 2).
  generalize (/ inject_Z n). intro k.
  destruct (Qle_bool _ _) eqn:E; cbn [fst snd].
  - apply Qle_bool_iff in E. split; [lra|]. right. split; lra.
  - apply Qle_bool_false in E. split; [lra|]. left. split; lra.
Qed.

(* consequences used below *)
Lemma slot_Q_bounds : forall i n im mm,
  (0 < n)%Z -> 0 < im -> 0 <= mm ->
  fst (gen_calculate_time_slot QA i n im mm) == inject_Z i * slot_size n im /\
  fst (gen_calculate_time_slot QA i n im mm) < snd (gen_calculate_time_slot QA i n im mm) /\
  snd (gen_calculate_time_slot QA i n im mm) <= inject_Z (i + 1) * slot_size n im.
Proof.
  intros i n im mm Hn Him Hmm.
  pose proof (slot_Q_spec i n im mm Hn Him Hmm) as [Hs He].
  pose proof (slot_size_pos n im Hn Him) as Hp.
  rewrite inject_Z_plus in *. change (inject_Z 1) with 1 in *.
  destruct He as [[H1 H2]|[H1 H2]]; repeat split; lra.
Qed.

Lemma in_slot_Q_iff : forall t im s e,
  gen_is_runner_in_time_slot QA t im s e = true <-> (s <= qmod t (secs im) /\ qmod t (secs im) < e).
Proof.
  intros t im s e. unfold secs.
  cbv [gen_is_runner_in_time_slot QA T add sub mul div ofZ leb ltb fmod].
  change (inject_Z 60) with 60.
  rewrite andb_true_iff, ?negb_true_iff, ?Qle_bool_iff, ?Qle_bool_false. tauto.
Qed.

(* two different positions never contain the same in-cycle instant *)
Lemma slots_disjoint_Q : forall i j n im mm x,
  (0 < n)%Z -> 0 < im -> 0 <= mm -> (0 <= i)%Z -> (i < j)%Z ->
  fst (gen_calculate_time_slot QA i n im mm) <= x -> x < snd (gen_calculate_time_slot QA i n im mm) ->
  fst (gen_calculate_time_slot QA j n im mm) <= x -> x < snd (gen_calculate_time_slot QA j n im mm) ->
  False.
Proof.
  intros i j n im mm x Hn Him Hmm Hi Hij A1 A2 B1 B2.
  pose proof (slot_Q_bounds i n im mm Hn Him Hmm) as [_ [_ Ei]].
  pose proof (slot_Q_bounds j n im mm Hn Him Hmm) as [Sj _].
  pose proof (slot_size_pos n im Hn Him) as Hp.
  assert (M : inject_Z (i + 1) * slot_size n im <= inject_Z j * slot_size n im)
    by (apply scale_mono; [lia | lra]).
  cbv zeta in *. lra.
Qed.

(* ------------------------------------------------------------------ can_run, unfolded *)
(* with two or more active runners, authorisation is exactly "the in-cycle instant lies in the
   window of the runner's position" *)
Lemma can_run_Q_iff : forall ids r t im mm,
  (2 <= len ids)%Z ->
  gen_can_run_atomic_service QA r ids t im mm = true <->
  exists i, position r ids = Some i /\
    fst (gen_calculate_time_slot QA i (len ids) im mm) <= qmod t (secs im) /\
    qmod t (secs im) < snd (gen_calculate_time_slot QA i (len ids) im mm).
Proof.
  intros ids r t im mm Hlen.
  unfold gen_can_run_atomic_service.
  destruct ids as [|a rest]; [unfold len in Hlen; cbn in Hlen; lia|].
  cbn [is_empty].
  destruct (len (a :: rest) =? 1)%Z eqn:E1; [apply Z.eqb_eq in E1; lia|].
  destruct (position r (a :: rest)) as [i|] eqn:P.
  - destruct (gen_calculate_time_slot QA i (len (a :: rest)) im mm) as [s e] eqn:S.
    cbn [fst snd]. rewrite in_slot_Q_iff. split.
    + intros [H1 H2]. exists i. rewrite S. cbn [fst snd]. auto.
    + intros [i' [Hi' [H1 H2]]]. inversion Hi'; subst i'. rewrite S in H1, H2. cbn [fst snd] in *. auto.
  - split; [discriminate|]. intros [i [Hi _]]. discriminate.
Qed.

Lemma at_most_one_Q : forall ids r1 r2 t im mm,
  0 < im -> 0 <= mm -> In r1 ids -> In r2 ids -> r1 <> r2 ->
  gen_can_run_atomic_service QA r1 ids t im mm = true ->
  gen_can_run_atomic_service QA r2 ids t im mm = true -> False.
Proof.
  intros ids r1 r2 t im mm Him Hmm In1 In2 Hne C1 C2.
  assert (Hlen : (2 <= len ids)%Z).
  { destruct ids as [|a [|b rest]]; [destruct In1| |unfold len; cbn [length]; lia].
    destruct In1 as [?|[]], In2 as [?|[]]; congruence. }
  apply can_run_Q_iff in C1; [|exact Hlen]. apply can_run_Q_iff in C2; [|exact Hlen].
  destruct C1 as [i [Pi [A1 A2]]]. destruct C2 as [j [Pj [B1 B2]]].
  pose proof (position_range _ _ _ Pi) as Ri. pose proof (position_range _ _ _ Pj) as Rj.
  assert (Hn : (0 < len ids)%Z) by lia.
  destruct (Z.lt_trichotomy i j) as [L|[L|L]].
  - exact (slots_disjoint_Q i j _ im mm _ Hn Him Hmm (proj1 Ri) L A1 A2 B1 B2).
  - subst j. apply Hne. exact (position_inj _ _ _ _ Pi Pj).
  - exact (slots_disjoint_Q j i _ im mm _ Hn Him Hmm (proj1 Rj) L B1 B2 A1 A2).
Qed.

(* the same, as a statement about the list of authorised runners *)
Lemma authorised_at_most_one_Q : forall ids t im mm,
  NoDup ids -> 0 < im -> 0 <= mm -> (length (authorised QA ids t im mm) <= 1)%nat.
Proof.
  intros ids t im mm Hnd Him Hmm.
  unfold authorised.
  set (f := fun r => gen_can_run_atomic_service QA r ids t im mm).
  assert (Hnd' : NoDup (filter f ids)) by (apply NoDup_filter; exact Hnd).
  destruct (filter f ids) as [|a [|b rest]] eqn:F; cbn [length]; try lia.
  exfalso.
  assert (Ha : In a (filter f ids)) by (rewrite F; left; reflexivity).
  assert (Hb : In b (filter f ids)) by (rewrite F; right; left; reflexivity).
  apply filter_In in Ha, Hb. destruct Ha as [Ia Fa]. destruct Hb as [Ib Fb].
  inversion Hnd' as [|? ? Hna _]; subst.
  apply (at_most_one_Q ids a b t im mm Him Hmm Ia Ib); [|exact Fa|exact Fb].
  intro C. apply Hna. subst b. left; reflexivity.
Qed.

(* ------------------------------------------------------------------ margin separation *)
Lemma windows_separated_Q : forall i n im mm,
  (0 < n)%Z -> 0 < im -> 0 <= mm -> mm * 60 < slot_size n im ->
  fst (gen_calculate_time_slot QA (i + 1) n im mm) - snd (gen_calculate_time_slot QA i n im mm) == mm * 60.
Proof.
  intros i n im mm Hn Him Hmm Hfit.
  pose proof (slot_Q_spec i n im mm Hn Him Hmm) as [_ He].
  pose proof (slot_Q_spec (i + 1) n im mm Hn Him Hmm) as [Hs _].
  cbv zeta in *. destruct He as [[_ He]|[Hc _]]; lra.
Qed.

(* ... including the gap between the last window and the first window of the next cycle *)
Lemma wrap_around_separated_Q : forall n im mm,
  (0 < n)%Z -> 0 < im -> 0 <= mm -> mm * 60 < slot_size n im ->
  (secs im + fst (gen_calculate_time_slot QA 0 n im mm)) - snd (gen_calculate_time_slot QA (n - 1) n im mm) == mm * 60.
Proof.
  intros n im mm Hn Him Hmm Hfit.
  pose proof (slot_Q_spec (n - 1) n im mm Hn Him Hmm) as [_ He].
  pose proof (slot_Q_spec 0 n im mm Hn Him Hmm) as [Hs _].
  pose proof (slot_size_total n im Hn) as Ht.
  replace (n - 1 + 1)%Z with n in He by lia.
  cbv zeta in *. change (inject_Z 0) with 0 in Hs. destruct He as [[_ He]|[Hc _]]; lra.
Qed.

(* ------------------------------------------------------------------ a non-empty window in every cycle *)
Lemma window_in_cycle_Q : forall i n im mm,
  (0 < n)%Z -> 0 < im -> 0 <= mm -> (0 <= i < n)%Z ->
  0 <= fst (gen_calculate_time_slot QA i n im mm) /\
  fst (gen_calculate_time_slot QA i n im mm) < snd (gen_calculate_time_slot QA i n im mm) /\
  snd (gen_calculate_time_slot QA i n im mm) <= secs im.
Proof.
  intros i n im mm Hn Him Hmm Hi.
  pose proof (slot_Q_bounds i n im mm Hn Him Hmm) as [Hs [Hlt He]].
  pose proof (slot_size_pos n im Hn Him) as Hp.
  pose proof (slot_size_total n im Hn) as Ht.
  assert (M1 : inject_Z 0 * slot_size n im <= inject_Z i * slot_size n im) by (apply scale_mono; [lia|lra]).
  assert (M2 : inject_Z (i + 1) * slot_size n im <= inject_Z n * slot_size n im) by (apply scale_mono; [lia|lra]).
  change (inject_Z 0) with 0 in M1.
  cbv zeta in *. repeat split; lra.
Qed.

Lemma authorised_every_cycle_Q : forall ids r im mm k,
  (2 <= len ids)%Z -> 0 < im -> 0 <= mm -> In r ids ->
  exists t, inject_Z k * secs im <= t /\ t < inject_Z (k + 1) * secs im /\
            gen_can_run_atomic_service QA r ids t im mm = true.
Proof.
  intros ids r im mm k Hlen Him Hmm Hin.
  destruct (position_from_in ids 0%Z r Hin) as [i Pi]. fold (position r ids) in Pi.
  pose proof (position_range _ _ _ Pi) as Ri.
  assert (Hn : (0 < len ids)%Z) by lia.
  pose proof (window_in_cycle_Q i (len ids) im mm Hn Him Hmm Ri) as [W0 [W1 W2]].
  set (s := fst (gen_calculate_time_slot QA i (len ids) im mm)) in *.
  set (e := snd (gen_calculate_time_slot QA i (len ids) im mm)) in *.
  assert (HI : 0 < secs im) by (unfold secs; lra).
  exists (inject_Z k * secs im + s).
  assert (Hq : qmod (inject_Z k * secs im + s) (secs im) == s) by (apply qmod_shift; lra).
  split; [lra|]. split.
  - rewrite inject_Z_plus. change (inject_Z 1) with 1. lra.
  - apply can_run_Q_iff; [exact Hlen|]. exists i. split; [exact Pi|]. fold s e. lra.
Qed.

(* ------------------------------------------------------------------ independent of the arithmetic *)
Lemma single_runner_always_any : forall (A : Arith) r t im mm,
  gen_can_run_atomic_service A r [r] t im mm = true.
Proof. intros. reflexivity. Qed.

Lemma empty_list_never_any : forall (A : Arith) r t im mm,
  gen_can_run_atomic_service A r [] t im mm = false.
Proof. intros. reflexivity. Qed.

Lemma unknown_runner_never_any : forall (A : Arith) ids r t im mm,
  (2 <= len ids)%Z -> ~ In r ids -> gen_can_run_atomic_service A r ids t im mm = false.
Proof.
  intros A ids r t im mm Hlen Hn. unfold gen_can_run_atomic_service.
  destruct ids as [|a rest]; [reflexivity|]. cbn [is_empty].
  destruct (len (a :: rest) =? 1)%Z eqn:E1; [apply Z.eqb_eq in E1; lia|].
  unfold position. rewrite (position_from_notin _ _ _ Hn). reflexivity.
Qed.

(* ------------------------------------------------------------------ wiring of should_run_atomic_service *)
Lemma wiring_all_true : forallb (fun b => b) gen_wiring = true.
Proof. vm_compute. reflexivity. Qed.

(* ------------------------------------------------------------------ the execution history does not reach a result *)
(* fact read off the source by the translator's data-flow pass: this is what makes the id-only model
   (no last_service_start / last_service_end parameter) a model of the functions for EVERY runner list *)
Lemma history_free_all_true : forallb (fun b => b) gen_history_free = true.
Proof. vm_compute. reflexivity. Qed.

(* ------------------------------------------------------------------ which spelling the source uses *)
Lemma gen_end_form_sound : end_form_claim gen_end_form.
Proof. cbv [gen_end_form end_form_claim]. first [exact I | intros; reflexivity]. Qed.

(* ------------------------------------------------------------------ binary64: the sum form double-authorises *)
(* 9 runners, 5.0 minute cycle, margin 0, t = 200.0 s: positions 5 and 6 are both authorised
   (end of slot 5 = fl(fl(5*s) + s) is one ulp above start of slot 6 = fl(6*s), s = fl(300/9)). *)
Lemma b64_sum_form_refuted : implb (is_sum_form gen_end_form) b64_witness_both = true.
Proof. vm_compute. reflexivity. Qed.

Lemma b64_next_start_form_witness_gone : implb (is_next_start_form gen_end_form) (negb b64_witness_both) = true.
Proof. vm_compute. reflexivity. Qed.

(* Proofs/ThreadRunnerProofs.v — lemmas behind Props/C09.v (part 2) and Props/C11.v *)
From Coq Require Import List Bool Arith Lia.
Import ListNotations.
From PV Require Import Model.ThreadRunner.

(* ---------- lists ---------- *)
Lemma set_nth_length : forall l i x, length (set_nth i x l) = length l.
Proof. induction l as [|y l IH]; intros i x; destruct i; cbn; auto. Qed.

Lemma nth_set_nth_same : forall l i x d, i < length l -> nth i (set_nth i x l) d = x.
Proof. induction l as [|y l IH]; intros i x d H; destruct i; cbn in *; try lia; auto. apply IH. lia. Qed.

Lemma nth_set_nth_other : forall l i j x d, i <> j -> nth j (set_nth i x l) d = nth j l d.
Proof.
  induction l as [|y l IH]; intros i j x d H; destruct i, j; cbn; try reflexivity; try congruence.
  apply IH. congruence.
Qed.

Lemma set_nth_beyond : forall l i x, length l <= i -> set_nth i x l = l.
Proof. induction l as [|y l IH]; intros i x H; destruct i; cbn in *; try lia; auto. f_equal. apply IH. lia. Qed.

Section WithProg.
Variable prog : inv -> list action.

(* potential of a list under a point update *)
Lemma phi_from_set : forall l k i x, i < length l ->
  phi_from prog k (set_nth i x l) + phi_inv prog (k + i) (nth i l NotCreated)
  = phi_from prog k l + phi_inv prog (k + i) x.
Proof.
  induction l as [|y l IH]; intros k i x H; [cbn in H; lia|].
  destruct i; cbn [set_nth phi_from nth].
  - rewrite Nat.add_0_r. lia.
  - cbn in H. specialize (IH (S k) i x ltac:(lia)). replace (k + S i) with (S k + i) by lia. lia.
Qed.

Lemma phi_upd : forall s i x, i < length (ist s) ->
  phi prog (upd s i x) + phi_inv prog i (st_of s i) = phi prog s + phi_inv prog i x.
Proof. intros s i x H. unfold phi, upd, st_of. cbn [ist]. apply (phi_from_set (ist s) 0 i x H). Qed.

Lemma st_upd_same : forall s i x, i < length (ist s) -> st_of (upd s i x) i = x.
Proof. intros. unfold st_of, upd; cbn. now apply nth_set_nth_same. Qed.
Lemma st_upd_other : forall s i j x, i <> j -> st_of (upd s i x) j = st_of s j.
Proof. intros. unfold st_of, upd; cbn. now apply nth_set_nth_other. Qed.

Variable slots : nat.
Variable wfs bf : bool.     (* waiting_frees_slot, blocking_first *)

Definition thread_productive (s : rstate) (i : inv) : bool :=
  match st_of s i with
  | Pending => true
  | Running pc d w =>
      match nth_error (prog i) pc with
      | None => true
      | Some (Call _) => true
      | Some (Wait cs) => all_final s cs || negb d
      end
  | _ => false
  end.

Lemma st_of_in_range : forall s i, st_of s i <> NotCreated -> i < length (ist s).
Proof.
  intros s i H. destruct (Nat.lt_ge_cases i (length (ist s))) as [|Hge]; [assumption|].
  exfalso. apply H. unfold st_of. now apply nth_overflow.
Qed.

Lemma thread_step_decreases : forall s i, thread_productive s i = true ->
  phi prog (thread_step prog s i) < phi prog s.
Proof.
  intros s i H. unfold thread_productive in H. unfold thread_step.
  destruct (st_of s i) as [| | |pc d w|] eqn:Es; try discriminate.
  - assert (i < length (ist s)) as Hi by (apply st_of_in_range; congruence).
    pose proof (phi_upd s i (Running 0 false false) Hi) as Hp. rewrite Es in Hp. cbn [phi_inv] in Hp. lia.
  - assert (i < length (ist s)) as Hi by (apply st_of_in_range; congruence).
    destruct (nth_error (prog i) pc) as [[c|cs]|] eqn:En.
    + assert (pc < length (prog i)) as Hpc by (apply nth_error_Some; congruence).
      destruct (st_of s c) eqn:Ec.
      * (* child created *)
        assert (c <> i) as Hci by (intros ->; congruence).
        destruct (Nat.lt_ge_cases c (length (ist s))) as [Hc|Hc].
        -- unfold phi. cbn [ist].
           pose proof (phi_from_set (ist s) 0 c Registered Hc) as H1.
           assert (i < length (set_nth c Registered (ist s))) as Hi' by now rewrite set_nth_length.
           pose proof (phi_from_set (set_nth c Registered (ist s)) 0 i (Running (S pc) false w) Hi') as H2.
           rewrite nth_set_nth_other in H2 by assumption.
           unfold st_of in Es, Ec. rewrite Es in H2. rewrite Ec in H1. cbn [phi_inv Nat.add] in H1, H2.
           destruct d; lia.
        -- unfold phi. cbn [ist]. rewrite (set_nth_beyond (ist s) c Registered Hc).
           pose proof (phi_from_set (ist s) 0 i (Running (S pc) false w) Hi) as H2.
           unfold st_of in Es. rewrite Es in H2. cbn [phi_inv Nat.add] in H2. destruct d; lia.
      * pose proof (phi_upd s i (Running (S pc) false w) Hi) as Hp. rewrite Es in Hp. cbn [phi_inv] in Hp. destruct d; lia.
      * pose proof (phi_upd s i (Running (S pc) false w) Hi) as Hp. rewrite Es in Hp. cbn [phi_inv] in Hp. destruct d; lia.
      * pose proof (phi_upd s i (Running (S pc) false w) Hi) as Hp. rewrite Es in Hp. cbn [phi_inv] in Hp. destruct d; lia.
      * pose proof (phi_upd s i (Running (S pc) false w) Hi) as Hp. rewrite Es in Hp. cbn [phi_inv] in Hp. destruct d; lia.
    + assert (pc < length (prog i)) as Hpc by (apply nth_error_Some; congruence).
      destruct (all_final s cs).
      * pose proof (phi_upd s i (Running (S pc) false w) Hi) as Hp. rewrite Es in Hp. cbn [phi_inv] in Hp. destruct d; lia.
      * cbn in H. destruct d; [discriminate|].
        pose proof (phi_upd s i (Running pc true true) Hi) as Hp. rewrite Es in Hp. cbn [phi_inv] in Hp. lia.
    + pose proof (phi_upd s i Final Hi) as Hp. rewrite Es in Hp. cbn [phi_inv] in Hp. destruct d; lia.
Qed.

Lemma thread_step_nonincreasing : forall s i, phi prog (thread_step prog s i) <= phi prog s.
Proof.
  intros s i. destruct (thread_productive s i) eqn:E.
  - apply Nat.lt_le_incl. now apply thread_step_decreases.
  - unfold thread_productive in E. unfold thread_step.
    destruct (st_of s i) as [| | |pc d w|]; try discriminate; try apply le_n.
    destruct (nth_error (prog i) pc) as [[c|cs]|]; try discriminate.
    apply orb_false_iff in E. destruct E as [E1 E2]. rewrite E1. apply negb_false_iff in E2. rewrite E2. apply le_n.
Qed.

(* ---------- claiming ---------- *)
Lemma claim_list_spec : forall cands n s,
  phi prog (fst (claim_list n cands s)) + (n - snd (claim_list n cands s)) = phi prog s /\
  snd (claim_list n cands s) <= n /\ length (ist (fst (claim_list n cands s))) = length (ist s).
Proof.
  induction cands as [|x cands IH]; intros n s.
  - destruct n; cbn; repeat split; lia.
  - destruct n; [cbn; repeat split; lia|].
    cbn [claim_list]. destruct (st_of s x) eqn:Ex; try apply IH.
    set (s1 := {| ist := set_nth x Pending (ist s); queue := filter (fun y => negb (Nat.eqb y x)) (queue s) |}).
    destruct (IH n s1) as (H1 & H2 & H3).
    assert (x < length (ist s)) as Hx by (apply st_of_in_range; congruence).
    pose proof (phi_from_set (ist s) 0 x Pending Hx) as Hp. unfold st_of in Ex. rewrite Ex in Hp.
    cbn [phi_inv Nat.add] in Hp.
    assert (phi prog s1 + 1 = phi prog s) as Hs1 by (unfold phi, s1; cbn [ist]; lia).
    assert (length (ist s1) = length (ist s)) as Hl by (unfold s1; cbn [ist]; apply set_nth_length).
    repeat split; lia.
Qed.

Lemma claim_list_claims : forall cands n s, 1 <= n ->
  (exists x, In x cands /\ st_of s x = Registered) -> snd (claim_list n cands s) < n.
Proof.
  induction cands as [|x cands IH]; intros n s Hn [y [Hy Hs]]; [contradiction|].
  destruct n; [lia|]. cbn.
  destruct (st_of s x) eqn:Ex;
    try (apply IH; [lia|]; destruct Hy as [->|Hy]; [congruence|eauto]).
  set (s1 := {| ist := set_nth x Pending (ist s); queue := filter (fun y => negb (Nat.eqb y x)) (queue s) |}).
  pose proof (claim_list_spec cands n s1) as (_ & H2 & _). lia.
Qed.

Lemma loop_iter_nonincreasing : forall s, phi prog (loop_iter prog slots wfs bf s) <= phi prog s.
Proof.
  intros s. unfold loop_iter.
  pose proof (claim_list_spec ((if bf then filter (blocking prog s) (seq 0 (length (ist s))) else []) ++ queue s)
                (free_slots slots wfs s) s) as (H1 & _). lia.
Qed.

Lemma loop_iter_decreases : forall s, 1 <= free_slots slots wfs s ->
  (exists x, In x (queue s) /\ st_of s x = Registered) ->
  phi prog (loop_iter prog slots wfs bf s) < phi prog s.
Proof.
  intros s Hf [x [Hx Hs]]. unfold loop_iter.
  set (c := (if bf then filter (blocking prog s) (seq 0 (length (ist s))) else []) ++ queue s).
  pose proof (claim_list_spec c (free_slots slots wfs s) s) as (H1 & H2 & _). cbn [phi_inv Nat.add] in H1, H2.
  assert (snd (claim_list (free_slots slots wfs s) c s) < free_slots slots wfs s) as H3.
  { apply claim_list_claims; [assumption|]. exists x. split; [unfold c; apply in_or_app; now right|assumption]. }
  lia.
Qed.

Lemma step_nonincreasing : forall s a, phi prog (step prog slots wfs bf s a) <= phi prog s.
Proof. intros s [|i]; cbn; [apply loop_iter_nonincreasing|apply thread_step_nonincreasing]. Qed.
End WithProg.

(* ================= reachable-state invariant, progress, completion ================= *)
Section Progress.
Variable prog : inv -> list action.
Variable slots : nat.
Variable bf : bool.
Variable n : nat.                      (* number of invocations of the forest *)

(* well-formed forest: children have larger ids than their parent and are in range; a Wait only
   names children called earlier in the same body *)
Hypothesis calls_up : forall i pc c, nth_error (prog i) pc = Some (Call c) -> i < c < n.
Hypothesis waits_called : forall i pc cs c, nth_error (prog i) pc = Some (Wait cs) -> In c cs ->
  exists pc', pc' < pc /\ nth_error (prog i) pc' = Some (Call c).

Record RInv (s : rstate) : Prop := {
  r_len : length (ist s) = n;
  r_q : forall x, In x (queue s) <-> st_of s x = Registered;
  r_d : forall i pc d w, st_of s i = Running pc d w -> d = true -> w = true;
  r_c : forall i pc d w pc' c, st_of s i = Running pc d w -> pc' < pc ->
        nth_error (prog i) pc' = Some (Call c) -> st_of s c <> NotCreated }.

Notation STEP := (step prog slots true bf).
Notation TSTEP := (thread_step prog).

Lemma st_set : forall s i x j, i < length (ist s) ->
  st_of {| ist := set_nth i x (ist s); queue := queue s |} j = if Nat.eqb j i then x else st_of s j.
Proof.
  intros s i x j Hi. unfold st_of. cbn [ist]. destruct (Nat.eqb_spec j i) as [->|ne].
  - now apply nth_set_nth_same.
  - apply nth_set_nth_other. congruence.
Qed.

(* a point update to a value that is neither NotCreated nor Registered, of an invocation that was not Registered *)
Lemma RInv_upd : forall s i x, RInv s -> i < n ->
  st_of s i <> Registered -> x <> Registered -> x <> NotCreated ->
  (forall pc d w, x = Running pc d w ->
      (d = true -> w = true) /\
      (forall pc' c, pc' < pc -> nth_error (prog i) pc' = Some (Call c) -> st_of s c <> NotCreated /\ c <> i \/ (c = i))) ->
  RInv (upd s i x).
Proof.
  intros s i x [Hl Hq Hd Hc] Hi Hnr Hxr Hxn Hrun.
  assert (i < length (ist s)) as Hi' by lia.
  constructor.
  - unfold upd; cbn. now rewrite set_nth_length.
  - intros y. unfold upd at 1. cbn [queue]. rewrite (Hq y). unfold upd. rewrite (st_set s i x y Hi').
    destruct (Nat.eqb_spec y i) as [->|ne]; [|tauto]. split; intros H; congruence.
  - intros j pc d w Hj Hdt. unfold upd in Hj. rewrite (st_set s i x j Hi') in Hj.
    destruct (Nat.eqb_spec j i) as [->|ne].
    + destruct (Hrun pc d w Hj) as [H1 _]. auto.
    + eapply Hd; eassumption.
  - intros j pc d w pc' c Hj Hlt Hn. unfold upd in Hj |- *. rewrite (st_set s i x j Hi') in Hj. rewrite (st_set s i x c Hi').
    destruct (Nat.eqb_spec c i) as [->|nc]; [assumption|].
    destruct (Nat.eqb_spec j i) as [->|ne].
    + destruct (Hrun pc d w Hj) as [_ H2]. destruct (H2 pc' c Hlt Hn) as [[H3 _]|H3]; [assumption|congruence].
    + eapply Hc; eassumption.
Qed.

Lemma thread_step_inv : forall s i, RInv s -> RInv (TSTEP s i).
Proof.
  intros s i H. pose proof H as [Hl Hq Hd Hc]. unfold thread_step.
  destruct (st_of s i) as [| | |pc d w|] eqn:Es; try exact H.
  - (* Pending -> Running 0 *)
    assert (i < n) as Hi by (rewrite <- Hl; apply st_of_in_range; congruence).
    apply RInv_upd; try assumption; try congruence.
    intros pc d w Hx. inversion Hx; subst. split; [discriminate|]. intros pc' c Hlt. lia.
  - assert (i < n) as Hi by (rewrite <- Hl; apply st_of_in_range; congruence).
    destruct (nth_error (prog i) pc) as [[c|cs]|] eqn:En.
    + destruct (calls_up i pc c En) as [Hic Hcn].
      assert (forall pc0 d0 w0, Running (S pc) false w = Running pc0 d0 w0 ->
               (d0 = true -> w0 = true) /\
               (forall pc' c', pc' < pc0 -> nth_error (prog i) pc' = Some (Call c') ->
                  (st_of s c' <> NotCreated \/ c' = c) /\ c' <> i)) as Hgen.
      { intros pc0 d0 w0 Hx. inversion Hx; subst. split; [discriminate|]. intros pc' c' Hlt Hn'.
        split; [|destruct (calls_up i pc' c' Hn'); lia].
        destruct (Nat.eq_dec pc' pc) as [->|ne]; [right; congruence|left].
        eapply Hc; [exact Es| |exact Hn']. lia. }
      destruct (st_of s c) eqn:Ec.
      * (* the child is created and queued *)
        assert (c < length (ist s)) as Hc' by lia. assert (i < length (ist s)) as Hi' by lia.
        set (s1 := {| ist := set_nth c Registered (ist s); queue := queue s ++ [c] |}).
        assert (forall j, st_of s1 j = if Nat.eqb j c then Registered else st_of s j) as Hs1.
        { intros j. unfold s1, st_of. cbn [ist]. destruct (Nat.eqb_spec j c) as [->|ne];
            [now apply nth_set_nth_same|apply nth_set_nth_other; congruence]. }
        assert (i < length (ist s1)) as Hi1 by (unfold s1; cbn; now rewrite set_nth_length).
        assert (forall j, st_of {| ist := set_nth i (Running (S pc) false w) (set_nth c Registered (ist s)); queue := queue s ++ [c] |} j
                          = if Nat.eqb j i then Running (S pc) false w else if Nat.eqb j c then Registered else st_of s j) as Hst.
        { intros j. unfold st_of. cbn [ist]. destruct (Nat.eqb_spec j i) as [->|n1].
          - apply nth_set_nth_same. now rewrite set_nth_length.
          - rewrite nth_set_nth_other by congruence.
            destruct (Nat.eqb_spec j c) as [->|n2]; [now apply nth_set_nth_same|apply nth_set_nth_other; congruence]. }
        constructor.
        -- cbn. now rewrite !set_nth_length.
        -- intros y. cbn [queue]. rewrite in_app_iff, (Hq y), Hst. cbn.
           destruct (Nat.eqb_spec y i) as [->|n1].
           ++ split; [intros [Hx|[Hx|[]]]; [congruence|lia]|discriminate].
           ++ destruct (Nat.eqb_spec y c) as [->|n2]; [split; auto|]. split; [intros [Hx|[Hx|[]]]; [assumption|congruence]|auto].
        -- intros j pc0 d0 w0 Hj Hdt. rewrite Hst in Hj.
           destruct (Nat.eqb j i); [inversion Hj; subst; discriminate|]. destruct (Nat.eqb j c); [discriminate|].
           eapply Hd; eassumption.
        -- intros j pc0 d0 w0 pc' c' Hj Hlt Hn'. rewrite Hst in Hj. rewrite Hst.
           destruct (Nat.eqb_spec c' i) as [->|n1]; [discriminate|].
           destruct (Nat.eqb_spec c' c) as [->|n2]; [discriminate|].
           destruct (Nat.eqb_spec j i) as [->|n3].
           ++ destruct (Hgen pc0 d0 w0 Hj) as [_ Hg]. destruct (Hg pc' c' Hlt Hn') as [[Hx|Hx] _]; [assumption|congruence].
           ++ destruct (Nat.eqb j c); [discriminate|]. eapply Hc; eassumption.
      * apply RInv_upd; try assumption; try congruence.
        intros pcx dx wx Hx. destruct (Hgen pcx dx wx Hx) as [H1 H2]. split; [assumption|].
        intros pc' c' Hlt Hn'. destruct (H2 pc' c' Hlt Hn') as [[Hx1|Hx1] Hx2]; left; split; auto; congruence.
      * apply RInv_upd; try assumption; try congruence.
        intros pcx dx wx Hx. destruct (Hgen pcx dx wx Hx) as [H1 H2]. split; [assumption|].
        intros pc' c' Hlt Hn'. destruct (H2 pc' c' Hlt Hn') as [[Hx1|Hx1] Hx2]; left; split; auto; congruence.
      * apply RInv_upd; try assumption; try congruence.
        intros pcx dx wx Hx. destruct (Hgen pcx dx wx Hx) as [H1 H2]. split; [assumption|].
        intros pc' c' Hlt Hn'. destruct (H2 pc' c' Hlt Hn') as [[Hx1|Hx1] Hx2]; left; split; auto; congruence.
      * apply RInv_upd; try assumption; try congruence.
        intros pcx dx wx Hx. destruct (Hgen pcx dx wx Hx) as [H1 H2]. split; [assumption|].
        intros pc' c' Hlt Hn'. destruct (H2 pc' c' Hlt Hn') as [[Hx1|Hx1] Hx2]; left; split; auto; congruence.
    + destruct (all_final s cs).
      * apply RInv_upd; try assumption; try congruence.
        intros pc0 d0 w0 Hx. inversion Hx; subst. split; [discriminate|].
        intros pc' c' Hlt Hn'. left. split; [|destruct (calls_up i pc' c' Hn'); lia].
        destruct (Nat.eq_dec pc' pc) as [->|ne]; [congruence|]. eapply Hc; [exact Es| |exact Hn']. lia.
      * destruct d; [exact H|].
        apply RInv_upd; try assumption; try congruence.
        intros pc0 d0 w0 Hx. inversion Hx; subst. split; [reflexivity|].
        intros pc' c' Hlt Hn'. left. split; [|destruct (calls_up i pc' c' Hn'); lia].
        eapply Hc; [exact Es|exact Hlt|exact Hn'].
    + apply RInv_upd; try assumption; try congruence; try (intros pc0 d0 w0 Hx; discriminate).
Qed.

Lemma claim_list_inv : forall cands k s, RInv s -> RInv (fst (claim_list k cands s)).
Proof.
  induction cands as [|x cands IH]; intros k s H; destruct k; cbn; try exact H.
  destruct (st_of s x) eqn:Ex; try (apply (IH (S k) s H)).
  apply IH. pose proof H as [Hl Hq Hd Hc].
  assert (x < length (ist s)) as Hx by (apply st_of_in_range; congruence).
  constructor.
  - cbn. now rewrite set_nth_length.
  - intros y. cbn [queue]. rewrite filter_In, (Hq y).
    pose proof (st_set s x Pending y Hx) as Hs. unfold st_of in Hs |- *. cbn [ist] in Hs |- *. rewrite Hs.
    destruct (Nat.eqb y x) eqn:E; cbn.
    + split; [intros [_ Hf]; discriminate|discriminate].
    + split; [tauto|auto].
  - intros j pc d w Hj. pose proof (st_set s x Pending j Hx) as Hs. unfold st_of in Hs, Hj. cbn [ist] in Hs, Hj. rewrite Hs in Hj.
    destruct (Nat.eqb j x); [discriminate|]. eapply Hd. exact Hj.
  - intros j pc d w pc' c Hj Hlt Hn'. pose proof (st_set s x Pending j Hx) as Hs. pose proof (st_set s x Pending c Hx) as Hs2.
    unfold st_of in Hs, Hs2, Hj |- *. cbn [ist] in Hs, Hs2, Hj |- *. rewrite Hs in Hj. rewrite Hs2.
    destruct (Nat.eqb c x); [discriminate|]. destruct (Nat.eqb j x); [discriminate|]. eapply Hc; eassumption.
Qed.

Lemma step_inv : forall s a, RInv s -> RInv (STEP s a).
Proof. intros s [|i] H; cbn; [apply claim_list_inv; assumption|now apply thread_step_inv]. Qed.

Lemma run_inv : forall l s, RInv s -> RInv (run prog slots true bf s l).
Proof. induction l as [|a l IH]; intros s H; cbn; [exact H|]. apply IH. now apply step_inv. Qed.
End Progress.

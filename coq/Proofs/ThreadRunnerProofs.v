(* Proofs/ThreadRunnerProofs.v — lemmas behind Props/C09.v (part 2) and Props/C11.v *)
From Coq Require Import List Bool Arith Lia.
Import ListNotations.
From PV Require Import Model.ThreadRunner.

(* ---------- lists ---------- *)
Lemma set_nth_length : forall l i x, length (set_nth i x l) = length l.
Proof. induction l as [|y l IH]; intros i x; destruct i; cbn; auto. Qed.

Lemma nth_set_nth_same : forall l i x d, i < length l -> nth i (set_nth i x l) d = x.
Proof. induction l as [|y l IH]; intros i x d H; destruct i; cbn in *; try lia; auto. apply IH. lia. Qed.

Lemma nth_set_nth_other : forall l i j x d, i <> j -> nth j (set_nth i x l) d = nth j l d.
Proof.
  induction l as [|y l IH]; intros i j x d H; destruct i, j; cbn; try reflexivity; try congruence.
  apply IH. congruence.
Qed.

Lemma set_nth_beyond : forall l i x, length l <= i -> set_nth i x l = l.
Proof. induction l as [|y l IH]; intros i x H; destruct i; cbn in *; try lia; auto. f_equal. apply IH. lia. Qed.

Section WithProg.
Variable prog : inv -> list action.

(* potential of a list under a point update *)
Lemma phi_from_set : forall l k i x, i < length l ->
  phi_from prog k (set_nth i x l) + phi_inv prog (k + i) (nth i l NotCreated)
  = phi_from prog k l + phi_inv prog (k + i) x.
Proof.
  induction l as [|y l IH]; intros k i x H; [cbn in H; lia|].
  destruct i; cbn [set_nth phi_from nth].
  - rewrite Nat.add_0_r. lia.
  - cbn in H. specialize (IH (S k) i x ltac:(lia)). replace (k + S i) with (S k + i) by lia. lia.
Qed.

Lemma phi_upd : forall s i x, i < length (ist s) ->
  phi prog (upd s i x) + phi_inv prog i (st_of s i) = phi prog s + phi_inv prog i x.
Proof. intros s i x H. unfold phi, upd, st_of. cbn [ist]. apply (phi_from_set (ist s) 0 i x H). Qed.

Lemma st_upd_same : forall s i x, i < length (ist s) -> st_of (upd s i x) i = x.
Proof. intros. unfold st_of, upd; cbn. now apply nth_set_nth_same. Qed.
Lemma st_upd_other : forall s i j x, i <> j -> st_of (upd s i x) j = st_of s j.
Proof. intros. unfold st_of, upd; cbn. now apply nth_set_nth_other. Qed.

Variable slots : nat.
Variable wfs bf : bool.     (* waiting_frees_slot, blocking_first *)

Definition thread_productive (s : rstate) (i : inv) : bool :=
  match st_of s i with
  | Pending => true
  | Running pc d w =>
      match nth_error (prog i) pc with
      | None => true
      | Some (Call _) => true
      | Some (Wait cs) => all_final s cs || negb d
      end
  | _ => false
  end.

Lemma st_of_in_range : forall s i, st_of s i <> NotCreated -> i < length (ist s).
Proof.
  intros s i H. destruct (Nat.lt_ge_cases i (length (ist s))) as [|Hge]; [assumption|].
  exfalso. apply H. unfold st_of. now apply nth_overflow.
Qed.

Lemma thread_step_decreases : forall s i, thread_productive s i = true ->
  phi prog (thread_step prog s i) < phi prog s.
Proof.
  intros s i H. unfold thread_productive in H. unfold thread_step.
  destruct (st_of s i) as [| | |pc d w|] eqn:Es; try discriminate.
  - assert (i < length (ist s)) as Hi by (apply st_of_in_range; congruence).
    pose proof (phi_upd s i (Running 0 false false) Hi) as Hp. rewrite Es in Hp. cbn [phi_inv] in Hp. lia.
  - assert (i < length (ist s)) as Hi by (apply st_of_in_range; congruence).
    destruct (nth_error (prog i) pc) as [[c|cs]|] eqn:En.
    + assert (pc < length (prog i)) as Hpc by (apply nth_error_Some; congruence).
      destruct (st_of s c) eqn:Ec.
      * (* child created *)
        assert (c <> i) as Hci by (intros ->; congruence).
        destruct (Nat.lt_ge_cases c (length (ist s))) as [Hc|Hc].
        -- unfold phi. cbn [ist].
           pose proof (phi_from_set (ist s) 0 c Registered Hc) as H1.
           assert (i < length (set_nth c Registered (ist s))) as Hi' by now rewrite set_nth_length.
           pose proof (phi_from_set (set_nth c Registered (ist s)) 0 i (Running (S pc) false w) Hi') as H2.
           rewrite nth_set_nth_other in H2 by assumption.
           unfold st_of in Es, Ec. rewrite Es in H2. rewrite Ec in H1. cbn [phi_inv Nat.add] in H1, H2.
           destruct d; lia.
        -- unfold phi. cbn [ist]. rewrite (set_nth_beyond (ist s) c Registered Hc).
           pose proof (phi_from_set (ist s) 0 i (Running (S pc) false w) Hi) as H2.
           unfold st_of in Es. rewrite Es in H2. cbn [phi_inv Nat.add] in H2. destruct d; lia.
      * pose proof (phi_upd s i (Running (S pc) false w) Hi) as Hp. rewrite Es in Hp. cbn [phi_inv] in Hp. destruct d; lia.
      * pose proof (phi_upd s i (Running (S pc) false w) Hi) as Hp. rewrite Es in Hp. cbn [phi_inv] in Hp. destruct d; lia.
      * pose proof (phi_upd s i (Running (S pc) false w) Hi) as Hp. rewrite Es in Hp. cbn [phi_inv] in Hp. destruct d; lia.
      * pose proof (phi_upd s i (Running (S pc) false w) Hi) as Hp. rewrite Es in Hp. cbn [phi_inv] in Hp. destruct d; lia.
    + assert (pc < length (prog i)) as Hpc by (apply nth_error_Some; congruence).
      destruct (all_final s cs).
      * pose proof (phi_upd s i (Running (S pc) false w) Hi) as Hp. rewrite Es in Hp. cbn [phi_inv] in Hp. destruct d; lia.
      * cbn in H. destruct d; [discriminate|].
        pose proof (phi_upd s i (Running pc true true) Hi) as Hp. rewrite Es in Hp. cbn [phi_inv] in Hp. lia.
    + pose proof (phi_upd s i Final Hi) as Hp. rewrite Es in Hp. cbn [phi_inv] in Hp. destruct d; lia.
Qed.

Lemma thread_step_nonincreasing : forall s i, phi prog (thread_step prog s i) <= phi prog s.
Proof.
  intros s i. destruct (thread_productive s i) eqn:E.
  - apply Nat.lt_le_incl. now apply thread_step_decreases.
  - unfold thread_productive in E. unfold thread_step.
    destruct (st_of s i) as [| | |pc d w|]; try discriminate; try apply le_n.
    destruct (nth_error (prog i) pc) as [[c|cs]|]; try discriminate.
    apply orb_false_iff in E. destruct E as [E1 E2]. rewrite E1. apply negb_false_iff in E2. rewrite E2. apply le_n.
Qed.

(* ---------- claiming ---------- *)
Lemma claim_list_spec : forall cands n s,
  phi prog (fst (claim_list n cands s)) + (n - snd (claim_list n cands s)) = phi prog s /\
  snd (claim_list n cands s) <= n /\ length (ist (fst (claim_list n cands s))) = length (ist s).
Proof.
  induction cands as [|x cands IH]; intros n s.
  - destruct n; cbn; repeat split; lia.
  - destruct n; [cbn; repeat split; lia|].
    cbn [claim_list]. destruct (st_of s x) eqn:Ex; try apply IH.
    set (s1 := {| ist := set_nth x Pending (ist s); queue := filter (fun y => negb (Nat.eqb y x)) (queue s) |}).
    destruct (IH n s1) as (H1 & H2 & H3).
    assert (x < length (ist s)) as Hx by (apply st_of_in_range; congruence).
    pose proof (phi_from_set (ist s) 0 x Pending Hx) as Hp. unfold st_of in Ex. rewrite Ex in Hp.
    cbn [phi_inv Nat.add] in Hp.
    assert (phi prog s1 + 1 = phi prog s) as Hs1 by (unfold phi, s1; cbn [ist]; lia).
    assert (length (ist s1) = length (ist s)) as Hl by (unfold s1; cbn [ist]; apply set_nth_length).
    repeat split; lia.
Qed.

Lemma claim_list_claims : forall cands n s, 1 <= n ->
  (exists x, In x cands /\ st_of s x = Registered) -> snd (claim_list n cands s) < n.
Proof.
  induction cands as [|x cands IH]; intros n s Hn [y [Hy Hs]]; [contradiction|].
  destruct n; [lia|]. cbn.
  destruct (st_of s x) eqn:Ex;
    try (apply IH; [lia|]; destruct Hy as [->|Hy]; [congruence|eauto]).
  set (s1 := {| ist := set_nth x Pending (ist s); queue := filter (fun y => negb (Nat.eqb y x)) (queue s) |}).
  pose proof (claim_list_spec cands n s1) as (_ & H2 & _). lia.
Qed.

Lemma loop_iter_nonincreasing : forall s, phi prog (loop_iter prog slots wfs bf s) <= phi prog s.
Proof.
  intros s. unfold loop_iter.
  pose proof (claim_list_spec ((if bf then filter (blocking prog s) (seq 0 (length (ist s))) else []) ++ queue s)
                (free_slots slots wfs s) s) as (H1 & _). lia.
Qed.

Lemma loop_iter_decreases : forall s, 1 <= free_slots slots wfs s ->
  (exists x, In x (queue s) /\ st_of s x = Registered) ->
  phi prog (loop_iter prog slots wfs bf s) < phi prog s.
Proof.
  intros s Hf [x [Hx Hs]]. unfold loop_iter.
  set (c := (if bf then filter (blocking prog s) (seq 0 (length (ist s))) else []) ++ queue s).
  pose proof (claim_list_spec c (free_slots slots wfs s) s) as (H1 & H2 & _). cbn [phi_inv Nat.add] in H1, H2.
  assert (snd (claim_list (free_slots slots wfs s) c s) < free_slots slots wfs s) as H3.
  { apply claim_list_claims; [assumption|]. exists x. split; [unfold c; apply in_or_app; now right|assumption]. }
  lia.
Qed.

Lemma step_nonincreasing : forall s a, phi prog (step prog slots wfs bf s a) <= phi prog s.
Proof. intros s [|i]; cbn; [apply loop_iter_nonincreasing|apply thread_step_nonincreasing]. Qed.
End WithProg.

(* ================= reachable-state invariant, progress, completion ================= *)
Section Progress.
Variable prog : inv -> list action.
Variable slots : nat.
Variable bf : bool.
Variable n : nat.                      (* number of invocations of the forest *)

(* well-formed forest: children have larger ids than their parent and are in range; a Wait only
   names children called earlier in the same body *)
Hypothesis calls_up : forall i pc c, nth_error (prog i) pc = Some (Call c) -> i < c < n.
Hypothesis waits_called : forall i pc cs c, nth_error (prog i) pc = Some (Wait cs) -> In c cs ->
  exists pc', pc' < pc /\ nth_error (prog i) pc' = Some (Call c).

Record RInv (s : rstate) : Prop := {
  r_len : length (ist s) = n;
  r_q : forall x, In x (queue s) <-> st_of s x = Registered;
  r_d : forall i pc d w, st_of s i = Running pc d w -> d = true -> w = true;
  r_c : forall i pc d w pc' c, st_of s i = Running pc d w -> pc' < pc ->
        nth_error (prog i) pc' = Some (Call c) -> st_of s c <> NotCreated }.

Notation STEP := (step prog slots true bf).
Notation TSTEP := (thread_step prog).

Lemma st_set : forall s i x j, i < length (ist s) ->
  st_of {| ist := set_nth i x (ist s); queue := queue s |} j = if Nat.eqb j i then x else st_of s j.
Proof.
  intros s i x j Hi. unfold st_of. cbn [ist]. destruct (Nat.eqb_spec j i) as [->|ne].
  - now apply nth_set_nth_same.
  - apply nth_set_nth_other. congruence.
Qed.

(* a point update to a value that is neither NotCreated nor Registered, of an invocation that was not Registered *)
Lemma RInv_upd : forall s i x, RInv s -> i < n ->
  st_of s i <> Registered -> x <> Registered -> x <> NotCreated ->
  (forall pc d w, x = Running pc d w ->
      (d = true -> w = true) /\
      (forall pc' c, pc' < pc -> nth_error (prog i) pc' = Some (Call c) -> st_of s c <> NotCreated /\ c <> i \/ (c = i))) ->
  RInv (upd s i x).
Proof.
  intros s i x [Hl Hq Hd Hc] Hi Hnr Hxr Hxn Hrun.
  assert (i < length (ist s)) as Hi' by lia.
  constructor.
  - unfold upd; cbn. now rewrite set_nth_length.
  - intros y. unfold upd at 1. cbn [queue]. rewrite (Hq y). unfold upd. rewrite (st_set s i x y Hi').
    destruct (Nat.eqb_spec y i) as [->|ne]; [|tauto]. split; intros H; congruence.
  - intros j pc d w Hj Hdt. unfold upd in Hj. rewrite (st_set s i x j Hi') in Hj.
    destruct (Nat.eqb_spec j i) as [->|ne].
    + destruct (Hrun pc d w Hj) as [H1 _]. auto.
    + eapply Hd; eassumption.
  - intros j pc d w pc' c Hj Hlt Hn. unfold upd in Hj |- *. rewrite (st_set s i x j Hi') in Hj. rewrite (st_set s i x c Hi').
    destruct (Nat.eqb_spec c i) as [->|nc]; [assumption|].
    destruct (Nat.eqb_spec j i) as [->|ne].
    + destruct (Hrun pc d w Hj) as [_ H2]. destruct (H2 pc' c Hlt Hn) as [[H3 _]|H3]; [assumption|congruence].
    + eapply Hc; eassumption.
Qed.

Lemma thread_step_inv : forall s i, RInv s -> RInv (TSTEP s i).
Proof.
  intros s i H. pose proof H as [Hl Hq Hd Hc]. unfold thread_step.
  destruct (st_of s i) as [| | |pc d w|] eqn:Es; try exact H.
  - (* Pending -> Running 0 *)
    assert (i < n) as Hi by (rewrite <- Hl; apply st_of_in_range; congruence).
    apply RInv_upd; try assumption; try congruence.
    intros pc d w Hx. inversion Hx; subst. split; [discriminate|]. intros pc' c Hlt. lia.
  - assert (i < n) as Hi by (rewrite <- Hl; apply st_of_in_range; congruence).
    destruct (nth_error (prog i) pc) as [[c|cs]|] eqn:En.
    + destruct (calls_up i pc c En) as [Hic Hcn].
      assert (forall pc0 d0 w0, Running (S pc) false w = Running pc0 d0 w0 ->
               (d0 = true -> w0 = true) /\
               (forall pc' c', pc' < pc0 -> nth_error (prog i) pc' = Some (Call c') ->
                  (st_of s c' <> NotCreated \/ c' = c) /\ c' <> i)) as Hgen.
      { intros pc0 d0 w0 Hx. inversion Hx; subst. split; [discriminate|]. intros pc' c' Hlt Hn'.
        split; [|destruct (calls_up i pc' c' Hn'); lia].
        destruct (Nat.eq_dec pc' pc) as [->|ne]; [right; congruence|left].
        eapply Hc; [exact Es| |exact Hn']. lia. }
      destruct (st_of s c) eqn:Ec.
      * (* the child is created and queued *)
        assert (c < length (ist s)) as Hc' by lia. assert (i < length (ist s)) as Hi' by lia.
        set (s1 := {| ist := set_nth c Registered (ist s); queue := queue s ++ [c] |}).
        assert (forall j, st_of s1 j = if Nat.eqb j c then Registered else st_of s j) as Hs1.
        { intros j. unfold s1, st_of. cbn [ist]. destruct (Nat.eqb_spec j c) as [->|ne];
            [now apply nth_set_nth_same|apply nth_set_nth_other; congruence]. }
        assert (i < length (ist s1)) as Hi1 by (unfold s1; cbn; now rewrite set_nth_length).
        assert (forall j, st_of {| ist := set_nth i (Running (S pc) false w) (set_nth c Registered (ist s)); queue := queue s ++ [c] |} j
                          = if Nat.eqb j i then Running (S pc) false w else if Nat.eqb j c then Registered else st_of s j) as Hst.
        { intros j. unfold st_of. cbn [ist]. destruct (Nat.eqb_spec j i) as [->|n1].
          - apply nth_set_nth_same. now rewrite set_nth_length.
          - rewrite nth_set_nth_other by congruence.
            destruct (Nat.eqb_spec j c) as [->|n2]; [now apply nth_set_nth_same|apply nth_set_nth_other; congruence]. }
        constructor.
        -- cbn. now rewrite !set_nth_length.
        -- intros y. cbn [queue]. rewrite in_app_iff, (Hq y), Hst. cbn.
           destruct (Nat.eqb_spec y i) as [->|n1].
           ++ split; [intros [Hx|[Hx|[]]]; [congruence|lia]|discriminate].
           ++ destruct (Nat.eqb_spec y c) as [->|n2]; [split; auto|]. split; [intros [Hx|[Hx|[]]]; [assumption|congruence]|auto].
        -- intros j pc0 d0 w0 Hj Hdt. rewrite Hst in Hj.
           destruct (Nat.eqb j i); [inversion Hj; subst; discriminate|]. destruct (Nat.eqb j c); [discriminate|].
           eapply Hd; eassumption.
        -- intros j pc0 d0 w0 pc' c' Hj Hlt Hn'. rewrite Hst in Hj. rewrite Hst.
           destruct (Nat.eqb_spec c' i) as [->|n1]; [discriminate|].
           destruct (Nat.eqb_spec c' c) as [->|n2]; [discriminate|].
           destruct (Nat.eqb_spec j i) as [->|n3].
           ++ destruct (Hgen pc0 d0 w0 Hj) as [_ Hg]. destruct (Hg pc' c' Hlt Hn') as [[Hx|Hx] _]; [assumption|congruence].
           ++ destruct (Nat.eqb j c); [discriminate|]. eapply Hc; eassumption.
      * apply RInv_upd; try assumption; try congruence.
        intros pcx dx wx Hx. destruct (Hgen pcx dx wx Hx) as [H1 H2]. split; [assumption|].
        intros pc' c' Hlt Hn'. destruct (H2 pc' c' Hlt Hn') as [[Hx1|Hx1] Hx2]; left; split; auto; congruence.
      * apply RInv_upd; try assumption; try congruence.
        intros pcx dx wx Hx. destruct (Hgen pcx dx wx Hx) as [H1 H2]. split; [assumption|].
        intros pc' c' Hlt Hn'. destruct (H2 pc' c' Hlt Hn') as [[Hx1|Hx1] Hx2]; left; split; auto; congruence.
      * apply RInv_upd; try assumption; try congruence.
        intros pcx dx wx Hx. destruct (Hgen pcx dx wx Hx) as [H1 H2]. split; [assumption|].
        intros pc' c' Hlt Hn'. destruct (H2 pc' c' Hlt Hn') as [[Hx1|Hx1] Hx2]; left; split; auto; congruence.
      * apply RInv_upd; try assumption; try congruence.
        intros pcx dx wx Hx. destruct (Hgen pcx dx wx Hx) as [H1 H2]. split; [assumption|].
        intros pc' c' Hlt Hn'. destruct (H2 pc' c' Hlt Hn') as [[Hx1|Hx1] Hx2]; left; split; auto; congruence.
    + destruct (all_final s cs).
      * apply RInv_upd; try assumption; try congruence.
        intros pc0 d0 w0 Hx. inversion Hx; subst. split; [discriminate|].
        intros pc' c' Hlt Hn'. left. split; [|destruct (calls_up i pc' c' Hn'); lia].
        destruct (Nat.eq_dec pc' pc) as [->|ne]; [congruence|]. eapply Hc; [exact Es| |exact Hn']. lia.
      * destruct d; [exact H|].
        apply RInv_upd; try assumption; try congruence.
        intros pc0 d0 w0 Hx. inversion Hx; subst. split; [reflexivity|].
        intros pc' c' Hlt Hn'. left. split; [|destruct (calls_up i pc' c' Hn'); lia].
        eapply Hc; [exact Es|exact Hlt|exact Hn'].
    + apply RInv_upd; try assumption; try congruence; try (intros pc0 d0 w0 Hx; discriminate).
Qed.

Lemma claim_list_inv : forall cands k s, RInv s -> RInv (fst (claim_list k cands s)).
Proof.
  induction cands as [|x cands IH]; intros k s H; destruct k; cbn; try exact H.
  destruct (st_of s x) eqn:Ex; try (apply (IH (S k) s H)).
  apply IH. pose proof H as [Hl Hq Hd Hc].
  assert (x < length (ist s)) as Hx by (apply st_of_in_range; congruence).
  constructor.
  - cbn. now rewrite set_nth_length.
  - intros y. cbn [queue]. rewrite filter_In, (Hq y).
    pose proof (st_set s x Pending y Hx) as Hs. unfold st_of in Hs |- *. cbn [ist] in Hs |- *. rewrite Hs.
    destruct (Nat.eqb y x) eqn:E; cbn.
    + split; [intros [_ Hf]; discriminate|discriminate].
    + split; [tauto|auto].
  - intros j pc d w Hj. pose proof (st_set s x Pending j Hx) as Hs. unfold st_of in Hs, Hj. cbn [ist] in Hs, Hj. rewrite Hs in Hj.
    destruct (Nat.eqb j x); [discriminate|]. eapply Hd. exact Hj.
  - intros j pc d w pc' c Hj Hlt Hn'. pose proof (st_set s x Pending j Hx) as Hs. pose proof (st_set s x Pending c Hx) as Hs2.
    unfold st_of in Hs, Hs2, Hj |- *. cbn [ist] in Hs, Hs2, Hj |- *. rewrite Hs in Hj. rewrite Hs2.
    destruct (Nat.eqb c x); [discriminate|]. destruct (Nat.eqb j x); [discriminate|]. eapply Hc; eassumption.
Qed.

Lemma step_inv : forall s a, RInv s -> RInv (STEP s a).
Proof. intros s [|i] H; cbn; [apply claim_list_inv; assumption|now apply thread_step_inv]. Qed.

Lemma run_inv : forall l s, RInv s -> RInv (run prog slots true bf s l).
Proof. induction l as [|a l IH]; intros s H; cbn; [exact H|]. apply IH. now apply step_inv. Qed.

(* ---------- progress ---------- *)
Definition active (s : rstate) (i : inv) : bool :=
  match st_of s i with NotCreated | Final => false | _ => true end.

Lemma max_true : forall (P : nat -> bool) k, (exists i, i < k /\ P i = true) ->
  exists m, m < k /\ P m = true /\ forall j, m < j -> j < k -> P j = false.
Proof.
  intros P k. induction k as [|k IH]; intros [i [Hi Hp]]; [lia|].
  destruct (P k) eqn:Ek.
  - exists k. repeat split; [lia|assumption|intros j H1 H2; lia].
  - assert (i < k) as Hik by (destruct (Nat.eq_dec i k) as [->|]; [congruence|lia]).
    destruct (IH (ex_intro _ i (conj Hik Hp))) as [m (Hm & Hpm & Hmax)].
    exists m. repeat split; [lia|assumption|].
    intros j H1 H2. destruct (Nat.eq_dec j k) as [->|]; [assumption|apply Hmax; lia].
Qed.

Lemma forallb_false_ex : forall (A : Type) (f : A -> bool) l, forallb f l = false -> exists x, In x l /\ f x = false.
Proof.
  intros A f l; induction l as [|a l IH]; cbn; intros H; [discriminate|].
  apply andb_false_iff in H. destruct H as [H|H]; [exists a; auto|].
  destruct (IH H) as [x [Hx Hf]]. exists x. auto.
Qed.

Lemma count_zero : forall p s, (forall i, i < length (ist s) -> p (st_of s i) = false) -> count p s = 0.
Proof.
  intros p s H. unfold count.
  assert (filter p (ist s) = []) as ->; [|reflexivity].
  assert (forall x, In x (ist s) -> p x = false) as Hx.
  { intros x Hin. destruct (In_nth _ _ NotCreated Hin) as [i [Hi Hn]]. rewrite <- Hn. now apply H. }
  revert Hx. generalize (ist s). induction l as [|a l IH]; intros Hx; cbn; [reflexivity|].
  rewrite (Hx a (or_introl eq_refl)). apply IH. intros x Hin. apply Hx. now right.
Qed.

Theorem progress : forall s, RInv s -> 1 <= slots -> (exists i, i < n /\ active s i = true) ->
  exists a, phi prog (STEP s a) < phi prog s.
Proof.
  intros s H Hs Hact. pose proof H as [Hl Hq Hd Hc].
  destruct (existsb (thread_productive prog s) (seq 0 n)) eqn:Ep.
  - apply existsb_exists in Ep. destruct Ep as [i [_ Hi]]. exists (SThread i). cbn.
    now apply thread_step_decreases.
  - assert (forall i, i < n -> thread_productive prog s i = false) as Hnp.
    { intros i Hi. destruct (thread_productive prog s i) eqn:E; [|reflexivity].
      assert (existsb (thread_productive prog s) (seq 0 n) = true) as Hx
        by (apply existsb_exists; exists i; split; [apply in_seq; lia|assumption]).
      congruence. }
    (* every thread is blocked in a declared wait: nobody occupies a slot *)
    assert (forall i, i < n -> match st_of s i with
                               | Pending => False
                               | Running pc d w => d = true /\ w = true /\ exists cs, nth_error (prog i) pc = Some (Wait cs) /\ all_final s cs = false
                               | _ => True end) as Hblocked.
    { intros i Hi. specialize (Hnp i Hi). unfold thread_productive in Hnp.
      destruct (st_of s i) as [| | |pc d w|] eqn:Es; auto; [discriminate|].
      destruct (nth_error (prog i) pc) as [[c|cs]|]; try discriminate.
      apply orb_false_iff in Hnp. destruct Hnp as [Ha Hd']. apply negb_false_iff in Hd'. subst d.
      repeat split; [eapply Hd; eauto|eauto]. }
    assert (free_slots slots true s = slots) as Hfree.
    { unfold free_slots. rewrite count_zero; [lia|].
      intros i Hi. rewrite Hl in Hi. specialize (Hblocked i Hi).
      destruct (st_of s i) as [| | |pc d w|]; cbn; try reflexivity; [contradiction|].
      destruct Hblocked as (_ & -> & _). reflexivity. }
    destruct (queue s) as [|x q] eqn:Eq.
    + (* nothing queued: contradiction by the maximal active invocation *)
      exfalso. destruct (max_true (active s) n Hact) as [m (Hm & Ham & Hmax)].
      specialize (Hblocked m Hm). unfold active in Ham.
      destruct (st_of s m) as [| | |pc d w|] eqn:Es; try discriminate.
      * assert (In m []) as Hin by (apply Hq; assumption). contradiction.
      * contradiction.
      * destruct Hblocked as (_ & _ & cs & Hn & Haf).
        destruct (forallb_false_ex _ _ _ Haf) as [c [Hcin Hcf]].
        destruct (waits_called m pc cs c Hn Hcin) as [pc' [Hlt Hcall]].
        destruct (calls_up m pc' c Hcall) as [Hmc Hcn].
        pose proof (Hc m pc d w pc' c Es Hlt Hcall) as Hcre.
        specialize (Hmax c Hmc Hcn). unfold active in Hmax.
        destruct (st_of s c); try discriminate; try contradiction; cbn in Hcf; discriminate.
    + exists SLoop. cbn. apply loop_iter_decreases.
      * rewrite Hfree. assumption.
      * exists x. split; [rewrite Eq; now left|]. apply Hq. now left.
Qed.

(* ---------- completion: from every reachable state the forest can be driven to completion, in at most
   phi steps; together with `step_nonincreasing` (no step ever increases phi) and `progress` (a
   decreasing step is always enabled) this is termination under any schedule that does not starve
   enabled productive steps for ever ---------- *)
Theorem completes : forall k s, phi prog s <= k -> RInv s -> 1 <= slots ->
  exists l, length l <= k /\ forall i, i < n -> active (run prog slots true bf s l) i = false.
Proof.
  induction k as [|k IH]; intros s Hk H Hs.
  - exists []. split; [cbn; lia|]. intros i Hi. cbn.
    destruct (active s i) eqn:Ea; [|reflexivity]. exfalso.
    destruct (progress s H Hs (ex_intro _ i (conj Hi Ea))) as [a Ha]. lia.
  - destruct (existsb (active s) (seq 0 n)) eqn:Ex.
    + apply existsb_exists in Ex. destruct Ex as [i [Hin Ha]]. apply in_seq in Hin.
      assert (i < n) as Hi by lia.
      destruct (progress s H Hs (ex_intro _ i (conj Hi Ha))) as [a Hdec].
      assert (phi prog (STEP s a) <= k) as Hk' by lia.
      destruct (IH (STEP s a) Hk' (step_inv s a H) Hs) as [l [Hlen Hfin]].
      exists (a :: l). split; [cbn; lia|]. intros j Hj. cbn. now apply Hfin.
    + exists []. split; [cbn; lia|]. intros i Hi. cbn.
      destruct (active s i) eqn:Ea; [|reflexivity].
      assert (existsb (active s) (seq 0 n) = true) as Hx
        by (apply existsb_exists; exists i; split; [apply in_seq; lia|assumption]).
      congruence.
Qed.

(* the initial state of a forest: every id below n not yet created except the roots, which are queued *)
Lemma RInv_init : forall roots, NoDup roots -> (forall r, In r roots -> r < n) ->
  RInv (init n roots).
Proof.
  intros roots Hnd Hr.
  assert (forall rs l, length l = n -> (forall r, In r rs -> r < n) ->
            length (fold_left (fun l r => set_nth r Registered l) rs l) = n /\
            forall x, nth x (fold_left (fun l r => set_nth r Registered l) rs l) NotCreated =
                      if existsb (Nat.eqb x) rs then Registered else nth x l NotCreated) as Hfold.
  { induction rs as [|r rs IH]; intros l Hl Hin; cbn; [split; [assumption|reflexivity]|].
    destruct (IH (set_nth r Registered l) ltac:(now rewrite set_nth_length) (fun y Hy => Hin y (or_intror Hy))) as [H1 H2].
    split; [assumption|]. intros x. rewrite H2.
    destruct (existsb (Nat.eqb x) rs); [now rewrite orb_true_r|]. rewrite orb_false_r.
    destruct (Nat.eqb_spec x r) as [->|ne].
    - apply nth_set_nth_same. rewrite Hl. apply Hin. now left.
    - apply nth_set_nth_other. congruence. }
  destruct (Hfold roots (repeat NotCreated n) (repeat_length _ _) Hr) as [H1 H2].
  assert (forall x, st_of (init n roots) x = if existsb (Nat.eqb x) roots then Registered else NotCreated) as Hst.
  { intros x. unfold st_of, init. cbn [ist]. rewrite H2. destruct (existsb (Nat.eqb x) roots); [reflexivity|].
    destruct (Nat.lt_ge_cases x n); [now rewrite nth_repeat|rewrite nth_overflow; [reflexivity|now rewrite repeat_length]]. }
  constructor.
  - exact H1.
  - intros x. cbn [queue init]. rewrite Hst. destruct (existsb (Nat.eqb x) roots) eqn:E.
    + apply existsb_exists in E. destruct E as [y [Hy He]]. apply Nat.eqb_eq in He. subst. tauto.
    + split; [|discriminate]. intros Hin. exfalso.
      assert (existsb (Nat.eqb x) roots = true) by (apply existsb_exists; exists x; split; [assumption|apply Nat.eqb_refl]).
      congruence.
  - intros i pc d w Hi. rewrite Hst in Hi. destruct (existsb (Nat.eqb i) roots); discriminate.
  - intros i pc d w pc' c Hi. rewrite Hst in Hi. destruct (existsb (Nat.eqb i) roots); discriminate.
Qed.
End Progress.

(* ---------- counting waiting threads against the slots deadlocks a single-slot runner ---------- *)
Definition prog_parent_child (i : inv) : list action := match i with 0 => [Call 1; Wait [1]] | _ => [] end.

Lemma no_slot_release_deadlocks :
  let s := run prog_parent_child 1 false true (init 2 [0])
             [SLoop; SThread 0; SThread 0; SThread 0; SLoop; SThread 0; SLoop] in
  st_of s 1 = Registered /\ st_of s 0 = Running 1 true true /\
  (* ... and no step changes anything any more *)
  (forall a, step prog_parent_child 1 false true s a = s).
Proof.
  cbn. split; [reflexivity|]. split; [reflexivity|].
  intros [|[|[|i]]]; try (vm_compute; reflexivity).
  unfold step, thread_step, st_of. cbn. destruct i; reflexivity.
Qed.

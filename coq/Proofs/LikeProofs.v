(* Proofs/LikeProofs.v — C17: what `name LIKE prefix || '%'` matches, exactly; when the LIKE-based
   purge can reach another application's table; and that the structural selection cannot. *)
From Coq Require Import List NArith Bool Lia Arith.
Import ListNotations.
From PV Require Import Model.SanitizeDef gen.Sanitize_gen Model.Sanitize Model.Like Proofs.SanitizeProofs.
Open Scope N_scope.

(* ------------------------------------------------------------------ LIKE 'p%' is the wildcard prefix match *)
Lemma like_percent_all : forall s, like [percent] s = true.
Proof.
  induction s as [|d s IH].
  - reflexivity.
  - cbn. cbn in IH. exact IH.
Qed.

Lemma like_prefix_wmatch : forall p s,
  forallb (fun c => negb (c =? percent)) p = true -> like (p ++ [percent]) s = wmatch p s.
Proof.
  induction p as [|c p IH]; intros s Hp.
  - cbn [app wmatch]. apply like_percent_all.
  - cbn [forallb] in Hp. apply andb_true_iff in Hp as [Hc Hp]. apply negb_true_iff in Hc.
    change ((c :: p) ++ [percent]) with (c :: (p ++ [percent])). cbn [like]. rewrite Hc.
    destruct (c =? underscore) eqn:U; destruct s as [|d s]; cbn [wmatch]; try reflexivity; rewrite U; cbn [orb].
    + apply IH, Hp.
    + rewrite IH by exact Hp. reflexivity.
Qed.

(* exact characterisation of the wildcard prefix match *)
Definition char_matches (c d : N) : Prop := c = underscore \/ fold_ascii c = fold_ascii d.

Lemma wmatch_spec : forall p s,
  wmatch p s = true <-> exists s1 s2, s = s1 ++ s2 /\ Forall2 char_matches p s1.
Proof.
  induction p as [|c p IH]; intro s.
  - cbn [wmatch]. split; [intros _; exists [], s; split; [reflexivity|constructor]|reflexivity].
  - destruct s as [|d s]; cbn [wmatch].
    + split; [discriminate|]. intros [s1 [s2 [E F]]]. inversion F; subst. discriminate.
    + rewrite andb_true_iff, IH. split.
      * intros [Hc [s1 [s2 [E F]]]]. exists (d :: s1), s2. subst. split; [reflexivity|].
        constructor; [|exact F]. apply orb_true_iff in Hc as [Hc|Hc]; apply N.eqb_eq in Hc; [left|right]; exact Hc.
      * intros [s1 [s2 [E F]]]. inversion F as [|c' d' p' s1' Hcd F']; subst. cbn [app] in E. injection E as E1 E2. subst.
        split; [|exists s1', s2; split; [reflexivity|exact F']].
        apply orb_true_iff. destruct Hcd as [Hcd|Hcd]; [left|right]; apply N.eqb_eq; exact Hcd.
Qed.

Lemma wmatch_app_len : forall p1 p2 s1 s2, length p1 = length s1 ->
  wmatch (p1 ++ p2) (s1 ++ s2) = wmatch p1 s1 && wmatch p2 s2.
Proof.
  induction p1 as [|c p1 IH]; destruct s1 as [|d s1]; intros s2 L; try discriminate L.
  - reflexivity.
  - cbn [app wmatch]. rewrite IH by (cbn in L; lia). rewrite andb_assoc. reflexivity.
Qed.

Lemma wmatch_refl_app : forall p x, wmatch p (p ++ x) = true.
Proof.
  induction p as [|c p IH]; intro x; [reflexivity|].
  cbn [app wmatch]. rewrite N.eqb_refl, orb_true_r, IH. reflexivity.
Qed.

Lemma fold_hex : forall c, lower_hex c = true -> fold_ascii c = c.
Proof.
  intros c Hc. apply lower_hex_cases in Hc. unfold fold_ascii.
  destruct ((65 <=? c) && (c <=? 90)) eqn:E; [|reflexivity].
  apply andb_true_iff in E as [E1 E2]. apply N.leb_le in E1. apply N.leb_le in E2. lia.
Qed.

(* two strings of lower-case hex digits of the same length: the wildcard match is equality *)
Lemma wmatch_hex_eq : forall p s, forallb lower_hex p = true -> forallb lower_hex s = true ->
  length p = length s -> wmatch p s = true -> p = s.
Proof.
  induction p as [|c p IH]; destruct s as [|d s]; intros Hp Hs L M; try discriminate L; [reflexivity|].
  cbn [forallb] in Hp, Hs. apply andb_true_iff in Hp as [Hc Hp]. apply andb_true_iff in Hs as [Hd Hs].
  cbn [wmatch] in M. apply andb_true_iff in M as [M1 M2].
  rewrite (hex_not_underscore c Hc) in M1. cbn [orb] in M1. apply N.eqb_eq in M1.
  rewrite (fold_hex c Hc), (fold_hex d Hd) in M1. subst d.
  rewrite (IH s Hp Hs) by (try assumption; cbn in L; lia). reflexivity.
Qed.

Lemma ident_not_percent : forall s, forallb ident_char s = true -> forallb (fun c => negb (c =? percent)) s = true.
Proof.
  intros s. apply forallb_impl. intros c Hc. apply negb_true_iff, N.eqb_neq. intro E. subst c.
  vm_compute in Hc. discriminate.
Qed.

Lemma has_dunder_app_false : forall a b,
  has_dunder a = false -> has_dunder b = false -> ends_underscore a = false -> has_dunder (a ++ b) = false.
Proof.
  induction a as [|c a IH]; intros b Ha Hb He.
  - exact Hb.
  - destruct a as [|d a].
    + cbn [app]. cbn [ends_underscore] in He. destruct b as [|e b]; [reflexivity|].
      change (has_dunder (c :: e :: b)) with (((c =? underscore) && (e =? underscore)) || has_dunder (e :: b)).
      rewrite He, Hb. reflexivity.
    + change (has_dunder (c :: d :: a)) with (((c =? underscore) && (d =? underscore)) || has_dunder (d :: a)) in Ha.
      apply orb_false_iff in Ha as [Ha1 Ha2].
      change (ends_underscore (c :: d :: a)) with (ends_underscore (d :: a)) in He.
      change (has_dunder ((c :: d :: a) ++ b)) with
        (((c =? underscore) && (d =? underscore)) || has_dunder ((d :: a) ++ b)).
      rewrite Ha1, (IH b Ha2 Hb He). reflexivity.
Qed.

Section WithDigest.
  Variable H : str -> str.
  Hypothesis H_hex : forall id, forallb lower_hex (H id) = true.
  Hypothesis H_len : forall id, length (H id) = 64%nat.

  Lemma table_prefix_ident : forall id c, In c components -> forallb ident_char (table_prefix H id c) = true.
  Proof.
    intros id c Hc. unfold table_prefix. pose proof (prefix_identifier H H_hex id) as P.
    rewrite sql_identifier_alt in P. apply andb_true_iff in P as [_ P]. rewrite !forallb_app, P. cbn [andb].
    assert (V : forallb ident_char gen_comp_sep && forallb (forallb ident_char) components = true) by (vm_compute; reflexivity).
    apply andb_true_iff in V as [V1 V2]. rewrite V1. cbn [andb]. rewrite forallb_forall in V2. exact (V2 c Hc).
  Qed.

  (* purge_pattern_matches: the LIKE pattern built by delete_tables_with_prefix selects exactly the
     names that start with the table prefix up to '_' wildcards and ASCII case *)
  Theorem like_purge_exact : forall id c name, In c components ->
    purge_selects PurgeLike (table_prefix H id c) name = true <->
    exists s1 s2, name = s1 ++ s2 /\ Forall2 char_matches (table_prefix H id c) s1.
  Proof.
    intros id c name Hc. cbn [purge_selects].
    rewrite like_prefix_wmatch by (apply ident_not_percent, table_prefix_ident, Hc). apply wmatch_spec.
  Qed.

  (* the application's own tables are selected (purge does purge) — both rules *)
  Lemma purge_selects_own : forall k id c t, In (c, t) vocab_pairs -> In c components ->
    purge_selects k (table_prefix H id c) (table_name H id c t) = true.
  Proof.
    intros k id c t Hin Hc.
    assert (L : like (table_prefix H id c ++ [percent]) (table_name H id c t) = true).
    { rewrite like_prefix_wmatch by (apply ident_not_percent, table_prefix_ident, Hc).
      unfold table_name. apply wmatch_refl_app. }
    destruct k; cbn [purge_selects]; rewrite L; [reflexivity|]. cbn [andb].
    assert (V : forallb (fun ct => starts_with_underscore (snd ct) && negb (has_dunder (snd ct))) vocab_pairs = true)
      by (vm_compute; reflexivity).
    rewrite forallb_forall in V. specialize (V _ Hin). cbn [snd] in V. apply andb_true_iff in V as [V1 V2].
    unfold owns_table, table_name. rewrite skipn_app_len, V2, andb_true_r.
    destruct t as [|u t]; [discriminate|]. cbn [starts_with_underscore] in V1. apply N.eqb_eq in V1. subst u.
    clear. induction (table_prefix H id c) as [|x p IH]; cbn [app starts_with].
    - rewrite N.eqb_refl. reflexivity.
    - rewrite N.eqb_refl. exact IH.
  Qed.

  (* ---------------------------------------------------------------- the LIKE rule, same-length ids *)
  Theorem like_purge_same_length : forall a b c cb tb,
    In c components -> In (cb, tb) vocab_pairs ->
    length (sanitize a) = length (sanitize b) ->
    purge_selects PurgeLike (table_prefix H a c) (table_name H b cb tb) = true ->
    hash_part H a = hash_part H b.
  Proof.
    intros a b c cb tb Hc Hin L M. cbn [purge_selects] in M.
    rewrite like_prefix_wmatch in M by (apply ident_not_percent, table_prefix_ident, Hc).
    unfold table_name, table_prefix, prefix in M. rewrite <- !app_assoc in M.
    rewrite wmatch_app_len in M by exact L. apply andb_true_iff in M as [_ M].
    rewrite wmatch_app_len in M by reflexivity. apply andb_true_iff in M as [_ M].
    rewrite wmatch_app_len in M by (rewrite !(hash_part_length H H_len); reflexivity).
    apply andb_true_iff in M as [M _].
    apply wmatch_hex_eq; try assumption; try apply (hash_part_hex H H_hex).
    rewrite !(hash_part_length H H_len). reflexivity.
  Qed.

  (* ---------------------------------------------------------------- the structural rule *)
  Definition components_ok : bool :=
    forallb (fun c => negb (has_dunder c) && negb (ends_underscore c) && negb (starts_with_underscore c)
                      && match c with [] => false | _ :: _ => true end) components.
  Lemma components_ok_true : components_ok = true.
  Proof. vm_compute. reflexivity. Qed.

  Theorem structural_purge_same_prefix : forall a b c cb tb,
    In c components -> In (cb, tb) vocab_pairs ->
    purge_selects PurgeStructural (table_prefix H a c) (table_name H b cb tb) = true ->
    prefix H a = prefix H b.
  Proof.
    intros a b c cb tb Hc Hin M. cbn [purge_selects] in M. apply andb_true_iff in M as [_ M].
    unfold owns_table in M. apply andb_true_iff in M as [M1 M2]. apply negb_true_iff in M2.
    apply starts_with_app in M1 as [r Hr]. rewrite Hr in M2. rewrite <- app_assoc in Hr, M2.
    rewrite skipn_app_len in M2. cbn [app] in Hr, M2.
    rewrite table_name_shape in Hr. unfold table_prefix in Hr. rewrite comp_sep_is in Hr.
    rewrite <- !app_assoc in Hr. cbn [app] in Hr.
    pose proof components_ok_true as K. unfold components_ok in K. rewrite forallb_forall in K.
    specialize (K c Hc). apply andb_true_iff in K as [K K4]. apply andb_true_iff in K as [K K3].
    apply andb_true_iff in K as [K1 K2].
    apply negb_true_iff in K1. apply negb_true_iff in K2. apply negb_true_iff in K3.
    destruct (vocab_shape _ _ Hin) as [D2 U2].
    assert (D1 : has_dunder (c ++ underscore :: r) = false) by (apply has_dunder_app_false; assumption).
    assert (U1 : starts_with_underscore (c ++ underscore :: r) = false).
    { destruct c as [|x c]; [discriminate K4|]. exact K3. }
    symmetry in Hr.
    destruct (dunder_split_unique _ _ _ _ D1 U1 D2 U2 Hr) as [Ep _]. exact Ep.
  Qed.
  (* ---------------------------------------------------------------- SQLite compares table names without ASCII case *)
  Lemma map_fold_fixed : forall s, forallb (fun c => fold_ascii c =? c) s = true -> map fold_ascii s = s.
  Proof.
    induction s as [|c s IH]; intro Hs; [reflexivity|]. cbn [forallb] in Hs. apply andb_true_iff in Hs as [Hc Hs].
    apply N.eqb_eq in Hc. cbn [map]. rewrite Hc, (IH Hs). reflexivity.
  Qed.

  Lemma map_fold_hex : forall s, forallb lower_hex s = true -> map fold_ascii s = s.
  Proof.
    intros s Hs. apply map_fold_fixed. revert Hs. apply forallb_impl. intros c Hc. apply N.eqb_eq, fold_hex, Hc.
  Qed.

  Definition vocab_lower_ok : bool :=
    forallb (fun c => fold_ascii c =? c) gen_hash_sep &&
    forallb (fun ct => forallb (fun c => fold_ascii c =? c) (fst ct ++ snd ct)) vocab_pairs.
  Lemma vocab_lower_ok_true : vocab_lower_ok = true.
  Proof. vm_compute. reflexivity. Qed.

  Theorem table_name_inj_nocase : forall a b ca ta cb tb,
    In (ca, ta) vocab_pairs -> In (cb, tb) vocab_pairs ->
    map fold_ascii (table_name H a ca ta) = map fold_ascii (table_name H b cb tb) ->
    map fold_ascii (sanitize a) = map fold_ascii (sanitize b) /\ hash_part H a = hash_part H b /\ ca = cb /\ ta = tb.
  Proof.
    intros a b ca ta cb tb Ha Hb E. rewrite !table_name_shape in E. rewrite !map_app in E.
    pose proof vocab_lower_ok_true as V. unfold vocab_lower_ok in V. apply andb_true_iff in V as [Vs V].
    rewrite forallb_forall in V. pose proof (V _ Ha) as Va. pose proof (V _ Hb) as Vb. cbn [fst snd] in Va, Vb.
    cbn [map] in E. change (fold_ascii underscore) with underscore in E.
    rewrite (map_fold_fixed _ Va), (map_fold_fixed _ Vb) in E.
    destruct (vocab_shape _ _ Ha) as [D1 U1]. destruct (vocab_shape _ _ Hb) as [D2 U2].
    destruct (dunder_split_unique _ _ _ _ D1 U1 D2 U2 E) as [Ep Er].
    destruct (vocab_distinct _ _ _ _ Ha Hb Er) as [Ec Et].
    unfold prefix in Ep. rewrite !map_app in Ep.
    rewrite !(map_fold_hex _ (hash_part_hex H H_hex _)), (map_fold_fixed _ Vs) in Ep.
    rewrite !app_assoc in Ep. apply app_eq_len_tail in Ep; [|rewrite !(hash_part_length H H_len); reflexivity].
    destruct Ep as [E1 E2]. apply app_inv_tail in E1. repeat split; assumption.
  Qed.
End WithDigest.

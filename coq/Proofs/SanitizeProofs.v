(* Proofs/SanitizeProofs.v — C17: the table prefix is an SQL identifier for every id string; the
   table naming scheme parses uniquely from the right (injectivity). *)
From Coq Require Import List NArith Bool Lia Arith.
Import ListNotations.
From PV Require Import Model.SanitizeDef gen.Sanitize_gen Model.Sanitize.
Open Scope N_scope.

(* ------------------------------------------------------------------ strings *)
Lemma str_eqb_eq : forall a b, str_eqb a b = true <-> a = b.
Proof.
  induction a as [|x a IH]; destruct b as [|y b]; cbn [str_eqb]; split; intro E; try reflexivity; try discriminate.
  - apply andb_true_iff in E as [E1 E2]. apply N.eqb_eq in E1. apply IH in E2. subst. reflexivity.
  - injection E as E1 E2. subst. rewrite N.eqb_refl. cbn [andb]. apply IH. reflexivity.
Qed.

Lemma str_eqb_neq : forall a b, a <> b -> str_eqb a b = false.
Proof.
  intros a b Hne. destruct (str_eqb a b) eqn:E; [|reflexivity].
  apply str_eqb_eq in E. contradiction.
Qed.

Lemma app_eq_len_tail : forall (a1 a2 b1 b2 : str),
  length b1 = length b2 -> a1 ++ b1 = a2 ++ b2 -> a1 = a2 /\ b1 = b2.
Proof.
  induction a1 as [|x a1 IH]; destruct a2 as [|y a2]; cbn [app]; intros b1 b2 L E.
  - split; [reflexivity|exact E].
  - exfalso. rewrite E in L. cbn [length] in L. rewrite app_length in L. lia.
  - exfalso. rewrite <- E in L. cbn [length] in L. rewrite app_length in L. lia.
  - injection E as E1 E2. destruct (IH a2 b1 b2 L E2) as [Ha Hb]. subst. split; reflexivity.
Qed.

Lemma starts_with_app : forall p s, starts_with p s = true -> exists r, s = p ++ r.
Proof.
  induction p as [|x p IH]; intros s Hs.
  - exists s. reflexivity.
  - destruct s as [|y s]; [discriminate|]. cbn [starts_with] in Hs.
    apply andb_true_iff in Hs as [E1 E2]. apply N.eqb_eq in E1. subst.
    destruct (IH s E2) as [r Hr]. exists r. subst. reflexivity.
Qed.

Lemma skipn_app_len : forall (p r : str), skipn (length p) (p ++ r) = r.
Proof. induction p as [|x p IH]; intro r; cbn; [reflexivity|apply IH]. Qed.

(* ------------------------------------------------------------------ ranges *)
Lemma in_range_spec : forall c r, in_range c r = true <-> fst r <= c <= snd r.
Proof. intros c r. unfold in_range. rewrite andb_true_iff, !N.leb_le. tauto. Qed.

Definition range_within (rs : list (N * N)) (r : N * N) : bool :=
  existsb (fun q => (fst q <=? fst r) && (snd r <=? snd q)) rs.

Lemma ranges_sub : forall rs1 rs2 c,
  forallb (range_within rs2) rs1 = true -> in_ranges rs1 c = true -> in_ranges rs2 c = true.
Proof.
  intros rs1 rs2 c Hall Hc. unfold in_ranges in *. apply existsb_exists in Hc as [r [Hr Hin]].
  rewrite forallb_forall in Hall. specialize (Hall r Hr). unfold range_within in Hall.
  apply existsb_exists in Hall as [q [Hq Hb]]. apply existsb_exists. exists q. split; [exact Hq|].
  apply andb_true_iff in Hb as [H1 H2]. apply N.leb_le in H1. apply N.leb_le in H2.
  apply in_range_spec in Hin. apply in_range_spec. lia.
Qed.

(* the class kept by the regex generated from the source is inside [A-Za-z0-9_] *)
Lemma keep_ident : forall c, in_ranges gen_keep c = true -> ident_char c = true.
Proof. intro c. apply ranges_sub. vm_compute. reflexivity. Qed.

Lemma hex_ident : forall c, lower_hex c = true -> ident_char c = true.
Proof. intro c. apply ranges_sub. vm_compute. reflexivity. Qed.

Lemma lower_hex_cases : forall c, lower_hex c = true -> (48 <= c <= 57) \/ (97 <= c <= 102).
Proof.
  intros c Hc. unfold lower_hex, in_ranges, hex_ranges in Hc. cbn [existsb] in Hc.
  rewrite orb_false_r in Hc. apply orb_true_iff in Hc as [Hc|Hc]; apply in_range_spec in Hc; cbn [fst snd] in Hc; lia.
Qed.

Lemma hex_not_underscore : forall c, lower_hex c = true -> (c =? underscore) = false.
Proof. intros c Hc. apply lower_hex_cases in Hc. apply N.eqb_neq. unfold underscore. lia. Qed.

Lemma hex_not_digit_or : forall c, lower_hex c = true -> c <> underscore /\ c <> percent.
Proof. intros c Hc. apply lower_hex_cases in Hc. unfold underscore, percent. lia. Qed.

Lemma forallb_firstn : forall (f : N -> bool) n l, forallb f l = true -> forallb f (firstn n l) = true.
Proof.
  intros f n. induction n as [|n IH]; intros l Hl; [reflexivity|].
  destruct l as [|x l]; [reflexivity|]. cbn [firstn forallb] in *.
  apply andb_true_iff in Hl as [H1 H2]. rewrite H1, (IH l H2). reflexivity.
Qed.

Lemma forallb_impl : forall (f g : N -> bool) l,
  (forall c, f c = true -> g c = true) -> forallb f l = true -> forallb g l = true.
Proof.
  intros f g l Himp Hl. rewrite forallb_forall in *. intros x Hx. apply Himp, Hl, Hx.
Qed.

(* ------------------------------------------------------------------ the sanitiser yields identifiers *)
Lemma sql_identifier_alt : forall s, sql_identifier s = head_ok s && forallb ident_char s.
Proof. destruct s; reflexivity. Qed.

Lemma repl_ident : forallb ident_char gen_repl = true.
Proof. vm_compute. reflexivity. Qed.

Lemma sub_chars_ident : forall s, forallb ident_char (sub_chars s) = true.
Proof.
  induction s as [|c s IH]; [reflexivity|].
  unfold sub_chars in *. cbn [flat_map]. rewrite forallb_app, IH, andb_true_r.
  destruct (in_ranges gen_keep c) eqn:E.
  - cbn [forallb]. rewrite (keep_ident c E). reflexivity.
  - exact repl_ident.
Qed.

(* the digit rule is present and its prefix is a non-digit identifier text *)
Definition digit_rule_ok : bool :=
  gen_digit_guard && head_ok gen_digit_prefix && forallb ident_char gen_digit_prefix.
Lemma digit_rule_ok_true : digit_rule_ok = true.
Proof. vm_compute. reflexivity. Qed.

Lemma head_ok_app : forall a b, head_ok a = true -> head_ok (a ++ b) = true.
Proof. destruct a; [discriminate|]. intros b Hh. exact Hh. Qed.

Lemma guard_digit_ident : forall t, forallb ident_char t = true -> forallb ident_char (guard_digit t) = true.
Proof.
  intros t Ht. unfold guard_digit. destruct (needs_guard t); [|exact Ht].
  rewrite forallb_app, Ht, andb_true_r.
  pose proof digit_rule_ok_true as D. unfold digit_rule_ok in D.
  apply andb_true_iff in D as [_ D]. exact D.
Qed.

Lemma guard_digit_head : forall t, t <> [] -> head_ok (guard_digit t) = true.
Proof.
  intros t Hne. unfold guard_digit.
  pose proof digit_rule_ok_true as D. unfold digit_rule_ok in D.
  apply andb_true_iff in D as [D _]. apply andb_true_iff in D as [G P].
  destruct (needs_guard t) eqn:E.
  - apply head_ok_app. exact P.
  - destruct t as [|c t]; [congruence|]. cbn [needs_guard] in E. rewrite G in E. cbn [andb] in E.
    apply orb_false_iff in E as [E _]. cbn [head_ok]. rewrite E. reflexivity.
Qed.

Lemma guard_digit_nil : forall t, guard_digit t = [] -> t = [].
Proof.
  intros t Hg. unfold guard_digit in Hg. destruct (needs_guard t) eqn:E; [|exact Hg].
  destruct t as [|c t]; [reflexivity|]. destruct gen_digit_prefix; discriminate.
Qed.

(* the default text: an identifier; when it is empty the separator before the hash must start the name *)
Definition default_ok : bool :=
  forallb ident_char gen_default && forallb ident_char gen_hash_sep &&
  match gen_default with [] => head_ok gen_hash_sep | _ :: _ => head_ok gen_default end.
Lemma default_ok_true : default_ok = true.
Proof. vm_compute. reflexivity. Qed.

Lemma sanitize_ident : forall id, forallb ident_char (sanitize id) = true.
Proof.
  intro id. unfold sanitize, or_default.
  destruct (guard_digit (sub_chars id)) eqn:E.
  - pose proof default_ok_true as D. unfold default_ok in D.
    apply andb_true_iff in D as [D _]. apply andb_true_iff in D as [D _]. exact D.
  - rewrite <- E. apply guard_digit_ident, sub_chars_ident.
Qed.

Lemma sanitize_head : forall id rest, head_ok (sanitize id ++ gen_hash_sep ++ rest) = true.
Proof.
  intros id rest. unfold sanitize, or_default.
  pose proof default_ok_true as D. unfold default_ok in D. apply andb_true_iff in D as [_ D].
  destruct (guard_digit (sub_chars id)) eqn:E.
  - destruct gen_default as [|d ds].
    + cbn [app]. apply head_ok_app. exact D.
    + apply head_ok_app. exact D.
  - rewrite <- E. apply head_ok_app, guard_digit_head. intro Hn. rewrite Hn in E.
    cbn in E. discriminate.
Qed.

(* ------------------------------------------------------------------ names reserved by SQLite ("sqlite_...") *)
Lemma nocase_ext_all : forall (u x : N) p t r,
  forallb (fun c => negb (fold_ascii c =? fold_ascii u)) p = true ->
  starts_with_nocase p t = false -> starts_with_nocase (p ++ [x]) (t ++ u :: r) = false.
Proof.
  intros u x. induction p as [|c p IH]; intros t r Hall Hs.
  - destruct t; discriminate Hs.
  - cbn [forallb] in Hall. apply andb_true_iff in Hall as [Hc Hall]. apply negb_true_iff in Hc.
    destruct t as [|d t]; cbn [app starts_with_nocase].
    + rewrite Hc. reflexivity.
    + cbn [starts_with_nocase] in Hs. destruct (fold_ascii c =? fold_ascii d); [|reflexivity].
      cbn [andb] in *. apply IH; assumption.
Qed.

Lemma nocase_ext : forall (u x : N) c p t r, t <> [] ->
  forallb (fun c => negb (fold_ascii c =? fold_ascii u)) p = true ->
  starts_with_nocase (c :: p) t = false -> starts_with_nocase ((c :: p) ++ [x]) (t ++ u :: r) = false.
Proof.
  intros u x c p t r Hne Hall Hs. destruct t as [|d t]; [congruence|].
  cbn [app starts_with_nocase] in *. destruct (fold_ascii c =? fold_ascii d); [|reflexivity].
  cbn [andb] in *. apply nocase_ext_all; assumption.
Qed.

Lemma nocase_head : forall c p y s, (fold_ascii c =? fold_ascii y) = false -> starts_with_nocase (c :: p) (y :: s) = false.
Proof. intros c p y s E. cbn [starts_with_nocase]. rewrite E. reflexivity. Qed.

(* the proposed repair is in the tree: the guard fires on sanitised texts that begin with "sqlite" *)
Definition reserved_rule_present : bool := gen_reserved_guard && str_eqb gen_reserved_word sqlite_word.

(* heads of the texts a prefix can start with never fold to 's' *)
Definition heads_not_s : bool :=
  match gen_digit_prefix with c :: _ => negb (fold_ascii 115 =? fold_ascii c) | [] => false end &&
  match gen_default ++ gen_hash_sep with c :: _ => negb (fold_ascii 115 =? fold_ascii c) | [] => false end &&
  str_eqb gen_hash_sep [underscore].
Lemma heads_not_s_true : heads_not_s = true.
Proof. vm_compute. reflexivity. Qed.

Lemma sanitize_not_reserved : forall id rest, reserved_rule_present = true ->
  reserved_name (sanitize id ++ gen_hash_sep ++ rest) = false.
Proof.
  intros id rest R. unfold reserved_rule_present in R. apply andb_true_iff in R as [G W]. apply str_eqb_eq in W.
  pose proof heads_not_s_true as Hh. unfold heads_not_s in Hh. apply andb_true_iff in Hh as [Hh Hsep].
  apply andb_true_iff in Hh as [Hp Hd]. apply str_eqb_eq in Hsep.
  unfold reserved_name, sanitize, or_default.
  destruct (guard_digit (sub_chars id)) eqn:E.
  - rewrite app_assoc. destruct (gen_default ++ gen_hash_sep) as [|c l]; [discriminate Hd|].
    apply negb_true_iff in Hd. cbn [app]. apply nocase_head. exact Hd.
  - assert (Hne : sub_chars id <> []) by (intro Z; rewrite Z in E; cbn in E; discriminate E).
    rewrite <- E. clear E. unfold guard_digit. destruct (needs_guard (sub_chars id)) eqn:N.
    + destruct gen_digit_prefix as [|c l]; [discriminate Hp|]. apply negb_true_iff in Hp.
      cbn [app]. apply nocase_head. exact Hp.
    + destruct (sub_chars id) as [|c t] eqn:S; [congruence|].
      cbn [needs_guard] in N. apply orb_false_iff in N as [_ N]. rewrite G, W in N. cbn [andb] in N.
      rewrite Hsep. cbn [app]. unfold sqlite_reserved, sqlite_word in *.
      apply (nocase_ext underscore underscore 115 [113; 108; 105; 116; 101] (c :: t) rest); [discriminate| |exact N].
      vm_compute. reflexivity.
Qed.

Section WithDigest.
  Variable H : str -> str.
  (* the only facts used about the digest: 64 lower-case hex digits *)
  Hypothesis H_hex : forall id, forallb lower_hex (H id) = true.
  Hypothesis H_len : forall id, length (H id) = 64%nat.

  Definition hash_len_ok : bool := (8 <=? gen_hash_len)%nat && (gen_hash_len <=? 64)%nat.
  Lemma hash_len_ok_true : hash_len_ok = true.
  Proof. vm_compute. reflexivity. Qed.

  Lemma hash_part_length : forall id, length (hash_part H id) = gen_hash_len.
  Proof.
    intro id. unfold hash_part. apply firstn_length_le. rewrite H_len.
    pose proof hash_len_ok_true as K. unfold hash_len_ok in K. apply andb_true_iff in K as [_ K].
    apply Nat.leb_le in K. exact K.
  Qed.

  Lemma hash_part_at_least_8 : forall id, (8 <= length (hash_part H id))%nat.
  Proof.
    intro id. rewrite hash_part_length.
    pose proof hash_len_ok_true as K. unfold hash_len_ok in K. apply andb_true_iff in K as [K _].
    apply Nat.leb_le in K. exact K.
  Qed.

  Lemma hash_part_hex : forall id, forallb lower_hex (hash_part H id) = true.
  Proof. intro id. unfold hash_part. apply forallb_firstn, H_hex. Qed.

  Lemma prefix_identifier : forall id, sql_identifier (prefix H id) = true.
  Proof.
    intro id. rewrite sql_identifier_alt. unfold prefix. rewrite sanitize_head. cbn [andb].
    rewrite !forallb_app, sanitize_ident. cbn [andb].
    pose proof default_ok_true as D. unfold default_ok in D.
    apply andb_true_iff in D as [D _]. apply andb_true_iff in D as [_ D]. rewrite D. cbn [andb].
    apply (forallb_impl lower_hex ident_char); [exact hex_ident|apply hash_part_hex].
  Qed.

  (* the vocabulary of component labels and table suffixes is made of identifier characters *)
  Definition vocab_ident_ok : bool :=
    forallb ident_char gen_comp_sep &&
    forallb (fun ct => forallb ident_char (fst ct) && forallb ident_char (snd ct)) vocab_pairs.
  Lemma vocab_ident_ok_true : vocab_ident_ok = true.
  Proof. vm_compute. reflexivity. Qed.

  Lemma table_name_identifier : forall id c t,
    In (c, t) vocab_pairs -> sql_identifier (table_name H id c t) = true.
  Proof.
    intros id c t Hin. pose proof (prefix_identifier id) as P.
    rewrite sql_identifier_alt in *. apply andb_true_iff in P as [P1 P2].
    unfold table_name, table_prefix. rewrite <- !app_assoc.
    rewrite (head_ok_app _ _ P1). cbn [andb]. rewrite !forallb_app, P2. cbn [andb].
    pose proof vocab_ident_ok_true as V. unfold vocab_ident_ok in V. apply andb_true_iff in V as [V1 V2].
    rewrite V1. cbn [andb]. rewrite forallb_forall in V2. specialize (V2 (c, t) Hin). exact V2.
  Qed.

  Lemma table_name_not_reserved : reserved_rule_present = true ->
    forall id c t, reserved_name (table_name H id c t) = false.
  Proof.
    intros R id c t. unfold table_name, table_prefix, prefix. rewrite <- !app_assoc. apply sanitize_not_reserved, R.
  Qed.

  (* ---------------------------------------------------------------- injectivity *)
  Lemma prefix_inj : forall a b, prefix H a = prefix H b ->
    sanitize a = sanitize b /\ hash_part H a = hash_part H b.
  Proof.
    intros a b E. unfold prefix in E. rewrite !app_assoc in E.
    apply app_eq_len_tail in E; [|rewrite !hash_part_length; reflexivity].
    destruct E as [E1 E2]. apply app_inv_tail in E1. split; assumption.
  Qed.

  Lemma has_dunder_mid : forall p r, has_dunder (p ++ underscore :: underscore :: r) = true.
  Proof.
    induction p as [|a p IH]; intro r.
    - reflexivity.
    - specialize (IH r). destruct p as [|b p].
      + cbn [app] in *. cbn [has_dunder]. cbn [has_dunder] in IH. rewrite IH. apply orb_true_r.
      + cbn [app] in *. change (has_dunder (a :: b :: p ++ underscore :: underscore :: r))
          with (((a =? underscore) && (b =? underscore)) || has_dunder (b :: p ++ underscore :: underscore :: r)).
        rewrite IH. apply orb_true_r.
  Qed.

  (* "parsing from the right": a text  p ++ "__" ++ r  whose r has no "__" and does not start with "_"
     determines p and r *)
  Lemma dunder_split_unique : forall p1 p2 r1 r2,
    has_dunder r1 = false -> starts_with_underscore r1 = false ->
    has_dunder r2 = false -> starts_with_underscore r2 = false ->
    p1 ++ underscore :: underscore :: r1 = p2 ++ underscore :: underscore :: r2 -> p1 = p2 /\ r1 = r2.
  Proof.
    induction p1 as [|x p1 IH]; destruct p2 as [|y p2]; intros r1 r2 D1 U1 D2 U2 E; cbn [app] in E.
    - injection E as E. split; [reflexivity|exact E].
    - exfalso. injection E as E1 E2. destruct p2 as [|z p2]; cbn [app] in E2.
      + injection E2 as E2. subst r1. cbn in U1. discriminate.
      + injection E2 as E2 E3. subst r1. rewrite has_dunder_mid in D1. discriminate.
    - exfalso. injection E as E1 E2. destruct p1 as [|z p1]; cbn [app] in E2.
      + injection E2 as E2. subst r2. cbn in U2. discriminate.
      + injection E2 as E2 E3. subst r2. rewrite has_dunder_mid in D2. discriminate.
    - injection E as E1 E2. destruct (IH p2 r1 r2 D1 U1 D2 U2 E2) as [Hp Hr]. subst. split; reflexivity.
  Qed.

  Lemma comp_sep_is : gen_comp_sep = [underscore; underscore].
  Proof. reflexivity. Qed.

  (* no "__" inside component ++ suffix, which does not start with "_" *)
  Definition vocab_shape_ok : bool :=
    forallb (fun ct => negb (has_dunder (fst ct ++ snd ct)) && negb (starts_with_underscore (fst ct ++ snd ct)))
            vocab_pairs.
  Lemma vocab_shape_ok_true : vocab_shape_ok = true.
  Proof. vm_compute. reflexivity. Qed.

  Lemma vocab_shape : forall c t, In (c, t) vocab_pairs ->
    has_dunder (c ++ t) = false /\ starts_with_underscore (c ++ t) = false.
  Proof.
    intros c t Hin. pose proof vocab_shape_ok_true as V. unfold vocab_shape_ok in V.
    rewrite forallb_forall in V. specialize (V (c, t) Hin). cbn [fst snd] in V.
    apply andb_true_iff in V as [V1 V2]. apply negb_true_iff in V1. apply negb_true_iff in V2. split; assumption.
  Qed.

  Definition pair_eqb (p q : str * str) : bool := str_eqb (fst p) (fst q) && str_eqb (snd p) (snd q).

  Definition vocab_distinct_ok : bool :=
    forallb (fun p => forallb (fun q => implb (str_eqb (fst p ++ snd p) (fst q ++ snd q)) (pair_eqb p q))
                              vocab_pairs) vocab_pairs.
  Lemma vocab_distinct_ok_true : vocab_distinct_ok = true.
  Proof. vm_compute. reflexivity. Qed.

  Lemma vocab_distinct : forall c1 t1 c2 t2, In (c1, t1) vocab_pairs -> In (c2, t2) vocab_pairs ->
    c1 ++ t1 = c2 ++ t2 -> c1 = c2 /\ t1 = t2.
  Proof.
    intros c1 t1 c2 t2 H1 H2 E. pose proof vocab_distinct_ok_true as V. unfold vocab_distinct_ok in V.
    rewrite forallb_forall in V. specialize (V _ H1). rewrite forallb_forall in V. specialize (V _ H2).
    cbn [fst snd] in V. apply (proj2 (str_eqb_eq _ _)) in E. rewrite E in V. cbn [implb] in V.
    unfold pair_eqb in V. cbn [fst snd] in V. apply andb_true_iff in V as [V1 V2].
    apply str_eqb_eq in V1. apply str_eqb_eq in V2. split; assumption.
  Qed.

  Lemma table_name_shape : forall id c t,
    table_name H id c t = prefix H id ++ underscore :: underscore :: (c ++ t).
  Proof.
    intros id c t. unfold table_name, table_prefix. rewrite comp_sep_is.
    rewrite <- !app_assoc. reflexivity.
  Qed.

  Theorem table_name_inj : forall a b ca ta cb tb,
    In (ca, ta) vocab_pairs -> In (cb, tb) vocab_pairs ->
    table_name H a ca ta = table_name H b cb tb ->
    sanitize a = sanitize b /\ hash_part H a = hash_part H b /\ ca = cb /\ ta = tb.
  Proof.
    intros a b ca ta cb tb Ha Hb E. rewrite !table_name_shape in E.
    destruct (vocab_shape _ _ Ha) as [D1 U1]. destruct (vocab_shape _ _ Hb) as [D2 U2].
    destruct (dunder_split_unique _ _ _ _ D1 U1 D2 U2 E) as [Ep Er].
    destruct (prefix_inj _ _ Ep) as [Es Eh]. destruct (vocab_distinct _ _ _ _ Ha Hb Er) as [Ec Et].
    repeat split; assumption.
  Qed.

  (* different prefixes  =>  the two table sets are disjoint *)
  Lemma tables_disjoint : forall a b n,
    prefix H a <> prefix H b -> In n (all_tables H a) -> In n (all_tables H b) -> False.
  Proof.
    intros a b n Hne Ia Ib. unfold all_tables in *.
    apply in_map_iff in Ia as [[ca ta] [Ea Ia]]. apply in_map_iff in Ib as [[cb tb] [Eb Ib]].
    cbn [fst snd] in *. subst n. symmetry in Eb. rewrite !table_name_shape in Eb.
    destruct (vocab_shape _ _ Ia) as [D1 U1]. destruct (vocab_shape _ _ Ib) as [D2 U2].
    destruct (dunder_split_unique _ _ _ _ D1 U1 D2 U2 Eb) as [Ep _]. exact (Hne Ep).
  Qed.

  (* the converse: equal sanitised text and equal hash digits  =>  every table is shared *)
  Lemma equal_parts_share_tables : forall a b,
    sanitize a = sanitize b -> hash_part H a = hash_part H b -> all_tables H a = all_tables H b.
  Proof.
    intros a b Es Eh. unfold all_tables. apply map_ext. intro ct.
    unfold table_name, table_prefix, prefix. rewrite Es, Eh. reflexivity.
  Qed.
End WithDigest.

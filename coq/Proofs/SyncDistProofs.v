(* Proofs/SyncDistProofs.v — lemmas of C19 (Model/SyncDist.v over gen/SyncDist_gen.v). *)
From Coq Require Import List Bool Arith Lia.
Import ListNotations.
From PV Require Import gen.SyncDist_gen Model.SyncDist.

(* ---------- the generated facts are the documented ones ---------- *)
Lemma gen_sync_test : forall n m, gen_sync_exhausted n m = Nat.leb m n.
Proof. intros n m. reflexivity. Qed.

Lemma gen_dist_test : forall n m, gen_dist_exhausted n m = Nat.leb m n.
Proof. intros n m. reflexivity. Qed.

Lemma gen_sync_incr_one : gen_sync_incr = 1.
Proof. reflexivity. Qed.

Lemma gen_dist_incr_one : gen_dist_incr = 1.
Proof. reflexivity. Qed.

Lemma gen_dist_requeues_true : gen_dist_requeues = true.
Proof. reflexivity. Qed.

Lemma gen_direct_result : gen_direct_returns_result = true.
Proof. reflexivity. Qed.

Lemma gen_direct_aggregates : gen_direct_par_aggregates = true.
Proof. reflexivity. Qed.

Lemma gen_default_max_zero : gen_default_max_retries = 0.
Proof. reflexivity. Qed.

(* RetryError (kind 0) is retriable whatever retry_for says; another kind exactly when listed *)
Lemma gen_retriable_retryerror : forall rf, gen_retriable rf 0 = true.
Proof.
  intros rf. unfold gen_retriable. destruct rf as [|a rf']; [reflexivity|].
  destruct (existsb (Nat.eqb 0) (a :: rf')); reflexivity.
Qed.

Lemma gen_retriable_other : forall rf k, k <> 0 ->
  gen_retriable rf k = existsb (Nat.eqb k) rf.
Proof.
  intros rf k Hk. unfold gen_retriable.
  assert (Hz : Nat.eqb k 0 = false) by (apply Nat.eqb_neq; exact Hk).
  destruct rf as [|a rf']; [cbn; exact Hz|].
  destruct (existsb (Nat.eqb 0) (a :: rf')); [reflexivity|].
  rewrite Hz, orb_false_r. reflexivity.
Qed.

(* both retry loops are the same function of the body *)
Lemma loop_params_agree : forall h c f k r,
  loop gen_dist_exhausted gen_dist_incr gen_dist_requeues h c f k r
  = loop gen_sync_exhausted gen_sync_incr true h c f k r.
Proof. intros h c f k r. reflexivity. Qed.

(* ---------- the retry loop ---------- *)
Definition std_loop := loop (fun n m => Nat.leb m n) 1 true.

Definition retr_at (h : header) (c : outcome * list nat) (j : nat) : bool :=
  match fst (attempt h c j) with Exc e => retriable h e | _ => false end.

Lemma std_loop_spec : forall h c d k0 fuel,
  (forall j, k0 < j -> j < k0 + d + 1 -> retr_at h c j = true) ->
  k0 + d <= maxr h ->
  (retr_at h c (k0 + d + 1) = false \/ k0 + d = maxr h) ->
  d < fuel ->
  out (std_loop h c fuel k0 k0) = fst (attempt h c (k0 + d + 1)) /\
  retries (std_loop h c fuel k0 k0) = k0 + d /\
  execs (std_loop h c fuel k0 k0) = k0 + d + 1.
Proof.
  intros h c d. induction d as [|d IH]; intros k0 fuel Hretr Hmax Hstop Hfuel.
  - destruct fuel as [|f]; [lia|].
    replace (k0 + 0 + 1) with (S k0) in * by lia.
    replace (k0 + 0) with k0 in * by lia.
    unfold std_loop. cbn [loop].
    unfold retr_at in Hstop.
    destruct (fst (attempt h c (S k0))) as [v|e|] eqn:Ea; cbn [out retries execs]; try (repeat split; reflexivity).
    destruct (retriable h e) eqn:Er; cbn [out retries execs]; [|repeat split; reflexivity].
    destruct Hstop as [Hs|Hs]; [discriminate|].
    assert (Hl : Nat.leb (maxr h) k0 = true) by (apply Nat.leb_le; lia).
    rewrite Hl. cbn [out retries execs]. repeat split; reflexivity.
  - destruct fuel as [|f]; [lia|].
    assert (Hr : retr_at h c (S k0) = true) by (apply Hretr; lia).
    unfold std_loop. cbn [loop]. unfold retr_at in Hr.
    destruct (fst (attempt h c (S k0))) as [v|e|] eqn:Ea; try discriminate.
    rewrite Hr.
    assert (Hl : Nat.leb (maxr h) k0 = false) by (apply Nat.leb_gt; lia).
    rewrite Hl. cbn [out retries execs].
    replace (k0 + 1) with (S k0) by lia.
    specialize (IH (S k0) f).
    replace (S k0 + d + 1) with (k0 + S d + 1) in IH by lia.
    replace (S k0 + d) with (k0 + S d) in IH by lia.
    apply IH.
    + intros j H1 H2. apply Hretr; lia.
    + exact Hmax.
    + exact Hstop.
    + lia.
Qed.

(* the three clauses of the statement, for any body (sub-task calls included), stated on the
   attempts of ONE invocation; sync and dist instances follow from the generated facts. *)
Section RetryCounts.
  Variable h : header.
  Variable c : outcome * list nat.

  Lemma keeps_raising_retriable :
    (forall j, 1 <= j -> j <= maxr h + 1 -> retr_at h c j = true) ->
    let x := std_loop h c (fuel_of h) 0 0 in
    out x = fst (attempt h c (maxr h + 1)) /\ execs x = maxr h + 1 /\ retries x = maxr h.
  Proof.
    intros Hall x. subst x.
    destruct (std_loop_spec h c (maxr h) 0 (fuel_of h)) as [Ho [Hr He]].
    - intros j H1 H2. apply Hall; lia.
    - lia.
    - right. lia.
    - unfold fuel_of. lia.
    - cbn [Nat.add] in *. rewrite Ho, Hr, He. repeat split; reflexivity.
  Qed.

  Lemma succeeds_on_attempt : forall k v,
    1 <= k -> k <= maxr h + 1 ->
    (forall j, 1 <= j -> j < k -> retr_at h c j = true) ->
    fst (attempt h c k) = Val v ->
    let x := std_loop h c (fuel_of h) 0 0 in
    out x = Val v /\ execs x = k /\ retries x = k - 1.
  Proof.
    intros k v H1 H2 Hbefore Hv x. subst x.
    destruct (std_loop_spec h c (k - 1) 0 (fuel_of h)) as [Ho [Hr He]].
    - intros j Ha Hb. apply Hbefore; lia.
    - lia.
    - left. replace (0 + (k - 1) + 1) with k by lia. unfold retr_at. rewrite Hv. reflexivity.
    - unfold fuel_of. lia.
    - replace (0 + (k - 1) + 1) with k in * by lia.
      replace (0 + (k - 1)) with (k - 1) in * by lia.
      rewrite Ho, Hr, He. repeat split; try reflexivity. exact Hv.
  Qed.

  Lemma non_retriable_fails_at_once : forall e,
    fst (attempt h c 1) = Exc e -> retriable h e = false ->
    let x := std_loop h c (fuel_of h) 0 0 in
    out x = Exc e /\ execs x = 1 /\ retries x = 0.
  Proof.
    intros e He Hn x. subst x.
    destruct (std_loop_spec h c 0 0 (fuel_of h)) as [Ho [Hr Hx]].
    - intros j Ha Hb. lia.
    - lia.
    - left. cbn [Nat.add]. unfold retr_at. rewrite He. exact Hn.
    - unfold fuel_of. lia.
    - cbn [Nat.add] in *. rewrite Ho, Hr, Hx. repeat split; try reflexivity. exact He.
  Qed.
End RetryCounts.

(* the invocation of a program node IS the standard loop, in both modes *)
Lemma sync_prog_is_std : forall h b,
  sync_prog (Node h b) = std_loop h (sync_stmts b) (fuel_of h) 0 0.
Proof. intros h b. reflexivity. Qed.

Lemma dist_prog_is_std : forall tr h b,
  dist_prog tr (Node h b) = std_loop h (dist_stmts tr b) (fuel_of h) 0 0.
Proof. intros tr h b. reflexivity. Qed.

(* ---------- equivalence under the guard ---------- *)
Scheme prog_mut := Induction for prog Sort Prop
  with stmts_mut := Induction for stmts Sort Prop
  with stmt_mut := Induction for stmt Sort Prop
  with progs_mut := Induction for progs Sort Prop.
Combined Scheme prog_mutind from prog_mut, stmts_mut, stmt_mut, progs_mut.

Section Equiv.
  Variable tr : exn -> exn.
  Hypothesis tr_id : forall e, tr e = e.

  Lemma read_id : forall o, read tr o = o.
  Proof. intros [v|e|]; cbn; [reflexivity|rewrite tr_id; reflexivity|reflexivity]. Qed.

  Lemma equiv_all :
    (forall p, req_prog p = true -> dist_prog tr p = sync_prog p) /\
    (forall b, req_stmts b = true -> dist_stmts tr b = sync_stmts b) /\
    (forall s, req_stmt s = true -> dist_stmt tr s = sync_stmt s) /\
    (forall g, req_group g = true -> dist_group tr g = sync_group g).
  Proof.
    apply prog_mutind.
    - (* Node *) intros h b IHb Hreq. cbn [req_prog] in Hreq.
      cbn [dist_prog sync_prog]. rewrite loop_params_agree. rewrite (IHb Hreq). reflexivity.
    - (* SNil *) intros _. reflexivity.
    - (* SCons *) intros s IHs r IHr Hreq. cbn [req_stmts] in Hreq.
      apply andb_true_iff in Hreq. destruct Hreq as [Hs Hr].
      cbn [dist_stmts sync_stmts]. rewrite (IHs Hs), (IHr Hr). reflexivity.
    - (* SCall *) intros p IHp Hreq. cbn [req_stmt] in Hreq.
      cbn [dist_stmt sync_stmt]. rewrite (IHp Hreq), read_id. reflexivity.
    - (* SFire *) intros p _ Hreq. cbn [req_stmt] in Hreq. discriminate.
    - (* SGroup *) intros g IHg Hreq. cbn [req_stmt] in Hreq.
      cbn [dist_stmt sync_stmt]. exact (IHg Hreq).
    - (* SDirect *) intros p IHp Hreq. cbn [req_stmt] in Hreq.
      cbn [dist_stmt sync_stmt]. rewrite gen_direct_result. rewrite (IHp Hreq), read_id. reflexivity.
    - (* SDirectPar *) intros g IHg Hreq. cbn [req_stmt] in Hreq.
      cbn [dist_stmt sync_stmt]. rewrite gen_direct_aggregates. rewrite (IHg Hreq).
      destruct (sync_group g); reflexivity.
    - (* PNil *) intros _. reflexivity.
    - (* PCons *) intros p IHp g IHg Hreq. cbn [req_group] in Hreq.
      apply andb_true_iff in Hreq. destruct Hreq as [Hreq Hg].
      apply andb_true_iff in Hreq. destruct Hreq as [Hp Hlast].
      cbn [dist_group sync_group]. rewrite (IHp Hp), (IHg Hg), read_id.
      unfold succeeds in Hlast.
      destruct (out (sync_prog p)) as [v|e|] eqn:Eo.
      + reflexivity.
      + cbn [orb] in Hlast. destruct g; [|discriminate]. cbn [sync_group snd]. rewrite app_nil_r. reflexivity.
      + cbn [orb] in Hlast. destruct g; [|discriminate]. cbn [sync_group snd]. rewrite app_nil_r. reflexivity.
  Qed.

  Lemma run_equiv : forall p, req_prog p = true -> run_dist tr p = run_sync p.
  Proof.
    intros p Hreq. unfold run_dist, run_sync.
    destruct equiv_all as [Hp _]. rewrite (Hp p Hreq), read_id.
    destruct (sync_prog p); reflexivity.
  Qed.
End Equiv.

(* ---------- direct tasks ---------- *)
Lemma direct_is_call_sync : forall p, sync_stmt (SDirect p) = sync_stmt (SCall p).
Proof. intros p. cbn [sync_stmt]. rewrite gen_direct_result. reflexivity. Qed.

Lemma direct_is_call_dist : forall tr p, dist_stmt tr (SDirect p) = dist_stmt tr (SCall p).
Proof. intros tr p. cbn [dist_stmt]. rewrite gen_direct_result. reflexivity. Qed.

Lemma direct_par_is_group_sync : forall g, sync_stmt (SDirectPar g) = sync_stmt (SGroup g).
Proof. intros g. cbn [sync_stmt]. rewrite gen_direct_aggregates. reflexivity. Qed.

Lemma direct_par_is_group_dist : forall tr g, dist_stmt tr (SDirectPar g) = dist_stmt tr (SGroup g).
Proof.
  intros tr g. cbn [dist_stmt]. rewrite gen_direct_aggregates.
  destruct (dist_group tr g); reflexivity.
Qed.

(* ---------- refutations (faithful model, concrete witnesses) ---------- *)
Definition id_tr (e : exn) : exn := e.

Definition p_fire : prog :=
  Node (mkH 1 0 [] 1 [] AOk) (SCons (SFire (leaf 2 0 [] [] AOk)) SNil).

Definition p_group_after_failure : prog :=
  Node (mkH 1 0 [] 1 [] AOk)
       (SCons (SGroup (PCons (leaf 2 0 [] [] (ABefore (mkExn 1 7))) (PCons (leaf 3 0 [] [] AOk) PNil))) SNil).

Definition p_retry_error_args : prog := leaf 1 1 [] [] (ABefore (mkExn 0 3)).

Lemma fire_counts_differ :
  count 2 (log (run_sync p_fire)) = 0 /\ count 2 (log (run_dist id_tr p_fire)) = 1 /\
  out (run_sync p_fire) = out (run_dist id_tr p_fire).
Proof. vm_compute. repeat split; reflexivity. Qed.

Lemma group_counts_differ :
  count 3 (log (run_sync p_group_after_failure)) = 0 /\
  count 3 (log (run_dist id_tr p_group_after_failure)) = 1 /\
  out (run_sync p_group_after_failure) = out (run_dist id_tr p_group_after_failure).
Proof. vm_compute. repeat split; reflexivity. Qed.

Lemma dropped_args_differ :
  req_prog p_retry_error_args = true /\
  out (run_sync p_retry_error_args) = Exc (mkExn 0 3) /\
  out (run_dist (tr_drop [0]) p_retry_error_args) = Exc (mkExn 0 0) /\
  log (run_sync p_retry_error_args) = log (run_dist (tr_drop [0]) p_retry_error_args).
Proof. vm_compute. repeat split; reflexivity. Qed.

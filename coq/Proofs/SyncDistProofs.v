(* Proofs/SyncDistProofs.v — lemmas of C19 (Model/SyncDist.v over gen/SyncDist_gen.v). *)
From Coq Require Import List Bool Arith Lia.
Import ListNotations.
From PV Require Import gen.SyncDist_gen Model.SyncDist.

(* ---------- the generated facts are the documented ones ---------- *)
Lemma gen_sync_test : forall n m, gen_sync_exhausted n m = Nat.leb m n.
Proof. intros n m. reflexivity. Qed.

Lemma gen_dist_test : forall n m, gen_dist_exhausted n m = Nat.leb m n.
Proof. intros n m. reflexivity. Qed.

Lemma gen_sync_incr_one : gen_sync_incr = 1.
Proof. reflexivity. Qed.

Lemma gen_dist_incr_one : gen_dist_incr = 1.
Proof. reflexivity. Qed.

Lemma gen_dist_requeues_true : gen_dist_requeues = true.
Proof. reflexivity. Qed.

Lemma gen_direct_result : gen_direct_returns_result = true.
Proof. reflexivity. Qed.

Lemma gen_direct_aggregates : gen_direct_par_aggregates = true.
Proof. reflexivity. Qed.

Lemma gen_default_max_zero : gen_default_max_retries = 0.
Proof. reflexivity. Qed.

(* task.py distribute_calls (sync branch): every element of a parallelized list is its own fresh invocation *)
Lemma gen_group_own : gen_sync_group_own_invocations = true.
Proof. reflexivity. Qed.

Lemma shared_never : forall seen p, shared_sync seen p = false.
Proof. intros seen p. unfold shared_sync. rewrite gen_group_own. reflexivity. Qed.

(* RetryError (kind 0) is retriable whatever retry_for says; another kind exactly when listed *)
Lemma gen_retriable_retryerror : forall rf, gen_retriable rf 0 = true.
Proof.
  intros rf. unfold gen_retriable. destruct rf as [|a rf']; [reflexivity|].
  destruct (existsb (Nat.eqb 0) (a :: rf')); reflexivity.
Qed.

Lemma gen_retriable_other : forall rf k, k <> 0 ->
  gen_retriable rf k = existsb (Nat.eqb k) rf.
Proof.
  intros rf k Hk. unfold gen_retriable.
  assert (Hz : Nat.eqb k 0 = false) by (apply Nat.eqb_neq; exact Hk).
  destruct rf as [|a rf']; [cbn; exact Hz|].
  destruct (existsb (Nat.eqb 0) (a :: rf')); [reflexivity|].
  rewrite Hz, orb_false_r. reflexivity.
Qed.

(* both retry loops are the same function of the body *)
Lemma loop_params_agree : forall h c f k r,
  loop gen_dist_exhausted gen_dist_incr gen_dist_requeues h c f k r
  = loop gen_sync_exhausted gen_sync_incr true h c f k r.
Proof. intros h c f k r. reflexivity. Qed.

(* ---------- the retry loop ---------- *)
Definition std_loop := loop (fun n m => Nat.leb m n) 1 true.

Definition retr_at (h : header) (c : outcome * list nat) (j : nat) : bool :=
  match fst (attempt h c j) with Exc e => retriable h e | _ => false end.

Lemma std_loop_spec : forall h c d k0 fuel,
  (forall j, k0 < j -> j < k0 + d + 1 -> retr_at h c j = true) ->
  k0 + d <= maxr h ->
  (retr_at h c (k0 + d + 1) = false \/ k0 + d = maxr h) ->
  d < fuel ->
  out (std_loop h c fuel k0 k0) = fst (attempt h c (k0 + d + 1)) /\
  retries (std_loop h c fuel k0 k0) = k0 + d /\
  execs (std_loop h c fuel k0 k0) = k0 + d + 1.
Proof.
  intros h c d. induction d as [|d IH]; intros k0 fuel Hretr Hmax Hstop Hfuel.
  - destruct fuel as [|f]; [lia|].
    replace (k0 + 0 + 1) with (S k0) in * by lia.
    replace (k0 + 0) with k0 in * by lia.
    unfold std_loop. cbn [loop].
    unfold retr_at in Hstop.
    destruct (fst (attempt h c (S k0))) as [v|e|] eqn:Ea; cbn [out retries execs]; try (repeat split; reflexivity).
    destruct (retriable h e) eqn:Er; cbn [out retries execs]; [|repeat split; reflexivity].
    destruct Hstop as [Hs|Hs]; [discriminate|].
    assert (Hl : Nat.leb (maxr h) k0 = true) by (apply Nat.leb_le; lia).
    rewrite Hl. cbn [out retries execs]. repeat split; reflexivity.
  - destruct fuel as [|f]; [lia|].
    assert (Hr : retr_at h c (S k0) = true) by (apply Hretr; lia).
    unfold std_loop. cbn [loop]. unfold retr_at in Hr.
    destruct (fst (attempt h c (S k0))) as [v|e|] eqn:Ea; try discriminate.
    rewrite Hr.
    assert (Hl : Nat.leb (maxr h) k0 = false) by (apply Nat.leb_gt; lia).
    rewrite Hl. cbn [out retries execs].
    replace (k0 + 1) with (S k0) by lia.
    specialize (IH (S k0) f).
    replace (S k0 + d + 1) with (k0 + S d + 1) in IH by lia.
    replace (S k0 + d) with (k0 + S d) in IH by lia.
    apply IH.
    + intros j H1 H2. apply Hretr; lia.
    + exact Hmax.
    + exact Hstop.
    + lia.
Qed.

(* the three clauses of the statement, for any body (sub-task calls included), stated on the
   attempts of ONE invocation; sync and dist instances follow from the generated facts. *)
Section RetryCounts.
  Variable h : header.
  Variable c : outcome * list nat.

  Lemma keeps_raising_retriable :
    (forall j, 1 <= j -> j <= maxr h + 1 -> retr_at h c j = true) ->
    let x := std_loop h c (fuel_of h) 0 0 in
    out x = fst (attempt h c (maxr h + 1)) /\ execs x = maxr h + 1 /\ retries x = maxr h.
  Proof.
    intros Hall x. subst x.
    destruct (std_loop_spec h c (maxr h) 0 (fuel_of h)) as [Ho [Hr He]].
    - intros j H1 H2. apply Hall; lia.
    - lia.
    - right. lia.
    - unfold fuel_of. lia.
    - cbn [Nat.add] in *. rewrite Ho, Hr, He. repeat split; reflexivity.
  Qed.

  Lemma succeeds_on_attempt : forall k v,
    1 <= k -> k <= maxr h + 1 ->
    (forall j, 1 <= j -> j < k -> retr_at h c j = true) ->
    fst (attempt h c k) = Val v ->
    let x := std_loop h c (fuel_of h) 0 0 in
    out x = Val v /\ execs x = k /\ retries x = k - 1.
  Proof.
    intros k v H1 H2 Hbefore Hv x. subst x.
    destruct (std_loop_spec h c (k - 1) 0 (fuel_of h)) as [Ho [Hr He]].
    - intros j Ha Hb. apply Hbefore; lia.
    - lia.
    - left. replace (0 + (k - 1) + 1) with k by lia. unfold retr_at. rewrite Hv. reflexivity.
    - unfold fuel_of. lia.
    - replace (0 + (k - 1) + 1) with k in * by lia.
      replace (0 + (k - 1)) with (k - 1) in * by lia.
      rewrite Ho, Hr, He. repeat split; try reflexivity. exact Hv.
  Qed.

  Lemma non_retriable_fails_at_once : forall e,
    fst (attempt h c 1) = Exc e -> retriable h e = false ->
    let x := std_loop h c (fuel_of h) 0 0 in
    out x = Exc e /\ execs x = 1 /\ retries x = 0.
  Proof.
    intros e He Hn x. subst x.
    destruct (std_loop_spec h c 0 0 (fuel_of h)) as [Ho [Hr Hx]].
    - intros j Ha Hb. lia.
    - lia.
    - left. cbn [Nat.add]. unfold retr_at. rewrite He. exact Hn.
    - unfold fuel_of. lia.
    - cbn [Nat.add] in *. rewrite Ho, Hr, Hx. repeat split; try reflexivity. exact He.
  Qed.
End RetryCounts.

(* the invocation of a program node IS the standard loop, in both modes *)
Lemma sync_prog_is_std : forall h b,
  sync_prog (Node h b) = std_loop h (sync_stmts b) (fuel_of h) 0 0.
Proof. intros h b. reflexivity. Qed.

Lemma dist_prog_is_std : forall tr h b,
  dist_prog tr (Node h b) = std_loop h (dist_stmts tr b) (fuel_of h) 0 0.
Proof. intros tr h b. reflexivity. Qed.


(* unfolding equations of the mutual fixpoints (all by computation) *)
Lemma sync_prog_eq : forall h b,
  sync_prog (Node h b) = loop gen_sync_exhausted gen_sync_incr true h (sync_stmts b) (fuel_of h) 0 0.
Proof. reflexivity. Qed.
Lemma sync_stmts_eq : forall s r,
  sync_stmts (SCons s r) =
  match fst (sync_stmt s) with
  | Val v => (addv v (fst (sync_stmts r)), snd (sync_stmt s) ++ snd (sync_stmts r))
  | o => (o, snd (sync_stmt s))
  end.
Proof. reflexivity. Qed.
Lemma sync_group_eq : forall seen p r,
  sync_group seen (PCons p r) =
  match out (sync_prog p) with
  | Val v => (addv v (fst (sync_group (pid p :: seen) r)),
              (if shared_sync seen p then [] else log (sync_prog p)) ++ snd (sync_group (pid p :: seen) r))
  | o => (o, if shared_sync seen p then [] else log (sync_prog p))
  end.
Proof. reflexivity. Qed.
Lemma sync_call_eq : forall p, sync_stmt (SCall p) = (out (sync_prog p), log (sync_prog p)).
Proof. reflexivity. Qed.
Lemma sync_group_stmt_eq : forall g, sync_stmt (SGroup g) = sync_group [] g.
Proof. reflexivity. Qed.
Lemma sync_direct_eq : forall p, sync_stmt (SDirect p) =
  if gen_direct_returns_result then (out (sync_prog p), log (sync_prog p)) else (Exc type_error, []).
Proof. reflexivity. Qed.
Lemma sync_dpar_eq : forall g, sync_stmt (SDirectPar g) =
  if gen_direct_par_aggregates then sync_group [] g else (Exc type_error, []).
Proof. reflexivity. Qed.

Lemma dist_prog_eq : forall tr h b,
  dist_prog tr (Node h b) =
  loop gen_dist_exhausted gen_dist_incr gen_dist_requeues h (dist_stmts tr b) (fuel_of h) 0 0.
Proof. reflexivity. Qed.
Lemma dist_stmts_eq : forall tr s r,
  dist_stmts tr (SCons s r) =
  match fst (dist_stmt tr s) with
  | Val v => (addv v (fst (dist_stmts tr r)), snd (dist_stmt tr s) ++ snd (dist_stmts tr r))
  | o => (o, snd (dist_stmt tr s))
  end.
Proof. reflexivity. Qed.
Lemma dist_group_eq : forall tr p r,
  dist_group tr (PCons p r) =
  (match read tr (out (dist_prog tr p)) with Val v => addv v (fst (dist_group tr r)) | o => o end,
   log (dist_prog tr p) ++ snd (dist_group tr r)).
Proof. reflexivity. Qed.
Lemma dist_call_eq : forall tr p,
  dist_stmt tr (SCall p) = (read tr (out (dist_prog tr p)), log (dist_prog tr p)).
Proof. reflexivity. Qed.
Lemma dist_fire_eq : forall tr p, dist_stmt tr (SFire p) = (Val 0, log (dist_prog tr p)).
Proof. reflexivity. Qed.
Lemma dist_group_stmt_eq : forall tr g, dist_stmt tr (SGroup g) = dist_group tr g.
Proof. reflexivity. Qed.
Lemma dist_direct_eq : forall tr p, dist_stmt tr (SDirect p) =
  (if gen_direct_returns_result then read tr (out (dist_prog tr p)) else Exc type_error, log (dist_prog tr p)).
Proof. reflexivity. Qed.
Lemma dist_dpar_eq : forall tr g, dist_stmt tr (SDirectPar g) =
  (if gen_direct_par_aggregates then fst (dist_group tr g) else Exc type_error, snd (dist_group tr g)).
Proof. reflexivity. Qed.

(* ---------- equivalence under the guard ---------- *)
Scheme prog_mut := Induction for prog Sort Prop
  with stmts_mut := Induction for stmts Sort Prop
  with stmt_mut := Induction for stmt Sort Prop
  with progs_mut := Induction for progs Sort Prop.
Combined Scheme prog_mutind from prog_mut, stmts_mut, stmt_mut, progs_mut.

Section Equiv.
  Variable tr : exn -> exn.
  Hypothesis tr_id : forall e, tr e = e.

  Lemma read_id : forall o, read tr o = o.
  Proof. intros [v|e|]; cbn; [reflexivity|rewrite tr_id; reflexivity|reflexivity]. Qed.

  Lemma equiv_all :
    (forall p, req_prog p = true -> dist_prog tr p = sync_prog p) /\
    (forall b, req_stmts b = true -> dist_stmts tr b = sync_stmts b) /\
    (forall s, req_stmt s = true -> dist_stmt tr s = sync_stmt s) /\
    (forall g, req_group g = true -> forall seen, dist_group tr g = sync_group seen g).
  Proof.
    apply prog_mutind.
    - (* Node *) intros h b IHb Hreq. cbn [req_prog] in Hreq.
      rewrite dist_prog_eq, sync_prog_eq, loop_params_agree, (IHb Hreq). reflexivity.
    - (* SNil *) intros _. reflexivity.
    - (* SCons *) intros s IHs r IHr Hreq. cbn [req_stmts] in Hreq.
      apply andb_true_iff in Hreq. destruct Hreq as [Hs Hr].
      rewrite dist_stmts_eq, sync_stmts_eq, (IHs Hs), (IHr Hr). reflexivity.
    - (* SCall *) intros p IHp Hreq. cbn [req_stmt] in Hreq.
      rewrite dist_call_eq, sync_call_eq, (IHp Hreq), read_id. reflexivity.
    - (* SFire *) intros p _ Hreq. cbn [req_stmt] in Hreq. discriminate.
    - (* SGroup *) intros g IHg Hreq. cbn [req_stmt] in Hreq.
      rewrite dist_group_stmt_eq, sync_group_stmt_eq. exact (IHg Hreq []).
    - (* SDirect *) intros p IHp Hreq. cbn [req_stmt] in Hreq.
      rewrite dist_direct_eq, sync_direct_eq, gen_direct_result, (IHp Hreq), read_id. reflexivity.
    - (* SDirectPar *) intros g IHg Hreq. cbn [req_stmt] in Hreq.
      rewrite dist_dpar_eq, sync_dpar_eq, gen_direct_aggregates, (IHg Hreq []).
      destruct (sync_group [] g); reflexivity.
    - (* PNil *) intros _ seen. reflexivity.
    - (* PCons *) intros p IHp g IHg Hreq seen. cbn [req_group] in Hreq.
      apply andb_true_iff in Hreq. destruct Hreq as [Hreq Hg].
      apply andb_true_iff in Hreq. destruct Hreq as [Hp Hlast].
      rewrite dist_group_eq, sync_group_eq, shared_never, (IHp Hp), (IHg Hg (pid p :: seen)), read_id.
      unfold succeeds in Hlast.
      destruct (out (sync_prog p)) as [v|e|] eqn:Eo.
      + reflexivity.
      + cbn [orb] in Hlast. destruct g; [|discriminate]. cbn [sync_group snd]. rewrite app_nil_r. reflexivity.
      + cbn [orb] in Hlast. destruct g; [|discriminate]. cbn [sync_group snd]. rewrite app_nil_r. reflexivity.
  Qed.

  Lemma run_equiv : forall p, req_prog p = true -> run_dist tr p = run_sync p.
  Proof.
    intros p Hreq. unfold run_dist, run_sync.
    destruct equiv_all as [Hp _]. rewrite (Hp p Hreq), read_id.
    destruct (sync_prog p); reflexivity.
  Qed.
End Equiv.

(* ---------- direct tasks ---------- *)
Lemma direct_is_call_sync : forall p, sync_stmt (SDirect p) = sync_stmt (SCall p).
Proof. intros p. rewrite sync_direct_eq, gen_direct_result. reflexivity. Qed.

Lemma direct_is_call_dist : forall tr p, dist_stmt tr (SDirect p) = dist_stmt tr (SCall p).
Proof. intros tr p. rewrite dist_direct_eq, gen_direct_result. reflexivity. Qed.

Lemma direct_par_is_group_sync : forall g, sync_stmt (SDirectPar g) = sync_stmt (SGroup g).
Proof. intros g. rewrite sync_dpar_eq, gen_direct_aggregates. reflexivity. Qed.

Lemma direct_par_is_group_dist : forall tr g, dist_stmt tr (SDirectPar g) = dist_stmt tr (SGroup g).
Proof.
  intros tr g. rewrite dist_dpar_eq, gen_direct_aggregates, dist_group_stmt_eq.
  destruct (dist_group tr g); reflexivity.
Qed.

(* ---------- repeated members of a group ---------- *)
Lemma count_app : forall i a b, count i (a ++ b) = count i a + count i b.
Proof. intros i a b. unfold count. rewrite filter_app, app_length. reflexivity. Qed.

(* the same argument set twice in one parallelized list: the body runs for each element, in both modes *)
Lemma repeated_member_sync : forall p i, succeeds p = true ->
  count i (snd (sync_stmt (SGroup (PCons p (PCons p PNil))))) = 2 * count i (log (sync_prog p)).
Proof.
  intros p i Hs. unfold succeeds in Hs.
  rewrite sync_group_stmt_eq, sync_group_eq, shared_never.
  destruct (out (sync_prog p)) as [v|e|] eqn:Eo; try discriminate.
  rewrite sync_group_eq, shared_never, Eo. cbn [sync_group snd fst].
  rewrite app_nil_r, count_app. lia.
Qed.

Lemma repeated_member_dist : forall tr p i,
  count i (snd (dist_stmt tr (SGroup (PCons p (PCons p PNil))))) = 2 * count i (log (dist_prog tr p)).
Proof.
  intros tr p i. rewrite dist_group_stmt_eq, !dist_group_eq. cbn [dist_group snd].
  rewrite app_nil_r, count_app. lia.
Qed.

(* ---------- options, batches, common arguments ---------- *)
Lemma direct_option_declared : forall d a, gen_direct_option d a = d.
Proof. intros d a. reflexivity. Qed.

Lemma direct_header_declared : forall a h, direct_header a h = h.
Proof. intros a h. unfold direct_header. rewrite direct_option_declared. destruct h; reflexivity. Qed.

Lemma ceil_batches_cover : forall n b, 0 < b -> n <= Nat.div (n + b - 1) b * b.
Proof.
  intros n b Hb.
  pose proof (Nat.div_mod (n + b - 1) b ltac:(lia)) as Hd.
  pose proof (Nat.mod_upper_bound (n + b - 1) b ltac:(lia)) as Hm.
  rewrite (Nat.mul_comm b) in Hd. lia.
Qed.

Lemma gen_batches_are_ceil : forall n b, gen_batch_count n b = Nat.div (n + b - 1) b.
Proof. intros n b. reflexivity. Qed.

Lemma routed_all : forall n b, 0 < b -> routed n b = n.
Proof.
  intros n b Hb. unfold routed. rewrite gen_batches_are_ceil.
  apply Nat.min_l. apply ceil_batches_cover. exact Hb.
Qed.

(* floor division would lose the trailing partial batch: 7 calls in batches of 3 -> 6 routed *)
Lemma floor_batches_lose_the_tail : Nat.min 7 (Nat.max 1 (Nat.div 7 3) * 3) = 6 /\ routed 7 3 = 7.
Proof. vm_compute. split; reflexivity. Qed.

Lemma gen_common_fresh : gen_common_args_fresh_per_call = true.
Proof. reflexivity. Qed.

Lemma merged_fresh_is_map : forall common calls cur,
  merged_calls true cur common calls = map (kw_update common) calls.
Proof.
  intros common calls. induction calls as [|p r IH]; intros cur; [reflexivity|].
  cbn [merged_calls map]. rewrite IH. reflexivity.
Qed.

Lemma received_own_kwargs : forall common calls,
  received_kwargs common calls = map (kw_update common) calls.
Proof. intros common calls. unfold received_kwargs. rewrite gen_common_fresh. apply merged_fresh_is_map. Qed.

(* one dict updated in place: the key 1 of the first call leaks into the second *)
Lemma in_place_update_leaks :
  merged_calls false [(0, 2)] [(0, 2)] [[(1, 5)]; []] = [[(0, 2); (1, 5)]; [(0, 2); (1, 5)]] /\
  merged_calls true [(0, 2)] [(0, 2)] [[(1, 5)]; []] = [[(0, 2); (1, 5)]; [(0, 2)]].
Proof. vm_compute. split; reflexivity. Qed.

(* ---------- refutations (faithful model, concrete witnesses) ---------- *)
Definition id_tr (e : exn) : exn := e.

(* the generated fact is load-bearing: were the sync branch to share the invocation of a repeated element,
   a group [p; p] would run p's body once in sync mode and twice distributed *)
Definition g_repeated : stmt := SGroup (PCons (leaf 2 0 [] [] AOk) (PCons (leaf 2 0 [] [] AOk) PNil)).

Lemma sharing_breaks_counts :
  gen_sync_group_own_invocations = false ->
  fst (sync_stmt g_repeated) = fst (dist_stmt id_tr g_repeated) /\
  count 2 (snd (sync_stmt g_repeated)) = 1 /\ count 2 (snd (dist_stmt id_tr g_repeated)) = 2.
Proof.
  intros H. unfold g_repeated.
  rewrite sync_group_stmt_eq, sync_group_eq. unfold shared_sync. rewrite H.
  assert (Ho : out (sync_prog (leaf 2 0 [] [] AOk)) = Val 1) by (vm_compute; reflexivity).
  rewrite Ho, sync_group_eq. unfold shared_sync. rewrite H, Ho.
  vm_compute. repeat split; reflexivity.
Qed.

Definition p_fire : prog :=
  Node (mkH 1 0 [] 1 [] AOk) (SCons (SFire (leaf 2 0 [] [] AOk)) SNil).

Definition p_group_after_failure : prog :=
  Node (mkH 1 0 [] 1 [] AOk)
       (SCons (SGroup (PCons (leaf 2 0 [] [] (ABefore (mkExn 1 7))) (PCons (leaf 3 0 [] [] AOk) PNil))) SNil).

Definition p_retry_error_args : prog := leaf 1 1 [] [] (ABefore (mkExn 0 3)).

Lemma fire_counts_differ :
  count 2 (log (run_sync p_fire)) = 0 /\ count 2 (log (run_dist id_tr p_fire)) = 1 /\
  out (run_sync p_fire) = out (run_dist id_tr p_fire).
Proof. vm_compute. repeat split; reflexivity. Qed.

Lemma group_counts_differ :
  count 3 (log (run_sync p_group_after_failure)) = 0 /\
  count 3 (log (run_dist id_tr p_group_after_failure)) = 1 /\
  out (run_sync p_group_after_failure) = out (run_dist id_tr p_group_after_failure).
Proof. vm_compute. repeat split; reflexivity. Qed.

Lemma dropped_args_differ :
  req_prog p_retry_error_args = true /\
  out (run_sync p_retry_error_args) = Exc (mkExn 0 3) /\
  out (run_dist (tr_drop [0]) p_retry_error_args) = Exc (mkExn 0 0) /\
  log (run_sync p_retry_error_args) = log (run_dist (tr_drop [0]) p_retry_error_args).
Proof. vm_compute. repeat split; reflexivity. Qed.

(* ---------- final forms used by Props/C19.v ---------- *)
Lemma same_outcome_guarded : forall tr p,
  (forall e, tr e = e) -> req_prog p = true -> out (run_dist tr p) = out (run_sync p).
Proof. intros tr p Htr Hreq. rewrite (run_equiv tr Htr p Hreq). reflexivity. Qed.

Lemma same_counts_guarded : forall tr p,
  (forall e, tr e = e) -> req_prog p = true ->
  forall i, count i (log (run_dist tr p)) = count i (log (run_sync p)).
Proof. intros tr p Htr Hreq i. rewrite (run_equiv tr Htr p Hreq). reflexivity. Qed.

Lemma same_retries_guarded : forall tr p,
  (forall e, tr e = e) -> req_prog p = true -> retries (run_dist tr p) = retries (run_sync p).
Proof. intros tr p Htr Hreq. rewrite (run_equiv tr Htr p Hreq). reflexivity. Qed.

(* retry accounting of ONE invocation whose body statements yield c, for the standard loop *)
Definition retry_accounting (h : header) (c : outcome * list nat) (x : res) : Prop :=
  ((forall j, 1 <= j -> j <= maxr h + 1 -> retr_at h c j = true) ->
     exists e, out x = Exc e /\ retriable h e = true /\ execs x = maxr h + 1 /\ retries x = maxr h) /\
  (forall k v, 1 <= k -> k <= maxr h + 1 ->
     (forall j, 1 <= j -> j < k -> retr_at h c j = true) -> fst (attempt h c k) = Val v ->
     out x = Val v /\ execs x = k /\ retries x = k - 1) /\
  (forall e, fst (attempt h c 1) = Exc e -> retriable h e = false ->
     out x = Exc e /\ execs x = 1 /\ retries x = 0).

Lemma std_retry_accounting : forall h c, retry_accounting h c (std_loop h c (fuel_of h) 0 0).
Proof.
  intros h c. unfold retry_accounting. repeat split.
  - intros Hall.
    destruct (keeps_raising_retriable h c Hall) as [Ho [He Hr]].
    assert (Hlast : retr_at h c (maxr h + 1) = true) by (apply Hall; lia).
    unfold retr_at in Hlast.
    destruct (fst (attempt h c (maxr h + 1))) as [v|e|] eqn:Ea; try discriminate.
    exists e. repeat split; assumption.
  - apply (succeeds_on_attempt h c k v); assumption.
  - apply (succeeds_on_attempt h c k v); assumption.
  - apply (succeeds_on_attempt h c k v); assumption.
  - apply (non_retriable_fails_at_once h c e); assumption.
  - apply (non_retriable_fails_at_once h c e); assumption.
  - apply (non_retriable_fails_at_once h c e); assumption.
Qed.

Lemma retry_accounting_sync : forall h b,
  retry_accounting h (sync_stmts b) (sync_prog (Node h b)).
Proof. intros h b. rewrite sync_prog_is_std. apply std_retry_accounting. Qed.

Lemma retry_accounting_dist : forall tr h b,
  retry_accounting h (dist_stmts tr b) (dist_prog tr (Node h b)).
Proof. intros tr h b. rewrite dist_prog_is_std. apply std_retry_accounting. Qed.

(* a body without sub-task calls: its log is exactly `execs` copies of its node id *)
Lemma leaf_log : forall E i q h fuel k r,
  let x := loop E i q h (Val 0, []) fuel k r in
  k <= execs x /\ log x = repeat (nid h) (execs x - k).
Proof.
  intros E i q h fuel. induction fuel as [|f IH]; intros k r x; subst x.
  - cbn. split; [lia|]. replace (k - k) with 0 by lia. reflexivity.
  - cbn [loop].
    assert (Hs : snd (attempt h (Val 0, []) (S k)) = [nid h]).
    { unfold attempt. destruct (nth (S k - 1) (script h) (dflt h)); reflexivity. }
    destruct (fst (attempt h (Val 0, []) (S k))) as [v|e|] eqn:Ea; cbn [out log retries execs];
      try (rewrite Hs; split; [lia|]; replace (S k - k) with 1 by lia; reflexivity).
    destruct (retriable h e); cbn [out log retries execs];
      try (rewrite Hs; split; [lia|]; replace (S k - k) with 1 by lia; reflexivity).
    destruct (E r (maxr h)); cbn [out log retries execs];
      try (rewrite Hs; split; [lia|]; replace (S k - k) with 1 by lia; reflexivity).
    destruct q; cbn [out log retries execs];
      try (rewrite Hs; split; [lia|]; replace (S k - k) with 1 by lia; reflexivity).
    destruct (IH (S k) (r + i)) as [Hle Hlog]. rewrite Hs, Hlog. split; [lia|].
    replace (execs (loop E i true h (Val 0, []) f (S k) (r + i)) - k)
      with (S (execs (loop E i true h (Val 0, []) f (S k) (r + i)) - S k)) by lia.
    reflexivity.
Qed.

Lemma count_repeat : forall i n, count i (repeat i n) = n.
Proof.
  intros i n. unfold count. induction n as [|n IH]; [reflexivity|].
  cbn [repeat filter]. rewrite Nat.eqb_refl. cbn [length]. rewrite IH. reflexivity.
Qed.

Lemma nth_nil_d : forall (A : Type) n (d : A), nth n [] d = d.
Proof. intros A n d. destruct n; reflexivity. Qed.

(* the statement's three sentences for a leaf body, as execution counts of the node *)
Lemma leaf_keeps_raising : forall i m rf e,
  gen_retriable rf (ekind e) = true ->
  let p := leaf i m rf [] (ABefore e) in
  out (run_sync p) = Exc e /\ count i (log (run_sync p)) = m + 1 /\ retries (run_sync p) = m /\
  forall tr, out (run_dist tr p) = Exc (tr e) /\ count i (log (run_dist tr p)) = m + 1 /\
             retries (run_dist tr p) = m.
Proof.
  intros i m rf e Hr p. subst p. unfold leaf.
  set (h := mkH i m rf 1 [] (ABefore e)).
  assert (Hall : forall j, 1 <= j -> j <= maxr h + 1 -> retr_at h (Val 0, []) j = true).
  { intros j _ _. unfold retr_at, attempt. cbn [script dflt h].
    rewrite nth_nil_d. cbn [fst]. exact Hr. }
  assert (Hat : fst (attempt h (Val 0, []) (maxr h + 1)) = Exc e).
  { unfold attempt. cbn [script dflt h]. rewrite nth_nil_d. reflexivity. }
  destruct (keeps_raising_retriable h (Val 0, []) Hall) as [Ho [He Hre]].
  rewrite Hat in Ho. cbn [maxr h] in He, Hre.
  destruct (leaf_log (fun n m0 => Nat.leb m0 n) 1 true h (fuel_of h) 0 0) as [_ Hlog].
  fold (std_loop h (Val 0, []) (fuel_of h) 0 0) in Hlog. rewrite He in Hlog.
  replace (m + 1 - 0) with (m + 1) in Hlog by lia. cbn [nid h] in Hlog.
  assert (Hs : sync_prog (Node h SNil) = std_loop h (Val 0, []) (fuel_of h) 0 0) by reflexivity.
  assert (Hd : forall tr, dist_prog tr (Node h SNil) = std_loop h (Val 0, []) (fuel_of h) 0 0) by reflexivity.
  unfold run_sync, run_dist. rewrite Hs. repeat split.
  - exact Ho.
  - rewrite Hlog. apply count_repeat.
  - exact Hre.
  - rewrite Hd. cbn [out]. rewrite Ho. reflexivity.
  - rewrite Hd. cbn [log]. rewrite Hlog. apply count_repeat.
  - rewrite Hd. cbn [retries]. exact Hre.
Qed.

(* the property at full strength, and why it does not hold of the faithful model *)
Definition c19_statement : Prop :=
  forall p, out (run_dist id_tr p) = out (run_sync p) /\
            forall i, count i (log (run_dist id_tr p)) = count i (log (run_sync p)).

Lemma c19_statement_refuted : ~ c19_statement.
Proof.
  intros H. destruct (H p_fire) as [_ Hc]. specialize (Hc 2).
  destruct fire_counts_differ as [Hs [Hd _]]. rewrite Hs, Hd in Hc. discriminate.
Qed.

Lemma lazy_sync_witnesses :
  (exists p i, out (run_dist id_tr p) = out (run_sync p) /\
               count i (log (run_sync p)) = 0 /\ count i (log (run_dist id_tr p)) = 1) /\
  (exists g i, req_prog g = false /\ out (run_dist id_tr g) = out (run_sync g) /\
               count i (log (run_sync g)) = 0 /\ count i (log (run_dist id_tr g)) = 1).
Proof.
  split.
  - exists p_fire, 2. destruct fire_counts_differ as [Hs [Hd Ho]]. repeat split; auto.
  - exists p_group_after_failure, 3. destruct group_counts_differ as [Hs [Hd Ho]].
    repeat split; auto.
Qed.

Lemma serializer_law_needed :
  exists tr p, req_prog p = true /\ out (run_dist tr p) <> out (run_sync p) /\
               log (run_dist tr p) = log (run_sync p).
Proof.
  exists (tr_drop [0]), p_retry_error_args.
  destruct dropped_args_differ as [Hq [Hs [Hd Hl]]].
  split; [exact Hq|]. split; [|symmetry; exact Hl].
  rewrite Hs, Hd. discriminate.
Qed.

(* ---------- the retry race ---------- *)
Lemma stale_counter_overruns :
  gen_retry_incr_before_publish = false ->
  let h := mkH 2 1 [] 1 [] (ABefore (mkExn 0 0)) in
  execs (dist_leaf_racy h) = maxr h + 2 /\ execs (dist_prog id_tr (Node h SNil)) = maxr h + 1.
Proof.
  intros H h. subst h. unfold dist_leaf_racy, lagging_view. rewrite H. vm_compute. split; reflexivity.
Qed.

Lemma ordered_counter_is_exact :
  gen_retry_incr_before_publish = true ->
  forall tr h, dist_leaf_racy h = dist_prog tr (Node h SNil).
Proof.
  intros H tr h. unfold dist_leaf_racy, lagging_view. rewrite H. reflexivity.
Qed.

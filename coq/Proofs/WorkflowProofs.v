(* Proofs/WorkflowProofs.v — lemmas for C18 (Model/Workflow.v). *)
From Coq Require Import List Arith Bool PeanoNat Lia.
Import ListNotations.
From PV Require Import Model.Workflow gen.Workflow_gen.

(* ------------------------------------------------------------------ keys and lookups *)
Lemma opk_eqb_true : forall a b, opk_eqb a b = true <-> a = b.
Proof. intros [] []; simpl; split; intro H; congruence. Qed.

Lemma key_eqb_true : forall a b, key_eqb a b = true <-> a = b.
Proof.
  intros [k n|k| |c] [k' n'|k'| |c']; simpl; split; intro H; try congruence.
  - apply andb_true_iff in H as [H1 H2]. apply opk_eqb_true in H1. apply Nat.eqb_eq in H2. congruence.
  - inversion H; subst. apply andb_true_iff; split; [apply opk_eqb_true|apply Nat.eqb_eq]; reflexivity.
  - apply opk_eqb_true in H. congruence.
  - inversion H; subst. apply opk_eqb_true; reflexivity.
  - apply Nat.eqb_eq in H. congruence.
  - inversion H; subst. apply Nat.eqb_eq; reflexivity.
Qed.

Lemma skey_eqb_true : forall a b, skey_eqb a b = true <-> a = b.
Proof.
  intros [w k] [w' k']; unfold skey_eqb; simpl; split; intro H.
  - apply andb_true_iff in H as [H1 H2]. apply Nat.eqb_eq in H1. apply key_eqb_true in H2. congruence.
  - inversion H; subst. apply andb_true_iff; split; [apply Nat.eqb_eq|apply key_eqb_true]; reflexivity.
Qed.

Lemma skey_eqb_false : forall a b, skey_eqb a b = false <-> a <> b.
Proof.
  intros a b; split; intro H.
  - intro E. apply skey_eqb_true in E. congruence.
  - destruct (skey_eqb a b) eqn:E; [|reflexivity]. apply skey_eqb_true in E. contradiction.
Qed.

Lemma slookup_eq : forall k v s, slookup k ((k, v) :: s) = Some v.
Proof. intros k v s; simpl. rewrite (proj2 (skey_eqb_true k k) eq_refl). reflexivity. Qed.

Lemma slookup_ne : forall k k' v s, k <> k' -> slookup k ((k', v) :: s) = slookup k s.
Proof. intros k k' v s H; simpl. rewrite (proj2 (skey_eqb_false k k') H). reflexivity. Qed.

Lemma slookup_cons_inv : forall k k' v s r,
  slookup k ((k', v) :: s) = r -> (k = k' /\ r = Some v) \/ (k <> k' /\ slookup k s = r).
Proof.
  intros k k' v s r H. simpl in H. destruct (skey_eqb k k') eqn:E.
  - left. apply skey_eqb_true in E. auto.
  - right. apply skey_eqb_false in E. auto.
Qed.

Lemma nlookup_eq : forall A e (x : A) l, nlookup e ((e, x) :: l) = Some x.
Proof. intros; simpl. rewrite Nat.eqb_refl. reflexivity. Qed.

Lemma nlookup_ne : forall A e e' (x : A) l, e <> e' -> nlookup e ((e', x) :: l) = nlookup e l.
Proof. intros A e e' x l H; simpl. apply Nat.eqb_neq in H. rewrite H. reflexivity. Qed.

Lemma cnt_bump_same : forall k x, cnt k (bump k x) = S (cnt k x).
Proof. intros [] x; reflexivity. Qed.

Lemma cnt_bump_other : forall k k' x, k <> k' -> cnt k' (bump k x) = cnt k' x.
Proof. intros [] [] x H; try reflexivity; congruence. Qed.

Lemma x_wf_bump : forall k x, x_wf (bump k x) = x_wf x.
Proof. intros [] x; reflexivity. Qed.

(* ------------------------------------------------------------------ vals *)
Lemma vals_app : forall e k l1 l2, vals e k (l1 ++ l2) = vals e k l1 ++ vals e k l2.
Proof.
  intros e k l1 l2; induction l1 as [|[[e' o] v] l1 IH]; simpl; [reflexivity|].
  destruct ((e' =? e) && op_is k o); simpl; rewrite IH; reflexivity.
Qed.

Lemma vals_none : forall e k l, (forall o v, ~ In (e, o, v) l) -> vals e k l = [].
Proof.
  intros e k l; induction l as [|[[e' o] v] l IH]; intro H; simpl; [reflexivity|].
  destruct (e' =? e) eqn:E; simpl.
  - apply Nat.eqb_eq in E; subst. exfalso. apply (H o v). left; reflexivity.
  - apply IH. intros o' v' Hin. apply (H o' v'). right; exact Hin.
Qed.

Lemma vals_single : forall e k e' o v,
  vals e k [(e', o, v)] = if (e' =? e) && op_is k o then [v] else [].
Proof. intros; simpl. destruct ((e' =? e) && op_is k o); reflexivity. Qed.

Lemma op_is_det : forall k k', op_is k (ODet k') = true <-> k = k'.
Proof. intros; simpl. apply opk_eqb_true. Qed.

(* ------------------------------------------------------------------ specification of the two effects *)
Section Effects.
Variable c : cfg.
(* the executor lives on the running invocation; execute_task replays unconditionally; the value
   generators are private to their call *)
Hypothesis Hsc : c_scope c = PerExecution.
Hypothesis Hru : c_replay_uncond c = true.
Hypothesis Hgp : c_gen_private c = true.
Hypothesis Hxp : c_exec_private c = true.

Inductive gen_spec (W : world) (xw : nat) : opk -> nat -> list (skey * value) -> nat -> value -> Prop :=
| GS_rnd : forall g, gen_spec W xw Rnd g (store W) (clock W) (VRand (seed_wf c xw) g)
| GS_uid : forall g, gen_spec W xw Uid g (store W) (clock W) (VUuid (seed_wf c xw) g)
| GS_tim_old : forall g bv, slookup (xw, KBase) (store W) = Some bv ->
    gen_spec W xw Tim g (store W) (clock W) (VTime (base_of bv) g)
| GS_tim_new : forall g, slookup (xw, KBase) (store W) = None ->
    gen_spec W xw Tim g (((xw, KBase), VBase (clock W)) :: store W) (S (clock W)) (VTime (clock W) g).

Inductive det_spec (W : world) (x : executor) (k : opk) : eff -> Prop :=
| DS_hit : forall v, slookup (x_wf x, KOp k (S (cnt k x))) (store W) = Some v ->
    det_spec W x k {| f_store := store W; f_clock := clock W; f_next := next_inv W;
                      f_launch := launches W; f_val := v; f_x := bump k x |}
| DS_miss : forall st1 clk1 v tot,
    slookup (x_wf x, KOp k (S (cnt k x))) (store W) = None ->
    gen_spec W (x_wf x) k (S (cnt k x) + c_seq_offset c) st1 clk1 v ->
    det_spec W x k {| f_store := ((x_wf x, KCount k), VCount tot)
                                   :: ((x_wf x, KOp k (S (cnt k x))), v) :: st1;
                      f_clock := clk1; f_next := next_inv W; f_launch := launches W;
                      f_val := v; f_x := bump k x |}.

Lemma det_op_spec : forall W x k, det_spec W x k (det_op c W x k).
Proof.
  intros W x k. unfold det_op, det_op_with. rewrite cnt_bump_same.
  destruct (slookup (x_wf x, KOp k (S (cnt k x))) (store W)) as [v|] eqn:Hl.
  - apply DS_hit; exact Hl.
  - destruct k.
    + eapply DS_miss; [exact Hl|apply GS_rnd].
    + destruct (slookup (x_wf x, KBase) (store W)) as [bv|] eqn:Hb.
      * eapply DS_miss; [exact Hl|apply GS_tim_old; exact Hb].
      * eapply DS_miss; [exact Hl|apply GS_tim_new; exact Hb].
    + eapply DS_miss; [exact Hl|apply GS_uid].
Qed.

Inductive exec_spec (W : world) (x : executor) (aw call : nat) : eff -> Prop :=
| ES_hit : forall v, slookup (x_wf x, task_key c call) (store W) = Some v ->
    exec_spec W x aw call {| f_store := store W; f_clock := clock W; f_next := next_inv W;
                             f_launch := launches W; f_val := v; f_x := x |}
| ES_miss : slookup (x_wf x, task_key c call) (store W) = None ->
    exec_spec W x aw call {| f_store := ((x_wf x, task_key c call), VInv (next_inv W)) :: store W;
                             f_clock := clock W; f_next := S (next_inv W);
                             f_launch := (aw, call, next_inv W) :: launches W;
                             f_val := VInv (next_inv W); f_x := x |}.

Lemma exec_op_spec : forall W x aw call, exec_spec W x aw call (exec_op c W x aw call).
Proof.
  intros W x aw call. unfold exec_op, replay_accepts. rewrite Hru.
  destruct (slookup (x_wf x, task_key c call) (store W)) as [v|] eqn:Hl.
  - cbn [orb]. apply ES_hit; exact Hl.
  - apply ES_miss; exact Hl.
Qed.

(* ---------------------------------------------------------------- one step, per-execution scope *)

Inductive step_spec (W : world) : event -> world -> Prop :=
| SS_skip : forall ev, step_spec W ev W
| SS_aux : forall ev sd, step_spec W ev (set_aux W sd)      (* only the side state changes *)
| SS_begin : forall e p t w sd, nlookup e (exes W) = None ->
    step_spec W (EBegin e p t w)
      {| store := store W; clock := clock W; next_inv := next_inv W; caches := caches W;
         exes := (e, {| e_proc := p; e_task := t; e_wf := w; e_x := new_x w |}) :: exes W;
         launches := launches W; outs := outs W; aux := sd |}
| SS_det : forall e ex k f sd, nlookup e (exes W) = Some ex -> det_spec W (e_x ex) k f ->
    step_spec W (EOp e (ODet k))
      {| store := f_store f; clock := f_clock f; next_inv := f_next f; caches := caches W;
         exes := (e, set_e_x ex (f_x f)) :: exes W; launches := f_launch f;
         outs := outs W ++ [(e, ODet k, f_val f)]; aux := sd |}
| SS_exec : forall e ex call f sd, nlookup e (exes W) = Some ex ->
    exec_spec W (e_x ex) (e_wf ex) call f ->
    step_spec W (EOp e (OExec call))
      {| store := f_store f; clock := f_clock f; next_inv := f_next f; caches := caches W;
         exes := (e, set_e_x ex (f_x f)) :: exes W; launches := f_launch f;
         outs := outs W ++ [(e, OExec call, f_val f)]; aux := sd |}.

Lemma step_is_spec : forall W ev, step_spec W ev (step c W ev).
Proof.
  intros W [e p t w|e o|w call|e k]; unfold step.
  - destruct (nlookup e (exes W)) eqn:He; [apply SS_skip|apply SS_begin; exact He].
  - destruct (nlookup e (exes W)) as [ex|] eqn:He; [|apply SS_skip].
    unfold put_x, get_x. rewrite Hsc. destruct o as [k|call].
    + unfold draw. rewrite Hgp. apply SS_det; [exact He|apply det_op_spec].
    + rewrite Hxp. apply SS_exec; [exact He|apply exec_op_spec].
  - destruct (slookup (w, task_key c call) (store W)) as [[]|]; try apply SS_skip. apply SS_aux.
  - rewrite Hgp. apply SS_skip.
Qed.

(* generic induction principle over runs *)
Lemma run_ind : forall (P : world -> Prop),
  P w0 -> (forall W ev W', P W -> step_spec W ev W' -> P W') ->
  forall evs, P (run c evs).
Proof.
  intros P H0 Hs evs. unfold run.
  assert (G : forall W, P W -> P (fold_left (step c) evs W)).
  { induction evs as [|ev evs IH]; intros W HW; simpl; [exact HW|].
    apply IH. eapply Hs; [exact HW|apply step_is_spec]. }
  apply G; exact H0.
Qed.

(* ================================================================ T1: the n-th value is stable *)
Record Inv1 (W : world) : Prop := {
  i_known : forall e o v, In (e, o, v) (outs W) -> nlookup e (exes W) <> None;
  i_wf : forall e ex, nlookup e (exes W) = Some ex -> x_wf (e_x ex) = e_wf ex;
  i_cnt : forall e ex k, nlookup e (exes W) = Some ex -> cnt k (e_x ex) = length (vals e k (outs W));
  i_rec : forall e ex k n v, nlookup e (exes W) = Some ex ->
            nth_error (vals e k (outs W)) n = Some v ->
            slookup (e_wf ex, KOp k (S n)) (store W) = Some v
}.

Lemma Inv1_w0 : Inv1 w0.
Proof. constructor; simpl; intros; try contradiction; try discriminate. Qed.

(* bindings of operation records survive a det effect *)
Lemma det_keeps_op_records : forall W x k f w k' n v,
  det_spec W x k f -> slookup (w, KOp k' n) (store W) = Some v ->
  slookup (w, KOp k' n) (f_store f) = Some v.
Proof.
  intros W x k f w k' n v Hd Hl. destruct Hd as [v0 H0|st1 clk1 v0 tot H0 Hg]; cbn [f_store f_val]; [exact Hl|].
  rewrite slookup_ne by congruence.
  assert (Hst1 : slookup (w, KOp k' n) st1 = Some v).
  { destruct Hg; try exact Hl. rewrite slookup_ne by congruence. exact Hl. }
  destruct (skey_eqb (w, KOp k' n) (x_wf x, KOp k (S (cnt k x)))) eqn:E.
  - (* same key: it was unbound before — contradiction with Hl *)
    apply skey_eqb_true in E. inversion E; subst. rewrite H0 in Hl. discriminate.
  - apply skey_eqb_false in E. rewrite slookup_ne by exact E. exact Hst1.
Qed.

Lemma det_binds_own : forall W x k f,
  det_spec W x k f -> slookup (x_wf x, KOp k (S (cnt k x))) (f_store f) = Some (f_val f).
Proof.
  intros W x k f Hd. destruct Hd as [v0 H0|st1 clk1 v0 tot H0 Hg]; cbn [f_store f_val]; [exact H0|].
  rewrite slookup_ne by congruence. apply slookup_eq.
Qed.

Lemma exec_keeps_op_records : forall W x aw call f w k' n v,
  exec_spec W x aw call f -> slookup (w, KOp k' n) (store W) = Some v ->
  slookup (w, KOp k' n) (f_store f) = Some v.
Proof.
  intros W x aw call f w k' n v He Hl. destruct He; cbn [f_store f_val]; [exact Hl|].
  rewrite slookup_ne; [exact Hl|]. unfold task_key. congruence.
Qed.

Lemma det_spec_x : forall W x k f, det_spec W x k f -> f_x f = bump k x.
Proof. intros W x k f Hd; destruct Hd; reflexivity. Qed.

Lemma exec_spec_x : forall W x aw call f, exec_spec W x aw call f -> f_x f = x.
Proof. intros W x aw call f He; destruct He; reflexivity. Qed.

Lemma nth_error_snoc : forall A (l : list A) (a : A) n v,
  nth_error (l ++ [a]) n = Some v ->
  (n < length l /\ nth_error l n = Some v) \/ (n = length l /\ v = a).
Proof.
  intros A l a n v H. destruct (Nat.lt_ge_cases n (length l)) as [Hlt|Hge].
  - left. split; [exact Hlt|]. rewrite nth_error_app1 in H by exact Hlt. exact H.
  - right. rewrite nth_error_app2 in H by exact Hge.
    destruct (n - length l) as [|m] eqn:E; simpl in H.
    + inversion H. split; [lia|reflexivity].
    + destruct m; discriminate.
Qed.

Lemma Inv1_step : forall W ev W', Inv1 W -> step_spec W ev W' -> Inv1 W'.
Proof.
  intros W ev W' I Hs. destruct I as [Ik Iw Ic Ir].
  destruct Hs as [ev|ev sd|e p t w sd Hn|e ex k f sd He Hd|e ex call f sd He Hx].
  - constructor; assumption.
  - constructor; assumption.
  - (* begin *)
    assert (Hvals : forall k, vals e k (outs W) = []).
    { intro k. apply vals_none. intros o v Hin. apply (Ik _ _ _ Hin). exact Hn. }
    constructor; cbn [store clock next_inv caches exes launches outs].
    + intros e' o v Hin. destruct (Nat.eq_dec e' e) as [->|Hne].
      * rewrite nlookup_eq. discriminate.
      * rewrite nlookup_ne by exact Hne. eapply Ik; exact Hin.
    + intros e' ex' Hl. destruct (Nat.eq_dec e' e) as [->|Hne].
      * rewrite nlookup_eq in Hl. inversion Hl; subst. reflexivity.
      * rewrite nlookup_ne in Hl by exact Hne. apply Iw with e'; exact Hl.
    + intros e' ex' k Hl. destruct (Nat.eq_dec e' e) as [->|Hne].
      * rewrite nlookup_eq in Hl. inversion Hl; subst. rewrite Hvals. destruct k; reflexivity.
      * rewrite nlookup_ne in Hl by exact Hne. apply Ic; exact Hl.
    + intros e' ex' k n v Hl Hnth. destruct (Nat.eq_dec e' e) as [->|Hne].
      * rewrite Hvals in Hnth. destruct n; discriminate.
      * rewrite nlookup_ne in Hl by exact Hne. eapply Ir; eassumption.
  - (* deterministic operation *)
    pose proof (det_spec_x _ _ _ _ Hd) as Hfx.
    pose proof (Iw _ _ He) as Hw.
    constructor; cbn [store clock next_inv caches exes launches outs].
    + intros e' o v Hin. destruct (Nat.eq_dec e' e) as [->|Hne].
      * rewrite nlookup_eq. discriminate.
      * rewrite nlookup_ne by exact Hne. apply in_app_or in Hin as [Hin|[Hin|[]]].
        -- eapply Ik; exact Hin.
        -- inversion Hin; subst. congruence.
    + intros e' ex' Hl. destruct (Nat.eq_dec e' e) as [->|Hne].
      * rewrite nlookup_eq in Hl. inversion Hl; subst. simpl. rewrite Hfx, x_wf_bump. exact Hw.
      * rewrite nlookup_ne in Hl by exact Hne. apply Iw with e'; exact Hl.
    + intros e' ex' k' Hl. rewrite vals_app, app_length, vals_single.
      destruct (Nat.eq_dec e' e) as [->|Hne].
      * rewrite nlookup_eq in Hl. inversion Hl; subst. simpl e_x. rewrite Hfx, Nat.eqb_refl. simpl andb.
        destruct (opk_eqb k' k) eqn:Ek.
        -- apply opk_eqb_true in Ek; subst. rewrite cnt_bump_same. simpl. rewrite (Ic _ _ k He). lia.
        -- assert (k <> k') by (intro; subst; rewrite (proj2 (opk_eqb_true k' k') eq_refl) in Ek; discriminate).
           rewrite cnt_bump_other by assumption. simpl. rewrite (Ic _ _ k' He). lia.
      * rewrite nlookup_ne in Hl by exact Hne.
        assert (E : (e =? e') = false) by (apply Nat.eqb_neq; congruence).
        rewrite E. simpl. rewrite (Ic _ _ k' Hl). lia.
    + intros e' ex' k' n v Hl Hnth. rewrite vals_app, vals_single in Hnth.
      destruct (Nat.eq_dec e' e) as [->|Hne].
      * rewrite nlookup_eq in Hl. inversion Hl; subst. simpl e_wf. rewrite Nat.eqb_refl in Hnth. simpl andb in Hnth.
        destruct (opk_eqb k' k) eqn:Ek.
        -- apply opk_eqb_true in Ek; subst k'.
           apply nth_error_snoc in Hnth as [[_ Hold]|[Hn Hv]].
           ++ eapply det_keeps_op_records; [exact Hd|]. eapply Ir; eassumption.
           ++ subst v n. rewrite <- (Ic _ _ k He), <- Hw. eapply det_binds_own; exact Hd.
        -- rewrite app_nil_r in Hnth. eapply det_keeps_op_records; [exact Hd|]. eapply Ir; eassumption.
      * rewrite nlookup_ne in Hl by exact Hne.
        assert (E : (e =? e') = false) by (apply Nat.eqb_neq; congruence).
        rewrite E in Hnth. simpl in Hnth. rewrite app_nil_r in Hnth.
        eapply det_keeps_op_records; [exact Hd|]. eapply Ir; eassumption.
  - (* sub-task *)
    pose proof (exec_spec_x _ _ _ _ _ Hx) as Hfx.
    constructor; cbn [store clock next_inv caches exes launches outs].
    + intros e' o v Hin. destruct (Nat.eq_dec e' e) as [->|Hne].
      * rewrite nlookup_eq. discriminate.
      * rewrite nlookup_ne by exact Hne. apply in_app_or in Hin as [Hin|[Hin|[]]].
        -- eapply Ik; exact Hin.
        -- inversion Hin; subst. congruence.
    + intros e' ex' Hl. destruct (Nat.eq_dec e' e) as [->|Hne].
      * rewrite nlookup_eq in Hl. inversion Hl; subst. simpl. rewrite Hfx. apply Iw with e; exact He.
      * rewrite nlookup_ne in Hl by exact Hne. apply Iw with e'; exact Hl.
    + intros e' ex' k' Hl. rewrite vals_app, app_length, vals_single.
      assert (Ez : (e =? e') && op_is k' (OExec call) = false) by (simpl; apply andb_false_r).
      rewrite Ez. simpl. rewrite Nat.add_0_r.
      destruct (Nat.eq_dec e' e) as [->|Hne].
      * rewrite nlookup_eq in Hl. inversion Hl; subst. simpl e_x. rewrite Hfx. apply Ic; exact He.
      * rewrite nlookup_ne in Hl by exact Hne. apply Ic; exact Hl.
    + intros e' ex' k' n v Hl Hnth. rewrite vals_app, vals_single in Hnth.
      assert (Ez : (e =? e') && op_is k' (OExec call) = false) by (simpl; apply andb_false_r).
      rewrite Ez, app_nil_r in Hnth.
      destruct (Nat.eq_dec e' e) as [->|Hne].
      * rewrite nlookup_eq in Hl. inversion Hl; subst. simpl e_wf.
        eapply exec_keeps_op_records; [exact Hx|]. eapply Ir; eassumption.
      * rewrite nlookup_ne in Hl by exact Hne.
        eapply exec_keeps_op_records; [exact Hx|]. eapply Ir; eassumption.
Qed.

Lemma Inv1_run : forall evs, Inv1 (run c evs).
Proof. apply run_ind; [exact Inv1_w0|exact Inv1_step]. Qed.

Theorem nth_value_stable_lemma : forall evs e1 e2 w k n v1 v2,
  wf_of (run c evs) e1 = Some w -> wf_of (run c evs) e2 = Some w ->
  nth_error (vals e1 k (outs (run c evs))) n = Some v1 ->
  nth_error (vals e2 k (outs (run c evs))) n = Some v2 ->
  v1 = v2.
Proof.
  intros evs e1 e2 w k n v1 v2 H1 H2 N1 N2. unfold wf_of in *.
  destruct (nlookup e1 (exes (run c evs))) as [ex1|] eqn:L1; [|discriminate].
  destruct (nlookup e2 (exes (run c evs))) as [ex2|] eqn:L2; [|discriminate].
  inversion H1; inversion H2; subst.
  pose proof (i_rec _ (Inv1_run evs) _ _ _ _ _ L1 N1) as R1.
  pose proof (i_rec _ (Inv1_run evs) _ _ _ _ _ L2 N2) as R2.
  rewrite H3 in R2. congruence.
Qed.


(* ================================================================ T2: sub-task launched once *)
Section SubTask.
Hypothesis Hkey : c_task_key_call c = true.

Lemma task_key_id : forall call, task_key c call = KTask call.
Proof. intro call. unfold task_key. rewrite Hkey. reflexivity. Qed.

Lemma det_task_records : forall W x k f w call,
  det_spec W x k f -> slookup (w, KTask call) (f_store f) = slookup (w, KTask call) (store W).
Proof.
  intros W x k f w call Hd. destruct Hd as [v0 H0|st1 clk1 v0 tot H0 Hg]; cbn [f_store]; [reflexivity|].
  rewrite !slookup_ne by congruence.
  destruct Hg; try reflexivity. rewrite slookup_ne by congruence. reflexivity.
Qed.

Record Inv2 (W : world) : Prop := {
  j_l2s : forall w call i, In (w, call, i) (launches W) ->
            slookup (w, KTask call) (store W) = Some (VInv i);
  j_s2l : forall w call v, slookup (w, KTask call) (store W) = Some v ->
            exists i, v = VInv i /\ In (w, call, i) (launches W);
  j_out : forall e ex call v, In (e, OExec call, v) (outs W) -> nlookup e (exes W) = Some ex ->
            slookup (e_wf ex, KTask call) (store W) = Some v;
  j_nodup : NoDup (map launch_key (launches W))
}.

Lemma Inv2_w0 : Inv2 w0.
Proof. constructor; simpl; intros; try contradiction; try discriminate. constructor. Qed.

Lemma Inv2_step : forall W ev W', Inv1 W -> Inv2 W -> step_spec W ev W' -> Inv2 W'.
Proof.
  intros W ev W' I1 I Hs. destruct I as [Jl Js Jo Jn].
  destruct Hs as [ev|ev sd|e p t w sd Hn|e ex k f sd He Hd|e ex call f sd He Hx].
  - constructor; assumption.
  - constructor; assumption.
  - constructor; cbn [store clock next_inv caches exes launches outs]; try assumption.
    intros e' ex' call v Hin Hl. destruct (Nat.eq_dec e' e) as [->|Hne].
    + exfalso. apply (i_known _ I1 _ _ _ Hin). exact Hn.
    + rewrite nlookup_ne in Hl by exact Hne. eapply Jo; eassumption.
  - assert (HL : f_launch f = launches W) by (destruct Hd; reflexivity).
    constructor; cbn [store clock next_inv caches exes launches outs]; rewrite ?HL.
    + intros w call i Hin. rewrite (det_task_records _ _ _ _ _ _ Hd). apply Jl; exact Hin.
    + intros w call v Hl. rewrite (det_task_records _ _ _ _ _ _ Hd) in Hl. apply Js; exact Hl.
    + intros e' ex' call v Hin Hl. rewrite (det_task_records _ _ _ _ _ _ Hd).
      apply in_app_or in Hin as [Hin|[Hin|[]]]; [|inversion Hin].
      destruct (Nat.eq_dec e' e) as [->|Hne].
      * rewrite nlookup_eq in Hl. inversion Hl; subst. simpl e_wf. eapply Jo; eassumption.
      * rewrite nlookup_ne in Hl by exact Hne. eapply Jo; eassumption.
    + exact Jn.
  - pose proof (i_wf _ I1 _ _ He) as Hw.
    destruct Hx as [v0 H0|H0]; cbn [f_store f_clock f_next f_launch f_val f_x] in *;
      rewrite task_key_id in H0.
    + constructor; cbn [store clock next_inv caches exes launches outs]; try assumption.
      intros e' ex' call' v Hin Hl.
      apply in_app_or in Hin as [Hin|[Hin|[]]].
      * destruct (Nat.eq_dec e' e) as [->|Hne].
        -- rewrite nlookup_eq in Hl. inversion Hl; subst. simpl e_wf. eapply Jo; eassumption.
        -- rewrite nlookup_ne in Hl by exact Hne. eapply Jo; eassumption.
      * inversion Hin; subst. rewrite nlookup_eq in Hl. inversion Hl; subst. simpl e_wf.
        rewrite <- Hw. exact H0.
    + rewrite task_key_id.
      assert (Keep : forall w call' v, slookup (w, KTask call') (store W) = Some v ->
                slookup (w, KTask call') (((x_wf (e_x ex), KTask call), VInv (next_inv W)) :: store W) = Some v).
      { intros w call' v Hl.
        destruct (skey_eqb (w, KTask call') (x_wf (e_x ex), KTask call)) eqn:E.
        - apply skey_eqb_true in E. inversion E; subst. rewrite H0 in Hl. discriminate.
        - apply skey_eqb_false in E. rewrite slookup_ne by exact E. exact Hl. }
      constructor; cbn [store clock next_inv caches exes launches outs].
      * intros w call' i [Hin|Hin].
        -- inversion Hin; subst. rewrite Hw. apply slookup_eq.
        -- apply Keep. apply Jl; exact Hin.
      * intros w call' v Hl.
        destruct (skey_eqb (w, KTask call') (x_wf (e_x ex), KTask call)) eqn:E.
        -- apply skey_eqb_true in E. inversion E; subst. rewrite slookup_eq in Hl. inversion Hl; subst.
           exists (next_inv W). split; [reflexivity|]. left. rewrite Hw. reflexivity.
        -- apply skey_eqb_false in E. rewrite slookup_ne in Hl by exact E.
           destruct (Js _ _ _ Hl) as [i [Hv Hin]]. exists i. split; [exact Hv|right; exact Hin].
      * intros e' ex' call' v Hin Hl.
        apply in_app_or in Hin as [Hin|[Hin|[]]].
        -- apply Keep. destruct (Nat.eq_dec e' e) as [->|Hne].
           ++ rewrite nlookup_eq in Hl. inversion Hl; subst. simpl e_wf. eapply Jo; eassumption.
           ++ rewrite nlookup_ne in Hl by exact Hne. eapply Jo; eassumption.
        -- inversion Hin; subst. rewrite nlookup_eq in Hl. inversion Hl; subst. simpl e_wf.
           rewrite <- Hw. apply slookup_eq.
      * simpl map. constructor; [|exact Jn].
        intro Hin. apply in_map_iff in Hin as [[[w' c'] i'] [Hk Hin]].
        unfold launch_key in Hk. simpl in Hk. inversion Hk; subst.
        pose proof (Jl _ _ _ Hin) as Hl. rewrite <- Hw in Hl. rewrite H0 in Hl. discriminate.
Qed.

Lemma Inv12_run : forall evs, Inv1 (run c evs) /\ Inv2 (run c evs).
Proof.
  apply (run_ind (fun W => Inv1 W /\ Inv2 W)).
  - split; [exact Inv1_w0|exact Inv2_w0].
  - intros W ev W' [I1 I2] Hs. split; [eapply Inv1_step; eassumption|eapply Inv2_step; eassumption].
Qed.

Theorem sub_task_once_lemma : sub_task_once_stmt c.
Proof.
  intro evs. destruct (Inv12_run evs) as [I1 I2]. split; [exact (j_nodup _ I2)|split].
  - intros e w call v Hw Hin. unfold wf_of in Hw.
    destruct (nlookup e (exes (run c evs))) as [ex|] eqn:L; [|discriminate]. inversion Hw; subst.
    apply (j_s2l _ I2). eapply (j_out _ I2); eassumption.
  - intros e1 e2 w call v1 v2 H1 H2 N1 N2. unfold wf_of in *.
    destruct (nlookup e1 (exes (run c evs))) as [ex1|] eqn:L1; [|discriminate].
    destruct (nlookup e2 (exes (run c evs))) as [ex2|] eqn:L2; [|discriminate].
    inversion H1; inversion H2; subst.
    pose proof (j_out _ I2 _ _ _ _ N1 L1) as R1. pose proof (j_out _ I2 _ _ _ _ N2 L2) as R2.
    rewrite H3 in R2. congruence.
Qed.
End SubTask.

(* ================================================================ T3: workflows do not mix *)
Section NoMix.
Hypothesis Hseed : c_seed_wf c = true.

Lemma seed_wf_id : forall w, seed_wf c w = w.
Proof. intro w. unfold seed_wf. rewrite Hseed. reflexivity. Qed.

Record Inv3 (W : world) : Prop := {
  k_base : forall w v, slookup (w, KBase) (store W) = Some v -> exists b, v = VBase b /\ b < clock W;
  k_base_inj : forall w1 w2 b, slookup (w1, KBase) (store W) = Some (VBase b) ->
                 slookup (w2, KBase) (store W) = Some (VBase b) -> w1 = w2;
  k_inv_lt : forall w call i, In (w, call, i) (launches W) -> i < next_inv W;
  k_inv_inj : forall w1 c1 w2 c2 i, In (w1, c1, i) (launches W) -> In (w2, c2, i) (launches W) -> w1 = w2;
  k_task : forall w call v, slookup (w, KTask call) (store W) = Some v ->
             exists i call', v = VInv i /\ In (w, call', i) (launches W);
  k_op : forall w k n v, slookup (w, KOp k n) (store W) = Some v -> owned W w v;
  k_out : forall e ex o v, In (e, o, v) (outs W) -> nlookup e (exes W) = Some ex -> owned W (e_wf ex) v
}.

Lemma Inv3_w0 : Inv3 w0.
Proof. constructor; simpl; intros; try contradiction; try discriminate. Qed.

Lemma owned_mono : forall W W' w v,
  (forall w0 b, slookup (w0, KBase) (store W) = Some b -> slookup (w0, KBase) (store W') = Some b) ->
  (forall l, In l (launches W) -> In l (launches W')) ->
  owned W w v -> owned W' w v.
Proof.
  intros W W' w v Hb Hl Ho. destruct v; simpl in *; try assumption.
  - apply Hb; exact Ho.
  - destruct Ho as [call Hin]. exists call. apply Hl; exact Hin.
Qed.

(* how a det effect changes base-time bindings *)
Lemma det_base : forall W x k f w,
  det_spec W x k f ->
  (slookup (w, KBase) (f_store f) = slookup (w, KBase) (store W) /\ f_clock f = clock W) \/
  (w = x_wf x /\ slookup (w, KBase) (store W) = None /\
   slookup (w, KBase) (f_store f) = Some (VBase (clock W)) /\ f_clock f = S (clock W) /\ k = Tim) \/
  (w <> x_wf x /\ slookup (w, KBase) (f_store f) = slookup (w, KBase) (store W) /\
   f_clock f = S (clock W)).
Proof.
  intros W x k f w Hd. destruct Hd as [v0 H0|st1 clk1 v0 tot H0 Hg]; cbn [f_store f_clock]; [left; auto|].
  rewrite !slookup_ne by congruence.
  destruct Hg; try (left; split; reflexivity).
  destruct (Nat.eq_dec w (x_wf x)) as [->|Hne].
  - right; left. rewrite slookup_eq. auto.
  - right; right. rewrite slookup_ne by congruence. auto.
Qed.

Lemma det_base_keeps : forall W x k f w b,
  det_spec W x k f -> slookup (w, KBase) (store W) = Some b -> slookup (w, KBase) (f_store f) = Some b.
Proof.
  intros W x k f w b Hd Hl. destruct (det_base _ _ _ _ w Hd) as [[E _]|[[_ [E _]]|[_ [E _]]]].
  - rewrite E; exact Hl.
  - rewrite E in Hl; discriminate.
  - rewrite E; exact Hl.
Qed.

Lemma det_clock_mono : forall W x k f, det_spec W x k f -> clock W <= f_clock f.
Proof.
  intros W x k f Hd. destruct (det_base _ _ _ _ 0 Hd) as [[_ E]|[[_ [_ [_ [E _]]]]|[_ [_ E]]]]; lia.
Qed.

Lemma exec_base : forall W x aw call f w,
  exec_spec W x aw call f -> slookup (w, KBase) (f_store f) = slookup (w, KBase) (store W).
Proof.
  intros W x aw call f w He. destruct He; cbn [f_store]; [reflexivity|].
  rewrite slookup_ne; [reflexivity|unfold task_key; congruence].
Qed.

Lemma exec_op_records : forall W x aw call f w k n,
  exec_spec W x aw call f -> slookup (w, KOp k n) (f_store f) = slookup (w, KOp k n) (store W).
Proof.
  intros W x aw call f w k n He. destruct He; cbn [f_store]; [reflexivity|].
  rewrite slookup_ne; [reflexivity|unfold task_key; congruence].
Qed.

Lemma Inv3_step : forall W ev W', Inv1 W -> Inv3 W -> step_spec W ev W' -> Inv3 W'.
Proof.
  intros W ev W' I1 I Hs. destruct I as [Kb Kbi Kl Kli Kt Ko Kout].
  destruct Hs as [ev|ev sd|e p t w sd Hn|e ex k f sd He Hd|e ex call f sd He Hx].
  - constructor; assumption.
  - constructor; assumption.
  - constructor; cbn [store clock next_inv caches exes launches outs]; try assumption.
    intros e' ex' o v Hin Hl. destruct (Nat.eq_dec e' e) as [->|Hne].
    + exfalso. apply (i_known _ I1 _ _ _ Hin). exact Hn.
    + rewrite nlookup_ne in Hl by exact Hne.
      apply owned_mono with W; [auto|auto|]. eapply Kout; eassumption.
  - (* deterministic operation *)
    pose proof (i_wf _ I1 _ _ He) as Hw.
    assert (HL : f_launch f = launches W) by (destruct Hd; reflexivity).
    assert (HN : f_next f = next_inv W) by (destruct Hd; reflexivity).
    set (W' := {| store := f_store f; clock := f_clock f; next_inv := f_next f; caches := caches W;
                  exes := (e, set_e_x ex (f_x f)) :: exes W; launches := f_launch f;
                  outs := outs W ++ [(e, ODet k, f_val f)]; aux := sd |}).
    assert (Mono : forall w v, owned W w v -> owned W' w v).
    { intros w v. apply owned_mono.
      - intros w1 b Hl. unfold W'; cbn [store]. eapply det_base_keeps; eassumption.
      - unfold W'; cbn [launches]. rewrite HL. auto. }
    assert (Kb' : forall w v, slookup (w, KBase) (f_store f) = Some v -> exists b, v = VBase b /\ b < f_clock f).
    { intros w v Hl. destruct (det_base _ _ _ _ w Hd) as [[E C]|[[_ [_ [E [C _]]]]|[_ [E C]]]].
      - rewrite E in Hl. destruct (Kb _ _ Hl) as [b [? ?]]. exists b. split; [assumption|lia].
      - rewrite E in Hl. inversion Hl; subst. exists (clock W). split; [reflexivity|lia].
      - rewrite E in Hl. destruct (Kb _ _ Hl) as [b [? ?]]. exists b. split; [assumption|lia]. }
    assert (Hval : owned W' (x_wf (e_x ex)) (f_val f)).
    { destruct Hd as [v0 H0|st1 clk1 v0 tot H0 Hg]; cbn [f_val].
      - apply Mono. eapply Ko; exact H0.
      - destruct Hg; unfold owned.
        + apply seed_wf_id.
        + apply seed_wf_id.
        + (* recorded base *)
          destruct (Kb _ _ H) as [b [-> _]]. cbn [base_of]. unfold W'; cbn [store f_store].
          rewrite !slookup_ne by congruence. exact H.
        + unfold W'; cbn [store f_store]. rewrite !slookup_ne by congruence. apply slookup_eq. }
    constructor; fold W'.
    + exact Kb'.
    + unfold W'; cbn [store]. intros w1 w2 b H1 H2.
      destruct (det_base _ _ _ _ w1 Hd) as [[E1 C1]|[[X1 [_ [E1 [C1 _]]]]|[X1 [E1 C1]]]];
      destruct (det_base _ _ _ _ w2 Hd) as [[E2 C2]|[[X2 [_ [E2 [C2 _]]]]|[X2 [E2 C2]]]];
      rewrite ?E1 in H1; rewrite ?E2 in H2; try lia; try congruence;
      try (eapply Kbi; eassumption);
      try (inversion H1; subst; destruct (Kb _ _ H2) as [b' [Eb Lb]]; inversion Eb; subst; lia);
      try (inversion H2; subst; destruct (Kb _ _ H1) as [b' [Eb Lb]]; inversion Eb; subst; lia).
    + unfold W'; cbn [launches next_inv]. rewrite HL, HN. exact Kl.
    + unfold W'; cbn [launches]. rewrite HL. exact Kli.
    + unfold W'; cbn [launches store]. rewrite HL. intros w call v Hl.
      assert (E : slookup (w, KTask call) (f_store f) = slookup (w, KTask call) (store W)).
      { clear - Hd. destruct Hd as [v0 H0|st1 clk1 v0 tot H0 Hg]; cbn [f_store]; [reflexivity|].
        rewrite !slookup_ne by congruence. destruct Hg; try reflexivity.
        rewrite slookup_ne by congruence. reflexivity. }
      rewrite E in Hl. eapply Kt; exact Hl.
    + intros w k' n v Hl. unfold W' in Hl; cbn [store] in Hl.
      destruct Hd as [v0 H0|st1 clk1 v0 tot H0 Hg]; cbn [f_store f_val] in *.
      * apply Mono. eapply Ko; exact Hl.
      * rewrite slookup_ne in Hl by congruence.
        destruct (skey_eqb (w, KOp k' n) (x_wf (e_x ex), KOp k (S (cnt k (e_x ex))))) eqn:E.
        -- apply skey_eqb_true in E. inversion E; subst. rewrite slookup_eq in Hl. inversion Hl; subst.
           exact Hval.
        -- apply skey_eqb_false in E. rewrite slookup_ne in Hl by exact E.
           apply Mono. apply Ko with k' n.
           destruct Hg; try exact Hl. rewrite slookup_ne in Hl by congruence. exact Hl.
    + intros e' ex' o v Hin Hl. unfold W' in Hin, Hl; cbn [outs exes] in Hin, Hl.
      apply in_app_or in Hin as [Hin|[Hin|[]]].
      * apply Mono. destruct (Nat.eq_dec e' e) as [->|Hne].
        -- rewrite nlookup_eq in Hl. inversion Hl; subst. simpl e_wf. eapply Kout; eassumption.
        -- rewrite nlookup_ne in Hl by exact Hne. eapply Kout; eassumption.
      * inversion Hin; subst. rewrite nlookup_eq in Hl. inversion Hl; subst. simpl e_wf.
        rewrite <- Hw. exact Hval.
  - (* sub-task *)
    pose proof (i_wf _ I1 _ _ He) as Hw.
    set (W' := {| store := f_store f; clock := f_clock f; next_inv := f_next f; caches := caches W;
                  exes := (e, set_e_x ex (f_x f)) :: exes W; launches := f_launch f;
                  outs := outs W ++ [(e, OExec call, f_val f)]; aux := sd |}).
    assert (HC : f_clock f = clock W) by (destruct Hx; reflexivity).
    assert (Hinc : forall l, In l (launches W) -> In l (f_launch f)).
    { destruct Hx; cbn [f_launch]; [auto|]. intros l Hin. right; exact Hin. }
    assert (Mono : forall w v, owned W w v -> owned W' w v).
    { intros w v. apply owned_mono.
      - intros w1 b Hl. unfold W'; cbn [store]. rewrite (exec_base _ _ _ _ _ w1 Hx). exact Hl.
      - exact Hinc. }
    assert (Hval : owned W' (e_wf ex) (f_val f)).
    { destruct Hx as [v0 H0|H0]; cbn [f_val].
      - apply Mono. unfold task_key in H0. destruct (Kt _ _ _ H0) as [i [call' [-> Hin]]].
        simpl. exists call'. rewrite <- Hw. exact Hin.
      - simpl. exists call. unfold W'; cbn [launches f_launch]. left. reflexivity. }
    constructor; fold W'.
    + unfold W'; cbn [store clock]. intros w v Hl. rewrite (exec_base _ _ _ _ _ w Hx) in Hl. rewrite HC.
      eapply Kb; exact Hl.
    + unfold W'; cbn [store]. intros w1 w2 b H1 H2.
      rewrite (exec_base _ _ _ _ _ w1 Hx) in H1. rewrite (exec_base _ _ _ _ _ w2 Hx) in H2.
      eapply Kbi; eassumption.
    + unfold W'; cbn [launches next_inv]. destruct Hx; cbn [f_launch f_next]; [exact Kl|].
      intros w call' i [Hin|Hin]; [inversion Hin; lia|]. pose proof (Kl _ _ _ Hin). lia.
    + unfold W'; cbn [launches]. destruct Hx; cbn [f_launch]; [exact Kli|].
      intros w1 c1 w2 c2 i [H1|H1] [H2|H2].
      * congruence.
      * inversion H1; subst. pose proof (Kl _ _ _ H2). lia.
      * inversion H2; subst. pose proof (Kl _ _ _ H1). lia.
      * eapply Kli; eassumption.
    + unfold W'; cbn [launches store]. destruct Hx as [v0 H0|H0]; cbn [f_launch f_store]; [exact Kt|].
      intros w call' v Hl.
      destruct (skey_eqb (w, KTask call') (x_wf (e_x ex), task_key c call)) eqn:E.
      * apply skey_eqb_true in E. rewrite E in Hl. rewrite slookup_eq in Hl. inversion Hl; subst.
        inversion E; subst. exists (next_inv W), call. split; [reflexivity|]. left. rewrite Hw. reflexivity.
      * apply skey_eqb_false in E. rewrite slookup_ne in Hl by exact E.
        destruct (Kt _ _ _ Hl) as [i [c' [Hv Hin]]]. exists i, c'. split; [exact Hv|right; exact Hin].
    + intros w k n v Hl. unfold W' in Hl; cbn [store] in Hl.
      rewrite (exec_op_records _ _ _ _ _ w k n Hx) in Hl. apply Mono. eapply Ko; exact Hl.
    + intros e' ex' o v Hin Hl. unfold W' in Hin, Hl; cbn [outs exes] in Hin, Hl.
      apply in_app_or in Hin as [Hin|[Hin|[]]].
      * apply Mono. destruct (Nat.eq_dec e' e) as [->|Hne].
        -- rewrite nlookup_eq in Hl. inversion Hl; subst. simpl e_wf. eapply Kout; eassumption.
        -- rewrite nlookup_ne in Hl by exact Hne. eapply Kout; eassumption.
      * inversion Hin; subst. rewrite nlookup_eq in Hl. inversion Hl; subst. simpl e_wf. exact Hval.
Qed.

Lemma Inv13_run : forall evs, Inv1 (run c evs) /\ Inv3 (run c evs).
Proof.
  apply (run_ind (fun W => Inv1 W /\ Inv3 W)).
  - split; [exact Inv1_w0|exact Inv3_w0].
  - intros W ev W' [I1 I3] Hs. split; [eapply Inv1_step; eassumption|eapply Inv3_step; eassumption].
Qed.

(* every value returned to an execution, and every operation record of a workflow, was derived
   for that workflow *)
Theorem values_owned_lemma : forall evs e w o v,
  wf_of (run c evs) e = Some w -> In (e, o, v) (outs (run c evs)) -> owned (run c evs) w v.
Proof.
  intros evs e w o v Hw Hin. destruct (Inv13_run evs) as [_ I3]. unfold wf_of in Hw.
  destruct (nlookup e (exes (run c evs))) as [ex|] eqn:L; [|discriminate]. inversion Hw; subst.
  eapply (k_out _ I3); eassumption.
Qed.

Theorem records_owned_lemma : forall evs w k n v,
  slookup (w, KOp k n) (store (run c evs)) = Some v -> owned (run c evs) w v.
Proof. intros evs w k n v Hl. destruct (Inv13_run evs) as [_ I3]. eapply (k_op _ I3); exact Hl. Qed.

Lemma step_local : forall W ev W', Inv1 W -> step_spec W ev W' ->
  forall e o ex w' key, ev = EOp e o -> nlookup e (exes W) = Some ex -> w' <> e_wf ex ->
  slookup (w', key) (store W') = slookup (w', key) (store W).
Proof.
  intros W ev W' I1 Hs e0 o0 ex0 w' key Hev Hl Hne.
  destruct Hs as [ev|ev sd|e p t w sd Hn|e ex k f sd He Hd|e ex call f sd He Hx]; try reflexivity.
  - inversion Hev; subst. rewrite Hl in He. inversion He; subst.
    pose proof (i_wf _ I1 _ _ Hl) as Hw. cbn [store].
    destruct Hd as [v0 H0|st1 clk1 v0 tot H0 Hg]; cbn [f_store]; [reflexivity|].
    rewrite !slookup_ne by congruence. destruct Hg; try reflexivity.
    rewrite slookup_ne by congruence. reflexivity.
  - inversion Hev; subst. rewrite Hl in He. inversion He; subst.
    pose proof (i_wf _ I1 _ _ Hl) as Hw. cbn [store].
    destruct Hx; cbn [f_store]; [reflexivity|]. rewrite slookup_ne by congruence. reflexivity.
Qed.

Theorem no_mix_lemma : no_mix_stmt c.
Proof.
  intro evs. destruct (Inv13_run evs) as [I1 I3]. split.
  - intros e1 e2 w1 w2 o1 o2 v1 v2 H1 H2 Hne N1 N2 E. subst v2.
    pose proof (values_owned_lemma _ _ _ _ _ H1 N1) as O1.
    pose proof (values_owned_lemma _ _ _ _ _ H2 N2) as O2.
    destruct v1; simpl in O1, O2; try contradiction; try congruence.
    + apply Hne. eapply (k_base_inj _ I3); eassumption.
    + destruct O1 as [c1 X1]. destruct O2 as [c2 X2]. apply Hne. eapply (k_inv_inj _ I3); eassumption.
  - intros e o w w' key Hw Hne. unfold wf_of in Hw.
    destruct (nlookup e (exes (run c evs))) as [ex|] eqn:L; [|discriminate]. inversion Hw; subst.
    eapply step_local; [exact I1|apply step_is_spec|reflexivity|exact L|exact Hne].
Qed.
End NoMix.

End Effects.

(* ================================================================ the statement, per scope *)
Theorem per_execution_satisfies : forall c,
  c_scope c = PerExecution -> c_seed_wf c = true -> c_task_key_call c = true ->
  c_replay_uncond c = true -> c_gen_private c = true -> c_exec_private c = true -> C18_statement c.
Proof.
  intros c H1 H2 H3 H4 H5 H6. split; [|split].
  - intros evs e1 e2 w k n v1 v2 A B C D.
    exact (nth_value_stable_lemma c H1 H4 H5 H6 evs e1 e2 w k n v1 v2 A B C D).
  - apply sub_task_once_lemma; assumption.
  - apply no_mix_lemma; assumption.
Qed.

Lemma with_scope_id : forall c, with_scope c (c_scope c) = c.
Proof. intros []; reflexivity. Qed.

(* the facts generated from the current source, apart from the scope of the executor: seeds contain the
   workflow id, the sub-task record key contains the call identity, the replay branch of execute_task is
   unconditional, the value generators keep no state outside their call, execute_task keeps no state
   outside the workflow data *)
Lemma gen_facts_good :
  c_seed_wf gen_cfg = true /\ c_task_key_call gen_cfg = true /\
  c_replay_uncond gen_cfg = true /\ c_gen_private gen_cfg = true /\ c_exec_private gen_cfg = true.
Proof. repeat split; reflexivity. Qed.

Definition fixed_cfg : cfg := with_scope gen_cfg PerExecution.
Definition cached_cfg : cfg := with_scope gen_cfg PerTaskObject.

Theorem fixed_cfg_satisfies : C18_statement fixed_cfg.
Proof.
  destruct gen_facts_good as [H1 [H2 [H3 [H4 H5]]]].
  apply per_execution_satisfies; [reflexivity|exact H1|exact H2|exact H3|exact H4|exact H5].
Qed.

(* ---- witnesses against the executor cached per Task object (computed) *)
(* a second execution of the SAME workflow in the same process image (retry / recovery re-run):
   the counters continue, the first random of the re-execution is not the first random *)
Definition wit_reexec : list event :=
  [EBegin 0 0 0 1; EOp 0 (ODet Rnd); EBegin 1 0 0 1; EOp 1 (ODet Rnd)].

Lemma cached_reexecution_unstable :
  exists evs e1 e2 w k n v1 v2,
    wf_of (run cached_cfg evs) e1 = Some w /\ wf_of (run cached_cfg evs) e2 = Some w /\
    nth_error (vals e1 k (outs (run cached_cfg evs))) n = Some v1 /\
    nth_error (vals e2 k (outs (run cached_cfg evs))) n = Some v2 /\ v1 <> v2.
Proof.
  exists wit_reexec, 0, 1, 1, Rnd, 0,
    (VRand (seed_wf gen_cfg 1) (1 + c_seq_offset gen_cfg)),
    (VRand (seed_wf gen_cfg 1) (2 + c_seq_offset gen_cfg)).
  vm_compute. repeat split; try reflexivity. discriminate.
Qed.

(* the same task run for a SECOND workflow in the same process image gets the first workflow's
   sub-task invocation, which was never launched for the second workflow *)
Definition wit_mix : list event :=
  [EBegin 0 0 0 1; EOp 0 (OExec 1); EBegin 1 0 0 2; EOp 1 (OExec 1)].

Lemma cached_workflows_share_value :
  exists evs e1 e2 w1 w2 o1 o2 v,
    wf_of (run cached_cfg evs) e1 = Some w1 /\ wf_of (run cached_cfg evs) e2 = Some w2 /\ w1 <> w2 /\
    In (e1, o1, v) (outs (run cached_cfg evs)) /\ In (e2, o2, v) (outs (run cached_cfg evs)).
Proof.
  exists wit_mix, 0, 1, 1, 2, (OExec 1), (OExec 1), (VInv 0).
  vm_compute. repeat split; try reflexivity; try discriminate.
  - left; reflexivity.
  - right; left; reflexivity.
Qed.

Lemma cached_subtask_not_launched :
  exists evs e w call v,
    wf_of (run cached_cfg evs) e = Some w /\ In (e, OExec call, v) (outs (run cached_cfg evs)) /\
    forall i, ~ In (w, call, i) (launches (run cached_cfg evs)).
Proof.
  exists wit_mix, 1, 2, 1, (VInv 0). vm_compute. repeat split.
  - right; left; reflexivity.
  - intros i [H|[]]. inversion H.
Qed.

(* ... and its values are recorded in the workflow data of the first workflow *)
Lemma cached_writes_foreign_record :
  exists evs e o w w' key,
    wf_of (run cached_cfg evs) e = Some w /\ w' <> w /\
    slookup (w', key) (store (step cached_cfg (run cached_cfg evs) (EOp e o)))
      <> slookup (w', key) (store (run cached_cfg evs)).
Proof.
  exists [EBegin 0 0 0 1; EOp 0 (ODet Rnd); EBegin 1 0 0 2], 1, (ODet Rnd), 2, 1, (KOp Rnd 2).
  vm_compute. repeat split; discriminate.
Qed.

Theorem cached_cfg_refuted :
  ~ nth_value_stable_stmt cached_cfg /\ ~ sub_task_once_stmt cached_cfg /\ ~ no_mix_stmt cached_cfg.
Proof.
  split; [|split].
  - intro H. destruct cached_reexecution_unstable as [evs [e1 [e2 [w [k [n [v1 [v2 [A [B [C [D E]]]]]]]]]]]].
    apply E. exact (H evs e1 e2 w k n v1 v2 A B C D).
  - intro H. destruct cached_subtask_not_launched as [evs [e [w [call [v [A [B C]]]]]]].
    destruct (H evs) as [_ [G _]]. destruct (G _ _ _ _ A B) as [i [_ Hin]]. exact (C i Hin).
  - intro H. destruct cached_workflows_share_value as [evs [e1 [e2 [w1 [w2 [o1 [o2 [v [A [B [C [D E]]]]]]]]]]]].
    destruct (H evs) as [G _]. exact (G _ _ _ _ _ _ _ _ A B C D E eq_refl).
Qed.

(* ---- a guarded replay branch in execute_task (computed witness): the recorded sub-invocation fails,
   the body is executed again (another process image: nothing but the workflow data is shared) and
   launches the identical call a second time; the two executions hold different invocations *)
Definition guarded_cfg : cfg := with_guarded_replay fixed_cfg.
Definition wit_relaunch : list event :=
  [EBegin 0 0 0 1; EOp 0 (OExec 1); EChild 1 1; EBegin 1 1 0 1; EOp 1 (OExec 1)].

Theorem guarded_replay_refuted : ~ sub_task_once_stmt guarded_cfg.
Proof.
  intro H. destruct (H wit_relaunch) as [Hnd [_ Hsame]].
  assert (E : VInv 0 = VInv 1).
  { apply (Hsame 0 1 1 1 (VInv 0) (VInv 1)); vm_compute; auto. }
  discriminate E.
Qed.

Lemma guarded_replay_launches_twice :
  map launch_key (launches (run guarded_cfg wit_relaunch)) = [(1, 1); (1, 1)].
Proof. vm_compute. reflexivity. Qed.

(* ---- a value generator that goes through process-wide state (computed witness): workflow 1 prepares
   the shared generator and is pre-empted, workflow 2 prepares it too, workflow 1 draws workflow 2's
   number; the execution of workflow 2 dies, its recovery draws the same number: one value in two
   workflows, and a value that was not derived for the workflow that got it *)
Definition shared_gen_cfg : cfg := with_shared_generator fixed_cfg.
Definition wit_shared : list event :=
  [EBegin 0 0 0 1; EBegin 1 0 0 2; ESeed 0 Rnd; ESeed 1 Rnd; EOp 0 (ODet Rnd);
   EBegin 2 1 0 2; EOp 2 (ODet Rnd)].

Theorem shared_generator_refuted :
  ~ no_mix_stmt shared_gen_cfg /\
  ~ (forall evs e w o v, wf_of (run shared_gen_cfg evs) e = Some w ->
       In (e, o, v) (outs (run shared_gen_cfg evs)) -> owned (run shared_gen_cfg evs) w v).
Proof.
  split.
  - intro H. destruct (H wit_shared) as [G _].
    apply (G 0 2 1 2 (ODet Rnd) (ODet Rnd)
             (VRand (seed_wf gen_cfg 2) (1 + c_seq_offset gen_cfg))
             (VRand (seed_wf gen_cfg 2) (1 + c_seq_offset gen_cfg)));
      vm_compute; auto; discriminate.
  - intro H.
    pose proof (H wit_shared 0 1 (ODet Rnd) (VRand (seed_wf gen_cfg 2) (1 + c_seq_offset gen_cfg))) as G.
    assert (X : owned (run shared_gen_cfg wit_shared) 1
                  (VRand (seed_wf gen_cfg 2) (1 + c_seq_offset gen_cfg))).
    { apply G; vm_compute; auto. }
    vm_compute in X. discriminate X.
Qed.

(* the pre-empted draw after the other workflow has already drawn: a stale draw *)
Lemma shared_generator_stale_draw :
  map (fun x => snd x)
      (outs (run shared_gen_cfg [EBegin 0 0 0 1; EBegin 1 0 0 2; ESeed 0 Rnd; EOp 1 (ODet Rnd); EOp 0 (ODet Rnd)]))
  = [VRand (seed_wf gen_cfg 2) (1 + c_seq_offset gen_cfg); VStale (seed_wf gen_cfg 2) (1 + c_seq_offset gen_cfg)].
Proof. vm_compute. reflexivity. Qed.

(* ---- the executor kept in a container of the process keyed by the invocation (its id, or the object, which
   compares by id): a re-execution of the invocation in the same process image finds the executor of the
   previous attempt with its advanced counters (computed witness: the same as for the Task-object cache) *)
Definition keyed_cfg : cfg := with_scope gen_cfg PerInvocationKey.

Theorem keyed_executor_refuted : ~ nth_value_stable_stmt keyed_cfg.
Proof.
  intro H.
  assert (E : VRand (seed_wf gen_cfg 1) (1 + c_seq_offset gen_cfg) = VRand (seed_wf gen_cfg 1) (2 + c_seq_offset gen_cfg)).
  { apply (H wit_reexec 0 1 1 Rnd 0); vm_compute; reflexivity. }
  vm_compute in E. discriminate E.
Qed.

(* ... while executions of the invocation in DIFFERENT process images, and different invocations, do not
   share it: the witness needs the same image *)
Lemma keyed_executor_other_image_replays :
  map (fun x => snd x) (outs (run keyed_cfg [EBegin 0 0 0 1; EOp 0 (ODet Rnd); EBegin 1 1 0 1; EOp 1 (ODet Rnd);
                                             EBegin 2 0 0 2; EOp 2 (ODet Rnd)]))
  = [VRand (seed_wf gen_cfg 1) (1 + c_seq_offset gen_cfg); VRand (seed_wf gen_cfg 1) (1 + c_seq_offset gen_cfg);
     VRand (seed_wf gen_cfg 2) (1 + c_seq_offset gen_cfg)].
Proof. vm_compute. reflexivity. Qed.

(* ---- execute_task behind a process-wide cache of resolved invocations keyed by the call only (computed
   witness): a second workflow making the identical call in the same process image is handed the first
   workflow's invocation; nothing is launched for it *)
Definition subtask_cache_cfg : cfg := with_shared_subtask_cache fixed_cfg.

Theorem shared_subtask_cache_refuted : ~ sub_task_once_stmt subtask_cache_cfg /\ ~ no_mix_stmt subtask_cache_cfg.
Proof.
  split.
  - intro H. destruct (H wit_mix) as [_ [G _]].
    destruct (G 1 2 1 (VInv 0)) as [i [_ Hin]]; [vm_compute; reflexivity|vm_compute; auto|].
    vm_compute in Hin. destruct Hin as [Hin|[]]. discriminate Hin.
  - intro H. destruct (H wit_mix) as [G _].
    apply (G 0 1 1 2 (OExec 1) (OExec 1) (VInv 0) (VInv 0)); vm_compute; auto; discriminate.
Qed.

Theorem statement_iff_per_execution : forall s,
  C18_statement (with_scope gen_cfg s) <-> s = PerExecution.
Proof.
  intros s; split.
  - destruct s; [|reflexivity|]; intros [H _]; exfalso.
    + exact (proj1 cached_cfg_refuted H).
    + exact (keyed_executor_refuted H).
  - intros ->. exact fixed_cfg_satisfies.
Qed.

Theorem current_source_iff : C18_statement gen_cfg <-> c_scope gen_cfg = PerExecution.
Proof. rewrite <- (with_scope_id gen_cfg) at 1. apply statement_iff_per_execution. Qed.

(* Proofs/TriggerProofs.v — lemmas about Model/Trigger.v (C13). *)
From Coq Require Import List Bool Arith ZArith Lia.
Import ListNotations.
From PV Require Import Model.TriggerDef Model.Trigger.

Lemma record_idempotent_mem : forall v s, record_vc false v (record_vc false v s) = record_vc false v s.
Proof.
  intros v s. unfold record_vc; cbn [pending claims launched now].
  destruct (inb v (pending s)) eqn:E.
  - rewrite E. reflexivity.
  - assert (H : inb v (pending s ++ [v]) = true).
    { unfold inb. destruct (in_dec vc_eq_dec v (pending s ++ [v])) as [_|n]; [reflexivity|].
      exfalso. apply n. apply in_or_app. right. left. reflexivity. }
    rewrite H. reflexivity.
Qed.

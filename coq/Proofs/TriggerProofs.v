(* Proofs/TriggerProofs.v — lemmas about Model/Trigger.v (C13). *)
From Coq Require Import List Bool Arith ZArith Lia.
Import ListNotations.
From PV Require Import Model.TriggerDef Model.Trigger.

(* ------------------------------------------------------------------ small facts *)
Lemma inb_true : forall v l, inb v l = true <-> In v l.
Proof. intros v l. unfold inb. destruct (in_dec vc_eq_dec v l); split; intros; auto; discriminate. Qed.

Lemma inb_false : forall v l, inb v l = false <-> ~ In v l.
Proof. intros v l. unfold inb. destruct (in_dec vc_eq_dec v l); split; intros; auto; try discriminate. contradiction. Qed.

Lemma runid_single_neq : forall i v w, v <> w -> runid_eqb (i, [v]) (i, [w]) = false.
Proof.
  intros i v w Hn. unfold runid_eqb, incl_b. cbn [fst snd forallb].
  assert (Hf : inb v [w] = false).
  { apply inb_false. intros [H|[]]. apply Hn. symmetry. exact H. }
  rewrite Hf. rewrite andb_false_r. reflexivity.
Qed.

Lemma runid_tid_neq : forall i j a b, i <> j -> runid_eqb (i, a) (j, b) = false.
Proof.
  intros i j a b Hn. unfold runid_eqb. cbn [fst snd].
  apply Nat.eqb_neq in Hn. rewrite Hn. reflexivity.
Qed.

Lemma record_idempotent_mem : forall v s, record_vc false v (record_vc false v s) = record_vc false v s.
Proof.
  intros v s. unfold record_vc; cbn [pending claims launched now].
  destruct (inb v (pending s)) eqn:E.
  - rewrite E. reflexivity.
  - assert (H : inb v (pending s ++ [v]) = true).
    { apply inb_true. apply in_or_app. right. left. reflexivity. }
    rewrite H. reflexivity.
Qed.

Lemma record_same_keys : forall e v s w, In w (pending (record_vc e v s)) <-> (w = v \/ In w (pending s)).
Proof.
  intros e v s w. unfold record_vc; cbn [pending].
  destruct (inb v (pending s)) eqn:E.
  - apply inb_true in E. destruct e.
    + split.
      * intro H. apply in_app_or in H. destruct H as [H|[H|[]]].
        -- right. apply in_remove in H. apply H.
        -- left. symmetry. exact H.
      * intros [H|H].
        -- subst. apply in_or_app. right. left. reflexivity.
        -- destruct (vc_eq_dec w v) as [->|Hn].
           ++ apply in_or_app. right. left. reflexivity.
           ++ apply in_or_app. left. apply in_in_remove; assumption.
    + split; [intro H; right; exact H|]. intros [H|H]; [subst; exact E|exact H].
  - split.
    + intro H. apply in_app_or in H. destruct H as [H|[H|[]]]; [right; exact H|left; symmetry; exact H].
    + intros [H|H]; apply in_or_app; [right; left; symmetry; exact H|left; exact H].
Qed.

(* ------------------------------------------------------------------ one trigger, its plans *)
Section Loop.
Variable F : facts.

Definition fresh (t : tdef) (s : state) (ps : list (list vc * list vc)) : Prop :=
  forall p, In p ps -> live (claims s) (t_id t, fst p) (now s) = false.

Fixpoint distinct_runs (t : tdef) (ps : list (list vc * list vc)) : Prop :=
  match ps with
  | [] => True
  | p :: r => (forall q, In q r -> runid_eqb (t_id t, fst p) (t_id t, fst q) = false) /\ distinct_runs t r
  end.

Lemma fold_plans_fresh : forall t ps s,
  fresh t s ps -> distinct_runs t ps ->
  launched (fold_left (do_plan F t) ps s) = launched s ++ map (mk_launch t) ps
  /\ pending (fold_left (do_plan F t) ps s) = pending s
  /\ now (fold_left (do_plan F t) ps s) = now s.
Proof.
  intros t ps. induction ps as [|p r IH]; intros s Hf Hd; cbn [fold_left map].
  - rewrite app_nil_r. auto.
  - destruct Hd as [Hp Hr].
    assert (Hlive : live (claims s) (t_id t, fst p) (now s) = false) by (apply Hf; left; reflexivity).
    set (s1 := {| pending := pending s;
                  claims := ((t_id t, fst p), (now s + f_claim_expiry_s F)%Z) :: claims s;
                  launched := launched s ++ [mk_launch t p]; now := now s |}).
    assert (Hdo : do_plan F t s p = s1).
    { unfold do_plan. rewrite Hlive, andb_false_r. reflexivity. }
    rewrite Hdo.
    assert (Hf1 : fresh t s1 r).
    { intros q Hq. unfold s1; cbn [claims now]. unfold live; cbn [existsb fst snd].
      rewrite (Hp q Hq). cbn [andb orb]. apply Hf. right. exact Hq. }
    destruct (IH s1 Hf1 Hr) as [Hl [Hpd Hn]].
    split; [|split].
    + rewrite Hl. unfold s1; cbn [launched]. rewrite <- app_assoc. reflexivity.
    + rewrite Hpd. reflexivity.
    + rewrite Hn. reflexivity.
Qed.

Lemma distinct_runs_singletons : forall t (g : vc -> list vc) ctx,
  NoDup ctx -> distinct_runs t (map (fun v => ([v], g v)) ctx).
Proof.
  intros t g ctx Hnd. induction Hnd as [|v l Hin Hnd IH]; cbn [map distinct_runs]; [exact I|].
  split; [|exact IH].
  intros q Hq. apply in_map_iff in Hq. destruct Hq as [w [<- Hw]]. cbn [fst].
  apply runid_single_neq. intro He. subst. contradiction.
Qed.

Lemma ctx_of_nodup : forall t snap, NoDup snap -> NoDup (ctx_of t snap).
Proof. intros. unfold ctx_of. apply NoDup_filter. assumption. Qed.

Lemma ctx_of_in : forall t snap v, In v (ctx_of t snap) <-> In v snap /\ depends t v = true.
Proof. intros. unfold ctx_of. apply filter_In. Qed.

Lemma has_cond_in : forall ctx c, has_cond ctx c = true <-> exists v, In v ctx /\ fst v = c.
Proof.
  intros ctx c. unfold has_cond. rewrite existsb_exists. split.
  - intros [v [Hin He]]. apply Nat.eqb_eq in He. eauto.
  - intros [v [Hin He]]. exists v. split; [exact Hin|]. apply Nat.eqb_eq. exact He.
Qed.

Definition per_occurrence_trigger (t : tdef) : Prop :=
  t_logic t = LOr \/ (t_logic t = LAnd /\ single_cond t = true /\ f_per_occurrence F = true).

(* a per-occurrence trigger with a relevant occurrence pending is satisfied *)
Lemma per_occurrence_should_trigger : forall t snap v,
  t_logic t = LOr \/ single_cond t = true ->
  In v (ctx_of t snap) -> should_trigger t (ctx_of t snap) = true.
Proof.
  intros t snap v Hk Hv.
  pose proof (proj1 (ctx_of_in t snap v) Hv) as [_ Hdep].
  unfold depends in Hdep. apply existsb_exists in Hdep. destruct Hdep as [c [Hc He]].
  apply Nat.eqb_eq in He.
  assert (Hhas : has_cond (ctx_of t snap) c = true).
  { apply has_cond_in. exists v. split; [exact Hv|exact He]. }
  unfold should_trigger. destruct (t_conds t) as [|c0 rest] eqn:Ec; [destruct Hc|].
  destruct (t_logic t) eqn:El.
  - destruct Hk as [Hk|Hk]; [discriminate|].
    unfold single_cond in Hk. rewrite Ec in Hk. destruct rest; [|discriminate].
    destruct Hc as [<-|[]]. cbn [forallb]. rewrite Hhas. reflexivity.
  - apply existsb_exists. exists c. split; [exact Hc|exact Hhas].
Qed.

Definition occ_launch (t : tdef) (ctx : list vc) (v : vc) : launch :=
  {| l_t := t_id t; l_run := [v]; l_args := get_args t (if f_per_occurrence F then [v] else ctx) |}.

(* the launches of one per-occurrence trigger in one iteration: exactly one per pending occurrence *)
Lemma run_trigger_per_occurrence : forall t snap s,
  per_occurrence_trigger t -> NoDup snap ->
  (forall w, In w (ctx_of t snap) -> live (claims s) (t_id t, [w]) (now s) = false) ->
  launched (run_trigger F snap s t) = launched s ++ map (occ_launch t (ctx_of t snap)) (ctx_of t snap).
Proof.
  intros t snap s Hk Hnd Hfresh. unfold run_trigger.
  destruct (ctx_of t snap) as [|v0 rest] eqn:Ectx.
  - assert (Hs : should_trigger t [] = false).
    { unfold should_trigger. destruct (t_conds t) as [|c r]; [reflexivity|].
      destruct (t_logic t); cbn [forallb existsb has_cond]; [reflexivity|].
      induction r as [|c' r' IH]; cbn [existsb orb]; [reflexivity|exact IH]. }
    rewrite Hs. cbn [map]. rewrite app_nil_r. reflexivity.
  - rewrite <- Ectx in *.
    assert (Hst : should_trigger t (ctx_of t snap) = true).
    { apply per_occurrence_should_trigger with (v := v0).
      - destruct Hk as [Hk|[_ [Hk _]]]; [left; exact Hk|right; exact Hk].
      - rewrite Ectx. left. reflexivity. }
    rewrite Hst.
    assert (Hplans : plans F t (ctx_of t snap)
                     = map (fun v => ([v], if f_per_occurrence F then [v] else ctx_of t snap)) (ctx_of t snap)).
    { unfold plans. destruct Hk as [Hk|[Hk [Hs Hp]]]; rewrite Hk; [reflexivity|].
      rewrite Hp, Hs. cbn [andb]. reflexivity. }
    rewrite Hplans.
    destruct (fold_plans_fresh t (map (fun v => ([v], if f_per_occurrence F then [v] else ctx_of t snap)) (ctx_of t snap)) s)
      as [Hl _].
    + intros p Hp. apply in_map_iff in Hp. destruct Hp as [w [<- Hw]]. cbn [fst]. apply Hfresh. exact Hw.
    + apply distinct_runs_singletons. apply ctx_of_nodup. exact Hnd.
    + rewrite Hl. rewrite map_map. reflexivity.
Qed.

(* an AND trigger over several conditions: nothing happens unless every condition is pending;
   when they are and the run id is unclaimed it launches exactly once *)
Lemma run_trigger_and_needs_all : forall t snap s,
  t_logic t = LAnd -> launched (run_trigger F snap s t) <> launched s ->
  forall c, In c (t_conds t) -> exists v, In v snap /\ fst v = c.
Proof.
  intros t snap s Hl Hne c Hc. unfold run_trigger in Hne.
  destruct (should_trigger t (ctx_of t snap)) eqn:Hs; [|exfalso; apply Hne; reflexivity].
  unfold should_trigger in Hs. destruct (t_conds t) as [|c0 r] eqn:Ec; [discriminate|].
  rewrite Hl in Hs. rewrite forallb_forall in Hs. specialize (Hs c Hc).
  apply has_cond_in in Hs. destruct Hs as [v [Hv He]].
  exists v. split; [|exact He]. apply ctx_of_in in Hv. apply Hv.
Qed.

Lemma run_trigger_and_once : forall t snap s,
  t_logic t = LAnd -> f_per_occurrence F && single_cond t = false ->
  should_trigger t (ctx_of t snap) = true ->
  live (claims s) (t_id t, ctx_of t snap) (now s) = false ->
  launched (run_trigger F snap s t)
  = launched s ++ [{| l_t := t_id t; l_run := ctx_of t snap; l_args := get_args t (ctx_of t snap) |}].
Proof.
  intros t snap s Hl Hp Hs Hlive. unfold run_trigger. rewrite Hs. unfold plans. rewrite Hl, Hp.
  cbn [fold_left]. unfold do_plan. cbn [fst snd]. rewrite Hlive, andb_false_r. reflexivity.
Qed.

(* ---- frame: other triggers do not touch this trigger's launches and claims ---- *)
Definition tl_of (i : nat) (l : list launch) : list launch := filter (fun x => Nat.eqb (l_t x) i) l.

Lemma do_plan_frame : forall t' i s p, t_id t' <> i ->
  tl_of i (launched (do_plan F t' s p)) = tl_of i (launched s)
  /\ (forall x, live (claims (do_plan F t' s p)) (i, x) (now (do_plan F t' s p)) = live (claims s) (i, x) (now s))
  /\ now (do_plan F t' s p) = now s /\ pending (do_plan F t' s p) = pending s.
Proof.
  intros t' i s p Hn. unfold do_plan.
  destruct (f_claim_guards_launch F && live (claims s) (t_id t', fst p) (now s)); [auto|].
  cbn [launched claims now pending]. split; [|split; [|split]]; try reflexivity.
  - unfold tl_of. rewrite filter_app. cbn [filter mk_launch l_t].
    apply Nat.eqb_neq in Hn. rewrite Hn. rewrite app_nil_r. reflexivity.
  - intro x. unfold live at 1. cbn [existsb fst snd]. rewrite runid_tid_neq by exact Hn. reflexivity.
Qed.

Lemma fold_plan_frame : forall t' i ps s, t_id t' <> i ->
  let s' := fold_left (do_plan F t') ps s in
  tl_of i (launched s') = tl_of i (launched s)
  /\ (forall x, live (claims s') (i, x) (now s') = live (claims s) (i, x) (now s))
  /\ now s' = now s /\ pending s' = pending s.
Proof.
  intros t' i ps. induction ps as [|p r IH]; intros s Hn; cbn [fold_left]; [auto|].
  destruct (do_plan_frame t' i s p Hn) as [H1 [H2 [H3 H4]]].
  destruct (IH (do_plan F t' s p) Hn) as [I1 [I2 [I3 I4]]].
  split; [|split; [|split]].
  - rewrite I1. exact H1.
  - intro x. rewrite I2. apply H2.
  - rewrite I3. exact H3.
  - rewrite I4. exact H4.
Qed.

Lemma run_trigger_frame : forall t' i snap s, t_id t' <> i ->
  let s' := run_trigger F snap s t' in
  tl_of i (launched s') = tl_of i (launched s)
  /\ (forall x, live (claims s') (i, x) (now s') = live (claims s) (i, x) (now s))
  /\ now s' = now s /\ pending s' = pending s.
Proof.
  intros t' i snap s Hn. unfold run_trigger.
  destruct (should_trigger t' (ctx_of t' snap)); [apply fold_plan_frame; exact Hn|auto].
Qed.

Lemma fold_trigger_frame : forall i snap l s, (forall t', In t' l -> t_id t' <> i) ->
  let s' := fold_left (run_trigger F snap) l s in
  tl_of i (launched s') = tl_of i (launched s)
  /\ (forall x, live (claims s') (i, x) (now s') = live (claims s) (i, x) (now s))
  /\ now s' = now s /\ pending s' = pending s.
Proof.
  intros i snap l. induction l as [|t' r IH]; intros s Hn; cbn [fold_left]; [auto|].
  assert (Hn' : t_id t' <> i) by (apply Hn; left; reflexivity).
  destruct (run_trigger_frame t' i snap s Hn') as [H1 [H2 [H3 H4]]].
  destruct (IH (run_trigger F snap s t')) as [I1 [I2 [I3 I4]]]; [intros; apply Hn; right; assumption|].
  split; [|split; [|split]].
  - rewrite I1. exact H1.
  - intro x. rewrite I2. apply H2.
  - rewrite I3. exact H3.
  - rewrite I4. exact H4.
Qed.

Lemma run_trigger_pending : forall snap s t, pending (run_trigger F snap s t) = pending s.
Proof.
  intros snap s t. unfold run_trigger. destruct (should_trigger t (ctx_of t snap)); [|reflexivity].
  generalize (plans F t (ctx_of t snap)) s. intros ps. induction ps as [|p r IH]; intros s0; cbn [fold_left]; [reflexivity|].
  rewrite IH. unfold do_plan. destruct (f_claim_guards_launch F && _); reflexivity.
Qed.

Lemma fold_trigger_pending : forall snap l s, pending (fold_left (run_trigger F snap) l s) = pending s.
Proof.
  intros snap l. induction l as [|t r IH]; intros s; cbn [fold_left]; [reflexivity|].
  rewrite IH. apply run_trigger_pending.
Qed.

Lemma tl_of_app : forall i a b, tl_of i (a ++ b) = tl_of i a ++ tl_of i b.
Proof. intros. unfold tl_of. apply filter_app. Qed.

Lemma tl_of_all : forall i (l : list launch), (forall x, In x l -> l_t x = i) -> tl_of i l = l.
Proof.
  intros i l. induction l as [|a r IH]; intros H; cbn [tl_of filter]; [reflexivity|].
  rewrite (H a (or_introl eq_refl)), Nat.eqb_refl. f_equal. apply IH. intros; apply H; right; assumption.
Qed.

Lemma split_by_id : forall (trigs : list tdef) t, NoDup (map t_id trigs) -> In t trigs ->
  exists l1 l2, trigs = l1 ++ t :: l2
    /\ (forall t', In t' l1 -> t_id t' <> t_id t) /\ (forall t', In t' l2 -> t_id t' <> t_id t).
Proof.
  intros trigs t Hnd Hin. apply in_split in Hin. destruct Hin as [l1 [l2 ->]].
  exists l1, l2. split; [reflexivity|].
  rewrite map_app in Hnd. cbn [map] in Hnd.
  split; intros t' Ht' He.
  - apply NoDup_remove_2 in Hnd. apply Hnd. apply in_or_app. left. rewrite <- He. apply in_map. exact Ht'.
  - apply NoDup_remove_2 in Hnd. apply Hnd. apply in_or_app. right. rewrite <- He. apply in_map. exact Ht'.
Qed.

(* ---- the whole iteration ---- *)
Theorem iteration_per_occurrence : forall trigs s t,
  NoDup (map t_id trigs) -> In t trigs -> NoDup (pending s) ->
  per_occurrence_trigger t ->
  (forall w, In w (ctx_of t (pending s)) -> live (claims s) (t_id t, [w]) (now s) = false) ->
  tl_of (t_id t) (launched (iteration F trigs s))
  = tl_of (t_id t) (launched s) ++ map (occ_launch t (ctx_of t (pending s))) (ctx_of t (pending s)).
Proof.
  intros trigs s t Hids Hin Hnd Hk Hfresh.
  destruct (split_by_id trigs t Hids Hin) as [l1 [l2 [-> [H1 H2]]]].
  unfold iteration; cbn [launched]. rewrite fold_left_app. cbn [fold_left].
  set (snap := pending s) in *.
  set (sa := fold_left (run_trigger F snap) l1 s).
  destruct (fold_trigger_frame (t_id t) snap l1 s H1) as [A1 [A2 [A3 _]]]. fold sa in A1, A2, A3.
  destruct (fold_trigger_frame (t_id t) snap l2 (run_trigger F snap sa t) H2) as [B1 _].
  rewrite B1.
  rewrite (run_trigger_per_occurrence t snap sa Hk Hnd).
  - rewrite tl_of_app, A1. f_equal. apply tl_of_all.
    intros x Hx. apply in_map_iff in Hx. destruct Hx as [w [<- _]]. reflexivity.
  - intros w Hw. rewrite A2. apply Hfresh. exact Hw.
Qed.

Theorem iteration_and_needs_all : forall trigs s t,
  NoDup (map t_id trigs) -> In t trigs -> t_logic t = LAnd ->
  tl_of (t_id t) (launched (iteration F trigs s)) <> tl_of (t_id t) (launched s) ->
  forall c, In c (t_conds t) -> exists v, In v (pending s) /\ fst v = c.
Proof.
  intros trigs s t Hids Hin Hl Hne.
  destruct (split_by_id trigs t Hids Hin) as [l1 [l2 [-> [H1 H2]]]].
  unfold iteration in Hne; cbn [launched] in Hne. rewrite fold_left_app in Hne. cbn [fold_left] in Hne.
  set (snap := pending s) in *.
  set (sa := fold_left (run_trigger F snap) l1 s) in *.
  destruct (fold_trigger_frame (t_id t) snap l1 s H1) as [A1 _]. fold sa in A1.
  destruct (fold_trigger_frame (t_id t) snap l2 (run_trigger F snap sa t) H2) as [B1 _].
  rewrite B1, <- A1 in Hne.
  apply (run_trigger_and_needs_all t snap sa Hl).
  intro He. apply Hne. rewrite He. reflexivity.
Qed.

Theorem iteration_and_once : forall trigs s t,
  NoDup (map t_id trigs) -> In t trigs -> t_logic t = LAnd -> f_per_occurrence F && single_cond t = false ->
  should_trigger t (ctx_of t (pending s)) = true ->
  live (claims s) (t_id t, ctx_of t (pending s)) (now s) = false ->
  tl_of (t_id t) (launched (iteration F trigs s))
  = tl_of (t_id t) (launched s)
    ++ [{| l_t := t_id t; l_run := ctx_of t (pending s); l_args := get_args t (ctx_of t (pending s)) |}].
Proof.
  intros trigs s t Hids Hin Hl Hp Hs Hlive.
  destruct (split_by_id trigs t Hids Hin) as [l1 [l2 [-> [H1 H2]]]].
  unfold iteration; cbn [launched]. rewrite fold_left_app. cbn [fold_left].
  set (snap := pending s) in *.
  set (sa := fold_left (run_trigger F snap) l1 s).
  destruct (fold_trigger_frame (t_id t) snap l1 s H1) as [A1 [A2 [A3 _]]]. fold sa in A1, A2, A3.
  destruct (fold_trigger_frame (t_id t) snap l2 (run_trigger F snap sa t) H2) as [B1 _].
  rewrite B1. rewrite (run_trigger_and_once t snap sa Hl Hp Hs).
  - rewrite tl_of_app, A1. f_equal. cbn [tl_of filter l_t]. rewrite Nat.eqb_refl. reflexivity.
  - rewrite A2. exact Hlive.
Qed.

(* exactly one pending occurrence for the trigger: launched once, with that occurrence's own arguments,
   whatever the per-occurrence fact says *)
Theorem iteration_single_occurrence : forall trigs s t v,
  NoDup (map t_id trigs) -> In t trigs -> NoDup (pending s) ->
  t_logic t = LOr \/ single_cond t = true ->
  ctx_of t (pending s) = [v] ->
  live (claims s) (t_id t, [v]) (now s) = false ->
  tl_of (t_id t) (launched (iteration F trigs s))
  = tl_of (t_id t) (launched s) ++ [{| l_t := t_id t; l_run := [v]; l_args := get_args t [v] |}].
Proof.
  intros trigs s t v Hids Hin Hnd Hk Hctx Hlive.
  assert (Hper : per_occurrence_trigger t \/ (t_logic t = LAnd /\ f_per_occurrence F && single_cond t = false)).
  { destruct (t_logic t) eqn:El; [|left; left; first [exact El|reflexivity]].
    destruct Hk as [Hk|Hk]; [discriminate|].
    destruct (f_per_occurrence F) eqn:Ep.
    - left. right. repeat split; first [assumption|reflexivity].
    - right. split; first [exact El|reflexivity]. }
  destruct Hper as [Hper|[Hl Hp]].
  - rewrite (iteration_per_occurrence trigs s t Hids Hin Hnd Hper).
    + rewrite Hctx. cbn [map]. unfold occ_launch. destruct (f_per_occurrence F); reflexivity.
    + rewrite Hctx. intros w [<-|[]]. exact Hlive.
  - rewrite (iteration_and_once trigs s t Hids Hin Hl Hp).
    + rewrite Hctx. reflexivity.
    + apply per_occurrence_should_trigger with (v := v); [exact Hk|rewrite Hctx; left; reflexivity].
    + rewrite Hctx. exact Hlive.
Qed.

(* the full statement, available once the source launches per occurrence *)
Theorem iteration_per_occurrence_own_args : forall trigs s t,
  f_per_occurrence F = true ->
  NoDup (map t_id trigs) -> In t trigs -> NoDup (pending s) ->
  t_logic t = LOr \/ single_cond t = true ->
  (forall w, In w (ctx_of t (pending s)) -> live (claims s) (t_id t, [w]) (now s) = false) ->
  tl_of (t_id t) (launched (iteration F trigs s))
  = tl_of (t_id t) (launched s)
    ++ map (fun v => {| l_t := t_id t; l_run := [v]; l_args := get_args t [v] |}) (ctx_of t (pending s)).
Proof.
  intros trigs s t Hp Hids Hin Hnd Hk Hfresh.
  assert (Hper : per_occurrence_trigger t).
  { destruct (t_logic t) eqn:El; [|left; first [exact El|reflexivity]].
    destruct Hk as [Hk|Hk]; [discriminate|]. right. repeat split; first [assumption|reflexivity]. }
  rewrite (iteration_per_occurrence trigs s t Hids Hin Hnd Hper Hfresh).
  f_equal. apply map_ext. intro v. unfold occ_launch. rewrite Hp. reflexivity.
Qed.

(* OR triggers: one launch per pending occurrence (never two, never none), whatever the argument fact *)
Theorem iteration_or_one_launch_each : forall trigs s t,
  NoDup (map t_id trigs) -> In t trigs -> NoDup (pending s) -> t_logic t = LOr ->
  (forall w, In w (ctx_of t (pending s)) -> live (claims s) (t_id t, [w]) (now s) = false) ->
  map l_run (tl_of (t_id t) (launched (iteration F trigs s)))
  = map l_run (tl_of (t_id t) (launched s)) ++ map (fun v => [v]) (ctx_of t (pending s)).
Proof.
  intros trigs s t Hids Hin Hnd Hl Hfresh.
  rewrite (iteration_per_occurrence trigs s t Hids Hin Hnd (or_introl Hl) Hfresh).
  rewrite map_app, map_map. reflexivity.
Qed.

Lemma forallb_false_exists : forall {A} (f : A -> bool) l, forallb f l = false -> exists x, In x l /\ f x = false.
Proof.
  intros A f l. induction l as [|a r IH]; cbn [forallb]; [discriminate|].
  destruct (f a) eqn:E; cbn [andb]; intro H.
  - destruct (IH H) as [x [Hx Hf]]. exists x. split; [right; exact Hx|exact Hf].
  - exists a. split; [left; reflexivity|exact E].
Qed.

(* an occurrence stays pending only if no trigger depends on it or some dependent trigger is unsatisfied;
   it is consumed as soon as every dependent trigger (at least one) was satisfied *)
Theorem iteration_pending_characterised : forall trigs s v,
  In v (pending (iteration F trigs s)) <->
  In v (pending s) /\
  ((forall t, In t trigs -> depends t v = false)
   \/ exists t, In t trigs /\ depends t v = true /\ should_trigger t (ctx_of t (pending s)) = false).
Proof.
  intros trigs s v. unfold iteration; cbn [pending]. rewrite fold_trigger_pending, filter_In.
  unfold cleared.
  destruct (filter (fun t => depends t v) trigs) as [|d ds] eqn:Ef.
  - cbn [negb]. split.
    + intros [Hin _]. split; [exact Hin|]. left. intros t Ht.
      destruct (depends t v) eqn:Ed; [|reflexivity].
      assert (Hx : In t (filter (fun t => depends t v) trigs)) by (apply filter_In; split; assumption).
      rewrite Ef in Hx. destruct Hx.
    + intros [Hin _]. split; [exact Hin|reflexivity].
  - rewrite <- Ef. split.
    + intros [Hin Hc]. split; [exact Hin|]. right.
      apply negb_true_iff in Hc. apply forallb_false_exists in Hc. destruct Hc as [t [Ht Hs]].
      apply filter_In in Ht. exists t. tauto.
    + intros [Hin [Hnone|[t [Ht [Hd Hs]]]]].
      * exfalso. assert (Hx : In d (filter (fun t => depends t v) trigs)) by (rewrite Ef; left; reflexivity).
        apply filter_In in Hx. destruct Hx as [Hx Hdx]. rewrite (Hnone d Hx) in Hdx. discriminate.
      * split; [exact Hin|]. apply negb_true_iff.
        destruct (forallb (fun t0 => should_trigger t0 (ctx_of t0 (pending s))) (filter (fun t0 => depends t0 v) trigs)) eqn:Ea; [|reflexivity].
        rewrite forallb_forall in Ea. rewrite (Ea t) in Hs; [discriminate|]. apply filter_In. split; assumption.
Qed.

(* within the expiry of a claim the same run id is not launched again *)
Lemma do_plan_blocked : forall t s p,
  f_claim_guards_launch F = true -> live (claims s) (t_id t, fst p) (now s) = true -> do_plan F t s p = s.
Proof. intros t s p Hg Hl. unfold do_plan. rewrite Hg, Hl. reflexivity. Qed.
End Loop.

(* ------------------------------------------------------------------ witnesses of the known defects *)
Definition ev (n : nat) : occ := {| o_kind := 0; o_src := n; o_aux := 0; o_n := n |}.
Definition t_or_event : tdef := {| t_id := 0; t_conds := [0]; t_logic := LOr; t_static := false; t_prov := [0] |}.
Definition t_single_event : tdef := {| t_id := 0; t_conds := [0]; t_logic := LAnd; t_static := false; t_prov := [0] |}.
Definition t_and_two : tdef := {| t_id := 1; t_conds := [0; 5]; t_logic := LAnd; t_static := false; t_prov := [0] |}.

Definition with_per_occurrence (b : bool) (F : facts) : facts :=
  {| f_claim_guards_launch := f_claim_guards_launch F; f_clear_after_launch := f_clear_after_launch F;
     f_per_occurrence := b; f_or_runid_per_occurrence := f_or_runid_per_occurrence F;
     f_and_runid_joins_all := f_and_runid_joins_all F; f_args_first_match := f_args_first_match F;
     f_mem_claim_locked := f_mem_claim_locked F; f_sqlite_claim_immediate := f_sqlite_claim_immediate F;
     f_claim_expiry_s := f_claim_expiry_s F; f_mem_cas_locked := f_mem_cas_locked F;
     f_sqlite_cas_immediate := f_sqlite_cas_immediate F; f_mem_cas_rejects_none := f_mem_cas_rejects_none F;
     f_sqlite_cas_rejects_none := f_sqlite_cas_rejects_none F;
     f_exc_ctx_has_invocation := f_exc_ctx_has_invocation F;
     f_status_ctx_inv_and_status := f_status_ctx_inv_and_status F;
     f_cron_window_s := f_cron_window_s F; f_cron_min_interval_s := f_cron_min_interval_s F;
     f_cron_tolerance_s := f_cron_tolerance_s F; f_cron_window_inclusive := f_cron_window_inclusive F;
     f_cron_min_interval_strict := f_cron_min_interval_strict F;
     f_cron_first_poll_checked := f_cron_first_poll_checked F;
     f_cron_storage_read_always := f_cron_storage_read_always F;
     f_mem_source_filter_exact := f_mem_source_filter_exact F;
     f_sqlite_source_filter_exact := f_sqlite_source_filter_exact F;
     f_mem_pending_read_complete := f_mem_pending_read_complete F;
     f_sqlite_pending_read_complete := f_sqlite_pending_read_complete F;
     f_mem_pending_in_place := f_mem_pending_in_place F |}.

(* two events pending, OR trigger: the second launch does not carry the second event's arguments *)
Lemma or_args_refuted : forall F, f_per_occurrence F = false ->
  let s := run F false [t_or_event] [ORecord 0 (ev 1); ORecord 0 (ev 2); OIter] in
  map l_args (launched s) = [ACtx (0, [0; 1]); ACtx (0, [0; 1])].
Proof.
  intros F H. unfold run; cbn [fold_left step]. unfold iteration, record_vc, state0; cbn.
  unfold do_plan; cbn. rewrite H. destruct (f_claim_guards_launch F); cbn; rewrite ?H; reflexivity.
Qed.

(* two events pending, trigger on a single condition with the default AND logic: one launch *)
Lemma single_collapses_refuted : forall F, f_per_occurrence F = false ->
  let s := run F false [t_single_event] [ORecord 0 (ev 1); ORecord 0 (ev 2); OIter] in
  length (launched s) = 1 /\ pending s = [].
Proof.
  intros F H. unfold run; cbn [fold_left step]. unfold iteration, record_vc, state0; cbn.
  unfold do_plan; cbn. rewrite H. destruct (f_claim_guards_launch F); cbn; split; reflexivity.
Qed.

(* an unsatisfied AND trigger keeps the event pending; after the claim expiry the OR trigger fires again *)
Lemma refire_after_expiry_refuted : forall F, f_claim_guards_launch F = true -> (0 < f_claim_expiry_s F)%Z ->
  let ops := [ORecord 0 (ev 1); OIter; OAdvance (f_claim_expiry_s F); OIter] in
  length (tl_of 0 (launched (run F false [t_or_event; t_and_two] ops))) = 2.
Proof.
  intros F Hg Hpos. unfold run; cbn [fold_left step]. unfold iteration, record_vc, state0; cbn.
  assert (E1 : (0 <? f_claim_expiry_s F)%Z = true) by (apply Z.ltb_lt; lia).
  destruct (f_per_occurrence F);
    repeat (unfold do_plan; cbn; rewrite ?Hg, ?Z.ltb_irrefl, ?E1; cbn); reflexivity.
Qed.

(* ...but not before the claim expires *)
Lemma no_refire_within_expiry : forall F dt, f_claim_guards_launch F = true -> (0 <= dt < f_claim_expiry_s F)%Z ->
  let ops := [ORecord 0 (ev 1); OIter; OAdvance dt; OIter] in
  length (tl_of 0 (launched (run F false [t_or_event; t_and_two] ops))) = 1.
Proof.
  intros F dt Hg Hdt. unfold run; cbn [fold_left step]. unfold iteration, record_vc, state0; cbn.
  assert (E1 : (0 <? f_claim_expiry_s F)%Z = true) by (apply Z.ltb_lt; lia).
  assert (E2 : (dt <? f_claim_expiry_s F)%Z = true) by (apply Z.ltb_lt; lia).
  destruct (f_per_occurrence F);
    repeat (unfold do_plan; cbn; rewrite ?Hg, ?E2, ?E1; cbn); reflexivity.
Qed.

(* context ids: with the invocation id in the exception context two failing invocations are two occurrences *)
Lemma exception_ctx_distinct : forall F a b, f_exc_ctx_has_invocation F = true ->
  o_kind a = 3 -> o_kind b = 3 -> ctx_id F a = ctx_id F b -> o_src a = o_src b /\ o_aux a = o_aux b.
Proof.
  intros F a b H Ha Hb. unfold ctx_id. rewrite Ha, Hb, H. intro E. inversion E. split; reflexivity.
Qed.

Lemma exception_ctx_collapses_refuted : forall F, f_exc_ctx_has_invocation F = false ->
  ctx_id F {| o_kind := 3; o_src := 1; o_aux := 0; o_n := 1 |} = ctx_id F {| o_kind := 3; o_src := 2; o_aux := 0; o_n := 2 |}.
Proof. intros F H. unfold ctx_id; cbn. rewrite H. reflexivity. Qed.

Lemma status_reentry_same_key : forall F a b, o_kind a = 1 -> o_kind b = 1 -> o_src a = o_src b -> o_aux a = o_aux b ->
  ctx_id F a = ctx_id F b.
Proof. intros F a b Ha Hb Hs Hx. unfold ctx_id. rewrite Ha, Hb, Hs, Hx. reflexivity. Qed.

(* ------------------------------------------------------------------ concurrent claims *)
Definition cinv (w : cworld) : Prop :=
  NoDup (cw_launches w) /\ incl (cw_launches w) (cw_claims w) /\ (forall a, In a (cw_actors w) -> apc a = Idle).

Lemma set_nth_in : forall {A} i (x : A) l a, In a (set_nth i x l) -> a = x \/ In a l.
Proof.
  intros A i x l. revert i. induction l as [|y r IH]; intros i a H; cbn [set_nth] in H.
  - destruct i; destruct H.
  - destruct i; cbn [In] in H.
    + destruct H as [H|H]; [left; symmetry; exact H|right; right; exact H].
    + destruct H as [H|H]; [right; left; exact H|]. destruct (IH i a H); [left|right; right]; assumption.
Qed.

Lemma nat_inb_false : forall r l, nat_inb r l = false -> ~ In r l.
Proof.
  intros r l H Hin. unfold nat_inb in H.
  assert (existsb (Nat.eqb r) l = true) by (apply existsb_exists; exists r; split; [exact Hin|apply Nat.eqb_refl]).
  congruence.
Qed.

Lemma cstep_atomic_inv : forall w i, cinv w -> cinv (cstep true w i).
Proof.
  intros w i [Hnd [Hincl Hidle]]. unfold cstep.
  destruct (nth_error (cw_actors w) i) as [a|] eqn:En; [|repeat split; assumption].
  assert (Ha : apc a = Idle) by (apply Hidle; eapply nth_error_In; exact En).
  rewrite Ha. destruct (todo a) as [|r rest]; [repeat split; assumption|].
  destruct (nat_inb r (cw_claims w)) eqn:Ec; unfold cinv; cbn [cw_launches cw_claims cw_actors].
  - split; [exact Hnd|]. split; [exact Hincl|].
    intros b Hb. apply set_nth_in in Hb. destruct Hb as [->|Hb]; [reflexivity|apply Hidle; exact Hb].
  - apply nat_inb_false in Ec. split; [|split].
    + constructor; [|exact Hnd]. intro Hin. apply Ec. apply Hincl. exact Hin.
    + intros x [<-|Hx]; [left; reflexivity|right; apply Hincl; exact Hx].
    + intros b Hb. apply set_nth_in in Hb. destruct Hb as [->|Hb]; [reflexivity|apply Hidle; exact Hb].
Qed.

Lemma crun_atomic_inv : forall sched w, cinv w -> cinv (crun true w sched).
Proof.
  intros sched. induction sched as [|i r IH]; intros w H; cbn [crun fold_left]; [exact H|].
  apply IH. apply cstep_atomic_inv. exact H.
Qed.

Lemma cworld0_inv : forall plans, cinv (cworld0 plans).
Proof.
  intros plans. unfold cinv, cworld0; cbn [cw_launches cw_claims cw_actors].
  split; [constructor|]. split; [intros x []|].
  intros a Ha. apply in_map_iff in Ha. destruct Ha as [p [<- _]]. reflexivity.
Qed.

Theorem atomic_claim_at_most_once : forall plans sched, NoDup (cw_launches (crun true (cworld0 plans) sched)).
Proof. intros. apply (crun_atomic_inv sched (cworld0 plans) (cworld0_inv plans)). Qed.

Lemma split_claim_refuted : exists plans sched, ~ NoDup (cw_launches (crun false (cworld0 plans) sched)).
Proof.
  exists [[7]; [7]], [0; 1; 0; 1]. vm_compute. intro H. inversion H as [|x l Hin _]; subst.
  apply Hin. left. reflexivity.
Qed.

(* ------------------------------------------------------------------ concurrent compare-and-swap *)
Definition casinv (w : casworld) : Prop := NoDup (cv_fired w) /\ (forall e, In e (cv_fired w) -> e < cv w).

Lemma cas_ok_strict : forall e cur, cas_ok true e cur = true -> cur = e.
Proof.
  intros e cur. unfold cas_ok. destruct e; intro H; apply Nat.eqb_eq in H; exact H.
Qed.

Lemma casstep_inv : forall w i, casinv w -> casinv (casstep true true w i).
Proof.
  intros w i [Hnd Hlt]. unfold casstep.
  destruct (nth_error (cv_actors w) i) as [a|]; [|split; assumption].
  destruct (done a); [split; assumption|].
  destruct (seen a) as [e|]; [|split; assumption].
  destruct (cas_ok true e (cv w)) eqn:Ec; unfold casinv; cbn [cv cv_fired]; [|split; assumption].
  apply cas_ok_strict in Ec. split.
  - constructor; [|exact Hnd]. intro Hin. apply Hlt in Hin. lia.
  - intros x [<-|Hx]; [lia|]. apply Hlt in Hx. lia.
Qed.

Theorem cas_fires_once_per_value : forall n v0 sched, NoDup (cv_fired (casrun true true (casworld0 n v0) sched)).
Proof.
  intros n v0 sched.
  assert (H : forall w, casinv w -> casinv (casrun true true w sched)).
  { induction sched as [|i r IH]; intros w Hw; cbn [casrun fold_left]; [exact Hw|].
    apply IH. apply casstep_inv. exact Hw. }
  apply (H (casworld0 n v0)). split; [constructor|intros e []].
Qed.

Lemma cas_none_refuted : exists sched, ~ NoDup (cv_fired (casrun true false (casworld0 2 0) sched)).
Proof.
  exists [0; 1; 0; 1]. vm_compute. intro H. inversion H as [|x l Hin _]; subst. apply Hin. left. reflexivity.
Qed.

Lemma cas_split_refuted : exists sched, ~ NoDup (cv_fired (casrun false true (casworld0 2 3) sched)).
Proof.
  exists [0; 1; 0; 1; 0; 1]. vm_compute. intro H. inversion H as [|x l Hin _]; subst. apply Hin. left. reflexivity.
Qed.

Theorem claim_flag_at_most_once : forall b, b = true ->
  forall plans sched, NoDup (cw_launches (crun b (cworld0 plans) sched)).
Proof. intros b ->. exact atomic_claim_at_most_once. Qed.

Theorem cas_flags_fire_once : forall a r, a = true -> r = true ->
  forall n v0 sched, NoDup (cv_fired (casrun a r (casworld0 n v0) sched)).
Proof. intros a r -> ->. exact cas_fires_once_per_value. Qed.

(* ------------------------------------------------------------------ partial reads of the pending valid conditions *)
Lemma iteration_lim_complete : forall F n trigs s, iteration_lim F true n trigs s = iteration F trigs s.
Proof.
  intros F n trigs s. unfold iteration_lim, iteration, visible. f_equal.
  rewrite fold_trigger_pending. apply filter_ext_in. intros v Hv.
  assert (E : inb v (pending s) = true) by (apply inb_true; exact Hv). rewrite E. reflexivity.
Qed.

(* a bounded read: with two events pending and a prefix of one, the iteration launches once and the second event
   stays pending; with one occurrence of an unsatisfied AND trigger ahead of it, an event is never launched *)
Lemma bounded_read_refuted : forall F,
  let s2 := run F false [t_or_event] [ORecord 0 (ev 1); ORecord 0 (ev 2)] in
  length (launched (iteration_lim F false 1 [t_or_event] s2)) = 1
  /\ length (pending (iteration_lim F false 1 [t_or_event] s2)) = 1
  /\ let s3 := run F false [t_or_event; t_and_two] [ORecord 5 (ev 1); ORecord 0 (ev 2)] in
     launched (iteration_lim F false 1 [t_or_event; t_and_two] (iteration_lim F false 1 [t_or_event; t_and_two] s3)) = [].
Proof.
  intros F. destruct F as [guards clr perocc a1 a2 a3 a4 a5 a6 a7 a8 a9 a10 a11 a12 a13 a14 a15 a16 a17 a18 a19 a20 a21 a22 a23 a24].
  destruct guards, perocc; vm_compute; repeat split; reflexivity.
Qed.

(* occurrence routing *)
Lemma reaches_exact : forall c o, reaches true c o = true -> kind_of c = o_kind o.
Proof. intros c o H. unfold reaches in H. cbn [negb andb] in H. rewrite orb_false_r in H. apply Nat.eqb_eq. exact H. Qed.

Lemma reaches_subclass_refuted :
  reaches false 1 {| o_kind := 2; o_src := 1; o_aux := 0; o_n := 1 |} = true
  /\ reaches false 1 {| o_kind := 3; o_src := 1; o_aux := 0; o_n := 1 |} = true.
Proof. split; reflexivity. Qed.

(* ------------------------------------------------------------------ a reporter thread pre-empted inside its store *)
Lemma in_drop_all : forall cl p w, In w (drop_all cl p) <-> In w p /\ ~ In w cl.
Proof.
  intros cl p w. unfold drop_all. rewrite filter_In. split; intros [H1 H2]; (split; [exact H1|]).
  - apply negb_true_iff in H2. apply inb_false in H2. exact H2.
  - apply negb_true_iff. apply inb_false. exact H2.
Qed.

Lemma record_after_clear_in_place : forall p cl v, In v (record_after_clear true p cl v).
Proof. intros p cl v. unfold record_after_clear. apply in_or_app. right. left. reflexivity. Qed.

Lemma record_after_clear_keeps : forall b p cl v w, In w p -> ~ In w cl -> In w (record_after_clear b p cl v).
Proof.
  intros b p cl v w Hp Hc. unfold record_after_clear.
  destruct b; [apply in_or_app; left|]; apply in_drop_all; split; assumption.
Qed.

Lemma record_after_clear_rebound_refuted : forall p cl v, ~ In v p -> ~ In v (record_after_clear false p cl v).
Proof. intros p cl v Hn H. unfold record_after_clear in H. apply in_drop_all in H. destruct H as [H _]. exact (Hn H). Qed.
